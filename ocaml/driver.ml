(* modelrun: reads the harness stream (CFG / OP / OB / END lines), and for every observed step
   (pre-observation, operation, result, post-observation) of the implementation
     - runs the extracted Coq model (Layer A) from the OBSERVED pre-state and compares every
       component of the outcome (step-wise simulation check),
     - evaluates the extracted Coq monitors on the implementation's observations.
   Prints one FAIL record per step with a failing component or monitor and a summary.
   usage: modelrun <pinned|fixed> < stream *)
open Model

(* ---------- N <-> Z / strings ---------- *)
let rec pos_of_z (z : Z.t) : positive =
  if Z.equal z Z.one then XH
  else if Z.is_even z then XO (pos_of_z (Z.shift_right z 1)) else XI (pos_of_z (Z.shift_right z 1))
let n_of_z z = if Z.sign z <= 0 then N0 else Npos (pos_of_z z)
let rec z_of_pos = function XH -> Z.one | XO p -> Z.shift_left (z_of_pos p) 1 | XI p -> Z.succ (Z.shift_left (z_of_pos p) 1)
let z_of_n = function N0 -> Z.zero | Npos p -> z_of_pos p
let n s = n_of_z (Z.of_string s)
let nhex s = n_of_z (Z.of_string ("0x" ^ s))
let s_of_n x = Z.to_string (z_of_n x)
let n_of_int i = n_of_z (Z.of_int i)
let int_of_n x = Z.to_int (z_of_n x)

let split c s = String.split_on_char c s
let nonempty l = List.filter (fun x -> x <> "") l

(* ---------- printing in the harness's canonical form ---------- *)
let kvs (k : key) (v : val0) = Printf.sprintf "%s.%s.%s.%s.%s.%s" (s_of_n k.kid) (s_of_n k.ktok) (s_of_n k.kheap) (s_of_n v.vtok) (s_of_n v.vtag) (s_of_n v.vheap)
let vs3 (v : val0) = Printf.sprintf "%s.%s.%s" (s_of_n v.vtok) (s_of_n v.vtag) (s_of_n v.vheap)
let ks_only (k : key) = Printf.sprintf "%s.%s.%s.-.-.-" (s_of_n k.kid) (s_of_n k.ktok) (s_of_n k.kheap)
let vs_only (v : val0) = Printf.sprintf "-.-.-.%s.%s.%s" (s_of_n v.vtok) (s_of_n v.vtag) (s_of_n v.vheap)

(* kind: 0 pairs, 1 keys, 2 values *)
let item_string kind = function
  | None -> "none,"
  | Some (k, v) -> (match kind with 0 -> kvs k v | 1 -> ks_only k | _ -> vs_only v) ^ ","

let res_string ?(kind = 0) ?(dbg = false) (o : out) : string = match o with
  | OUnit -> "unit" | OBool b -> if b then "bool:1" else "bool:0" | ONum x -> "num:" ^ s_of_n x
  | OVal None -> "val:none" | OVal (Some v) -> "val:" ^ vs3 v
  | OKV None -> "kv:none" | OKV (Some (k, v)) -> "kv:" ^ kvs k v
  | OInsOk None -> "ins_ok:none" | OInsOk (Some v) -> "ins_ok:" ^ vs3 v
  | OInsTooLarge (k, v, sz, mx) -> Printf.sprintf "ins_toolarge:%s:%s:%s" (kvs k v) (s_of_n sz) (s_of_n mx)
  | OTryOk -> "try_ok"
  | OTryTooLarge (k, v, sz, mx) -> Printf.sprintf "try_toolarge:%s:%s:%s" (kvs k v) (s_of_n sz) (s_of_n mx)
  | OTryWouldEject (k, v, sz, fr) -> Printf.sprintf "try_wouldeject:%s:%s:%s" (kvs k v) (s_of_n sz) (s_of_n fr)
  | OTryOccupied (k, v) -> Printf.sprintf "try_occupied:%s" (kvs k v)
  | OMutNone -> "mut_none" | OMutOk -> "mut_ok"
  | OMutTooLarge (k, v, o, nw, mx) -> Printf.sprintf "mut_toolarge:%s:%s:%s:%s" (kvs k v) (s_of_n o) (s_of_n nw) (s_of_n mx)
  | OItems l ->
    if dbg then
      "dbg:{" ^ String.concat "," (List.map (function Some (k, v) -> Printf.sprintf "K%s:V%s" (s_of_n k.kid) (s_of_n v.vtag) | None -> "?") l) ^ "}"
    else "items:" ^ String.concat "" (List.map (item_string kind) l)
  | OResOk -> "res_ok" | OResOverflow -> "res_overflow" | OResRefused -> "res_refused" | OPanic -> "panic"

(* ---------- parsing ---------- *)
let parse_kv6 (s : string) : (key * val0) option =
  match split '.' s with
  | [a; b; c; d; e; f] when a <> "-" && d <> "-" ->
    Some ({ kid = n a; ktok = n b; kheap = n c }, { vtok = n d; vtag = n e; vheap = n f })
  | _ -> None
let parse_v3 s = match split '.' s with [d; e; f] -> Some { vtok = n d; vtag = n e; vheap = n f } | _ -> None

(* the result string of the implementation, as a model `out` (None when it is not expressible, e.g. key-only items) *)
let parse_out (s : string) : out option =
  let after p = String.sub s (String.length p) (String.length s - String.length p) in
  let starts p = String.length s >= String.length p && String.sub s 0 (String.length p) = p in
  try
    if s = "unit" then Some OUnit else if s = "bool:1" then Some (OBool true) else if s = "bool:0" then Some (OBool false)
    else if starts "num:" then Some (ONum (n (after "num:")))
    else if s = "val:none" then Some (OVal None) else if starts "val:" then Some (OVal (parse_v3 (after "val:")))
    else if s = "kv:none" then Some (OKV None) else if starts "kv:" then Some (OKV (parse_kv6 (after "kv:")))
    else if s = "ins_ok:none" then Some (OInsOk None) else if starts "ins_ok:" then Some (OInsOk (parse_v3 (after "ins_ok:")))
    else if s = "try_ok" then Some OTryOk else if s = "mut_none" then Some OMutNone else if s = "mut_ok" then Some OMutOk
    else if s = "res_ok" then Some OResOk else if s = "res_overflow" then Some OResOverflow else if s = "res_refused" then Some OResRefused
    else if s = "panic" then Some OPanic
    else if starts "items:" then begin
      let items = nonempty (split ',' (after "items:")) in
      let parsed = List.map (fun i -> if i = "none" then Some None else match parse_kv6 i with Some x -> Some (Some x) | None -> None) items in
      if List.exists (fun x -> x = None) parsed then None
      else Some (OItems (List.map (function Some x -> x | None -> None) parsed))
    end else begin
      match split ':' s with
      | ["ins_toolarge"; kv; a; b] -> (match parse_kv6 kv with Some (k, v) -> Some (OInsTooLarge (k, v, n a, n b)) | None -> None)
      | ["try_toolarge"; kv; a; b] -> (match parse_kv6 kv with Some (k, v) -> Some (OTryTooLarge (k, v, n a, n b)) | None -> None)
      | ["try_wouldeject"; kv; a; b] -> (match parse_kv6 kv with Some (k, v) -> Some (OTryWouldEject (k, v, n a, n b)) | None -> None)
      | ["try_occupied"; kv] -> (match parse_kv6 kv with Some (k, v) -> Some (OTryOccupied (k, v)) | None -> None)
      | ["mut_toolarge"; kv; a; b; c] -> (match parse_kv6 kv with Some (k, v) -> Some (OMutTooLarge (k, v, n a, n b, n c)) | None -> None)
      | _ -> None
    end
  with _ -> None

(* iterator patterns: F/B = next()/next_back() with the result reported; f/b = the same step whose result the adaptor
   (nth / nth_back, hence skip and step_by) discards at once: not reported, and for an owning iterator dropped on the spot *)
(* type instantiations without a Drop impl on the key (or the value): their objects are never reported as dropped. Key
   objects carry odd tokens, value objects even ones (harness/src/lib.rs), so the model's expectation can be restricted to
   the objects whose drops are observable *)
let kdrop = ref true
let vdrop = ref true
let observable_drops (l : n list) : n list =
  if !kdrop && !vdrop then l else
  List.filter (fun t -> let odd = Z.testbit (z_of_n t) 0 in if odd then !kdrop else !vdrop) l
let last_mask : bool list ref = ref []
let pat_of s = if s = "-" then (last_mask := []; []) else begin
    (* l..lL (executed as last()) and c..c (executed as count()) are front steps: l, c discarded, L reported *)
    last_mask := List.init (String.length s) (fun i -> s.[i] = 'f' || s.[i] = 'b' || s.[i] = 'l' || s.[i] = 'c');
    List.init (String.length s) (fun i -> s.[i] = 'F' || s.[i] = 'f' || s.[i] = 'l' || s.[i] = 'L' || s.[i] = 'c') end
(* what the caller sees of a run whose model outcome is (items, events): discarded items vanish from the result; when
   the iterator owns the entries (owning = Some kind: 0 pairs, 1 keys, 2 values) their pairs count as dropped *)
let mask_items (mask : bool list) (owning : int option) (o : out) (evs : events) : out * events =
  match o with
  | OItems l when List.exists (fun x -> x) mask && List.length l = List.length mask ->
    let kept = List.filteri (fun i _ -> not (List.nth mask i)) l in
    let gone = List.filteri (fun i _ -> List.nth mask i) l in
    let extra = (match owning with
        | None -> []
        | Some kind -> List.concat_map (function
            | Some ((k : key), (v : val0)) -> (if kind = 1 then [k.ktok] else if kind = 2 then [v.vtok] else [k.ktok; v.vtok])
            | None -> []) gone) in
    (OItems kept, { evs with e_dropped = evs.e_dropped @ extra })
  | _ -> (o, evs)

type xop =
  | Plain of op * int * bool      (* model op, item kind for printing, is debug *)
  | XClone of int
  | XDrop
  | XIntoIter of int * bool list * fin

let parse_op (w : string list) : xop =
  let kv id kt kh vt vg vh = ({ kid = n id; ktok = n kt; kheap = n kh }, { vtok = n vt; vtag = n vg; vheap = n vh }) in
  let p o = Plain (o, 0, false) in
  match w with
  | ["insert"; id; kt; kh; vt; vg; vh] -> let (k, v) = kv id kt kh vt vg vh in p (Insert (k, v))
  | ["try_insert"; id; kt; kh; vt; vg; vh] -> let (k, v) = kv id kt kh vt vg vh in p (TryInsert (k, v))
  | ["get"; id] -> p (Get (n id)) | ["get_entry"; id] -> p (GetEntry (n id))
  | ["peek"; id] -> p (Peek (n id)) | ["peek_entry"; id] -> p (PeekEntry (n id))
  | ["contains"; id] -> p (Contains (n id)) | ["touch"; id] -> p (Touch (n id))
  | ["remove_entry"; id] -> p (RemoveEntry (n id)) | ["remove"; id] -> p (Remove (n id))
  | ["remove_lru"] -> p RemoveLru | ["remove_mru"] -> p RemoveMru | ["get_lru"] -> p GetLru
  | ["peek_lru"] -> p PeekLru | ["peek_mru"] -> p PeekMru
  | ["mutate"; id; nt; nh] -> p (Mutate (n id, n nt, n nh))
  | ["set_max"; m] -> p (SetMaxSize (n m))
  | ["retain"; mask] -> let m = n mask in p (Retain (fun k _ -> N.testbit m (n_of_z (Z.rem (z_of_n k.kid) (Z.of_int 64)))))
  | ["clear"] -> p Clear
  | ["iter"; kind; pt] -> Plain (IterOp (pat_of pt), (match kind with "iter" -> 0 | "keys" -> 1 | _ -> 2), false)
  | ["drain"; pt; f] -> p (DrainOp (pat_of pt, if f = "forget" then FForget else FDrop))
  | ["try_reserve"; a; _] -> p (TryReserve (n a)) | ["reserve"; a] -> p (Reserve (n a))
  | ["shrink_to"; m] -> p (ShrinkTo (n m)) | ["shrink_to_fit"] -> p ShrinkToFit
  | ["debug"] -> Plain (DebugFmt, 0, true)
  | ["len"] -> p Len | ["is_empty"] -> p IsEmpty | ["current_size"] -> p CurrentSize | ["max_size"] -> p MaxSize
  | ["capacity"] -> p Capacity
  | ["clone"; d] -> XClone (int_of_string d)
  | ["dropc"] -> XDrop
  | ["into_iter"; kind; pt; f] -> XIntoIter ((match kind with "pairs" -> 0 | "keys" -> 1 | _ -> 2), pat_of pt, if f = "forget" then FForget else FDrop)
  | _ -> failwith ("bad op: " ^ String.concat " " w)

(* ---------- observations ---------- *)
type obs = {
  res : string;
  st : cache;                     (* observed abstract state: entries LRU first with recorded sizes, counters, table *)
  cap : n;
  dropped : n list;               (* in the order the drops happened *)
  hashes : n;
  visits : string;
  graph : ograph option;
  addr_of_ktok : (string * string) list;   (* key token -> bucket address *)
  flags : (string * string) list;
  calls : (string * string) list;
  raw_ents : string;
  raw_st : string;
}

let parse_entry (e : n) (s : string) : entry =
  ignore e;
  match split '.' s with
  | [a; b; c; d; e'; f; g] -> { ek = { kid = n a; ktok = n b; kheap = n c }; ev = { vtok = n d; vtag = n e'; vheap = n f }; es = n g }
  | _ -> failwith ("bad entry: " ^ s)

let parse_flags s = List.filter_map (fun kv -> match split '=' kv with [k; v] -> Some (k, v) | _ -> None) (split ';' s)

let parse_obs (e : n) (line : string) : obs =
  let body = String.sub line 3 (String.length line - 3) in
  match split '|' body with
  | [res; ents; cur; mx; cap; nb; dropped; hashes; visits; st; flags; calls] ->
    let entries = List.map (parse_entry e) (nonempty (split ',' ents)) in
    let capn = n cap and nbn = n nb in
    (* tombstones are observable: full capacity of the bucket count minus the reported capacity *)
    let full = fullcap { nb = nbn; tombs = N0 } in
    let tombs = if Z.geq (z_of_n full) (z_of_n capn) then n_of_z (Z.sub (z_of_n full) (z_of_n capn)) else N0 in
    let cache = { ents = entries; cur = n cur; maxs = n mx; tb = { nb = nbn; tombs } } in
    let (graph, addrs) =
      if st = "-" then (None, []) else
      match split ';' st with
      | [seal; nodes; buckets; _walked; dangling; overlong; len; sprev; snext] ->
        let ns = List.map (fun x -> match split ':' x with
            | [a; p; nx] -> { oaddr = nhex a; oprev = nhex p; onext = nhex nx }
            | _ -> failwith "bad node") (nonempty (split ',' nodes)) in
        let g = { g_seal = nhex seal; g_seal_prev = nhex sprev; g_seal_next = nhex snext; g_nodes = ns;
                  g_buckets = List.map nhex (nonempty (split ',' buckets)); g_len = n len;
                  g_dangling = (dangling <> "-"); g_overlong = (overlong <> "0") } in
        (* nodes are MRU first, entries LRU first *)
        let rev_nodes = List.rev ns in
        let addrs = (try List.map2 (fun (en : entry) nd -> (s_of_n en.ek.ktok, s_of_n nd.oaddr)) entries rev_nodes with _ -> []) in
        (Some g, addrs)
      | _ -> failwith ("bad struct: " ^ st) in
    { res; st = cache; cap = capn; dropped = List.map n (nonempty (split ',' dropped)); hashes = n hashes; visits; graph;
      addr_of_ktok = addrs; flags = parse_flags flags; calls = parse_flags calls; raw_ents = ents; raw_st = st }
  | l -> failwith (Printf.sprintf "bad OB line (%d fields): %s" (List.length l) line)

(* ---------- tallies ---------- *)
let counts : (string, int * int) Hashtbl.t = Hashtbl.create 64      (* component -> checked, failed *)
let tally name ok =
  let (c, f) = try Hashtbl.find counts name with Not_found -> (0, 0) in
  Hashtbl.replace counts name (c + 1, if ok then f else f + 1)
let ophist : (string, int) Hashtbl.t = Hashtbl.create 64
let dist : (string, int) Hashtbl.t = Hashtbl.create 64
let bump tbl k = Hashtbl.replace tbl k (1 + try Hashtbl.find tbl k with Not_found -> 0)
let distinct_steps : (string, unit) Hashtbl.t = Hashtbl.create 100000
let nontrivial = ref 0

let ents_string (c : cache) = String.concat "" (List.map (fun (en : entry) -> kvs en.ek en.ev ^ "." ^ s_of_n en.es ^ ",") c.ents)
let keys_string (c : cache) = String.concat "," (List.map (fun (en : entry) -> s_of_n en.ek.kid) c.ents)
let noes_string (c : cache) = String.concat "" (List.map (fun (en : entry) -> kvs en.ek en.ev ^ ",") c.ents)
let sizes_string (c : cache) = String.concat "," (List.map (fun (en : entry) -> s_of_n en.ek.kid ^ ":" ^ s_of_n en.es) c.ents)
let sorted_n l = List.sort Z.compare (List.map z_of_n l)
let nlist_string l = String.concat "," (List.map Z.to_string l)
let visits_string (v : (key * val0) list) = String.concat "" (List.map (fun (k, v) -> kvs k v ^ ",") v)

(* ---------- B-level step-wise simulation: the pointer graph after a step must be what the extracted
   Layer B operations produce from the graph before it ---------- *)
let dummy_pay = PLive ({ kid = N0; ktok = N0; kheap = N0 }, { vtok = N0; vtag = N0; vheap = N0 })
let gstate_of (o : obs) : gstate option =
  match o.graph with
  | None -> None
  | Some g ->
    let sizes = List.rev_map (fun (en : entry) -> (en.es, PLive (en.ek, en.ev))) o.st.ents in          (* MRU first, like the nodes *)
    if List.length sizes <> List.length g.g_nodes then None else
    let tbl = Hashtbl.create 64 in
    Hashtbl.replace tbl (s_of_n g.g_seal) { nprev = g.g_seal_prev; nnext = g.g_seal_next; nsize = N0; npay = PSeal };
    List.iter2 (fun (nd : onode) (sz, pay) -> Hashtbl.replace tbl (s_of_n nd.oaddr) { nprev = nd.oprev; nnext = nd.onext; nsize = sz; npay = pay }) g.g_nodes sizes;
    Some { gh = (fun a -> Hashtbl.find_opt tbl (s_of_n a)); gseal = g.g_seal; glist = List.map (fun (nd : onode) -> nd.oaddr) g.g_nodes }
let links_string (l : (((addr * addr option) * addr option) * n option) list) =
  String.concat "," (List.map (fun (((a, p), nx), sz) ->
      let so = function Some x -> s_of_n x | None -> "?" in
      Printf.sprintf "%s:%s:%s:%s" (s_of_n a) (so p) (so nx) (so sz)) l)
let observed_links (o : obs) : string =
  match o.graph with
  | None -> ""
  | Some g ->
    let sizes = List.rev_map (fun (en : entry) -> en.es) o.st.ents in
    let sizes = if List.length sizes = List.length g.g_nodes then sizes else List.map (fun _ -> N0) g.g_nodes in
    links_string ((((g.g_seal, Some g.g_seal_prev), Some g.g_seal_next), Some N0) ::
                  List.map2 (fun (nd : onode) sz -> (((nd.oaddr, Some nd.oprev), Some nd.onext), Some sz)) g.g_nodes sizes)
let addr_of (o : obs) (kt : n) : addr option =
  match List.assoc_opt (s_of_n kt) o.addr_of_ktok with Some a -> Some (n a) | None -> None
let ( >>= ) o f = match o with Some x -> f x | None -> None

(* oracle candidates: (tombstones left by this operation's erasures, insertion reused a tombstone) *)
let cands_upto k = List.concat_map (fun t -> [ (t, false); (t, true) ]) (List.init (k + 2) (fun i -> i))
let cands = cands_upto 16

let () =
  let variant = if Array.length Sys.argv > 1 && Sys.argv.(1) = "pinned" then pinned else fixed in
  let e = ref N0 and vsz = ref N0 in
  let slots : obs option array = Array.make 8 None in
  let peaks : int array = Array.make 8 0 in
  let tainted : bool array = Array.make 8 false in     (* an injected panic happened in this cache: recorded sizes may lag behind values *)
  let reqs : Z.t array = Array.make 8 Z.zero in
  let cfg_cap : Z.t ref = ref Z.zero in
  let cfg_max : Z.t ref = ref Z.zero in
  let pending : (int * string list * string) option ref = ref None in
  let trace = ref (-1) and step = ref 0 and total_steps = ref 0 and fails = ref 0 in
  let dropped_ever : (string, unit) Hashtbl.t = Hashtbl.create 1024 in
  let returned_ever : (string, unit) Hashtbl.t = Hashtbl.create 1024 in
  let cfg_pending : int option ref = ref None in
  let in_dry = ref false and dry_ok = ref true in     (* panic traces: did the uninjected run of the operation agree with the model? *)
  let lineno = ref 0 in
  (try while true do
    let line = input_line stdin in
    incr lineno;
    if String.length line >= 3 then begin
    let tag = String.sub line 0 3 in
    if tag = "# D" then begin in_dry := true; dry_ok := true end
    else if tag = "# I" then in_dry := false
    else if tag = "CFG" then begin
      match split ' ' line with
      | _ :: slot :: _mx :: _cap :: _hk :: es :: vss :: _ ->
        let slot = int_of_string slot in
        if slot = 0 then begin incr trace; step := 0; Hashtbl.reset dropped_ever; Hashtbl.reset returned_ever;
          Array.fill slots 0 8 None end;
        e := n es; vsz := n vss; cfg_pending := Some slot; cfg_cap := Z.of_string _cap; cfg_max := Z.of_string _mx;
        (* 8th field (optional): which instantiation of the key / value types ran: d = has a Drop impl, p = plain, f = default hasher *)
        let ty = (match split ' ' line with _ :: _ :: _ :: _ :: _ :: _ :: _ :: _ :: t :: _ -> t | _ -> "dd") in
        kdrop := (ty <> "pd"); vdrop := (ty <> "dp");
        bump dist ("types=" ^ ty);
        bump dist ("hasher=" ^ (if ty = "df" then "default" else _hk))
      | _ -> failwith "bad CFG"
    end
    else if tag = "OP " then begin
      match split ' ' line with
      | _ :: slot :: rest -> pending := Some (int_of_string slot, rest, line)
      | _ -> failwith "bad OP"
    end
    else if tag = "OB " then begin
      match !cfg_pending with
      | Some slot ->
        cfg_pending := None;
        let o = parse_obs !e line in
        (* construction: with_capacity_and_hasher *)
        let okc = (o.st.ents = []) && (Z.equal (z_of_n o.st.cur) Z.zero) in
        tally "new" okc;
        (* the constructors against the model's new_cache: empty, counter 0, the requested limit, and the table a request for
           `cap` entries yields (capacity >= cap, smallest table: with_capacity(n) takes n insertions without growing) *)
        (let bad = ref [] in
         let chk0 name ok = tally name ok; if not ok then bad := name :: !bad in
         chk0 "ents" (o.st.ents = []); chk0 "keyset" (o.st.ents = []);
         chk0 "cur" (Z.equal (z_of_n o.st.cur) Z.zero); chk0 "mon_c02" (Z.equal (z_of_n o.st.cur) Z.zero);
         chk0 "max" (Z.equal (z_of_n o.st.maxs) !cfg_max);
         (match new_cache !e (n_of_z !cfg_max) (n_of_z !cfg_cap) with
          | Some m ->
            chk0 "cap" (Z.equal (z_of_n (capacity m.tb)) (z_of_n o.cap) && Z.equal (z_of_n m.tb.nb) (z_of_n o.st.tb.nb));
            chk0 "mon_c13" (Z.geq (z_of_n o.cap) !cfg_cap)
          | None -> ());
         if !bad <> [] then begin
           incr fails;
           if !fails <= 200 then
             Printf.printf "FAIL trace=%d step=%d line=%d comps=%s\n  op:   OP %d new %s %s\n  pre:  ||0|%s|%s|0\n  impl: %s\n  model: a new cache is empty, its counter 0, its limit the requested one, its table the smallest holding the requested capacity\n"
               !trace 0 !lineno (String.concat "," (List.rev !bad)) slot (Z.to_string !cfg_max) (Z.to_string !cfg_cap) (Z.to_string !cfg_max) (Z.to_string !cfg_cap)
               (if String.length line > 400 then String.sub line 0 400 ^ "..." else line)
         end);
        peaks.(slot) <- 0; reqs.(slot) <- !cfg_cap; tainted.(slot) <- false;
        slots.(slot) <- Some o
      | None ->
      match !pending with
      | None -> ()
      | Some (slot, rest, opline) ->
        pending := None;
        incr step; incr total_steps;
        let post = parse_obs !e line in
        (* `@panic=<kind>:<nth>`: the nth callback of that kind made by this operation was made to panic *)
        let (rest, inject) = (match List.rev rest with
            | last :: before when String.length last > 7 && String.sub last 0 7 = "@panic=" ->
              (match split ':' (String.sub last 7 (String.length last - 7)) with
               | [k; nth] -> (List.rev before, Some (k, int_of_string nth))
               | _ -> (List.rev before, None))
            | _ -> (rest, None)) in
        let opname = List.hd rest in
        bump ophist opname;
        let failed : string list ref = ref [] in
        let chk name ok = tally name ok; if not ok then failed := name :: !failed in
        let detail = Buffer.create 256 in
        let acc_ok (c : cache) = Z.equal (z_of_n c.cur) (List.fold_left (fun a (en : entry) -> Z.add a (z_of_n en.es)) Z.zero c.ents)
                                 && (tainted.(slot) || Z.leq (z_of_n c.cur) (z_of_n c.maxs)) in
        let pre_ok (o : obs) = acc_ok o.st && (tainted.(slot) || (c01_mon !e o.st && c02_mon !e o.st)) && c04_nodup_mon o.st &&
                               (match o.graph with Some g -> ri_check g | None -> true) in
        (match slots.(slot) with
         | None -> ()
         | Some pre when not (pre_ok pre) ->
           (* the state before this step already violates the invariants (an earlier step was reported for it):
              the theorems say nothing about such states, so the step is not judged *)
           bump dist "steps_skipped_broken_pre_state";
           (* C03's monitor is a statement about the true sizes of the entries, not about the bookkeeping: it is evaluated all the
              same when the only thing wrong with the state before is the bookkeeping of sizes (recorded sizes that lag behind
              the entries, a counter that is off) — an eviction that takes more than was needed is a violation whatever misled it *)
           (let fl = ref [] in
            let chk0 name ok = tally name ok; if not ok then fl := name :: !fl in
            let struct_ok (o : obs) = c04_nodup_mon o.st && (match o.graph with Some g -> ri_check g | None -> true) in
            if not tainted.(slot) && post.res <> "panic" && inject = None && struct_ok post then begin
              (* C01 is a statement about every state an operation returns with, whatever the state before: the bound on the counter
                 and on the true sizes of the entries (for clone, `post` is the clone) *)
              chk0 "mon_c01" (c01_mon !e post.st);
              chk0 "mon_c01_cur" (Z.leq (z_of_n post.st.cur) (z_of_n post.st.maxs));
              (match parse_op rest with
               | Plain (p, _, _) when struct_ok pre -> chk0 "mon_c03" (c03_mon !e pre.st p post.st)
               | _ -> ())
            end;
            if !fl <> [] then begin
              incr fails;
              if !fails <= 200 then
                Printf.printf "FAIL trace=%d step=%d line=%d comps=%s\n  op:   %s\n  pre:  %s|%s|%s|%s|%s\n  impl: %s\n  note: the state before already had inconsistent size bookkeeping; judged by the absolute monitors only\n"
                  !trace !step !lineno (String.concat "," (List.rev !fl)) opline pre.raw_ents (s_of_n pre.st.cur) (s_of_n pre.st.maxs) (s_of_n pre.cap) (s_of_n pre.st.tb.nb)
                  (if String.length line > 700 then String.sub line 0 700 ^ "..." else line)
            end);
           (* keep the history variables of the growth bound up to date all the same *)
           peaks.(slot) <- max peaks.(slot) (max (List.length pre.st.ents) (List.length post.st.ents));
           (match rest, post.res with
            | ["reserve"; k], "unit" | ["try_reserve"; k; _], "res_ok" ->
              reqs.(slot) <- Z.max reqs.(slot) (Z.add (Z.of_int (List.length pre.st.ents)) (Z.of_string k))
            | ["clone"; d], _ -> (try let d = int_of_string d in peaks.(d) <- List.length pre.st.ents; reqs.(d) <- z_of_n pre.cap with _ -> ())
            | _ -> ())
         | Some pre ->
           (* distinctness / non-triviality of the case *)
           let keyd = opline ^ "#" ^ pre.raw_ents ^ "#" ^ s_of_n pre.st.maxs in
           if not (Hashtbl.mem distinct_steps keyd) then begin
             Hashtbl.add distinct_steps keyd ();
             if pre.st.ents <> [] then incr nontrivial end;
           bump dist (Printf.sprintf "len=%s" (let l = List.length pre.st.ents in if l = 0 then "0" else if l = 1 then "1" else if l <= 4 then "2-4" else if l <= 16 then "5-16" else ">16"));
           if Z.gt (z_of_n pre.st.tb.tombs) Z.zero then bump dist "tombstones>0";
           let xop = parse_op rest in
           let flag k = try List.assoc k post.flags with Not_found -> "?" in
           (* the shared-reference API cross-check of the harness, split by what each sub-check is about *)
           let api_reasons = (let f = flag "api" in if f = "1" || f = "?" then [] else
                                match split ':' f with [_; r] -> split '+' r | _ -> ["unknown"]) in
           let has l = List.exists (fun r -> List.mem r l) api_reasons in
           chk "api_order" (not (has ["iter"; "iter_rev"; "keys"; "values"; "keys_rev"; "values_rev"; "peek_lru"; "peek_mru"; "debug"; "iter_count"; "iter_last"; "iter_nth"; "iter_size_hint"; "iter_fold"]));
           chk "api_map" (not (has ["contains"; "peek_entry"; "peek"; "peek_owned"; "unknown"]));
           chk "api_len" (not (has ["len"; "is_empty"; "scalars"]));
           chk "ro" (flag "ro" = "1");
           chk "oth" (flag "oth" = "1");
           (* an operation taking &self leaves the cache it was called on bit-for-bit unchanged, whether it returns or unwinds *)
           (match xop with
            | Plain ((Peek _ | PeekEntry _ | Contains _ | PeekLru | PeekMru | IterOp _ | DebugFmt | Len | IsEmpty | CurrentSize | MaxSize | Capacity), _, _)
            | XClone _ -> chk "ro_step" (flag "same" <> "0")
            | _ -> ());
           if flag "api" <> "1" then Buffer.add_string detail (Printf.sprintf "  api: %s\n" (flag "api"));
           (* tokens: never dropped twice, never dropped after being handed back *)
           let dd = ref true in
           List.iter (fun t -> let s = s_of_n t in
                       if Hashtbl.mem dropped_ever s || Hashtbl.mem returned_ever s then dd := false;
                       Hashtbl.replace dropped_ever s ()) post.dropped;
           chk "drop_once" !dd;
           (* when the walker reports an incoherent structure after an uninjected step, the entry list it could read is not
              meaningful: only the structural verdict is given for this step, the model comparison is not attempted *)
           let post_struct_ok = (match post.graph with Some g -> ri_check g | None -> true) in
           if inject = None && not post_struct_ok then bump dist "steps_with_incoherent_structure_after";
           (* components computed from the walked entry list are judged only when the walk is meaningful; results, scalars,
              drops and callback counts are judged regardless *)
           (* the walk itself is meaningless only when it ran into freed / foreign memory or did not terminate; a walk that is merely
              inconsistent with the table (fewer or more nodes than len, a node that is not a full bucket) still is what
              iteration yields, and the components that speak about contents and order are judged on it *)
           let walk_garbage = (match post.graph with Some g -> g.g_dangling || g.g_overlong | None -> false) in
           let chkw name ok = if not walk_garbage || inject <> None then chk name ok in
           (match inject with
            | Some (kname, nth) ->
              (* ---- an injected panic: compare with the model's panic points (C16) ---- *)
              tainted.(slot) <- true;
              bump dist ("panic:" ^ opname ^ ":" ^ kname);
              let st_eq (a : cache) (b : cache) = noes_string a = noes_string b && sizes_string a = sizes_string b
                                                   && Z.equal (z_of_n a.cur) (z_of_n b.cur) && Z.equal (z_of_n a.maxs) (z_of_n b.maxs) in
              let want_kind = (match kname, opname with
                  | "hash", _ -> KHash | "eq", _ -> KEq | "size", _ -> KSize | "clone", _ -> KClone
                  | "closure", "retain" -> KPred | _ -> KClosure) in
              let pts_for oc = (match xop with
                  | Plain (p, _, _) -> panic_points !e pre.st p oc
                  | XClone _ -> clone_pts pre.st
                  | _ -> []) in
              let matches oc =
                let pts = List.filter (fun (pp : ppoint) -> pp.pk = want_kind) (pts_for oc) in
                if want_kind = KEq then List.find_opt (fun (pp : ppoint) -> st_eq pp.pst post.st) pts
                else (match List.nth_opt pts nth with Some pp when st_eq pp.pst post.st -> Some pp | _ -> None) in
              let ocs = List.concat_map (fun (t, ru) -> [ { o_tomb = n_of_int t; o_reuse = ru; o_alloc = true } ]) cands in
              let found_oc = List.find_map (fun oc -> match matches oc with Some pp -> Some (oc, pp) | None -> None) ocs in
              let found = (match found_oc with Some (_, pp) -> Some pp | None -> None) in
              (* pointer level (B/PanicB.v, bpoints_match): the links and recorded sizes found after the unwind are those of the
                 pointer-level state the operation has reached at that callback *)
              (match found_oc, xop, gstate_of pre with
               | Some (oc, _), Plain (p, _, _), Some g0 when !dry_ok ->
                 let b0 = { bg = g0; bcur = pre.st.cur; bmax = pre.st.maxs; btb = pre.st.tb } in
                 let bps = List.filter (fun (x : bpoint) -> x.bk = want_kind) (bpoints !e b0 p { ob = oc; ob_addr = N0; ob_moves = [] }) in
                 let got = observed_links post in
                 let same (x : bpoint) = links_string (b_links x.bst.bg) = got in
                 let okb = if want_kind = KEq then List.exists same bps else (match List.nth_opt bps nth with Some x -> same x | None -> false) in
                 chk "panic_bsim" okb;
                 if not okb then Buffer.add_string detail (Printf.sprintf "  layer B: links after the unwind %s\n    pointer-level points of this kind: %s\n" got
                                                             (String.concat " | " (List.map (fun (x : bpoint) -> links_string (b_links x.bst.bg)) bps)))
               | _ -> ());
              if !dry_ok then chk "panic_state" (found <> None && post.res = "panic")
              else bump dist "panic_state_not_judged_model_mismatch_in_normal_run";
              (match found with
               | Some pp ->
                 (* what unwinding drops must have been dropped; nothing dropped is still held *)
                 chk "panic_drops" (List.for_all (fun t -> List.exists (fun d -> Z.equal (z_of_n d) (z_of_n t)) post.dropped) (observable_drops pp.pdrop))
               | None ->
                 let pts = pts_for { o_tomb = N0; o_reuse = false; o_alloc = true } in
                 Buffer.add_string detail (Printf.sprintf "  model: %d panic points for this operation; those of kind %s:\n" (List.length pts) kname);
                 List.iteri (fun i (pp : ppoint) -> if pp.pk = want_kind && i < 40 then
                                Buffer.add_string detail (Printf.sprintf "    #%d %s|%s|%s\n" i (ents_string pp.pst) (s_of_n pp.pst.cur) (s_of_n pp.pst.maxs))) pts);
              (* the property's own statement, on the implementation *)
              (match post.graph with Some g -> chk "panic_ri" (ri_check g) | None -> ());
              chk "panic_acc" (Z.equal (z_of_n post.st.cur) (List.fold_left (fun a (en : entry) -> Z.add a (z_of_n en.es)) Z.zero post.st.ents));
              chk "mon_c02_sum" (Z.equal (z_of_n post.st.cur) (List.fold_left (fun a (en : entry) -> Z.add a (z_of_n en.es)) Z.zero post.st.ents));
              chk "panic_nodup" (c04_nodup_mon post.st);
              if kname = "closure" then begin
                chk "panic_bound" (Z.leq (z_of_n post.st.cur) (z_of_n post.st.maxs));
                (* no entry lost other than those the predicate already rejected (mutate: none at all) *)
                let kept = List.map (fun (en : entry) -> s_of_n en.ek.ktok) post.st.ents in
                let lost = List.filter (fun (en : entry) -> not (List.mem (s_of_n en.ek.ktok) kept)) pre.st.ents in
                let allowed (en : entry) = (match xop with Plain (Retain f, _, _) -> not (f en.ek en.ev) | _ -> false) in
                chk "panic_lost" (List.for_all allowed lost)
              end;
              (* retain never reorders: whatever survives an interrupted retain is in its old relative order *)
              (match xop with
               | Plain (Retain _, _, _) ->
                 let prek = List.map (fun (en : entry) -> s_of_n en.ek.ktok) pre.st.ents and postk = List.map (fun (en : entry) -> s_of_n en.ek.ktok) post.st.ents in
                 chk "panic_order" (List.filter (fun k -> List.mem k postk) prek = postk)
               | _ -> ());
              let optoks = (match xop with Plain (p, _, _) -> op_toks p | _ -> []) in
              let before = all_toks pre.st.ents @ optoks and after = all_toks post.st.ents @ post.dropped in
              let zs l = List.sort Z.compare (List.map z_of_n l) in
              let rec sub a b = (match a, b with [], _ -> true | _, [] -> false
                                 | x :: a', y :: b' -> if Z.equal x y then sub a' b' else if Z.gt x y then sub a b' else false) in
              let rec nodup = function x :: (y :: _ as r) -> not (Z.equal x y) && nodup r | _ -> true in
              (match xop with
               | XClone _ ->
                 (* the copies made so far are new objects owned by the half-built clone, which unwinding drops: they must
                    be pairwise distinct and none of them may be an object of the source *)
                 chk "panic_ledger" (nodup (zs after))
               | _ -> chk "panic_ledger" (nodup (zs after) && sub (zs after) (zs before)))
            | None ->
           (match xop with
            | Plain (p, kind, dbg) ->
              let step_mask = !last_mask in
              let masked r = (match r, p with
                  | Some ((s2, o2), evs2), IterOp _ -> let (o3, e3) = mask_items step_mask None o2 evs2 in Some ((s2, o3), e3)
                  | Some ((s2, o2), evs2), DrainOp _ -> let (o3, e3) = mask_items step_mask (Some 0) o2 evs2 in Some ((s2, o3), e3)
                  | _ -> r) in
              let run (t, ru) al = masked (stepA !e !vsz variant pre.st p { o_tomb = n_of_int t; o_reuse = ru; o_alloc = al }) in
              let alloc_ok = not (match rest with ["try_reserve"; _; "fail"] -> true | _ -> false) in
              let matches r = match r with Some ((s', _), _) -> Z.equal (z_of_n (capacity s'.tb)) (z_of_n post.cap) && Z.equal (z_of_n s'.tb.nb) (z_of_n post.st.tb.nb) | None -> false in
              let cands = cands_upto (List.length pre.st.ents) in   (* every erasure of this step may leave a tombstone *)
              let chosen_c = (match List.find_opt (fun c -> matches (run c alloc_ok)) cands with Some c -> c | None -> (0, false)) in
              let chosen = run chosen_c alloc_ok in
              (* the callbacks the model lists for this step (A/PanicA.v) against the calls the instrumented types counted *)
              (let oc = { o_tomb = n_of_int (fst chosen_c); o_reuse = snd chosen_c; o_alloc = alloc_ok } in
               let pts = panic_points !e pre.st p oc in
               let count k = List.length (List.filter (fun (pp : ppoint) -> pp.pk = k) pts) in
               let seen k = (try int_of_string (List.assoc k post.calls) with _ -> -1) in
               if post.res <> "panic" then begin
                 chk "calls_size" (count KSize = seen "s");
                 chk "calls_hash" (count KHash = seen "h");
                 chk "calls_closure" (count KClosure = seen "cl")
               end);
              (match chosen with
               | None ->
                 chk "fault" false;
                 Buffer.add_string detail "  model: FAULT (64-bit arithmetic overflow/underflow or non-terminating eviction loop at this step)\n"
               | Some ((s', o), evs) ->
                 tally "fault" true;
                 let mres = res_string ~kind ~dbg o in
                 chk "res" (mres = post.res);
                 (* classification only: which variant, and for error variants every payload figure and the returned pair *)
                 let cls r = if String.length r >= 7 && String.sub r 0 7 = "ins_ok:" then "ins_ok" else r in
                 chk "res_class" (cls mres = cls post.res);
                 let kl (c : cache) = List.map (fun (en : entry) -> s_of_n en.ek.kid) c.ents in
                 let km = kl s' and ki = kl post.st in
                 (* the state a FORGOTTEN drain leaves behind is the business of the leak property (C17), not of the iterator
                    contract (C12: "once a drain is dropped ..."): its components carry their own names *)
                 let fg = (match p with DrainOp (_, FForget) -> "_forget" | _ -> "") in
                 chkw ("keyset" ^ fg) (List.sort compare km = List.sort compare ki);
                 chkw ("order" ^ fg) (List.filter (fun x -> List.mem x ki) km = List.filter (fun x -> List.mem x km) ki);
                 chkw ("ents" ^ fg) (noes_string s' = noes_string post.st);
                 chkw ("sizes" ^ fg) (sizes_string s' = sizes_string post.st);
                 chk ("cur" ^ fg) (Z.equal (z_of_n s'.cur) (z_of_n post.st.cur));
                 chk ("max" ^ fg) (Z.equal (z_of_n s'.maxs) (z_of_n post.st.maxs));
                 (* a rejected insertion must leave every observable bit as it was, pointer structure included *)
                 (match o with OInsTooLarge _ | OTryTooLarge _ | OTryWouldEject _ | OTryOccupied _ ->
                    chk "atomic" (pre.raw_ents = post.raw_ents && pre.raw_st = post.raw_st && Z.equal (z_of_n pre.st.cur) (z_of_n post.st.cur)
                                  && Z.equal (z_of_n pre.st.maxs) (z_of_n post.st.maxs) && Z.equal (z_of_n pre.cap) (z_of_n post.cap) && post.dropped = [])
                  | _ -> ());
                 chk "cap" (Z.equal (z_of_n (capacity s'.tb)) (z_of_n post.cap) && Z.equal (z_of_n s'.tb.nb) (z_of_n post.st.tb.nb));
                 chk "drops" (sorted_n (observable_drops evs.e_dropped) = sorted_n post.dropped);
                 (* eviction order: the key tokens of the evicted entries, in the order their drops were logged *)
                 let evk = List.map (fun (en : entry) -> z_of_n (if !kdrop then en.ek.ktok else en.ev.vtok)) (if !kdrop || !vdrop then evs.e_evicted else []) in
                 let obs_evk = List.filter (fun t -> List.exists (Z.equal t) evk) (List.map z_of_n post.dropped) in
                 chk "evict_order" (evk = obs_evk);
                 chk "hashes_le" (Z.leq (z_of_n post.hashes) (z_of_n evs.e_hashes));
                 tally "hashes_eq" (Z.equal (z_of_n post.hashes) (z_of_n evs.e_hashes));
                 chk "visits" (visits_string evs.e_visits = post.visits);
                 (* B-level simulation of the same step on the pointer graph *)
                 let abstract_ok = not (List.exists (fun c -> List.mem c ["res"; "keyset"; "order"; "ents"; "sizes"; "cur"; "max"; "keyset_forget"; "order_forget"; "ents_forget"; "sizes_forget"; "cur_forget"; "max_forget"]) !failed) in
                 (match (if abstract_ok then gstate_of pre else None) with
                  | None -> ()
                  | Some g0 ->
                    (* the whole public operation at pointer level (B/StepB.v, proved to refine stepA: B/RefineB.v), run from the
                       observed graph with the bucket choices hashbrown made: where the new entry landed, where a rebuild moved each bucket *)
                    let moved = List.filter_map (fun (kt, a) -> match List.assoc_opt kt post.addr_of_ktok with
                        | Some a' when a' <> a -> Some (n a, n a') | _ -> None) pre.addr_of_ktok in
                    let new_addr = (match p with
                        | Insert (k, _) | TryInsert (k, _) -> (match addr_of post k.ktok with Some a -> a | None -> N0)
                        | _ -> N0) in
                    let oB = { ob = { o_tomb = n_of_int (fst chosen_c); o_reuse = snd chosen_c; o_alloc = alloc_ok }; ob_addr = new_addr; ob_moves = moved } in
                    let b0 = { bg = g0; bcur = pre.st.cur; bmax = pre.st.maxs; btb = pre.st.tb } in
                    let rb = masked (stepB !e !vsz b0 p oB) in
                    (match rb with
                     | Some ((b', o'), evs') ->
                       (* the refinement theorem, observed: same result, same events, same abstract state as Layer A *)
                       let agree = (o' = o) && (evs'.e_dropped = evs.e_dropped) && (evs'.e_evicted = evs.e_evicted) && (absB b' = s') in
                       chkw "brefine" agree
                     | None -> ());
                    let expected : gstate option = (match rb with Some ((b', _), _) -> Some b'.bg | None -> None) in
                    (match expected with
                     | None -> chkw "bsim" false; Buffer.add_string detail "  layer B: the pointer-level operation FAULTS on the observed graph (access to a freed / unallocated node)\n"
                     | Some g' ->
                       let want = links_string (b_links g') and got = observed_links post in
                       chkw "bsim" (want = got);
                       if want <> got then Buffer.add_string detail (Printf.sprintf "  layer B links (addr:prev:next:size, seal first, MRU first):\n    expected %s\n    observed %s\n" want got)));
                 (match p with
                  | Mutate _ -> let cl = (try List.assoc "cl" post.calls with Not_found -> "?") in
                    chk "closure_calls" (cl = (if o = OMutNone then "0" else "1"))
                  | _ -> ());
                 if evs.e_evicted <> [] then bump dist "steps_with_eviction";
                 if evs.e_rebuilt then bump dist "steps_with_rebuild";
                 (match o with OInsTooLarge _ | OTryTooLarge _ | OTryWouldEject _ | OTryOccupied _ | OMutTooLarge _ | OResOverflow | OResRefused | OPanic ->
                    bump dist ("err:" ^ List.hd (split ':' mres)) | _ -> ());
                 if !failed <> [] then begin
                   Buffer.add_string detail (Printf.sprintf "  model: %s|%s|%s|%s|%s|%s|drops=%s|h=%s|%s\n" mres (ents_string s') (s_of_n s'.cur) (s_of_n s'.maxs)
                     (s_of_n (capacity s'.tb)) (s_of_n s'.tb.nb) (nlist_string (sorted_n evs.e_dropped)) (s_of_n evs.e_hashes) (visits_string evs.e_visits))
                 end);
              (* address stability *)
              let survivors = List.filter_map (fun (kt, a) -> match List.assoc_opt kt post.addr_of_ktok with Some a' -> Some (a = a') | None -> None) pre.addr_of_ktok in
              let moved = List.exists not survivors and stayed = List.exists (fun x -> x) survivors in
              let may_rebuild = (match p with Reserve _ | TryReserve _ | ShrinkTo _ | ShrinkToFit | Insert _ | TryInsert _ -> true | _ -> false) in
              chkw "addr_stable" (not moved || (may_rebuild && not stayed));
              (* monitors on the implementation's observations *)
              if not tainted.(slot) then begin chkw "mon_c01" (c01_mon !e post.st); chkw "mon_c02" (c02_mon !e post.st) end;
              (* eviction is minimal in the true sizes of the entries (A/MonitorsA.v c03_mon, sound for the model: A/MonC03.v) *)
              (match xop with Plain (p, _, _) when not tainted.(slot) && post.res <> "panic" && inject = None -> chkw "mon_c03" (c03_mon !e pre.st p post.st) | _ -> ());
              (* the counter never exceeds the limit when an operation returns — also in a cache that went through a caught panic *)
              if post.res <> "panic" then chk "mon_c01_cur" (Z.leq (z_of_n post.st.cur) (z_of_n post.st.maxs));
              (* at every point the counter is the sum of the recorded sizes — also in a cache that went through a caught panic *)
              chkw "mon_c02_sum" (Z.equal (z_of_n post.st.cur) (List.fold_left (fun a (en : entry) -> Z.add a (z_of_n en.es)) Z.zero post.st.ents));
              chkw "mon_c04" (c04_nodup_mon post.st);
              (match parse_out post.res with
               | Some o ->
                 (* objects of a type without Drop impl leave without a trace: in those instantiations the ledger is kept for the
                    objects of the other class only (the same statement as c06_mon, restricted to observable tokens) *)
                 if post.res <> "panic" then begin
                   if !kdrop && !vdrop then chkw "mon_c06" (c06_mon pre.st p o post.dropped post.st)
                   else begin
                     let zs l = List.sort Z.compare (List.map z_of_n (observable_drops l)) in
                     let before = zs (all_toks pre.st.ents @ op_toks p) and after = zs (all_toks post.st.ents @ post.dropped @ returned p o) in
                     let rec nodup = function x :: (y :: _ as r) -> not (Z.equal x y) && nodup r | _ -> true in
                     let rec sub a b = (match a, b with [], _ -> true | _, [] -> false
                                        | x :: a', y :: b' -> if Z.equal x y then sub a' b' else if Z.gt x y then sub a b' else false) in
                     let forgets = (match p with DrainOp (_, FForget) -> true | _ -> false) in
                     chkw "mon_c06" (nodup after && (if forgets then sub after before else (List.length after = List.length before && sub after before)))
                   end
                 end;
                 List.iter (fun t -> Hashtbl.replace returned_ever (s_of_n t) ()) (returned p o)
               | None -> ());
              chkw "mon_c20" (c20_mon pre.st p post.hashes moved post.st);
              (match parse_out post.res with Some o -> chk "mon_c13" (c13_mon pre.st p o post.st) | None -> ());
              (* growth bound over the history of this cache: capacity < max(4 x peak len, 16) or <= what was explicitly requested *)
              peaks.(slot) <- max peaks.(slot) (max (List.length pre.st.ents) (List.length post.st.ents));
              (match p, post.res with
               | Reserve k, "unit" | TryReserve k, "res_ok" -> reqs.(slot) <- Z.max reqs.(slot) (Z.add (Z.of_int (List.length pre.st.ents)) (z_of_n k))
               | _ -> ());
              let req_cap = (match t_alloc !e (n_of_z reqs.(slot)) true with AOk t -> z_of_n (capacity t) | _ -> Z.zero) in
              let bound = Z.max (Z.of_int (4 * peaks.(slot))) (Z.of_int 16) in
              chkw "growth" (Z.lt (z_of_n post.cap) bound || Z.leq (z_of_n post.cap) req_cap);
              (match post.graph with Some g -> chk "mon_c07" (ri_check g) | None -> ())
            | XClone dst ->
              peaks.(dst) <- List.length pre.st.ents; reqs.(dst) <- z_of_n pre.cap;
              (* the observation is that of the new cache; pre is the source *)
              let log = (match split ':' post.res with
                  | ["clone"; l] -> List.filter_map (fun x -> match split '>' x with [a; b] -> Some (a, b) | _ -> None) (split ',' l)
                  | _ -> []) in
              let ren t = match List.assoc_opt (s_of_n t) log with Some b -> n b | None -> t in
              (match do_clone !e pre.st ren with
               | None -> chk "fault" false
               | Some (s', evs) ->
                 chk "res" (String.length post.res >= 6 && String.sub post.res 0 6 = "clone:");
                 chk "keyset" (List.sort compare (split ',' (keys_string s')) = List.sort compare (split ',' (keys_string post.st)));
                 chk "order" (keys_string s' = keys_string post.st);
                 chk "ents" (noes_string s' = noes_string post.st);
                 chk "sizes" (sizes_string s' = sizes_string post.st);
                 chk "cur" (Z.equal (z_of_n s'.cur) (z_of_n post.st.cur));
                 chk "max" (Z.equal (z_of_n s'.maxs) (z_of_n post.st.maxs));
                 chk "clone_cap" (Z.geq (z_of_n post.cap) (z_of_n (capacity pre.st.tb)));
                 chk "drops" (post.dropped = []);
                 chk "hashes_le" (Z.leq (z_of_n post.hashes) (z_of_n evs.e_hashes));
                 (* copies are fresh objects: no token of the clone is a token of the source *)
                 let src_t = all_toks pre.st.ents and cl_t = all_toks post.st.ents in
                 chk "clone_fresh" (not (List.exists (fun t -> List.exists (fun u -> Z.equal (z_of_n t) (z_of_n u)) src_t) cl_t));
                 chk "mon_c01" (c01_mon !e post.st); chk "mon_c02" (c02_mon !e post.st); chk "mon_c04" (c04_nodup_mon post.st);
                 (match post.graph with Some g -> chk "mon_c07" (ri_check g) | None -> ());
                 (* B level: the extracted pointer-level clone (B/CloneB.v, proved to refine do_clone and to leave the source
                    intact) runs in the heap of the source, with the seal and bucket addresses observed for the copy *)
                 (match post.graph, gstate_of pre with
                  | Some pg, Some gsrc ->
                    let addrs = List.filter_map (fun (en : entry) -> addr_of post en.ek.ktok) post.st.ents in
                    let b0 = { bg = gsrc; bcur = pre.st.cur; bmax = pre.st.maxs; btb = pre.st.tb } in
                    (match bB_clone !e b0 pg.g_seal addrs ren with
                     | None -> chk "bsim" false
                     | Some (bc, _) -> let want = links_string (b_links bc.bg) and got = observed_links post in
                       chk "bsim" (want = got);
                       chk "brefine" (absB bc = s');
                       if want <> got then Buffer.add_string detail (Printf.sprintf "  layer B links of the clone:\n    expected %s\n    observed %s\n" want got))
                  | _ -> ());
                 if !failed <> [] then
                   Buffer.add_string detail (Printf.sprintf "  model: clone|%s|%s|%s\n" (ents_string s') (s_of_n s'.cur) (s_of_n s'.maxs)))
            | XDrop ->
              let evs = do_drop pre.st in
              (match gstate_of pre with
               | Some g0 -> chk "brefine" ((bB_drop { bg = g0; bcur = pre.st.cur; bmax = pre.st.maxs; btb = pre.st.tb }).e_dropped = evs.e_dropped)
               | None -> ());
              chk "drops" (sorted_n (observable_drops evs.e_dropped) = sorted_n post.dropped);
              chk "hashes_le" (Z.equal (z_of_n post.hashes) Z.zero)
            | XIntoIter (kind, pt, f) ->
              let step_mask = !last_mask in
              let (o, evs) = (let (o0, e0) = do_into_iter pre.st (n_of_int kind) pt f in mask_items step_mask (Some kind) o0 e0) in
              chk "res" (res_string ~kind o = post.res);
              chk "drops" (sorted_n (observable_drops evs.e_dropped) = sorted_n post.dropped);
              chk "hashes_le" (Z.equal (z_of_n post.hashes) Z.zero);
              (* C06 on the consuming iterator, as a statement about the observation alone: what the iterator handed out and what was
                 dropped during its life are, together and WITHOUT REPETITION, exactly the objects the cache held (a forgotten
                 iterator may lose some, but still hands out or drops nothing twice and nothing it did not hold).  The handed-out
                 objects are read off the item list, which is only meaningful when the items are the expected ones (`res`). *)
              if not (List.mem "res" !failed) && post.res <> "panic" then begin
                let ret = (match o with OItems l -> List.concat_map (function
                    | Some ((k : key), (v : val0)) -> (if kind <> 2 then [k.ktok] else []) @ (if kind <> 1 then [v.vtok] else [])
                    | None -> []) l | _ -> []) in
                let zs l = List.sort Z.compare (List.map z_of_n (observable_drops l)) in
                let before = zs (all_toks pre.st.ents) and after = zs (post.dropped @ ret) in
                let rec nodup = function x :: (y :: _ as r) -> not (Z.equal x y) && nodup r | _ -> true in
                let rec sub a b = (match a, b with [], _ -> true | _, [] -> false
                                   | x :: a', y :: b' -> if Z.equal x y then sub a' b' else if Z.gt x y then sub a b' else false) in
                chk "mon_c06" (nodup after && (if f = FForget then sub after before else (List.length after = List.length before && sub after before)))
              end;
              (* B level: the extracted owning iterator (B/CloneB.v, proved to refine do_into_iter) run on the observed pointer graph *)
              (match gstate_of pre with
               | Some g0 ->
                 (match bB_into_iter { bg = g0; bcur = pre.st.cur; bmax = pre.st.maxs; btb = pre.st.tb } (n_of_int kind) pt f with
                  | None -> chk "bsim" false; Buffer.add_string detail "  layer B: the owning iterator FAULTS on the observed graph\n"
                  | Some (o0, e0) -> let (o', evs') = mask_items step_mask (Some kind) o0 e0 in chk "brefine" (o' = o && evs'.e_dropped = evs.e_dropped))
               | None -> ());
              (match o with OItems l ->
                 List.iter (function Some ((k : key), (v : val0)) ->
                     if kind <> 2 then Hashtbl.replace returned_ever (s_of_n k.ktok) ();
                     if kind <> 1 then Hashtbl.replace returned_ever (s_of_n v.vtok) () | None -> ()) l | _ -> ());
              if !failed <> [] then Buffer.add_string detail (Printf.sprintf "  model: %s|drops=%s\n" (res_string ~kind o) (nlist_string (sorted_n evs.e_dropped)))));
           if !in_dry && List.exists (fun c -> List.mem c ["res"; "keyset"; "order"; "ents"; "sizes"; "cur"; "max"; "fault"; "drops"]) !failed then dry_ok := false;
           if !failed <> [] then begin
             incr fails;
             if !fails <= 200 then begin
               Printf.printf "FAIL trace=%d step=%d line=%d comps=%s\n  op:   %s\n  pre:  %s|%s|%s|%s|%s\n  impl: %s\n%s"
                 !trace !step !lineno (String.concat "," (List.rev !failed)) opline pre.raw_ents (s_of_n pre.st.cur) (s_of_n pre.st.maxs) (s_of_n pre.cap) (s_of_n pre.st.tb.nb)
                 (if String.length line > 700 then String.sub line 0 700 ^ "..." else line) (Buffer.contents detail)
             end
           end);
        (* the observed post-state becomes the pre-state of the next operation on the observed slot *)
        (match parse_op rest with
         | XClone dst -> if inject = None then slots.(dst) <- Some post else slots.(slot) <- Some post
         | XDrop | XIntoIter _ -> slots.(slot) <- None
         | Plain _ -> slots.(slot) <- (if post.res = "panic" && false then None else Some post))
    end
    end
  done with End_of_file -> ());
  Printf.printf "SUMMARY traces=%d steps=%d failing_steps=%d distinct_steps=%d distinct_nontrivial=%d\n" (!trace + 1) !total_steps !fails (Hashtbl.length distinct_steps) !nontrivial;
  Hashtbl.iter (fun k (c, f) -> Printf.printf "COUNT %s %d %d\n" k c f) counts;
  Hashtbl.iter (fun k c -> Printf.printf "OPHIST %s %d\n" k c) ophist;
  Hashtbl.iter (fun k c -> Printf.printf "DIST %s %d\n" k c) dist
