//! Layer G translator.
//!
//! Reads `$VERIF_REPO/src/{lib,entry,iter}.rs` (default `/repo`) with `syn` and writes
//!   * a Coq file of plain data tables (first argument, default `/verif/coq/Gen/Sigs.v`), and
//!   * the same data as JSON (second argument, optional) for the probe generator.
//!
//! Tables:
//!   (i)   `structs`, `marker_impls`  - field classification and the `unsafe impl Send/Sync` bounds
//!   (ii)  `sigs`                      - receiver kind, lifetimes, borrow carriers of return types
//!   (iii) `fns`                       - call graph with "contains a write primitive"
//!
//! The translation is purely syntactic.  Whatever is not recognised is over-approximated:
//! an unknown construct in a body is recorded as a write primitive, an unknown construct in a
//! signature makes the row irregular (the row then fails `tied_to_self`).  Every such event is
//! listed in `translator_warnings` and printed on stderr.  Output is deterministic (source order,
//! no timestamps, no absolute paths).

use quote::ToTokens;
use std::collections::{BTreeMap, BTreeSet};
use std::fmt::Write as _;

mod bodies;
mod emit;
mod graph;
mod ops;

// ------------------------------------------------------------------------------------------------
// data
// ------------------------------------------------------------------------------------------------

#[derive(Clone, Debug, Default)]
pub struct FieldInfo {
    pub name: String,
    pub ty: String,
    pub raw_ptr: bool,
    pub is_ref: bool,
    pub ref_mut: bool,
    pub phantom: bool,
    pub lifetimes: Vec<String>,
    pub tparams: Vec<String>,
    pub structs: Vec<String>,
    pub heads: Vec<String>,
}

#[derive(Clone, Debug, Default)]
pub struct StructInfo {
    pub name: String,
    pub file: String,
    pub line: usize,
    pub is_pub: bool,
    pub lifetimes: Vec<String>,
    pub tparams: Vec<String>,
    pub fields: Vec<FieldInfo>,
}

#[derive(Clone, Debug, Default)]
pub struct MarkerImpl {
    pub trait_name: String,
    pub for_type: String,
    pub is_unsafe: bool,
    pub negative: bool,
    pub irregular: bool,
    pub file: String,
    pub line: usize,
    /// keyed by the *struct's* parameter names, in the struct's order
    pub bounds: Vec<(String, Vec<String>)>,
    pub text: String,
}

#[derive(Clone, Copy, Debug, PartialEq, Eq)]
pub enum Recv {
    None,
    Ref,
    Mut,
    Val,
}

#[derive(Clone, Copy, Debug, PartialEq, Eq)]
pub enum Origin {
    ElidedSelf,
    NamedSelf,
    ElidedArg,
    NamedArg,
    ImplSelfTy,
    Static,
    Free,
    Unknown,
}

#[derive(Clone, Copy, Debug, PartialEq, Eq)]
pub enum RowKind {
    Pub,
    Trait,
    Ctor,
    Iter,
}

#[derive(Clone, Debug)]
pub struct Carrier {
    pub what: String,
    pub lt: String,
    pub origin: Origin,
    pub from_cache_arg: bool,
}

#[derive(Clone, Debug, Default)]
pub struct ParamInfo {
    pub name: String,
    pub ty: String,
    pub plain: bool,
    pub is_cache_ref: bool,
}

#[derive(Clone, Debug)]
pub struct FnInfo {
    pub qname: String,
    pub name: String,
    pub self_type: Option<String>,
    pub trait_name: Option<String>,
    pub file: String,
    pub line: usize,
    pub vis: String,
    pub is_unsafe: bool,
    pub cfg: String,
    pub recv: Recv,
    pub recv_lt: Vec<String>,
    pub fn_lts: Vec<String>,
    pub impl_lts: Vec<String>,
    pub tparams: Vec<(String, Vec<String>)>,
    pub params: Vec<ParamInfo>,
    pub ret: String,
    pub carriers: Vec<Carrier>,
    pub irregular: bool,
    // graph
    pub callees: Vec<String>,
    pub ext_calls: Vec<String>,
    pub writes: Vec<String>,
    pub own_writes: Vec<String>,
    // implicit drops (graph.rs, "Implicit drops")
    /// scanned type names occurring BY VALUE in the return type (`Self`, `Self::Assoc` resolved)
    pub ret_owned: Vec<String>,
    /// the return type hides a type (`impl Trait`, `dyn Trait`, `<T as Tr>::X`, a type macro)
    pub ret_opaque: bool,
    /// head of the return type when it is a plain path type (`Self` resolved)
    pub ret_head: Option<String>,
    /// scanned/other type names occurring by value in the parameters (a by-value `self` included)
    pub params_owned: Vec<String>,
    /// why the body has an edge to `drop_glue(T)`
    pub drop_sites: Vec<String>,
    /// values whose implicit drop is a write into fresh memory (results of `LruCache::clone`)
    pub fresh_drops: Vec<String>,
}

/// A type definition of the scanned files as far as dropping is concerned.
#[derive(Clone, Debug, Default)]
pub struct TypeDef {
    pub name: String,
    pub kind: String, // struct | enum | alias
    pub file: String,
    pub line: usize,
    /// type names occurring by value in the fields (not behind `&`, `*`, `NonNull`, `PhantomData`, `fn`)
    pub owned: Vec<String>,
    /// every type name occurring in the fields, also behind pointers
    pub any: Vec<String>,
    /// a field hides its type (`dyn Trait`, `impl Trait`, ...)
    pub opaque: bool,
}

/// `drop_glue(T)`: what runs when a value of type `T` is dropped.
#[derive(Clone, Debug, Default)]
pub struct GlueNode {
    pub ty: String,
    pub node: String,
    pub drop_impl: Option<String>,
    pub callees: Vec<String>,
}

#[derive(Clone, Debug)]
pub struct SigRow {
    pub kind: RowKind,
    pub f: usize, // index into fns
}

#[derive(Clone, Debug, Default)]
pub struct CloneAnalysis {
    pub found: bool,
    pub src_callees: Vec<String>,
    pub src_writes: Vec<String>,
    pub fresh_sites: Vec<String>,
    pub residual: Vec<String>,
    pub fresh_locals: Vec<String>,
    /// callee candidates of the residual sites: their implicit drops are attributed to the source half
    pub residual_callees: Vec<String>,
    /// why the source half has an edge to `drop_glue(T)`
    pub src_drop_sites: Vec<String>,
    /// callees of the source half whose return type hides a type
    pub src_opaque_calls: Vec<String>,
    /// the `return`/tail expressions of clone
    pub return_sites: Vec<String>,
    /// every `return`/tail expression of clone is a fresh local or a plain constructor call
    pub returns_fresh: bool,
}

pub struct Tables {
    pub files: Vec<String>,
    pub structs: Vec<StructInfo>,
    pub marker_impls: Vec<MarkerImpl>,
    pub fns: Vec<FnInfo>,
    pub sigs: Vec<SigRow>,
    pub clone: CloneAnalysis,
    pub typedefs: Vec<TypeDef>,
    pub glue: Vec<GlueNode>,
    pub warnings: Vec<String>,
}

pub const CACHE_TYPE: &str = "LruCache";
/// Types whose storage *is* cache memory: an assignment to a field of `self` inside one of their
/// methods is a write to the cache.  Every other struct (the iterator structs) owns its fields.
pub const CACHE_MEMORY_TYPES: &[&str] = &["LruCache", "Entry", "EntryPtr"];
pub const ITER_TRAITS: &[&str] = &["Iterator", "DoubleEndedIterator"];

// ------------------------------------------------------------------------------------------------
// helpers
// ------------------------------------------------------------------------------------------------

pub fn tidy(s: &str) -> String {
    // token streams print with spaces everywhere; make them readable and stable
    let mut t = s.replace('\n', " ");
    for (a, b) in [
        (" :: ", "::"),
        (":: ", "::"),
        (" ::", "::"),
        (" <", "<"),
        ("< ", "<"),
        (" >", ">"),
        (" ,", ","),
        ("& ", "&"),
        ("( ", "("),
        (" )", ")"),
        ("[ ", "["),
        (" ]", "]"),
        (" ;", ";"),
        ("* mut", "*mut"),
        ("* const", "*const"),
        (" . ", "."),
        (" ?", "?"),
        ("! ", "!"),
    ] {
        while t.contains(a) {
            t = t.replace(a, b);
        }
    }
    // "&'a K" is printed as "&'a K" already; "- >" never occurs (-> is one token)
    t.trim().to_string()
}

pub fn ts<T: ToTokens>(t: &T) -> String {
    tidy(&t.to_token_stream().to_string())
}

fn is_cfg_test(attrs: &[syn::Attribute]) -> bool {
    attrs.iter().any(|a| {
        a.path().is_ident("cfg") && {
            let s = a.meta.to_token_stream().to_string();
            s.replace(' ', "").contains("(test)") || s.replace(' ', "") == "cfg(test)"
        }
    })
}

fn cfg_string(attrs: &[syn::Attribute]) -> String {
    let mut v = vec![];
    for a in attrs {
        if a.path().is_ident("cfg") {
            v.push(ts(&a.meta));
        }
    }
    v.join(" ")
}

fn line_of<T: syn::spanned::Spanned>(t: &T) -> usize {
    t.span().start().line
}

fn type_head(ty: &syn::Type) -> Option<String> {
    match ty {
        syn::Type::Path(p) if p.qself.is_none() => p.path.segments.last().map(|s| s.ident.to_string()),
        syn::Type::Paren(p) => type_head(&p.elem),
        syn::Type::Group(p) => type_head(&p.elem),
        _ => None,
    }
}

/// Walks a type and collects what it is made of.
#[derive(Default)]
struct TypeFacts {
    raw_ptr: bool,
    has_ref: bool,
    has_mut_ref: bool,
    lifetimes: Vec<String>,
    idents: Vec<String>,
    odd: bool,
}

fn type_facts(ty: &syn::Type, out: &mut TypeFacts) {
    use syn::Type::*;
    match ty {
        Ptr(p) => {
            out.raw_ptr = true;
            type_facts(&p.elem, out);
        }
        Reference(r) => {
            out.has_ref = true;
            if r.mutability.is_some() {
                out.has_mut_ref = true;
            }
            out.lifetimes.push(r.lifetime.as_ref().map(|l| l.to_string()).unwrap_or_else(|| "'_".into()));
            type_facts(&r.elem, out);
        }
        Path(p) => {
            if let Some(q) = &p.qself {
                type_facts(&q.ty, out);
            }
            for seg in &p.path.segments {
                match &seg.arguments {
                    syn::PathArguments::None => {}
                    syn::PathArguments::AngleBracketed(ab) => {
                        for a in &ab.args {
                            match a {
                                syn::GenericArgument::Lifetime(l) => out.lifetimes.push(l.to_string()),
                                syn::GenericArgument::Type(t) => type_facts(t, out),
                                syn::GenericArgument::AssocType(t) => type_facts(&t.ty, out),
                                syn::GenericArgument::Const(_) => {}
                                _ => out.odd = true,
                            }
                        }
                    }
                    syn::PathArguments::Parenthesized(pa) => {
                        for t in &pa.inputs {
                            type_facts(t, out);
                        }
                        if let syn::ReturnType::Type(_, t) = &pa.output {
                            type_facts(t, out);
                        }
                    }
                }
            }
            if let Some(last) = p.path.segments.last() {
                let id = last.ident.to_string();
                if id == "NonNull" {
                    out.raw_ptr = true;
                }
                out.idents.push(id);
            }
        }
        Tuple(t) => {
            for e in &t.elems {
                type_facts(e, out);
            }
        }
        Array(a) => type_facts(&a.elem, out),
        Slice(a) => type_facts(&a.elem, out),
        Paren(a) => type_facts(&a.elem, out),
        Group(a) => type_facts(&a.elem, out),
        Never(_) => {}
        _ => out.odd = true,
    }
}

fn dedup(v: Vec<String>) -> Vec<String> {
    let mut seen = BTreeSet::new();
    v.into_iter().filter(|x| seen.insert(x.clone())).collect()
}

/// Type names that occur BY VALUE in a type: dropping a value of the type may drop a value of each
/// of them.  Not by value: behind `&`, `&mut`, `*const`, `*mut`, `NonNull`, `PhantomData`, `fn(..)`.
/// Everything else counts (`Option`, `Result`, tuples, arrays, `Box`, `Vec`, `Rc`, `MaybeUninit`,
/// `ManuallyDrop`, any generic argument of any path) - an over-approximation.
#[derive(Default, Clone, Debug)]
pub struct Owned {
    pub idents: Vec<String>,
    pub opaque: bool,
}

pub const NON_OWNING_HEADS: &[&str] = &["PhantomData", "NonNull"];

pub fn owned_idents(ty: &syn::Type, self_ty: Option<&str>, assoc: &BTreeMap<String, syn::Type>, out: &mut Owned, depth: usize) {
    use syn::Type::*;
    if depth > 12 {
        out.opaque = true;
        return;
    }
    match ty {
        Ptr(_) | Reference(_) | BareFn(_) | Never(_) | Infer(_) => {}
        Path(p) => {
            if p.qself.is_some() {
                out.opaque = true; // <T as Trait>::Assoc
                return;
            }
            if p.path.segments.len() == 2 && p.path.segments[0].ident == "Self" {
                match assoc.get(&p.path.segments[1].ident.to_string()) {
                    Some(t) => owned_idents(t, self_ty, assoc, out, depth + 1),
                    None => out.opaque = true,
                }
                return;
            }
            let Some(last) = p.path.segments.last() else { return };
            let id = last.ident.to_string();
            if NON_OWNING_HEADS.contains(&id.as_str()) {
                return;
            }
            for seg in &p.path.segments {
                if let syn::PathArguments::AngleBracketed(ab) = &seg.arguments {
                    for a in &ab.args {
                        match a {
                            syn::GenericArgument::Type(t) => owned_idents(t, self_ty, assoc, out, depth + 1),
                            syn::GenericArgument::AssocType(t) => owned_idents(&t.ty, self_ty, assoc, out, depth + 1),
                            _ => {}
                        }
                    }
                }
            }
            if id == "Self" {
                match self_ty {
                    Some(t) => out.idents.push(t.to_string()),
                    None => out.opaque = true,
                }
            } else {
                out.idents.push(id);
            }
        }
        Tuple(t) => {
            for e in &t.elems {
                owned_idents(e, self_ty, assoc, out, depth + 1);
            }
        }
        Array(a) => owned_idents(&a.elem, self_ty, assoc, out, depth + 1),
        Slice(a) => owned_idents(&a.elem, self_ty, assoc, out, depth + 1),
        Paren(a) => owned_idents(&a.elem, self_ty, assoc, out, depth + 1),
        Group(a) => owned_idents(&a.elem, self_ty, assoc, out, depth + 1),
        _ => out.opaque = true, // impl Trait, dyn Trait, macros, verbatim
    }
}

/// head of a type seen through `&`/`&mut` (for typed receivers); bool = it was behind a reference
pub fn head_through_refs(ty: &syn::Type) -> Option<(String, bool)> {
    match ty {
        syn::Type::Reference(r) => head_through_refs(&r.elem).map(|(h, _)| (h, true)),
        syn::Type::Paren(p) => head_through_refs(&p.elem),
        syn::Type::Group(p) => head_through_refs(&p.elem),
        _ => type_head(ty).map(|h| (h, false)),
    }
}

// ------------------------------------------------------------------------------------------------
// pass 1: structs, marker impls, function declarations
// ------------------------------------------------------------------------------------------------

pub struct FnDecl {
    pub info: FnInfo,
    pub body: syn::Block,
    pub local_names: Vec<String>,
    pub sig: syn::Signature,
}

struct Collector {
    file: String,
    structs: Vec<StructInfo>,
    impls: Vec<MarkerImpl>,
    fns: Vec<FnDecl>,
    warnings: Vec<String>,
    struct_generics: BTreeMap<String, (Vec<String>, Vec<String>)>,
    typedefs: Vec<TypeDef>,
}

fn generics_lts(g: &syn::Generics) -> Vec<String> {
    g.lifetimes().map(|l| l.lifetime.to_string()).collect()
}

fn bound_string(b: &syn::TypeParamBound) -> String {
    match b {
        syn::TypeParamBound::Trait(t) => {
            let q = if matches!(t.modifier, syn::TraitBoundModifier::Maybe(_)) { "?" } else { "" };
            let last = t.path.segments.last();
            let simple = last.map(|s| matches!(s.arguments, syn::PathArguments::None)).unwrap_or(false) && t.lifetimes.is_none();
            if simple {
                format!("{}{}", q, last.unwrap().ident)
            } else {
                format!("{}{}", q, ts(&t.path))
            }
        }
        syn::TypeParamBound::Lifetime(l) => l.to_string(),
        other => ts(other),
    }
}

/// inline bounds + where-clause bounds of every type parameter, by parameter name
fn tparam_bounds(g: &syn::Generics) -> Vec<(String, Vec<String>)> {
    let mut out: Vec<(String, Vec<String>)> = vec![];
    for tp in g.type_params() {
        out.push((tp.ident.to_string(), tp.bounds.iter().map(bound_string).collect()));
    }
    if let Some(w) = &g.where_clause {
        for p in &w.predicates {
            if let syn::WherePredicate::Type(pt) = p {
                if let Some(h) = type_head(&pt.bounded_ty) {
                    let bs: Vec<String> = pt.bounds.iter().map(bound_string).collect();
                    if let Some(e) = out.iter_mut().find(|e| e.0 == h) {
                        e.1.extend(bs);
                    } else {
                        out.push((h, bs));
                    }
                }
            }
        }
    }
    out
}

fn outlives_pairs(g: &syn::Generics) -> Vec<(String, String)> {
    // ('long, 'short) for every declared `'long: 'short`
    let mut v = vec![];
    for l in g.lifetimes() {
        for b in &l.bounds {
            v.push((l.lifetime.to_string(), b.to_string()));
        }
    }
    if let Some(w) = &g.where_clause {
        for p in &w.predicates {
            if let syn::WherePredicate::Lifetime(pl) = p {
                for b in &pl.bounds {
                    v.push((pl.lifetime.to_string(), b.to_string()));
                }
            }
        }
    }
    v
}

impl Collector {
    fn item(&mut self, it: &syn::Item) {
        match it {
            syn::Item::Struct(s) => {
                if is_cfg_test(&s.attrs) {
                    return;
                }
                let tys: Vec<&syn::Type> = s.fields.iter().map(|f| &f.ty).collect();
                self.typedef(&s.ident, "struct", &s.generics, &tys);
                self.strukt(s)
            }
            syn::Item::Enum(e) => {
                if is_cfg_test(&e.attrs) {
                    return;
                }
                let tys: Vec<&syn::Type> = e.variants.iter().flat_map(|v| v.fields.iter().map(|f| &f.ty)).collect();
                self.typedef(&e.ident, "enum", &e.generics, &tys);
            }
            syn::Item::Type(t) => {
                if is_cfg_test(&t.attrs) {
                    return;
                }
                self.typedef(&t.ident, "alias", &t.generics, &[&*t.ty]);
            }
            syn::Item::Impl(i) => {
                if is_cfg_test(&i.attrs) {
                    return;
                }
                self.imp(i)
            }
            syn::Item::Fn(f) => {
                if is_cfg_test(&f.attrs) {
                    return;
                }
                let info = self.fn_info(&f.sig, &f.vis, &f.attrs, None, None, &syn::Generics::default(), &BTreeMap::new());
                self.fns.push(FnDecl { info, body: (*f.block).clone(), local_names: graph::param_locals(&f.sig.inputs), sig: f.sig.clone() });
            }
            syn::Item::Mod(m) => {
                if is_cfg_test(&m.attrs) {
                    return;
                }
                if let Some((_, items)) = &m.content {
                    self.warnings.push(format!("{}:{}: inline module `{}` is flattened into the crate namespace", self.file, line_of(m), m.ident));
                    for it in items {
                        self.item(it);
                    }
                }
            }
            syn::Item::Trait(t) => {
                self.warnings.push(format!("{}:{}: trait `{}` declared in a scanned file: default method bodies are not analysed", self.file, line_of(t), t.ident));
            }
            syn::Item::Macro(m) => {
                self.warnings.push(format!("{}:{}: item macro `{}` not expanded", self.file, line_of(m), ts(&m.mac.path)));
            }
            _ => {}
        }
    }

    /// what dropping a value of this type may drop (fields by value); its own type parameters are
    /// user types and are left out
    fn typedef(&mut self, ident: &syn::Ident, kind: &str, generics: &syn::Generics, tys: &[&syn::Type]) {
        let tparams: Vec<String> = generics.type_params().map(|t| t.ident.to_string()).collect();
        let mut owned = Owned::default();
        let mut any = TypeFacts::default();
        for t in tys {
            owned_idents(t, Some(&ident.to_string()), &BTreeMap::new(), &mut owned, 0);
            type_facts(t, &mut any);
        }
        if owned.opaque {
            self.warnings.push(format!(
                "{}:{}: {} `{}` owns a value of a hidden type (dyn/impl/projection): its drop glue is taken to run every Drop impl of the scanned files",
                self.file,
                line_of(ident),
                kind,
                ident
            ));
        }
        self.typedefs.push(TypeDef {
            name: ident.to_string(),
            kind: kind.to_string(),
            file: self.file.clone(),
            line: line_of(ident),
            owned: dedup(owned.idents).into_iter().filter(|i| !tparams.contains(i)).collect(),
            any: dedup(any.idents).into_iter().filter(|i| !tparams.contains(i)).collect(),
            opaque: owned.opaque,
        });
    }

    fn strukt(&mut self, s: &syn::ItemStruct) {
        let lifetimes = generics_lts(&s.generics);
        let tparams: Vec<String> = s.generics.type_params().map(|t| t.ident.to_string()).collect();
        let mut fields = vec![];
        for (i, f) in s.fields.iter().enumerate() {
            let mut tf = TypeFacts::default();
            type_facts(&f.ty, &mut tf);
            let head = type_head(&f.ty).unwrap_or_default();
            let mut fi = FieldInfo {
                name: f.ident.as_ref().map(|x| x.to_string()).unwrap_or_else(|| i.to_string()),
                ty: ts(&f.ty),
                raw_ptr: tf.raw_ptr,
                is_ref: matches!(f.ty, syn::Type::Reference(_)),
                ref_mut: matches!(&f.ty, syn::Type::Reference(r) if r.mutability.is_some()),
                phantom: head == "PhantomData",
                lifetimes: dedup(tf.lifetimes),
                ..Default::default()
            };
            for id in dedup(tf.idents) {
                if tparams.contains(&id) {
                    fi.tparams.push(id)
                } else {
                    fi.heads.push(id)
                }
            }
            if tf.odd {
                self.warnings.push(format!("{}:{}: field `{}.{}` has a type shape that is not analysed: {}", self.file, line_of(f), s.ident, fi.name, fi.ty));
                fi.raw_ptr = true; // conservative for the auto-trait question: assume it blocks
            }
            fields.push(fi);
        }
        self.struct_generics.insert(s.ident.to_string(), (lifetimes.clone(), tparams.clone()));
        self.structs.push(StructInfo {
            name: s.ident.to_string(),
            file: self.file.clone(),
            line: line_of(&s.ident),
            is_pub: matches!(s.vis, syn::Visibility::Public(_)),
            lifetimes,
            tparams,
            fields,
        });
    }

    fn imp(&mut self, i: &syn::ItemImpl) {
        let self_name = type_head(&i.self_ty);
        let trait_name = i.trait_.as_ref().and_then(|(_, p, _)| p.segments.last().map(|s| s.ident.to_string()));
        let negative = i.trait_.as_ref().map(|(b, _, _)| b.is_some()).unwrap_or(false);
        if let Some(tn) = &trait_name {
            if tn == "Send" || tn == "Sync" {
                self.marker(i, tn, negative, self_name.clone());
            }
        }
        let Some(self_name) = self_name else {
            self.warnings.push(format!("{}:{}: impl for a non-path type `{}` skipped (its functions are recorded under `?`)", self.file, line_of(i), ts(&i.self_ty)));
            return;
        };
        // associated types of the impl (for `Self::Item` in signatures)
        let mut assoc: BTreeMap<String, syn::Type> = BTreeMap::new();
        for it in &i.items {
            if let syn::ImplItem::Type(t) = it {
                assoc.insert(t.ident.to_string(), t.ty.clone());
            }
        }
        for it in &i.items {
            match it {
                syn::ImplItem::Fn(f) => {
                    if is_cfg_test(&f.attrs) {
                        continue;
                    }
                    let info = self.fn_info(&f.sig, &f.vis, &f.attrs, Some(self_name.clone()), trait_name.clone(), &i.generics, &assoc);
                    self.fns.push(FnDecl { info, body: f.block.clone(), local_names: graph::param_locals(&f.sig.inputs), sig: f.sig.clone() });
                }
                syn::ImplItem::Macro(m) => {
                    self.warnings.push(format!("{}:{}: impl item macro `{}` not expanded", self.file, line_of(m), ts(&m.mac.path)));
                }
                _ => {}
            }
        }
    }

    fn marker(&mut self, i: &syn::ItemImpl, tn: &str, negative: bool, self_name: Option<String>) {
        let mut mi = MarkerImpl {
            trait_name: tn.to_string(),
            for_type: self_name.clone().unwrap_or_else(|| ts(&i.self_ty)),
            is_unsafe: i.unsafety.is_some(),
            negative,
            irregular: false,
            file: self.file.clone(),
            line: line_of(&i.impl_token),
            bounds: vec![],
            text: format!(
                "{}impl<{}> {}{} for {}{}",
                if i.unsafety.is_some() { "unsafe " } else { "" },
                ts(&i.generics.params),
                if negative { "!" } else { "" },
                tn,
                ts(&i.self_ty),
                i.generics.where_clause.as_ref().map(|w| format!(" {}", ts(w))).unwrap_or_default()
            ),
        };
        let by_name = tparam_bounds(&i.generics);
        // positional arguments of the self type
        let mut args: Vec<Option<String>> = vec![];
        if let syn::Type::Path(p) = &*i.self_ty {
            if let Some(last) = p.path.segments.last() {
                if let syn::PathArguments::AngleBracketed(ab) = &last.arguments {
                    for a in &ab.args {
                        match a {
                            syn::GenericArgument::Type(t) => {
                                let h = match t {
                                    syn::Type::Path(tp) if tp.qself.is_none() && tp.path.segments.len() == 1 && matches!(tp.path.segments[0].arguments, syn::PathArguments::None) => {
                                        Some(tp.path.segments[0].ident.to_string())
                                    }
                                    _ => None,
                                };
                                // must be one of the impl's own type parameters
                                let h = h.filter(|h| i.generics.type_params().any(|tp| tp.ident == h));
                                args.push(h);
                            }
                            syn::GenericArgument::Lifetime(_) => {}
                            _ => args.push(None),
                        }
                    }
                }
            }
        } else {
            mi.irregular = true;
        }
        let canon: Vec<String> = self_name.as_ref().and_then(|n| self.struct_generics.get(n)).map(|g| g.1.clone()).unwrap_or_default();
        if canon.len() != args.len() {
            // the struct is declared later in the file or has defaulted params left out
            mi.irregular = true;
            self.warnings.push(format!("{}:{}: `{}`: {} type arguments for a struct with {} parameters - impl treated as irregular", self.file, mi.line, mi.text, args.len(), canon.len()));
        }
        let mut used = BTreeSet::new();
        for (k, a) in args.iter().enumerate() {
            let cname = canon.get(k).cloned().unwrap_or_else(|| format!("#{}", k));
            match a {
                Some(id) => {
                    if !used.insert(id.clone()) {
                        mi.irregular = true; // the same parameter twice: a specialised impl
                    }
                    let bs = by_name.iter().find(|e| &e.0 == id).map(|e| e.1.clone()).unwrap_or_default();
                    mi.bounds.push((cname, bs));
                }
                None => {
                    mi.irregular = true;
                    mi.bounds.push((cname, vec!["<concrete type argument>".into()]));
                }
            }
        }
        // a bound on something that is not a plain parameter of the self type (e.g. `where Vec<K>: Send`)
        if let Some(w) = &i.generics.where_clause {
            for p in &w.predicates {
                match p {
                    syn::WherePredicate::Type(pt) => {
                        let simple = matches!(&pt.bounded_ty, syn::Type::Path(tp) if tp.qself.is_none() && tp.path.segments.len() == 1 && matches!(tp.path.segments[0].arguments, syn::PathArguments::None));
                        if !simple || pt.lifetimes.is_some() {
                            mi.irregular = true;
                        }
                    }
                    _ => {
                        mi.irregular = true;
                    }
                }
            }
        }
        if mi.irregular {
            self.warnings.push(format!("{}:{}: marker impl `{}` has a shape the model cannot express; it is treated as not applying", self.file, mi.line, mi.text));
        }
        self.impls.push(mi);
    }

    #[allow(clippy::too_many_arguments)]
    fn fn_info(
        &mut self,
        sig: &syn::Signature,
        vis: &syn::Visibility,
        attrs: &[syn::Attribute],
        self_type: Option<String>,
        trait_name: Option<String>,
        impl_generics: &syn::Generics,
        assoc: &BTreeMap<String, syn::Type>,
    ) -> FnInfo {
        let name = sig.ident.to_string();
        let qname = match &self_type {
            Some(t) => format!("{}::{}", t, name),
            None => name.clone(),
        };
        let vis_s = match vis {
            syn::Visibility::Public(_) => "pub".to_string(),
            syn::Visibility::Restricted(r) => format!("pub({})", ts(&r.path)),
            syn::Visibility::Inherited => {
                if trait_name.is_some() {
                    "trait".to_string()
                } else {
                    "priv".to_string()
                }
            }
        };
        let fn_lts = generics_lts(&sig.generics);
        let impl_lts = generics_lts(impl_generics);
        let mut tparams = tparam_bounds(impl_generics);
        tparams.extend(tparam_bounds(&sig.generics));
        let mut irregular = false;
        let mut p_owned = Owned::default();

        // receiver
        let mut recv = Recv::None;
        let mut recv_lt: Vec<String> = vec![];
        let mut params: Vec<ParamInfo> = vec![];
        // lifetime occurrences in non-receiver inputs: (param index, lifetime or "'_")
        let mut input_lts: Vec<(usize, String)> = vec![];
        for a in &sig.inputs {
            match a {
                syn::FnArg::Receiver(r) => {
                    if r.colon_token.is_none() {
                        match &r.reference {
                            Some((_, lt)) => {
                                recv = if r.mutability.is_some() { Recv::Mut } else { Recv::Ref };
                                if let Some(l) = lt {
                                    recv_lt.push(l.to_string());
                                }
                            }
                            None => recv = Recv::Val,
                        }
                    } else {
                        match &*r.ty {
                            syn::Type::Reference(tr) => {
                                recv = if tr.mutability.is_some() { Recv::Mut } else { Recv::Ref };
                                if let Some(l) = &tr.lifetime {
                                    recv_lt.push(l.to_string());
                                }
                                if type_head(&tr.elem).as_deref() != Some("Self") {
                                    irregular = true;
                                }
                            }
                            t if type_head(t).as_deref() == Some("Self") => recv = Recv::Val,
                            _ => {
                                recv = Recv::Val;
                                irregular = true;
                                self.warnings.push(format!("{}:{}: `{}` has a receiver type `{}` that is not analysed", self.file, line_of(sig), qname, ts(&r.ty)));
                            }
                        }
                    }
                }
                syn::FnArg::Typed(pt) => {
                    let mut tf = TypeFacts::default();
                    type_facts(&pt.ty, &mut tf);
                    let idx = params.len();
                    for l in &tf.lifetimes {
                        input_lts.push((idx, l.clone()));
                    }
                    let tp_names: Vec<&String> = tparams.iter().map(|e| &e.0).collect();
                    let prims = ["usize", "u8", "u16", "u32", "u64", "u128", "isize", "i8", "i16", "i32", "i64", "i128", "bool", "char", "f32", "f64"];
                    let plain = !tf.raw_ptr && !tf.has_ref && !tf.odd && tf.idents.iter().all(|id| tp_names.contains(&id) || prims.contains(&id.as_str()));
                    let is_cache_ref = match &*pt.ty {
                        syn::Type::Reference(r) => type_head(&r.elem).as_deref() == Some(CACHE_TYPE),
                        _ => false,
                    };
                    owned_idents(&pt.ty, self_type.as_deref(), assoc, &mut p_owned, 0);
                    params.push(ParamInfo { name: ts(&pt.pat), ty: ts(&pt.ty), plain, is_cache_ref });
                }
            }
        }
        // self-tied lifetimes, closed under declared outlives bounds
        let mut pairs = outlives_pairs(&sig.generics);
        pairs.extend(outlives_pairs(impl_generics));
        let mut tied: BTreeSet<String> = recv_lt.iter().cloned().collect();
        loop {
            let mut grew = false;
            for (long, short) in &pairs {
                if tied.contains(long) && tied.insert(short.clone()) {
                    grew = true;
                }
            }
            if !grew {
                break;
            }
        }

        // a by-value receiver (`self`, `mut self`, `self: Box<Self>`, ...) is an owned value of the impl'd type
        if recv == Recv::Val {
            match &self_type {
                Some(t) => p_owned.idents.push(t.clone()),
                None => p_owned.opaque = true,
            }
        }
        // return type carriers
        let mut raw: Vec<(String, String)> = vec![]; // (what, lifetime as written or "'_")
        let mut ret_odd = false;
        let mut r_owned = Owned::default();
        let mut ret_head = None;
        let ret = match &sig.output {
            syn::ReturnType::Default => "()".to_string(),
            syn::ReturnType::Type(_, t) => {
                collect_carriers(t, &self.struct_generics, assoc, &mut raw, &mut ret_odd, 0);
                owned_idents(t, self_type.as_deref(), assoc, &mut r_owned, 0);
                ret_head = match head_through_refs(t) {
                    Some((h, false)) if h == "Self" => self_type.clone(),
                    Some((h, false)) => Some(h),
                    _ => None,
                };
                ts(t)
            }
        };
        if ret_odd {
            irregular = true;
            self.warnings.push(format!("{}:{}: return type of `{}` has a shape that is not analysed: {}", self.file, line_of(sig), qname, ret));
        }
        // does an impl lifetime occur in the Self type?  (all of them do for the idioms used: `impl<'a,..> X<'a,..>`)
        let mut carriers = vec![];
        for (what, lt) in raw {
            let (origin, from_cache) = if lt == "'_" {
                match recv {
                    Recv::Ref | Recv::Mut => (Origin::ElidedSelf, false),
                    _ => {
                        if input_lts.len() == 1 {
                            (Origin::ElidedArg, params[input_lts[0].0].is_cache_ref)
                        } else {
                            (Origin::Unknown, false)
                        }
                    }
                }
            } else if lt == "'static" {
                (Origin::Static, false)
            } else if tied.contains(&lt) {
                (Origin::NamedSelf, false)
            } else if let Some((idx, _)) = input_lts.iter().find(|(_, l)| l == &lt) {
                (Origin::NamedArg, params[*idx].is_cache_ref)
            } else if impl_lts.contains(&lt) && recv != Recv::None {
                (Origin::ImplSelfTy, false)
            } else if fn_lts.contains(&lt) || impl_lts.contains(&lt) {
                (Origin::Free, false)
            } else {
                (Origin::Unknown, false)
            };
            carriers.push(Carrier { what, lt, origin, from_cache_arg: from_cache });
        }

        FnInfo {
            qname,
            name,
            self_type,
            trait_name,
            file: self.file.clone(),
            line: line_of(&sig.ident),
            vis: vis_s,
            is_unsafe: sig.unsafety.is_some(),
            cfg: cfg_string(attrs),
            recv,
            recv_lt,
            fn_lts,
            impl_lts,
            tparams,
            params,
            ret,
            carriers,
            irregular,
            callees: vec![],
            ext_calls: vec![],
            writes: vec![],
            own_writes: vec![],
            ret_owned: dedup(r_owned.idents),
            ret_opaque: r_owned.opaque,
            ret_head,
            params_owned: dedup(p_owned.idents),
            drop_sites: vec![],
            fresh_drops: vec![],
        }
    }
}

/// Every place in a (return) type that can carry a borrow: references, lifetime arguments of
/// paths, crate structs with lifetime parameters whose arguments are left out, `impl Trait + 'a`.
fn collect_carriers(
    ty: &syn::Type,
    structs: &BTreeMap<String, (Vec<String>, Vec<String>)>,
    assoc: &BTreeMap<String, syn::Type>,
    out: &mut Vec<(String, String)>,
    odd: &mut bool,
    depth: usize,
) {
    use syn::Type::*;
    if depth > 8 {
        *odd = true;
        return;
    }
    match ty {
        Reference(r) => {
            out.push((if r.mutability.is_some() { "&mut".into() } else { "&".into() }, r.lifetime.as_ref().map(|l| l.to_string()).unwrap_or_else(|| "'_".into())));
            collect_carriers(&r.elem, structs, assoc, out, odd, depth + 1);
        }
        Path(p) => {
            if let Some(q) = &p.qself {
                // <T as Trait>::Assoc : cannot be resolved syntactically
                let _ = q;
                *odd = true;
                return;
            }
            // Self::Item -> the impl's associated type
            if p.path.segments.len() == 2 && p.path.segments[0].ident == "Self" {
                let a = p.path.segments[1].ident.to_string();
                match assoc.get(&a) {
                    Some(t) => collect_carriers(t, structs, assoc, out, odd, depth + 1),
                    None => *odd = true,
                }
                return;
            }
            let n = p.path.segments.len();
            for (k, seg) in p.path.segments.iter().enumerate() {
                let id = seg.ident.to_string();
                let mut n_lt = 0;
                match &seg.arguments {
                    syn::PathArguments::None => {}
                    syn::PathArguments::AngleBracketed(ab) => {
                        for a in &ab.args {
                            match a {
                                syn::GenericArgument::Lifetime(l) => {
                                    n_lt += 1;
                                    out.push((id.clone(), l.to_string()));
                                }
                                syn::GenericArgument::Type(t) => collect_carriers(t, structs, assoc, out, odd, depth + 1),
                                syn::GenericArgument::AssocType(t) => collect_carriers(&t.ty, structs, assoc, out, odd, depth + 1),
                                syn::GenericArgument::Const(_) => {}
                                _ => *odd = true,
                            }
                        }
                    }
                    syn::PathArguments::Parenthesized(_) => *odd = true,
                }
                if k + 1 == n {
                    if let Some((lts, _)) = structs.get(&id) {
                        if !lts.is_empty() && n_lt == 0 {
                            // hidden lifetime parameter(s): elided
                            for _ in lts {
                                out.push((id.clone(), "'_".into()));
                            }
                        }
                    }
                }
            }
        }
        Tuple(t) => {
            for e in &t.elems {
                collect_carriers(e, structs, assoc, out, odd, depth + 1);
            }
        }
        Array(a) => collect_carriers(&a.elem, structs, assoc, out, odd, depth + 1),
        Slice(a) => collect_carriers(&a.elem, structs, assoc, out, odd, depth + 1),
        Paren(a) => collect_carriers(&a.elem, structs, assoc, out, odd, depth + 1),
        Group(a) => collect_carriers(&a.elem, structs, assoc, out, odd, depth + 1),
        Never(_) => {}
        ImplTrait(it) => {
            for b in &it.bounds {
                match b {
                    syn::TypeParamBound::Lifetime(l) => out.push(("impl".into(), l.to_string())),
                    syn::TypeParamBound::Trait(t) => {
                        // `impl Fn(&A) -> B + 'x`: the inputs are higher-ranked, only the output can carry a borrow
                        match t.path.segments.last().map(|s| &s.arguments) {
                            Some(syn::PathArguments::Parenthesized(pa)) => {
                                if let syn::ReturnType::Type(_, o) = &pa.output {
                                    collect_carriers(o, structs, assoc, out, odd, depth + 1);
                                }
                            }
                            _ => *odd = true,
                        }
                    }
                    _ => *odd = true,
                }
            }
        }
        _ => *odd = true,
    }
}

// ------------------------------------------------------------------------------------------------
// main
// ------------------------------------------------------------------------------------------------

fn main() {
    let args: Vec<String> = std::env::args().collect();
    if args.get(1).map(|a| a == "--bodies").unwrap_or(false) {
        // Layer P: bodies of the pointer functions as PtrLang programs (see bodies.rs)
        std::process::exit(bodies::main(&args[2..]));
    }
    if args.get(1).map(|a| a == "--ops").unwrap_or(false) {
        // Layer P2: bodies of the composite operations of LruCache as OpLang programs (see ops.rs)
        std::process::exit(ops::main(&args[2..]));
    }
    let repo = std::env::var("VERIF_REPO").unwrap_or_else(|_| "/repo".to_string());
    let out_v = args.get(1).cloned().unwrap_or_else(|| "/verif/coq/Gen/Sigs.v".to_string());
    let out_json = args.get(2).cloned();
    let files = ["src/lib.rs", "src/entry.rs", "src/iter.rs"];

    let mut structs = vec![];
    let mut impls = vec![];
    let mut decls: Vec<FnDecl> = vec![];
    let mut warnings = vec![];
    let mut typedefs: Vec<TypeDef> = vec![];
    // two sweeps so that struct generics are known before impls are read, whatever the file order
    let mut parsed = vec![];
    for f in files {
        let path = format!("{}/{}", repo, f);
        let src = match std::fs::read_to_string(&path) {
            Ok(s) => s,
            Err(e) => {
                eprintln!("sigdump: cannot read {}: {}", path, e);
                std::process::exit(2);
            }
        };
        match syn::parse_file(&src) {
            Ok(p) => parsed.push((f.to_string(), p)),
            Err(e) => {
                eprintln!("sigdump: cannot parse {}: {}", path, e);
                std::process::exit(2);
            }
        }
    }
    let mut struct_generics = BTreeMap::new();
    for (f, p) in &parsed {
        let mut c = Collector { file: f.clone(), structs: vec![], impls: vec![], fns: vec![], warnings: vec![], struct_generics: BTreeMap::new(), typedefs: vec![] };
        for it in &p.items {
            if let syn::Item::Struct(_) = it {
                c.item(it);
            }
        }
        struct_generics.extend(c.struct_generics);
    }
    for (f, p) in &parsed {
        let mut c = Collector { file: f.clone(), structs: vec![], impls: vec![], fns: vec![], warnings: vec![], struct_generics: struct_generics.clone(), typedefs: vec![] };
        for it in &p.items {
            c.item(it);
        }
        typedefs.extend(c.typedefs);
        structs.extend(c.structs);
        impls.extend(c.impls);
        decls.extend(c.fns);
        warnings.extend(c.warnings);
    }
    // split field idents into crate structs and foreign heads
    let names: Vec<String> = structs.iter().map(|s: &StructInfo| s.name.clone()).collect();
    for s in structs.iter_mut() {
        for f in s.fields.iter_mut() {
            let (a, b): (Vec<String>, Vec<String>) = f.heads.drain(..).partition(|h| names.contains(h));
            f.structs = a;
            f.heads = b;
        }
    }
    // unique qualified names
    let mut seen: BTreeMap<String, usize> = BTreeMap::new();
    for d in decls.iter_mut() {
        let n = seen.entry(d.info.qname.clone()).or_insert(0);
        *n += 1;
        if *n > 1 {
            d.info.qname = format!("{}#{}", d.info.qname, n);
        }
    }

    // pass 2: bodies
    graph::set_plain_ctors(&decls);
    let (clone, glue) = graph::analyse(&mut decls, &names, &typedefs, &mut warnings);

    // signature rows
    let iter_structs: Vec<String> = structs.iter().filter(|s| s.file == "src/iter.rs").map(|s| s.name.clone()).collect();
    let mut sigs = vec![];
    for (k, d) in decls.iter().enumerate() {
        let f = &d.info;
        let st = f.self_type.clone().unwrap_or_default();
        if st == CACHE_TYPE && f.trait_name.is_none() && f.vis == "pub" {
            sigs.push(SigRow { kind: RowKind::Pub, f: k });
        } else if st == CACHE_TYPE && f.trait_name.is_some() {
            sigs.push(SigRow { kind: RowKind::Trait, f: k });
        } else if iter_structs.contains(&st) && f.trait_name.is_none() && f.recv == Recv::None {
            sigs.push(SigRow { kind: RowKind::Ctor, f: k });
        } else if iter_structs.contains(&st) && f.trait_name.as_ref().map(|t| ITER_TRAITS.contains(&t.as_str())).unwrap_or(false) {
            sigs.push(SigRow { kind: RowKind::Iter, f: k });
        }
    }

    let tables = Tables {
        files: files.iter().map(|s| s.to_string()).collect(),
        structs,
        marker_impls: impls,
        fns: decls.into_iter().map(|d| d.info).collect(),
        sigs,
        clone,
        typedefs,
        glue,
        warnings,
    };

    for w in &tables.warnings {
        eprintln!("sigdump: warning: {}", w);
    }
    let coq = emit::coq(&tables);
    if let Err(e) = write_if_changed(&out_v, &coq) {
        eprintln!("sigdump: cannot write {}: {}", out_v, e);
        std::process::exit(2);
    }
    if let Some(j) = out_json {
        let js = emit::json(&tables);
        if let Err(e) = write_if_changed(&j, &js) {
            eprintln!("sigdump: cannot write {}: {}", j, e);
            std::process::exit(2);
        }
    }
    let mut summary = String::new();
    let _ = write!(
        summary,
        "sigdump: {} structs, {} marker impls, {} signature rows, {} functions, {} with a write primitive, {} call edges, {} drop-glue nodes, {} implicit-drop edges, {} warnings",
        tables.structs.len(),
        tables.marker_impls.len(),
        tables.sigs.len(),
        tables.fns.len(),
        tables.fns.iter().filter(|f| !f.writes.is_empty()).count(),
        tables.fns.iter().map(|f| f.callees.iter().filter(|c| !c.starts_with(graph::GLUE_PREFIX)).count()).sum::<usize>(),
        tables.glue.len(),
        tables.fns.iter().map(|f| f.callees.iter().filter(|c| c.starts_with(graph::GLUE_PREFIX)).count()).sum::<usize>(),
        tables.warnings.len()
    );
    println!("{}", summary);
}

fn write_if_changed(path: &str, content: &str) -> std::io::Result<()> {
    if let Ok(old) = std::fs::read_to_string(path) {
        if old == content {
            return Ok(());
        }
    }
    if let Some(dir) = std::path::Path::new(path).parent() {
        std::fs::create_dir_all(dir)?;
    }
    std::fs::write(path, content)
}
