//! Layer P2 translator (`sigdump --ops <OpBodies.v> [<ops.json>]`).
//!
//! Translates the bodies of a FIXED list of the composite methods of `LruCache` in `$VERIF_REPO/src/lib.rs`
//! (remove_metadata, remove_ptr, eject_to_target, set_max_size, insert, try_insert, mutate, ...) into programs of
//! the language of `/verif/coq/Gen/OpLang.v`.  `Gen/OpBodiesProps.v` proves each program equal to the
//! hand-written definition in `B/StepB.v`.
//!
//! Rules of the game (as for `--bodies`):
//!   * purely syntactic; the dynamic semantics of OpLang is strict (a value of the wrong shape is a fault), so
//!     the translator needs almost no type information (the only kinds it reads are the declared types of
//!     parameters: `Entry<K, V>` by value, and "is a parameter" for the closure of `mutate`);
//!   * whatever is not recognised becomes `SUnknown "<text>"` / `EUnknown "<text>"` (a fault), never dropped;
//!   * a FIXED set of idioms is recognised (see `Gen/README-P2.md`); every method call / call that is not one
//!     of them and not a call of an already translated function is Unknown;
//!   * output is deterministic: fixed function order, no paths, no line numbers, no timestamps.

use crate::ts;
use std::collections::BTreeMap;
use std::fmt::Write as _;

/// (fn name in `impl LruCache`, Coq identifier), callees first
const TARGETS: &[(&str, &str)] = &[
    ("remove_from_table", "lrucache_remove_from_table"),
    ("get_from_table", "lrucache_get_from_table"),
    ("get_mut_from_table", "lrucache_get_mut_from_table"),
    ("remove_metadata", "lrucache_remove_metadata"),
    ("remove_ptr", "lrucache_remove_ptr"),
    ("remove_lru", "lrucache_remove_lru"),
    ("remove_mru", "lrucache_remove_mru"),
    ("eject_to_target", "lrucache_eject_to_target"),
    ("set_max_size", "lrucache_set_max_size"),
    ("touch", "lrucache_touch"),
    ("get_entry", "lrucache_get_entry"),
    ("get", "lrucache_get"),
    ("peek_entry", "lrucache_peek_entry"),
    ("peek", "lrucache_peek"),
    ("contains", "lrucache_contains"),
    ("remove_entry", "lrucache_remove_entry"),
    ("remove", "lrucache_remove"),
    ("get_lru", "lrucache_get_lru"),
    ("peek_lru", "lrucache_peek_lru"),
    ("peek_mru", "lrucache_peek_mru"),
    ("insert_untracked", "lrucache_insert_untracked"),
    ("try_reallocate", "lrucache_try_reallocate"),
    ("reallocate", "lrucache_reallocate"),
    ("prepare_insert", "lrucache_prepare_insert"),
    ("insert_unchecked", "lrucache_insert_unchecked"),
    ("insert", "lrucache_insert"),
    ("try_insert", "lrucache_try_insert"),
    ("mutate", "lrucache_mutate"),
    ("new_capacity", "lrucache_new_capacity"),
    ("reserve", "lrucache_reserve"),
    ("try_reserve", "lrucache_try_reserve"),
    ("shrink_to", "lrucache_shrink_to"),
    ("shrink_to_fit", "lrucache_shrink_to_fit"),
];

/// methods of `self` that are primitives of OpLang (their bodies are Layer P's business or hashbrown's)
const SELF_PRIMS: &[(&str, &str, usize)] = &[
    ("touch_ptr", "PTouch", 1),
    ("set_head", "PSetHead", 1),
    ("lru_ptr", "PLru", 0),
    ("mru_ptr", "PMru", 0),
    ("move_to_table", "PMoveToTable", 1),
    ("insert_into_table_with_hash", "PTryInsert", 2),
    ("insert_into_table", "PInsertNoHash", 1),
];

/// getters read as expressions, provided their body is exactly this (whitespace removed)
const GETTERS: &[(&str, &str, &str)] = &[("capacity", "self.table.capacity()", "ECapacity"), ("len", "self.table.len()", "ELen")];

const DEREF_METHODS: &[&str] = &["get", "get_mut", "get_extended"];
const SELF_FIELDS: &[&str] = &["current_size", "max_size", "seal"];

// ------------------------------------------------------------------------------------------------
// target language
// ------------------------------------------------------------------------------------------------

#[derive(Clone, Debug)]
enum E {
    Var(String),
    Num(String),
    Unit,
    SelfF(String),
    Capacity,
    Len,
    Bin(&'static str, Box<E>, Box<E>),
    Cmp(&'static str, Box<E>, Box<E>),
    Not(Box<E>),
    CheckedAdd(Box<E>, Box<E>),
    Un(&'static str, Box<E>), // EPtrOf EDeref ENext EPrev ESize EKey EValue EMemSize EIntoKV ETableCap ESome EOk EErr
    NoneV,
    Pair(Box<E>, Box<E>),
    Struct(String, Vec<(String, E)>),
    Unknown(String),
}

#[derive(Clone, Debug)]
enum P {
    Var(String),
    Wild,
    Pair(Box<P>, Box<P>),
}

#[derive(Clone, Debug)]
enum L {
    Var(String),
    SelfF(String),
    Size(E),
    NextOf(String),
}

#[derive(Clone, Debug)]
enum R {
    Exp(E),
    Prim(&'static str, Vec<E>),
    Call(String, Vec<E>),
    Map(Box<R>, P, Vec<S>, Box<R>),
    Wrap(&'static str, Box<R>), // RUnwrap RUnwrapUnchecked RTry RIsSome
    Proj(Box<R>, usize),
    OkOr(Box<R>, E),
}

#[derive(Clone, Debug)]
enum S {
    Let(P, R),
    Decl(String),
    Assign(L, R),
    Expr(R),
    If(R, Vec<S>, Vec<S>),
    IfSome(P, R, Vec<S>, Vec<S>),
    MatchRes(R, P, Vec<S>, P, Vec<S>),
    While(E, Vec<S>),
    Loop(Vec<S>),
    Ret(R),
    Unknown(String),
}

pub struct FnOut {
    name: String,
    ident: String,
    params: Vec<String>,
    body: Vec<S>,
}

#[derive(Clone, Copy, PartialEq, Eq)]
enum PKind {
    /// `Entry<K, V>` by value
    EntryVal,
    /// any other parameter
    Other,
}

// ------------------------------------------------------------------------------------------------
// helpers
// ------------------------------------------------------------------------------------------------

fn squash<T: quote::ToTokens>(t: &T) -> String {
    t.to_token_stream().to_string().chars().filter(|c| !c.is_whitespace()).collect()
}

fn text<T: quote::ToTokens>(t: &T) -> String {
    let s = ts(t);
    let mut out = String::new();
    let mut sp = false;
    for c in s.chars() {
        if c.is_whitespace() {
            sp = true;
        } else {
            if sp && !out.is_empty() {
                out.push(' ');
            }
            sp = false;
            out.push(if c.is_ascii() { c } else { '?' });
        }
    }
    if out.len() > 200 {
        out.truncate(200);
        out.push_str("...");
    }
    out
}

fn path_ident(e: &syn::Expr) -> Option<String> {
    match e {
        syn::Expr::Path(p) if p.qself.is_none() && p.attrs.is_empty() => p.path.get_ident().map(|i| i.to_string()),
        syn::Expr::Paren(p) => path_ident(&p.expr),
        syn::Expr::Group(g) => path_ident(&g.expr),
        _ => None,
    }
}

/// `A::B::c` without generic arguments: "A::B::c"
fn path_plain(p: &syn::Path) -> String {
    p.segments.iter().map(|s| s.ident.to_string()).collect::<Vec<_>>().join("::")
}

fn call_path(e: &syn::Expr) -> Option<String> {
    match e {
        syn::Expr::Path(p) if p.qself.is_none() => Some(path_plain(&p.path)),
        _ => None,
    }
}

fn member_name(m: &syn::Member) -> String {
    match m {
        syn::Member::Named(i) => i.to_string(),
        syn::Member::Unnamed(i) => i.index.to_string(),
    }
}

fn is_self_field(e: &syn::Expr, f: &str) -> bool {
    if let syn::Expr::Field(fe) = e {
        return path_ident(&fe.base).as_deref() == Some("self") && member_name(&fe.member) == f;
    }
    false
}

fn type_last_ident(ty: &syn::Type) -> Option<String> {
    match ty {
        syn::Type::Path(p) if p.qself.is_none() => p.path.segments.last().map(|s| s.ident.to_string()),
        syn::Type::Paren(p) => type_last_ident(&p.elem),
        syn::Type::Group(g) => type_last_ident(&g.elem),
        _ => None,
    }
}

fn is_cfg_test(attrs: &[syn::Attribute]) -> bool {
    use quote::ToTokens;
    attrs.iter().any(|a| a.path().is_ident("cfg") && a.meta.to_token_stream().to_string().replace(' ', "").contains("(test)"))
}

/// strips parentheses and `unsafe { e }` / `{ e }` around a single expression
fn peel(e: &syn::Expr) -> &syn::Expr {
    match e {
        syn::Expr::Paren(p) if p.attrs.is_empty() => peel(&p.expr),
        syn::Expr::Group(g) => peel(&g.expr),
        syn::Expr::Unsafe(u) if u.attrs.is_empty() && u.block.stmts.len() == 1 => {
            if let syn::Stmt::Expr(inner, None) = &u.block.stmts[0] {
                peel(inner)
            } else {
                e
            }
        }
        syn::Expr::Block(b) if b.attrs.is_empty() && b.label.is_none() && b.block.stmts.len() == 1 => {
            if let syn::Stmt::Expr(inner, None) = &b.block.stmts[0] {
                peel(inner)
            } else {
                e
            }
        }
        _ => e,
    }
}

// ------------------------------------------------------------------------------------------------
// translation
// ------------------------------------------------------------------------------------------------

struct Done {
    ident: String,
    arity: usize,
}

struct Ctx<'a> {
    done: &'a BTreeMap<String, Done>,
    getters: &'a BTreeMap<String, &'static str>,
    params: BTreeMap<String, PKind>,
}

impl<'a> Ctx<'a> {
    // ---------------- pure expressions ----------------
    fn un(&self, c: &'static str, e: &syn::Expr) -> E {
        E::Un(c, Box::new(self.expr(e)))
    }

    fn expr(&self, e0: &syn::Expr) -> E {
        let e = peel(e0);
        let unknown = || E::Unknown(text(e));
        match e {
            syn::Expr::Path(p) if p.attrs.is_empty() && p.qself.is_none() => {
                if let Some(x) = p.path.get_ident() {
                    let x = x.to_string();
                    if x == "None" {
                        return E::NoneV;
                    }
                    return E::Var(x);
                }
                // a unit-like enum variant / constant: TryReserveError::CapacityOverflow
                if p.path.segments.iter().all(|s| s.arguments.is_none()) {
                    return E::Struct(path_plain(&p.path), vec![]);
                }
                unknown()
            }
            syn::Expr::Lit(l) if l.attrs.is_empty() => match &l.lit {
                syn::Lit::Int(i) if i.suffix().is_empty() || i.suffix() == "usize" => E::Num(i.base10_digits().to_string()),
                _ => unknown(),
            },
            syn::Expr::Tuple(t) if t.attrs.is_empty() => match t.elems.len() {
                0 => E::Unit,
                2 => E::Pair(Box::new(self.expr(&t.elems[0])), Box::new(self.expr(&t.elems[1]))),
                _ => unknown(),
            },
            syn::Expr::Reference(r) if r.attrs.is_empty() => self.expr(&r.expr),
            syn::Expr::Field(f) if f.attrs.is_empty() => {
                let m = member_name(&f.member);
                if path_ident(&f.base).as_deref() == Some("self") {
                    if SELF_FIELDS.contains(&m.as_str()) {
                        return E::SelfF(m);
                    }
                    return unknown();
                }
                match m.as_str() {
                    "size" => self.un("ESize", &f.base),
                    "next" => self.un("ENext", &f.base),
                    "prev" => self.un("EPrev", &f.base),
                    _ => unknown(),
                }
            }
            syn::Expr::Unary(u) if u.attrs.is_empty() => match u.op {
                syn::UnOp::Not(_) => E::Not(Box::new(self.expr(&u.expr))),
                _ => unknown(),
            },
            syn::Expr::Binary(b) if b.attrs.is_empty() => {
                let (l, r) = (Box::new(self.expr(&b.left)), Box::new(self.expr(&b.right)));
                match b.op {
                    syn::BinOp::Add(_) => E::Bin("BAdd", l, r),
                    syn::BinOp::Sub(_) => E::Bin("BSub", l, r),
                    syn::BinOp::Mul(_) => E::Bin("BMul", l, r),
                    syn::BinOp::Lt(_) => E::Cmp("CLt", l, r),
                    syn::BinOp::Le(_) => E::Cmp("CLe", l, r),
                    syn::BinOp::Gt(_) => E::Cmp("CGt", l, r),
                    syn::BinOp::Ge(_) => E::Cmp("CGe", l, r),
                    syn::BinOp::Eq(_) => E::Cmp("CEq", l, r),
                    syn::BinOp::Ne(_) => E::Cmp("CNe", l, r),
                    _ => unknown(),
                }
            }
            syn::Expr::MethodCall(mc) if mc.attrs.is_empty() && mc.turbofish.is_none() => {
                let m = mc.method.to_string();
                let n = mc.args.len();
                // self.capacity() / self.len() / self.table.capacity() / self.table.len()
                if n == 0 && (m == "capacity" || m == "len") {
                    let c = if m == "capacity" { E::Capacity } else { E::Len };
                    if is_self_field(&mc.receiver, "table") {
                        return c;
                    }
                    if path_ident(&mc.receiver).as_deref() == Some("self") {
                        if self.getters.contains_key(&m) {
                            return c;
                        }
                        return unknown();
                    }
                    if m == "capacity" {
                        return self.un("ETableCap", &mc.receiver);
                    }
                    return unknown();
                }
                match (m.as_str(), n) {
                    ("max", 1) => E::Bin("BMax", Box::new(self.expr(&mc.receiver)), Box::new(self.expr(&mc.args[0]))),
                    ("checked_add", 1) => E::CheckedAdd(Box::new(self.expr(&mc.receiver)), Box::new(self.expr(&mc.args[0]))),
                    (d, 0) if DEREF_METHODS.contains(&d) => self.un("EDeref", &mc.receiver),
                    ("size", 0) => self.un("ESize", &mc.receiver),
                    ("key", 0) => self.un("EKey", &mc.receiver),
                    ("value", 0) => self.un("EValue", &mc.receiver),
                    ("mem_size", 0) => self.un("EMemSize", &mc.receiver),
                    ("into_key_value", 0) => self.un("EIntoKV", &mc.receiver),
                    _ => unknown(),
                }
            }
            syn::Expr::Call(c) if c.attrs.is_empty() => {
                let f = match call_path(&c.func) {
                    Some(f) => f,
                    None => return unknown(),
                };
                match (f.as_str(), c.args.len()) {
                    ("Some", 1) => self.un("ESome", &c.args[0]),
                    ("Ok", 1) => self.un("EOk", &c.args[0]),
                    ("Err", 1) => self.un("EErr", &c.args[0]),
                    ("EntryPtr::new", 1) => {
                        // EntryPtr::new(x as *mut Entry<K, V>)
                        if let syn::Expr::Cast(ca) = peel(&c.args[0]) {
                            if squash(&ca.ty) == "*mutEntry<K,V>" {
                                return self.un("EPtrOf", &ca.expr);
                            }
                        }
                        unknown()
                    }
                    _ => unknown(),
                }
            }
            syn::Expr::Struct(s) if s.attrs.is_empty() && s.rest.is_none() && s.qself.is_none() => {
                if !s.path.segments.iter().all(|x| x.arguments.is_none()) {
                    return unknown();
                }
                let mut fs = vec![];
                for f in &s.fields {
                    if !f.attrs.is_empty() {
                        return unknown();
                    }
                    fs.push((member_name(&f.member), self.expr(&f.expr)));
                }
                E::Struct(path_plain(&s.path), fs)
            }
            _ => unknown(),
        }
    }

    // ---------------- patterns ----------------
    fn pat(&self, p: &syn::Pat) -> Option<P> {
        match p {
            syn::Pat::Ident(i) if i.by_ref.is_none() && i.subpat.is_none() && i.attrs.is_empty() => Some(P::Var(i.ident.to_string())),
            syn::Pat::Wild(w) if w.attrs.is_empty() => Some(P::Wild),
            syn::Pat::Tuple(t) if t.attrs.is_empty() && t.elems.len() == 2 => {
                Some(P::Pair(Box::new(self.pat(&t.elems[0])?), Box::new(self.pat(&t.elems[1])?)))
            }
            syn::Pat::Paren(q) if q.attrs.is_empty() => self.pat(&q.pat),
            _ => None,
        }
    }

    /// `Ctor(p)`
    fn ctor_pat(&self, p: &syn::Pat, ctor: &str) -> Option<P> {
        if let syn::Pat::TupleStruct(t) = p {
            if t.attrs.is_empty() && t.qself.is_none() && t.path.is_ident(ctor) && t.elems.len() == 1 {
                return self.pat(&t.elems[0]);
            }
        }
        None
    }

    // ---------------- right-hand sides ----------------
    fn rhs(&self, e0: &syn::Expr) -> R {
        let e = peel(e0);
        match e {
            syn::Expr::Try(t) if t.attrs.is_empty() => R::Wrap("RTry", Box::new(self.rhs(&t.expr))),
            syn::Expr::Field(f) if f.attrs.is_empty() => {
                if let syn::Member::Unnamed(i) = &f.member {
                    if i.index <= 1 {
                        return R::Proj(Box::new(self.rhs(&f.base)), i.index as usize);
                    }
                }
                R::Exp(self.expr(e))
            }
            syn::Expr::MethodCall(mc) if mc.attrs.is_empty() && mc.turbofish.is_none() => self.method(mc, e),
            syn::Expr::Call(c) if c.attrs.is_empty() => self.fcall(c, e),
            _ => R::Exp(self.expr(e)),
        }
    }

    fn args(&self, a: &syn::punctuated::Punctuated<syn::Expr, syn::token::Comma>) -> Vec<E> {
        a.iter().map(|x| self.expr(x)).collect()
    }

    /// `equivalent_key(k)` -> k
    fn equivalent_key<'e>(&self, e: &'e syn::Expr) -> Option<&'e syn::Expr> {
        if let syn::Expr::Call(c) = peel(e) {
            if call_path(&c.func).as_deref() == Some("equivalent_key") && c.args.len() == 1 {
                return Some(&c.args[0]);
            }
        }
        None
    }

    fn method(&self, mc: &syn::ExprMethodCall, whole: &syn::Expr) -> R {
        let m = mc.method.to_string();
        let n = mc.args.len();
        match (m.as_str(), n) {
            ("unwrap", 0) => return R::Wrap("RUnwrap", Box::new(self.rhs(&mc.receiver))),
            ("unwrap_unchecked", 0) => return R::Wrap("RUnwrapUnchecked", Box::new(self.rhs(&mc.receiver))),
            ("is_some", 0) => return R::Wrap("RIsSome", Box::new(self.rhs(&mc.receiver))),
            ("ok_or", 1) => return R::OkOr(Box::new(self.rhs(&mc.receiver)), self.expr(&mc.args[0])),
            ("map", 1) => {
                if let syn::Expr::Closure(cl) = &mc.args[0] {
                    if cl.attrs.is_empty()
                        && cl.inputs.len() == 1
                        && cl.capture.is_none()
                        && cl.asyncness.is_none()
                        && cl.movability.is_none()
                        && cl.constness.is_none()
                        && cl.lifetimes.is_none()
                        && matches!(cl.output, syn::ReturnType::Default)
                    {
                        if let Some(p) = self.pat(&cl.inputs[0]) {
                            let mut body = vec![];
                            let tail = self.value_of(&cl.body, &mut body);
                            return R::Map(Box::new(self.rhs(&mc.receiver)), p, body, Box::new(tail));
                        }
                    }
                }
                return R::Exp(E::Unknown(text(whole)));
            }
            _ => {}
        }
        // self.table.<lookup>(hash, equivalent_key(key))
        if is_self_field(&mc.receiver, "table") && n == 2 {
            let prim = match m.as_str() {
                "get" | "get_mut" | "find" => Some("PFind"),
                "remove_entry" => Some("PTableRemove"),
                _ => None,
            };
            if let (Some(prim), Some(k)) = (prim, self.equivalent_key(&mc.args[1])) {
                return R::Prim(prim, vec![self.expr(&mc.args[0]), self.expr(k)]);
            }
            return R::Exp(E::Unknown(text(whole)));
        }
        if path_ident(&mc.receiver).as_deref() == Some("self") {
            // self.remove_from_table(p.get().key()): the table hands back p's own bucket
            if m == "remove_from_table" && n == 1 {
                if let syn::Expr::MethodCall(k) = peel(&mc.args[0]) {
                    if k.method == "key" && k.args.is_empty() {
                        if let syn::Expr::MethodCall(g) = peel(&k.receiver) {
                            if g.method == "get" && g.args.is_empty() && path_ident(&g.receiver).is_some() {
                                return R::Prim("PTableRemoveAt", vec![self.expr(&g.receiver)]);
                            }
                        }
                    }
                }
            }
            if let Some((_, prim, ar)) = SELF_PRIMS.iter().find(|(name, _, _)| *name == m) {
                if *ar == n {
                    return R::Prim(prim, self.args(&mc.args));
                }
                return R::Exp(E::Unknown(text(whole)));
            }
            if self.getters.contains_key(&m) && n == 0 {
                return R::Exp(self.expr(whole));
            }
            if let Some(d) = self.done.get(&m) {
                if d.arity == n {
                    return R::Call(d.ident.clone(), self.args(&mc.args));
                }
            }
            return R::Exp(E::Unknown(format!("call of a function that is not translated: {}", text(whole))));
        }
        // entry.unhinge() on a parameter of type Entry<K, V> (by value)
        if m == "unhinge" && n == 0 {
            if let Some(x) = path_ident(&mc.receiver) {
                if self.params.get(&x) == Some(&PKind::EntryVal) {
                    return R::Prim("PEntryUnhinge", vec![E::Var(x)]);
                }
            }
            return R::Exp(E::Unknown(text(whole)));
        }
        R::Exp(self.expr(whole))
    }

    fn fcall(&self, c: &syn::ExprCall, whole: &syn::Expr) -> R {
        // op(entry.value_mut()), op a parameter
        if let Some(f) = path_ident(&c.func) {
            if self.params.contains_key(&f) && c.args.len() == 1 {
                if let syn::Expr::MethodCall(vm) = peel(&c.args[0]) {
                    if vm.method == "value_mut" && vm.args.is_empty() {
                        return R::Prim("PApplyOp", vec![E::Var(f), self.expr(&vm.receiver)]);
                    }
                }
                return R::Exp(E::Unknown(text(whole)));
            }
        }
        let fpath = match &*c.func {
            syn::Expr::Path(p) if p.qself.is_none() && p.attrs.is_empty() => &p.path,
            _ => return R::Exp(self.expr(whole)),
        };
        let f = path_plain(fpath);
        match (f.as_str(), c.args.len()) {
            ("make_hash", 2) | ("make_insert_hash", 2) => {
                if squash(&c.args[0]) == "&self.hash_builder" {
                    return R::Prim("PHash", vec![self.expr(&c.args[1])]);
                }
                R::Exp(E::Unknown(text(whole)))
            }
            ("UnhingedEntry::new", 2) => R::Prim("PUnhNew", self.args(&c.args)),
            ("Entry::new", 3) => R::Prim("PEntryNew", self.args(&c.args)),
            ("RawTable::try_with_capacity", 1) => R::Prim("PTryWithCapacity", self.args(&c.args)),
            ("RawTable::with_capacity", 1) => R::Prim("PWithCapacity", self.args(&c.args)),
            _ => R::Exp(self.expr(whole)),
        }
    }

    /// a block / expression used for its value: the statements go to `out`, the value is returned
    fn value_of(&self, e: &syn::Expr, out: &mut Vec<S>) -> R {
        let blk = match e {
            syn::Expr::Paren(p) if p.attrs.is_empty() => return self.value_of(&p.expr, out),
            syn::Expr::Unsafe(u) if u.attrs.is_empty() => &u.block,
            syn::Expr::Block(b) if b.attrs.is_empty() && b.label.is_none() => &b.block,
            _ => return self.rhs(e),
        };
        let n = blk.stmts.len();
        for (k, st) in blk.stmts.iter().enumerate() {
            if k + 1 == n {
                if let syn::Stmt::Expr(last, None) = st {
                    return self.value_of(last, out);
                }
            }
            self.stmt(st, false, k + 1 == n, out);
        }
        R::Exp(E::Unit)
    }

    // ---------------- statements ----------------
    fn block(&self, b: &syn::Block, tail: bool, out: &mut Vec<S>) {
        let n = b.stmts.len();
        for (k, st) in b.stmts.iter().enumerate() {
            self.stmt(st, tail && k + 1 == n, k + 1 == n, out);
        }
    }

    fn sub_block(&self, b: &syn::Block, tail: bool) -> Vec<S> {
        let mut v = vec![];
        self.block(b, tail, &mut v);
        v
    }

    fn has_let(b: &syn::Block) -> bool {
        b.stmts.iter().any(|s| matches!(s, syn::Stmt::Local(_)))
    }

    /// `tail`: the statement is in the function's tail position (its value is the function's value);
    /// `last`: it is the last statement of its block
    fn stmt(&self, st: &syn::Stmt, tail: bool, last: bool, out: &mut Vec<S>) {
        match st {
            syn::Stmt::Local(l) => self.local(l, out),
            syn::Stmt::Expr(e, semi) => self.expr_stmt(e, semi.is_some(), tail, last, out),
            other => out.push(S::Unknown(text(other))),
        }
    }

    fn local(&self, l: &syn::Local, out: &mut Vec<S>) {
        if !l.attrs.is_empty() {
            out.push(S::Unknown(text(l)));
            return;
        }
        match &l.init {
            None => {
                if let syn::Pat::Ident(i) = &l.pat {
                    if i.by_ref.is_none() && i.subpat.is_none() && i.attrs.is_empty() {
                        out.push(S::Decl(i.ident.to_string()));
                        return;
                    }
                }
                out.push(S::Unknown(text(l)));
            }
            Some(init) => {
                if init.diverge.is_some() {
                    out.push(S::Unknown(text(l)));
                    return;
                }
                match self.pat(&l.pat) {
                    Some(p) => {
                        // let x = unsafe { stmts; value }: the statements of the block run first
                        let mut pre = vec![];
                        let r = match &*init.expr {
                            syn::Expr::Unsafe(u) if u.attrs.is_empty() && !Self::has_let(&u.block) => self.value_of(&init.expr, &mut pre),
                            _ => self.rhs(&init.expr),
                        };
                        out.extend(pre);
                        out.push(S::Let(p, r));
                    }
                    None => out.push(S::Unknown(text(l))),
                }
            }
        }
    }

    fn lhs(&self, e: &syn::Expr) -> Option<(L, E)> {
        match peel(e) {
            syn::Expr::Path(_) => {
                let x = path_ident(e)?;
                Some((L::Var(x.clone()), E::Var(x)))
            }
            syn::Expr::Field(f) if f.attrs.is_empty() => {
                let m = member_name(&f.member);
                if path_ident(&f.base).as_deref() == Some("self") {
                    if m == "current_size" || m == "max_size" {
                        return Some((L::SelfF(m.clone()), E::SelfF(m)));
                    }
                    return None;
                }
                match m.as_str() {
                    "size" => {
                        let b = self.expr(&f.base);
                        Some((L::Size(b.clone()), E::Un("ESize", Box::new(b))))
                    }
                    "next" => {
                        let x = path_ident(&f.base)?;
                        Some((L::NextOf(x.clone()), E::Un("ENext", Box::new(E::Var(x)))))
                    }
                    _ => None,
                }
            }
            _ => None,
        }
    }

    fn expr_stmt(&self, e: &syn::Expr, semi: bool, tail: bool, last: bool, out: &mut Vec<S>) {
        let unknown = || S::Unknown(text(e));
        match e {
            syn::Expr::Paren(p) if p.attrs.is_empty() => return self.expr_stmt(&p.expr, semi, tail, last, out),
            // a nested block: inlined. Its `let`s would leak into the enclosing scope of the flat translation,
            // so a block that declares names is only inlined when nothing follows it
            syn::Expr::Unsafe(u) if u.attrs.is_empty() => {
                if last || !Self::has_let(&u.block) {
                    return self.block(&u.block, tail && !semi, out);
                }
                out.push(unknown());
            }
            syn::Expr::Block(b) if b.attrs.is_empty() && b.label.is_none() => {
                if last || !Self::has_let(&b.block) {
                    return self.block(&b.block, tail && !semi, out);
                }
                out.push(unknown());
            }
            syn::Expr::If(i) if i.attrs.is_empty() => {
                let t = tail && !semi;
                let a = self.sub_block(&i.then_branch, t);
                let b = match &i.else_branch {
                    None => vec![],
                    Some((_, eb)) => match &**eb {
                        syn::Expr::Block(bl) if bl.attrs.is_empty() && bl.label.is_none() => self.sub_block(&bl.block, t),
                        syn::Expr::If(_) => {
                            let mut v = vec![];
                            self.expr_stmt(eb, false, t, true, &mut v);
                            v
                        }
                        other => vec![S::Unknown(text(other))],
                    },
                };
                if let syn::Expr::Let(l) = &*i.cond {
                    if l.attrs.is_empty() {
                        if let Some(p) = self.ctor_pat(&l.pat, "Some") {
                            out.push(S::IfSome(p, self.rhs(&l.expr), a, b));
                            return;
                        }
                    }
                    out.push(unknown());
                    return;
                }
                out.push(S::If(self.rhs(&i.cond), a, b));
            }
            syn::Expr::While(w) if w.attrs.is_empty() && w.label.is_none() => {
                if let syn::Expr::Let(_) = &*w.cond {
                    out.push(unknown());
                    return;
                }
                out.push(S::While(self.expr(&w.cond), self.sub_block(&w.body, false)));
            }
            syn::Expr::Loop(l) if l.attrs.is_empty() && l.label.is_none() => {
                out.push(S::Loop(self.sub_block(&l.body, false)));
            }
            syn::Expr::Match(m) if m.attrs.is_empty() && m.arms.len() == 2 => {
                let t = tail && !semi;
                let mut ok: Option<(P, Vec<S>)> = None;
                let mut err: Option<(P, Vec<S>)> = None;
                for arm in &m.arms {
                    if !arm.attrs.is_empty() || arm.guard.is_some() {
                        out.push(unknown());
                        return;
                    }
                    let body = match &*arm.body {
                        syn::Expr::Block(bl) if bl.attrs.is_empty() && bl.label.is_none() => self.sub_block(&bl.block, t),
                        other => {
                            let mut v = vec![];
                            self.expr_stmt(other, false, t, true, &mut v);
                            v
                        }
                    };
                    if let Some(p) = self.ctor_pat(&arm.pat, "Ok") {
                        if ok.is_some() {
                            out.push(unknown());
                            return;
                        }
                        ok = Some((p, body));
                    } else if let Some(p) = self.ctor_pat(&arm.pat, "Err") {
                        if err.is_some() {
                            out.push(unknown());
                            return;
                        }
                        err = Some((p, body));
                    } else {
                        out.push(unknown());
                        return;
                    }
                }
                match (ok, err) {
                    (Some((p1, a)), Some((p2, b))) => out.push(S::MatchRes(self.rhs(&m.expr), p1, a, p2, b)),
                    _ => out.push(unknown()),
                }
            }
            syn::Expr::Return(r) if r.attrs.is_empty() => match &r.expr {
                Some(v) => out.push(S::Ret(self.rhs(v))),
                None => out.push(S::Ret(R::Exp(E::Unit))),
            },
            syn::Expr::Assign(a) if a.attrs.is_empty() => match self.lhs(&a.left) {
                Some((l, _)) => out.push(S::Assign(l, self.rhs(&a.right))),
                None => out.push(unknown()),
            },
            syn::Expr::Binary(b) if b.attrs.is_empty() && matches!(b.op, syn::BinOp::AddAssign(_) | syn::BinOp::SubAssign(_) | syn::BinOp::MulAssign(_)) => {
                let op = match b.op {
                    syn::BinOp::AddAssign(_) => "BAdd",
                    syn::BinOp::SubAssign(_) => "BSub",
                    _ => "BMul",
                };
                match self.lhs(&b.left) {
                    Some((l, read)) => out.push(S::Assign(l, R::Exp(E::Bin(op, Box::new(read), Box::new(self.expr(&b.right)))))),
                    None => out.push(unknown()),
                }
            }
            _ => {
                if tail && !semi {
                    out.push(S::Ret(self.rhs(e)));
                } else if semi {
                    out.push(S::Expr(self.rhs(e)));
                } else {
                    // a value in the middle of a block that is not the function's value
                    out.push(unknown());
                }
            }
        }
    }
}

// ------------------------------------------------------------------------------------------------
// source
// ------------------------------------------------------------------------------------------------

fn lru_fns(file: &syn::File) -> BTreeMap<String, Vec<&syn::ImplItemFn>> {
    let mut m: BTreeMap<String, Vec<&syn::ImplItemFn>> = BTreeMap::new();
    for it in &file.items {
        if let syn::Item::Impl(im) = it {
            if is_cfg_test(&im.attrs) || im.trait_.is_some() {
                continue;
            }
            if type_last_ident(&im.self_ty).as_deref() != Some("LruCache") {
                continue;
            }
            for ii in &im.items {
                if let syn::ImplItem::Fn(f) = ii {
                    if !is_cfg_test(&f.attrs) {
                        m.entry(f.sig.ident.to_string()).or_default().push(f);
                    }
                }
            }
        }
    }
    m
}

fn translate_fn(fns: &BTreeMap<String, Vec<&syn::ImplItemFn>>, done: &BTreeMap<String, Done>, getters: &BTreeMap<String, &'static str>, name: &str, ident: &str) -> (FnOut, usize) {
    let qname = format!("LruCache::{}", name);
    let fail = |msg: String| (FnOut { name: qname.clone(), ident: ident.to_string(), params: vec![], body: vec![S::Unknown(msg)] }, 0);
    let cands = fns.get(name).cloned().unwrap_or_default();
    if cands.len() != 1 {
        return fail(format!("{} definitions of {} found in src/lib.rs", cands.len(), qname));
    }
    let f = cands[0];
    let mut params = vec![];
    let mut kinds = BTreeMap::new();
    let mut has_self = false;
    for a in &f.sig.inputs {
        match a {
            syn::FnArg::Receiver(r) => {
                if r.colon_token.is_some() {
                    return fail(format!("typed receiver in {}", qname));
                }
                has_self = true;
            }
            syn::FnArg::Typed(t) => {
                let x = match &*t.pat {
                    syn::Pat::Ident(p) if p.by_ref.is_none() && p.subpat.is_none() => p.ident.to_string(),
                    other => return fail(format!("parameter pattern {} in {}", text(other), qname)),
                };
                let k = match &*t.ty {
                    syn::Type::Path(_) if type_last_ident(&t.ty).as_deref() == Some("Entry") => PKind::EntryVal,
                    _ => PKind::Other,
                };
                if kinds.insert(x.clone(), k).is_some() {
                    return fail(format!("parameter {} declared twice in {}", x, qname));
                }
                params.push(x);
            }
        }
    }
    if !has_self {
        return fail(format!("{} has no self receiver", qname));
    }
    let cx = Ctx { done, getters, params: kinds };
    let mut body = vec![];
    cx.block(&f.block, true, &mut body);
    let arity = params.len();
    (FnOut { name: qname, ident: ident.to_string(), params, body }, arity)
}

// ------------------------------------------------------------------------------------------------
// emission
// ------------------------------------------------------------------------------------------------

fn q(s: &str) -> String {
    let mut o = String::from("\"");
    for c in s.chars() {
        match c {
            '"' => o.push_str("\"\""),
            c if c.is_ascii() && !c.is_ascii_control() => o.push(c),
            _ => o.push('?'),
        }
    }
    o.push('"');
    o
}

fn pe(e: &E) -> String {
    match e {
        E::Var(x) => format!("EVar {}", q(x)),
        E::Num(n) => format!("ENum {}%N", n),
        E::Unit => "EUnit".into(),
        E::SelfF(f) => format!("ESelf {}", q(f)),
        E::Capacity => "ECapacity".into(),
        E::Len => "ELen".into(),
        E::Bin(o, a, b) => format!("EBin {} {} {}", o, pa(a), pa(b)),
        E::Cmp(o, a, b) => format!("ECmp {} {} {}", o, pa(a), pa(b)),
        E::Not(a) => format!("ENot {}", pa(a)),
        E::CheckedAdd(a, b) => format!("ECheckedAdd {} {}", pa(a), pa(b)),
        E::Un(c, a) => format!("{} {}", c, pa(a)),
        E::NoneV => "ENone".into(),
        E::Pair(a, b) => format!("EPair {} {}", pa(a), pa(b)),
        E::Struct(n, fs) => {
            let v: Vec<String> = fs.iter().map(|(f, e)| format!("({}, {})", q(f), pe(e))).collect();
            format!("EStruct {} [{}]", q(n), v.join("; "))
        }
        E::Unknown(t) => format!("EUnknown {}", q(t)),
    }
}

fn atom(e: &E) -> bool {
    matches!(e, E::Unit | E::Capacity | E::Len | E::NoneV)
}

fn pa(e: &E) -> String {
    if atom(e) {
        pe(e)
    } else {
        format!("({})", pe(e))
    }
}

fn pp(p: &P) -> String {
    match p {
        P::Var(x) => format!("(PVar {})", q(x)),
        P::Wild => "PWild".into(),
        P::Pair(a, b) => format!("(PPair {} {})", pp(a), pp(b)),
    }
}

fn pl(l: &L) -> String {
    match l {
        L::Var(x) => format!("(LVar {})", q(x)),
        L::SelfF(f) => format!("(LSelf {})", q(f)),
        L::Size(e) => format!("(LSize {})", pa(e)),
        L::NextOf(x) => format!("(LNextOf {})", q(x)),
    }
}

fn elist(l: &[E]) -> String {
    format!("[{}]", l.iter().map(pe).collect::<Vec<_>>().join("; "))
}

fn pr(r: &R, ind: usize) -> String {
    match r {
        R::Exp(e) => format!("RExp {}", pa(e)),
        R::Prim(p, a) => format!("RPrim {} {}", p, elist(a)),
        R::Call(f, a) => format!("call {} {}", f, elist(a)),
        R::Map(r1, p, body, tail) => {
            let pad = " ".repeat(ind + 2);
            let mut o = String::new();
            let _ = write!(o, "RMap ({})\n{}{}\n{}(", pr(r1, ind + 2), pad, pp(p), pad);
            plist(body, ind + 2, &mut o);
            let _ = write!(o, ")\n{}({})", pad, pr(tail, ind + 2));
            o
        }
        R::Wrap(c, r1) => format!("{} ({})", c, pr(r1, ind)),
        R::Proj(r1, i) => format!("RProj ({}) {}", pr(r1, ind), i),
        R::OkOr(r1, e) => format!("ROkOr ({}) {}", pr(r1, ind), pa(e)),
    }
}

fn plist(l: &[S], ind: usize, out: &mut String) {
    let pad = " ".repeat(ind);
    if l.is_empty() {
        out.push_str("seq []");
        return;
    }
    out.push_str("seq [\n");
    for (k, s) in l.iter().enumerate() {
        out.push_str(&pad);
        out.push_str("  ");
        ps(s, ind + 2, out);
        if k + 1 < l.len() {
            out.push(';');
        }
        out.push('\n');
    }
    out.push_str(&pad);
    out.push(']');
}

fn branch(l: &[S], ind: usize, out: &mut String) {
    let _ = write!(out, "\n{}  (", " ".repeat(ind));
    plist(l, ind + 2, out);
    out.push(')');
}

fn ps(s: &S, ind: usize, out: &mut String) {
    match s {
        S::Let(p, r) => {
            let _ = write!(out, "SLet {} ({})", pp(p), pr(r, ind));
        }
        S::Decl(x) => {
            let _ = write!(out, "SDecl {}", q(x));
        }
        S::Assign(l, r) => {
            let _ = write!(out, "SAssign {} ({})", pl(l), pr(r, ind));
        }
        S::Expr(r) => {
            let _ = write!(out, "SExpr ({})", pr(r, ind));
        }
        S::If(c, a, b) => {
            let _ = write!(out, "SIf ({})", pr(c, ind));
            branch(a, ind, out);
            branch(b, ind, out);
        }
        S::IfSome(p, r, a, b) => {
            let _ = write!(out, "SIfSome {} ({})", pp(p), pr(r, ind));
            branch(a, ind, out);
            branch(b, ind, out);
        }
        S::MatchRes(r, p1, a, p2, b) => {
            let _ = write!(out, "SMatchRes ({})\n{}  {}", pr(r, ind), " ".repeat(ind), pp(p1));
            branch(a, ind, out);
            let _ = write!(out, "\n{}  {}", " ".repeat(ind), pp(p2));
            branch(b, ind, out);
        }
        S::While(c, body) => {
            let _ = write!(out, "SWhile {}", pa(c));
            branch(body, ind, out);
        }
        S::Loop(body) => {
            out.push_str("SLoop");
            branch(body, ind, out);
        }
        S::Ret(r) => {
            let _ = write!(out, "SRet ({})", pr(r, ind));
        }
        S::Unknown(t) => {
            let _ = write!(out, "SUnknown {}", q(t));
        }
    }
}

fn unk_e(e: &E, u: &mut Vec<String>) {
    match e {
        E::Unknown(t) => u.push(t.clone()),
        E::Bin(_, a, b) | E::Cmp(_, a, b) | E::CheckedAdd(a, b) | E::Pair(a, b) => {
            unk_e(a, u);
            unk_e(b, u);
        }
        E::Not(a) | E::Un(_, a) => unk_e(a, u),
        E::Struct(_, fs) => {
            for (_, a) in fs {
                unk_e(a, u);
            }
        }
        _ => {}
    }
}

fn unk_r(r: &R, u: &mut Vec<String>) {
    match r {
        R::Exp(e) => unk_e(e, u),
        R::Prim(_, a) | R::Call(_, a) => {
            for e in a {
                unk_e(e, u);
            }
        }
        R::Map(r1, _, body, tail) => {
            unk_r(r1, u);
            unk_s(body, u);
            unk_r(tail, u);
        }
        R::Wrap(_, r1) | R::Proj(r1, _) => unk_r(r1, u),
        R::OkOr(r1, e) => {
            unk_r(r1, u);
            unk_e(e, u);
        }
    }
}

fn unk_s(l: &[S], u: &mut Vec<String>) {
    for s in l {
        match s {
            S::Let(_, r) | S::Expr(r) | S::Ret(r) => unk_r(r, u),
            S::Assign(l, r) => {
                if let L::Size(e) = l {
                    unk_e(e, u);
                }
                unk_r(r, u);
            }
            S::If(c, a, b) => {
                unk_r(c, u);
                unk_s(a, u);
                unk_s(b, u);
            }
            S::IfSome(_, r, a, b) | S::MatchRes(r, _, a, _, b) => {
                unk_r(r, u);
                unk_s(a, u);
                unk_s(b, u);
            }
            S::While(c, body) => {
                unk_e(c, u);
                unk_s(body, u);
            }
            S::Loop(body) => unk_s(body, u),
            S::Unknown(t) => u.push(t.clone()),
            S::Decl(_) => {}
        }
    }
}

fn coq(fns: &[FnOut]) -> String {
    let mut o = String::new();
    o.push_str("(* GENERATED by /verif/sigdump (sigdump --ops) from src/lib.rs.\n");
    o.push_str("   DO NOT EDIT: tools/op_check.py regenerates this file from the source and recompiles\n");
    o.push_str("   Gen/OpBodiesProps.v against it.  The bodies of the composite operations of LruCache as programs of\n");
    o.push_str("   Gen/OpLang.v. *)\n");
    o.push_str("Require Import LruV.Gen.OpLang.\nImport ListNotations.\nLocal Open Scope string_scope.\nLocal Open Scope list_scope.\n\n");
    for f in fns {
        let _ = writeln!(o, "(* {} *)", f.name);
        let _ = writeln!(o, "Definition {} : fn_decl := {{|", f.ident);
        let _ = writeln!(o, "  fn_name := {};", q(&f.name));
        let ps_: Vec<String> = f.params.iter().map(|p| q(p)).collect();
        let _ = writeln!(o, "  fn_params := [{}];", ps_.join("; "));
        o.push_str("  fn_body := ");
        plist(&f.body, 2, &mut o);
        o.push_str("\n|}.\n\n");
    }
    let ids: Vec<String> = fns.iter().map(|f| f.ident.clone()).collect();
    let _ = writeln!(o, "Definition all_ops : list fn_decl :=\n  [{}].", ids.join(";\n   "));
    let mut unk = vec![];
    for f in fns {
        let mut u = vec![];
        unk_s(&f.body, &mut u);
        for t in u {
            unk.push(format!("({}, {})", q(&f.name), q(&t)));
        }
    }
    let _ = writeln!(o, "\n(* what the translator did not understand (each is a fault in its program) *)");
    if unk.is_empty() {
        o.push_str("Definition translator_unknowns : list (string * string) := [].\n");
    } else {
        let _ = writeln!(o, "Definition translator_unknowns : list (string * string) :=\n  [{}].", unk.join(";\n   "));
    }
    o
}

fn js(s: &str) -> String {
    let mut o = String::from("\"");
    for c in s.chars() {
        match c {
            '"' => o.push_str("\\\""),
            '\\' => o.push_str("\\\\"),
            c if c.is_ascii() && !c.is_ascii_control() => o.push(c),
            _ => o.push('?'),
        }
    }
    o.push('"');
    o
}

fn json(fns: &[FnOut]) -> String {
    let mut items = vec![];
    for f in fns {
        let mut u = vec![];
        unk_s(&f.body, &mut u);
        items.push(format!(
            "  {{\"name\": {}, \"ident\": {}, \"params\": [{}], \"unknown\": [{}]}}",
            js(&f.name),
            js(&f.ident),
            f.params.iter().map(|p| js(p)).collect::<Vec<_>>().join(", "),
            u.iter().map(|p| js(p)).collect::<Vec<_>>().join(", ")
        ));
    }
    format!("{{\"functions\": [\n{}\n]}}\n", items.join(",\n"))
}

pub fn main(args: &[String]) -> i32 {
    let repo = std::env::var("VERIF_REPO").unwrap_or_else(|_| "/repo".to_string());
    let out_v = args.first().cloned().unwrap_or_else(|| "/verif/coq/Gen/OpBodies.v".to_string());
    let out_json = args.get(1).cloned();
    let path = format!("{}/src/lib.rs", repo);
    let s = match std::fs::read_to_string(&path) {
        Ok(s) => s,
        Err(e) => {
            eprintln!("sigdump --ops: cannot read src/lib.rs: {}", e);
            return 2;
        }
    };
    let file = match syn::parse_file(&s) {
        Ok(p) => p,
        Err(e) => {
            eprintln!("sigdump --ops: cannot parse src/lib.rs: {}", e);
            return 2;
        }
    };
    let fns = lru_fns(&file);
    // the getters read as expressions must be what they are today
    let mut getters: BTreeMap<String, &'static str> = BTreeMap::new();
    for (g, body, c) in GETTERS {
        if let Some(v) = fns.get(*g) {
            if v.len() == 1 && v[0].sig.inputs.len() == 1 && v[0].block.stmts.len() == 1 {
                if let syn::Stmt::Expr(e, None) = &v[0].block.stmts[0] {
                    if squash(e) == *body {
                        getters.insert(g.to_string(), c);
                    }
                }
            }
        }
    }
    let mut done: BTreeMap<String, Done> = BTreeMap::new();
    let mut outs = vec![];
    for (name, ident) in TARGETS {
        let (o, arity) = translate_fn(&fns, &done, &getters, name, ident);
        let mut u = vec![];
        unk_s(&o.body, &mut u);
        // only functions that translated without Unknown can be called
        if u.is_empty() {
            done.insert(name.to_string(), Done { ident: ident.to_string(), arity });
        }
        outs.push(o);
    }
    let v = coq(&outs);
    if let Err(e) = crate::write_if_changed(&out_v, &v) {
        eprintln!("sigdump --ops: cannot write {}: {}", out_v, e);
        return 2;
    }
    if let Some(j) = out_json {
        if let Err(e) = crate::write_if_changed(&j, &json(&outs)) {
            eprintln!("sigdump --ops: cannot write {}: {}", j, e);
            return 2;
        }
    }
    let mut n_unknown = 0;
    for f in &outs {
        let mut u = vec![];
        unk_s(&f.body, &mut u);
        for t in &u {
            eprintln!("sigdump --ops: {}: not understood: {}", f.name, t);
        }
        n_unknown += u.len();
    }
    println!("sigdump --ops: {} functions, {} statements not understood", outs.len(), n_unknown);
    0
}
