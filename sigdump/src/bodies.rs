//! Layer P translator (`sigdump --bodies <Bodies.v> [<bodies.json>]`).
//!
//! Translates the bodies of a FIXED list of functions of `$VERIF_REPO/src/{lib,entry,iter}.rs` (the
//! unsafe pointer code of the intrusive list) into programs of the pointer language of
//! `/verif/coq/Gen/PtrLang.v`.  `Gen/BodiesProps.v` proves each program equal to the hand-written
//! transliteration in `B/Heap.v`.
//!
//! Rules of the game:
//!   * purely syntactic, with a small kind environment (EntryPtr / reference to Entry / Entry by
//!     value / struct that has EntryPtr fields / hashbrown bucket);
//!   * a statement that is not recognised becomes `SUnknown "<text>"` (a fault in the semantics),
//!     it is never dropped;
//!   * statements that do not touch the pointer structure become `SOpaque "<tag>"` only through the
//!     explicit recognisers below (`opaque_*`); the tags allowed per function are a whitelist in
//!     `BodiesProps.v`;
//!   * `let` of a name that is already in scope anywhere in the function (shadowing) is Unknown, so
//!     the flat environment of the semantics is faithful to Rust's block scoping;
//!   * output is deterministic: fixed function order, no paths, no line numbers, no timestamps.

use crate::ts;
use std::collections::BTreeMap;
use std::fmt::Write as _;

// ------------------------------------------------------------------------------------------------
// the functions covered, callees first
// ------------------------------------------------------------------------------------------------

#[derive(Clone, Copy, PartialEq, Eq, Debug)]
enum Mode {
    /// the whole body
    Whole,
    /// the whole body, the `for` loop over the moved entries abstracted to one opaque statement
    Outline,
    /// the body of that loop, as a function of the loop variable
    LoopBody,
}

const TARGETS: &[(&str, &str, &str, Mode)] = &[
    // (self type, fn, Coq identifier, mode)
    ("EntryPtr", "unhinge", "entryptr_unhinge", Mode::Whole),
    ("EntryPtr", "insert", "entryptr_insert", Mode::Whole),
    ("Entry", "unhinge", "entry_unhinge", Mode::Whole),
    ("LruCache", "set_head", "lrucache_set_head", Mode::Whole),
    ("LruCache", "touch_ptr", "lrucache_touch_ptr", Mode::Whole),
    ("LruCache", "clear", "lrucache_clear", Mode::Whole),
    ("Drain", "new", "drain_new", Mode::Whole),
    ("LruCache", "move_to_table", "lrucache_move_to_table", Mode::Outline),
    ("LruCache", "move_to_table", "lrucache_move_to_table_loop", Mode::LoopBody),
    ("LruCache", "lru_ptr", "lrucache_lru_ptr", Mode::Whole),
    ("LruCache", "mru_ptr", "lrucache_mru_ptr", Mode::Whole),
    ("Iter", "new", "iter_new", Mode::Whole),
    ("Iter", "next", "iter_next", Mode::Whole),
    ("Iter", "next_back", "iter_next_back", Mode::Whole),
    ("TakingIterator", "new", "takingiterator_new", Mode::Whole),
    ("TakingIterator", "next", "takingiterator_next", Mode::Whole),
    ("TakingIterator", "next_back", "takingiterator_next_back", Mode::Whole),
];

/// the header of the loop of `move_to_table` (whitespace removed): `for (X, H) in <this>`
const MOVE_LOOP_ITER: &str = "old_table.into_iter().zip(hashes)";

/// statements abstracted by their exact text (whitespace removed) -> opaque tag
const OPAQUE_EXACT: &[(&str, &str)] = &[
    ("lethasher=make_hasher(&self.hash_builder);", "make_hasher"),
    (
        "lethashes=unsafe{self.table.iter().map(|bucket|hasher(bucket.as_ref())).collect::<Vec<_>>()};",
        "collect_hashes",
    ),
    ("mem::swap(&mutself.table,&mutold_table)", "swap_tables"),
    ("forentryinself.table.drain(){unsafe{entry.drop();}}", "drain_and_drop_entries"),
    ("letiterator=TakingIterator::new(cache);", "TakingIterator::new"),
];

const INT_TYPES: &[&str] = &["usize", "u64", "u32", "u16", "u8", "isize", "i64", "i32", "i16", "i8"];
const DEREF_METHODS: &[&str] = &["get", "get_mut", "get_extended"];

// ------------------------------------------------------------------------------------------------
// target language
// ------------------------------------------------------------------------------------------------

#[derive(Clone, Debug, PartialEq)]
enum E {
    Var(String),
    Null,
    Deref(Box<E>),
    Prev(Box<E>),
    Next(Box<E>),
}

#[derive(Clone, Debug)]
enum C {
    Eq(E, E),
    IsNull(E),
    Flag(String),
}

#[derive(Clone, Debug)]
enum R {
    None,
    SomePtr(E),
    SomeRefs(E),
    SomeKV(E),
    Cursor(E, E),
}

#[derive(Clone, Debug)]
enum S {
    Let(String, E),
    Assign(String, E),
    LetTake(String, E),
    LetStore(String, String),
    SetPrev(E, E),
    SetNext(E, E),
    If(C, Vec<S>, Vec<S>),
    Call(String, Vec<E>),
    Ret(R),
    Opaque(String),
    Unknown(String),
}

#[derive(Clone, Debug, PartialEq)]
enum Kind {
    /// EntryPtr<K, V>
    Ptr,
    /// &Entry / &mut Entry
    Ref,
    /// Entry by value
    Node,
    /// a struct of the scanned files (its EntryPtr fields are variables `name.field`)
    Container(String),
    /// hashbrown Bucket returned by table.insert
    Bucket,
    /// a parameter or local that carries no pointer (hash, hasher, table ...) or that has been moved
    Other,
}

struct Done {
    ident: String,
    recv: Option<Kind>,
    params: Vec<Kind>,
    flags: usize,
}

pub struct FnOut {
    name: String,
    ident: String,
    file: String,
    params: Vec<String>,
    body: Vec<S>,
}

// ------------------------------------------------------------------------------------------------
// source index
// ------------------------------------------------------------------------------------------------

struct Src<'a> {
    /// struct -> (field, type text)
    structs: BTreeMap<String, Vec<(String, String)>>,
    /// (self type, fn name) -> candidates
    fns: BTreeMap<(String, String), Vec<(&'a syn::ImplItemFn, String)>>,
}

fn type_last_ident(ty: &syn::Type) -> Option<String> {
    match ty {
        syn::Type::Path(p) if p.qself.is_none() => p.path.segments.last().map(|s| s.ident.to_string()),
        syn::Type::Reference(r) => type_last_ident(&r.elem),
        syn::Type::Paren(p) => type_last_ident(&p.elem),
        syn::Type::Group(g) => type_last_ident(&g.elem),
        _ => None,
    }
}

fn is_ref_type(ty: &syn::Type) -> bool {
    match ty {
        syn::Type::Reference(_) => true,
        syn::Type::Paren(p) => is_ref_type(&p.elem),
        syn::Type::Group(g) => is_ref_type(&g.elem),
        _ => false,
    }
}

fn is_cfg_test(attrs: &[syn::Attribute]) -> bool {
    use quote::ToTokens;
    attrs.iter().any(|a| a.path().is_ident("cfg") && a.meta.to_token_stream().to_string().replace(' ', "").contains("(test)"))
}

fn index<'a>(files: &'a [(String, syn::File)]) -> Src<'a> {
    let mut src = Src { structs: BTreeMap::new(), fns: BTreeMap::new() };
    for (fname, f) in files {
        for it in &f.items {
            match it {
                syn::Item::Struct(s) if !is_cfg_test(&s.attrs) => {
                    let mut v = vec![];
                    if let syn::Fields::Named(n) = &s.fields {
                        for fd in &n.named {
                            v.push((fd.ident.as_ref().map(|i| i.to_string()).unwrap_or_default(), ts(&fd.ty)));
                        }
                    }
                    src.structs.insert(s.ident.to_string(), v);
                }
                syn::Item::Impl(im) if !is_cfg_test(&im.attrs) => {
                    let st = match type_last_ident(&im.self_ty) {
                        Some(s) => s,
                        None => continue,
                    };
                    for ii in &im.items {
                        if let syn::ImplItem::Fn(m) = ii {
                            if is_cfg_test(&m.attrs) {
                                continue;
                            }
                            src.fns.entry((st.clone(), m.sig.ident.to_string())).or_default().push((m, fname.clone()));
                        }
                    }
                }
                _ => {}
            }
        }
    }
    src
}

fn ptr_fields(src: &Src, st: &str) -> Vec<String> {
    src.structs
        .get(st)
        .map(|v| v.iter().filter(|(_, t)| t.starts_with("EntryPtr<") || t == "EntryPtr").map(|(n, _)| n.clone()).collect())
        .unwrap_or_default()
}

fn int_field(src: &Src, st: &str, f: &str) -> bool {
    src.structs.get(st).map(|v| v.iter().any(|(n, t)| n == f && INT_TYPES.contains(&t.as_str()))).unwrap_or(false)
}

// ------------------------------------------------------------------------------------------------
// translation
// ------------------------------------------------------------------------------------------------

fn squash<T: quote::ToTokens>(t: &T) -> String {
    t.to_token_stream().to_string().chars().filter(|c| !c.is_whitespace()).collect()
}

fn text<T: quote::ToTokens>(t: &T) -> String {
    let s = ts(t);
    let mut out = String::new();
    let mut sp = false;
    for c in s.chars() {
        if c.is_whitespace() {
            sp = true;
        } else {
            if sp && !out.is_empty() {
                out.push(' ');
            }
            sp = false;
            out.push(if c.is_ascii() { c } else { '?' });
        }
    }
    if out.len() > 240 {
        out.truncate(240);
        out.push_str("...");
    }
    out
}

struct Ctx<'a> {
    src: &'a Src<'a>,
    done: &'a BTreeMap<String, Done>,
    mode: Mode,
    /// every name declared so far in this function, with its kind (names are never reused)
    vars: BTreeMap<String, Kind>,
    flags: Vec<String>,
    loop_body: Option<Vec<S>>,
    loop_var: Option<String>,
    loops_seen: usize,
}

fn path_ident(e: &syn::Expr) -> Option<String> {
    match e {
        syn::Expr::Path(p) if p.qself.is_none() && p.attrs.is_empty() => p.path.get_ident().map(|i| i.to_string()),
        syn::Expr::Paren(p) => path_ident(&p.expr),
        syn::Expr::Group(g) => path_ident(&g.expr),
        _ => None,
    }
}

fn path_text(e: &syn::Expr) -> Option<String> {
    match e {
        syn::Expr::Path(p) if p.qself.is_none() => Some(squash(&p.path)),
        _ => None,
    }
}

fn member_name(m: &syn::Member) -> Option<String> {
    match m {
        syn::Member::Named(i) => Some(i.to_string()),
        _ => None,
    }
}

impl<'a> Ctx<'a> {
    fn declare(&mut self, x: &str, k: Kind) -> bool {
        if self.vars.contains_key(x) {
            return false;
        }
        self.vars.insert(x.to_string(), k);
        true
    }

    /// pointer-, reference- or node-valued expressions
    fn expr(&self, e: &syn::Expr) -> Option<(E, Kind)> {
        match e {
            syn::Expr::Paren(p) => self.expr(&p.expr),
            syn::Expr::Group(g) => self.expr(&g.expr),
            syn::Expr::Unsafe(u) if u.attrs.is_empty() => {
                // unsafe { e }
                if u.block.stmts.len() == 1 {
                    if let syn::Stmt::Expr(inner, None) = &u.block.stmts[0] {
                        return self.expr(inner);
                    }
                }
                None
            }
            syn::Expr::Path(_) => {
                let x = path_ident(e)?;
                match self.vars.get(&x)? {
                    k @ (Kind::Ptr | Kind::Ref | Kind::Node) => Some((E::Var(x), k.clone())),
                    _ => None,
                }
            }
            syn::Expr::Unary(u) => {
                // *self in a method of EntryPtr taking &self / &mut self: the pointer itself
                if let syn::UnOp::Deref(_) = u.op {
                    if path_ident(&u.expr).as_deref() == Some("self") && self.vars.get("self") == Some(&Kind::Ptr) {
                        return Some((E::Var("self".into()), Kind::Ptr));
                    }
                }
                None
            }
            syn::Expr::Field(f) => {
                let m = member_name(&f.member)?;
                if let Some(x) = path_ident(&f.base) {
                    if let Some(Kind::Container(st)) = self.vars.get(&x) {
                        if ptr_fields(self.src, st).contains(&m) {
                            return Some((E::Var(format!("{}.{}", x, m)), Kind::Ptr));
                        }
                        return None;
                    }
                }
                let (b, k) = self.expr(&f.base)?;
                if k != Kind::Ref && k != Kind::Node {
                    return None;
                }
                match m.as_str() {
                    "prev" => Some((E::Prev(Box::new(b)), Kind::Ptr)),
                    "next" => Some((E::Next(Box::new(b)), Kind::Ptr)),
                    _ => None,
                }
            }
            syn::Expr::MethodCall(mc) => {
                let m = mc.method.to_string();
                if DEREF_METHODS.contains(&m.as_str()) && mc.args.is_empty() && mc.turbofish.is_none() {
                    let (r, k) = self.expr(&mc.receiver)?;
                    if k == Kind::Ptr {
                        return Some((E::Deref(Box::new(r)), Kind::Ref));
                    }
                }
                None
            }
            syn::Expr::Call(c) => {
                let f = path_text(&c.func)?;
                if f == "EntryPtr::null" && c.args.is_empty() {
                    return Some((E::Null, Kind::Ptr));
                }
                if f == "EntryPtr::new" && c.args.len() == 1 {
                    // EntryPtr::new(bucket.as_ptr())
                    if let syn::Expr::MethodCall(mc) = &c.args[0] {
                        if mc.method == "as_ptr" && mc.args.is_empty() {
                            if let Some(b) = path_ident(&mc.receiver) {
                                if self.vars.get(&b) == Some(&Kind::Bucket) {
                                    return Some((E::Var(b), Kind::Ptr));
                                }
                            }
                        }
                    }
                }
                None
            }
            _ => None,
        }
    }

    fn ptr_expr(&self, e: &syn::Expr) -> Option<E> {
        match self.expr(e)? {
            (x, Kind::Ptr) => Some(x),
            _ => None,
        }
    }

    fn cond(&mut self, e: &syn::Expr) -> Option<C> {
        match e {
            syn::Expr::Paren(p) => self.cond(&p.expr),
            syn::Expr::Binary(b) => {
                if let syn::BinOp::Eq(_) = b.op {
                    let l = self.ptr_expr(&b.left)?;
                    let r = self.ptr_expr(&b.right)?;
                    return Some(C::Eq(l, r));
                }
                None
            }
            syn::Expr::MethodCall(mc) if mc.args.is_empty() && mc.turbofish.is_none() => {
                let m = mc.method.to_string();
                if m == "is_null" {
                    return Some(C::IsNull(self.ptr_expr(&mc.receiver)?));
                }
                if m == "is_empty" {
                    let x = path_ident(&mc.receiver)?;
                    if let Some(Kind::Container(_)) = self.vars.get(&x) {
                        let name = format!("{}.is_empty()", x);
                        if !self.flags.contains(&name) {
                            self.flags.push(name.clone());
                        }
                        return Some(C::Flag(name));
                    }
                }
                None
            }
            _ => None,
        }
    }

    /// a call of an already translated function
    fn call(&self, mc: &syn::ExprMethodCall) -> Option<S> {
        if mc.turbofish.is_some() {
            return None;
        }
        let m = mc.method.to_string();
        let mut args: Vec<E> = vec![];
        let (qname, recv_kind);
        if let Some(Kind::Container(st)) = path_ident(&mc.receiver).and_then(|x| self.vars.get(&x).cloned()) {
            let x = path_ident(&mc.receiver)?;
            qname = format!("{}::{}", st, m);
            for f in ptr_fields(self.src, &st) {
                args.push(E::Var(format!("{}.{}", x, f)));
            }
            recv_kind = Kind::Container(st);
        } else {
            let (r, k) = self.expr(&mc.receiver)?;
            if k != Kind::Ptr {
                return None;
            }
            qname = format!("EntryPtr::{}", m);
            args.push(r);
            recv_kind = Kind::Ptr;
        }
        let d = self.done.get(&qname)?;
        if d.recv.as_ref() != Some(&recv_kind) || d.flags != 0 || d.params.len() != mc.args.len() {
            return None;
        }
        for (a, k) in mc.args.iter().zip(d.params.iter()) {
            if *k != Kind::Ptr {
                return None;
            }
            args.push(self.ptr_expr(a)?);
        }
        Some(S::Call(d.ident.clone(), args))
    }

    fn opaque_exact<T: quote::ToTokens>(&self, t: &T) -> Option<S> {
        let sq = squash(t);
        OPAQUE_EXACT.iter().find(|(p, _)| *p == sq).map(|(_, tag)| S::Opaque(tag.to_string()))
    }

    /// `Name { f: v, .. }` whose field values only move locals / fields of `self` around
    fn opaque_struct(&self, s: &syn::ExprStruct) -> Option<S> {
        if s.rest.is_some() || s.qself.is_some() {
            return None;
        }
        for f in &s.fields {
            let ok = match &f.expr {
                syn::Expr::Path(_) => path_ident(&f.expr).is_some(),
                syn::Expr::Field(fe) => path_ident(&fe.base).is_some(),
                syn::Expr::MethodCall(mc) => {
                    mc.method == "assume_init"
                        && mc.args.is_empty()
                        && matches!(&*mc.receiver, syn::Expr::Field(fe) if path_ident(&fe.base).as_deref() == Some("self"))
                }
                _ => false,
            };
            if !ok {
                return None;
            }
        }
        Some(S::Opaque(format!("build:{}", squash(&s.path))))
    }

    /// Iter { next: e1, next_back: e2, lifetime: PhantomData }
    fn cursor_struct(&self, s: &syn::ExprStruct) -> Option<S> {
        if s.rest.is_some() || s.qself.is_some() {
            return None;
        }
        let name = squash(&s.path);
        if ptr_fields(self.src, &name) != vec!["next".to_string(), "next_back".to_string()] {
            return None;
        }
        let (mut a, mut b) = (None, None);
        for f in &s.fields {
            let m = member_name(&f.member)?;
            match m.as_str() {
                "next" if a.is_none() => a = Some(self.ptr_expr(&f.expr)?),
                "next_back" if b.is_none() => b = Some(self.ptr_expr(&f.expr)?),
                _ => {
                    if path_text(&f.expr).as_deref() != Some("PhantomData") {
                        return None;
                    }
                }
            }
        }
        Some(S::Ret(R::Cursor(a?, b?)))
    }

    /// the value of the function
    fn tail(&mut self, e: &syn::Expr, out: &mut Vec<S>) {
        match e {
            syn::Expr::Paren(p) => return self.tail(&p.expr, out),
            syn::Expr::Unsafe(u) if u.attrs.is_empty() => return self.block(&u.block, true, out),
            syn::Expr::Block(b) if b.attrs.is_empty() && b.label.is_none() => return self.block(&b.block, true, out),
            syn::Expr::If(_) => return self.if_(e, true, out),
            syn::Expr::Path(_) => {
                if path_text(e).as_deref() == Some("None") {
                    out.push(S::Ret(R::None));
                    return;
                }
            }
            syn::Expr::Call(c) => {
                if path_text(&c.func).as_deref() == Some("Some") && c.args.len() == 1 {
                    let a = &c.args[0];
                    if let Some(p) = self.ptr_expr(a) {
                        out.push(S::Ret(R::SomePtr(p)));
                        return;
                    }
                    // Some((x.key(), x.value()))
                    if let syn::Expr::Tuple(t) = a {
                        if t.elems.len() == 2 {
                            let get = |e: &syn::Expr, name: &str| -> Option<String> {
                                if let syn::Expr::MethodCall(mc) = e {
                                    if mc.method == name && mc.args.is_empty() {
                                        return path_ident(&mc.receiver);
                                    }
                                }
                                None
                            };
                            if let (Some(x), Some(y)) = (get(&t.elems[0], "key"), get(&t.elems[1], "value")) {
                                if x == y && self.vars.get(&x) == Some(&Kind::Ref) {
                                    out.push(S::Ret(R::SomeRefs(E::Var(x))));
                                    return;
                                }
                            }
                        }
                    }
                    // Some(x.into_key_value())
                    if let syn::Expr::MethodCall(mc) = a {
                        if mc.method == "into_key_value" && mc.args.is_empty() {
                            if let Some(x) = path_ident(&mc.receiver) {
                                if self.vars.get(&x) == Some(&Kind::Node) {
                                    self.vars.insert(x.clone(), Kind::Other);
                                    out.push(S::Ret(R::SomeKV(E::Var(x))));
                                    return;
                                }
                            }
                        }
                    }
                }
            }
            syn::Expr::Struct(s) => {
                if let Some(st) = self.cursor_struct(s).or_else(|| self.opaque_struct(s)) {
                    out.push(st);
                    return;
                }
            }
            syn::Expr::MethodCall(_) | syn::Expr::ForLoop(_) | syn::Expr::Assign(_) => {
                // a unit-valued last expression written without the semicolon
                return self.expr_stmt(e, out);
            }
            _ => {}
        }
        out.push(S::Unknown(text(e)));
    }

    fn if_(&mut self, e: &syn::Expr, tail: bool, out: &mut Vec<S>) {
        let i = match e {
            syn::Expr::If(i) if i.attrs.is_empty() => i,
            _ => {
                out.push(S::Unknown(text(e)));
                return;
            }
        };
        let c = match self.cond(&i.cond) {
            Some(c) => c,
            None => {
                out.push(S::Unknown(text(e)));
                return;
            }
        };
        let mut a = vec![];
        self.block(&i.then_branch, tail, &mut a);
        let mut b = vec![];
        match &i.else_branch {
            None => {
                if tail {
                    // an if without else in value position has type (): nothing to return
                }
            }
            Some((_, eb)) => match &**eb {
                syn::Expr::Block(bl) if bl.attrs.is_empty() && bl.label.is_none() => self.block(&bl.block, tail, &mut b),
                syn::Expr::If(_) => self.if_(eb, tail, &mut b),
                other => b.push(S::Unknown(text(other))),
            },
        }
        out.push(S::If(c, a, b));
    }

    fn block(&mut self, b: &syn::Block, tail: bool, out: &mut Vec<S>) {
        let n = b.stmts.len();
        for (k, st) in b.stmts.iter().enumerate() {
            let last = k + 1 == n;
            match st {
                syn::Stmt::Local(l) => self.local(l, out),
                syn::Stmt::Expr(e, None) if last && tail => self.tail(e, out),
                syn::Stmt::Expr(e, _) => self.expr_stmt(e, out),
                other => out.push(S::Unknown(text(other))),
            }
        }
    }

    fn local(&mut self, l: &syn::Local, out: &mut Vec<S>) {
        if let Some(s) = self.opaque_exact(l) {
            out.push(s);
            return;
        }
        let unknown = S::Unknown(text(l));
        let x = match &l.pat {
            syn::Pat::Ident(p) if p.by_ref.is_none() && p.subpat.is_none() && p.attrs.is_empty() => p.ident.to_string(),
            _ => {
                out.push(unknown);
                return;
            }
        };
        let init = match &l.init {
            Some(i) if i.diverge.is_none() && l.attrs.is_empty() => &*i.expr,
            _ => {
                out.push(unknown);
                return;
            }
        };
        if self.vars.contains_key(&x) {
            out.push(S::Unknown(format!("shadowing: {}", text(l))));
            return;
        }
        // let x = p.read()   (possibly inside unsafe { })
        let mut core = init;
        loop {
            match core {
                syn::Expr::Paren(p) => core = &p.expr,
                syn::Expr::Unsafe(u) if u.block.stmts.len() == 1 => {
                    if let syn::Stmt::Expr(inner, None) = &u.block.stmts[0] {
                        core = inner;
                    } else {
                        break;
                    }
                }
                _ => break,
            }
        }
        if let syn::Expr::MethodCall(mc) = core {
            if mc.method == "read" && mc.args.is_empty() && mc.turbofish.is_none() {
                if let Some(p) = self.ptr_expr(&mc.receiver) {
                    self.declare(&x, Kind::Node);
                    out.push(S::LetTake(x, p));
                    return;
                }
            }
            // let bucket = self.table.insert(hash, entry, &hasher)
            if mc.method == "insert" && mc.args.len() == 3 && squash(&mc.receiver) == "self.table" && squash(&mc.args[2]) == "&hasher" {
                if let (Some(h), Some(y)) = (path_ident(&mc.args[0]), path_ident(&mc.args[1])) {
                    if self.vars.get(&h) == Some(&Kind::Other) && self.vars.get(&y) == Some(&Kind::Node) {
                        self.vars.insert(y.clone(), Kind::Other);
                        self.declare(&x, Kind::Bucket);
                        out.push(S::LetStore(x, y));
                        return;
                    }
                }
            }
        }
        match self.expr(init) {
            Some((e, k @ (Kind::Ptr | Kind::Ref))) => {
                self.declare(&x, k);
                out.push(S::Let(x, e));
            }
            _ => out.push(unknown),
        }
    }

    fn expr_stmt(&mut self, e: &syn::Expr, out: &mut Vec<S>) {
        if let Some(s) = self.opaque_exact(e) {
            out.push(s);
            return;
        }
        match e {
            syn::Expr::Paren(p) => return self.expr_stmt(&p.expr, out),
            syn::Expr::Unsafe(u) if u.attrs.is_empty() => return self.block(&u.block, false, out),
            syn::Expr::Block(b) if b.attrs.is_empty() && b.label.is_none() => return self.block(&b.block, false, out),
            syn::Expr::If(_) => return self.if_(e, false, out),
            syn::Expr::Assign(a) if a.attrs.is_empty() => {
                if let syn::Expr::Field(f) = &*a.left {
                    if let Some(m) = member_name(&f.member) {
                        // x.field = ..  on a struct parameter
                        if let Some(Kind::Container(st)) = path_ident(&f.base).and_then(|x| self.vars.get(&x).cloned()) {
                            let x = path_ident(&f.base).unwrap();
                            if ptr_fields(self.src, &st).contains(&m) {
                                if let Some(r) = self.ptr_expr(&a.right) {
                                    out.push(S::Assign(format!("{}.{}", x, m), r));
                                    return;
                                }
                            } else if int_field(self.src, &st, &m) {
                                if let syn::Expr::Lit(l) = &*a.right {
                                    if let syn::Lit::Int(i) = &l.lit {
                                        out.push(S::Opaque(format!("{}={}", m, i.base10_digits())));
                                        return;
                                    }
                                }
                            }
                        } else if let Some((b, Kind::Ref)) = self.expr(&f.base) {
                            // r.prev = p / r.next = p through a reference
                            if let Some(r) = self.ptr_expr(&a.right) {
                                match m.as_str() {
                                    "prev" => {
                                        out.push(S::SetPrev(b, r));
                                        return;
                                    }
                                    "next" => {
                                        out.push(S::SetNext(b, r));
                                        return;
                                    }
                                    _ => {}
                                }
                            }
                        }
                    }
                }
            }
            syn::Expr::MethodCall(mc) if mc.attrs.is_empty() => {
                if let Some(s) = self.call(mc) {
                    out.push(s);
                    return;
                }
                // x.table.clear_no_drop()
                if mc.method == "clear_no_drop" && mc.args.is_empty() {
                    if let syn::Expr::Field(f) = &*mc.receiver {
                        if member_name(&f.member).as_deref() == Some("table") {
                            if let Some(Kind::Container(_)) = path_ident(&f.base).and_then(|x| self.vars.get(&x).cloned()) {
                                out.push(S::Opaque("table.clear_no_drop".into()));
                                return;
                            }
                        }
                    }
                }
            }
            syn::Expr::ForLoop(fl) if fl.attrs.is_empty() && fl.label.is_none() => {
                self.loops_seen += 1;
                if self.mode != Mode::Whole && squash(&fl.expr) == MOVE_LOOP_ITER {
                    if let syn::Pat::Tuple(t) = &*fl.pat {
                        let ids: Vec<Option<String>> = t
                            .elems
                            .iter()
                            .map(|p| match p {
                                syn::Pat::Ident(i) if i.by_ref.is_none() && i.subpat.is_none() => Some(i.ident.to_string()),
                                _ => None,
                            })
                            .collect();
                        if ids.len() == 2 && ids.iter().all(|i| i.is_some()) && self.loop_body.is_none() {
                            let (x, h) = (ids[0].clone().unwrap(), ids[1].clone().unwrap());
                            if self.declare(&x, Kind::Node) && self.declare(&h, Kind::Other) {
                                let mut body = vec![];
                                self.block(&fl.body, false, &mut body);
                                self.loop_body = Some(body);
                                self.loop_var = Some(x);
                                out.push(S::Opaque("for:moved-entries".into()));
                                return;
                            }
                        }
                    }
                }
            }
            _ => {}
        }
        out.push(S::Unknown(text(e)));
    }
}

fn translate_fn(src: &Src, done: &BTreeMap<String, Done>, st: &str, name: &str, ident: &str, mode: Mode) -> (FnOut, Option<Done>) {
    let qname = match mode {
        Mode::LoopBody => format!("{}::{}#loop", st, name),
        _ => format!("{}::{}", st, name),
    };
    let fail = |msg: String| {
        (FnOut { name: qname.clone(), ident: ident.to_string(), file: String::new(), params: vec![], body: vec![S::Unknown(msg)] }, None)
    };
    let cands = src.fns.get(&(st.to_string(), name.to_string())).cloned().unwrap_or_default();
    if cands.len() != 1 {
        return fail(format!("{} definitions of {}::{} found in the scanned files", cands.len(), st, name));
    }
    let (f, file) = (cands[0].0, cands[0].1.clone());
    let mut cx = Ctx { src, done, mode, vars: BTreeMap::new(), flags: vec![], loop_body: None, loop_var: None, loops_seen: 0 };
    let mut params: Vec<String> = vec![];
    let mut recv: Option<Kind> = None;
    let mut pkinds: Vec<Kind> = vec![];
    for a in &f.sig.inputs {
        match a {
            syn::FnArg::Receiver(r) => {
                let by_ref = r.reference.is_some();
                if r.colon_token.is_some() {
                    return fail(format!("typed receiver in {}", qname));
                }
                let k = match st {
                    "EntryPtr" => Kind::Ptr,
                    "Entry" => {
                        if by_ref {
                            Kind::Ref
                        } else {
                            Kind::Node
                        }
                    }
                    s if src.structs.contains_key(s) => Kind::Container(s.to_string()),
                    _ => return fail(format!("receiver of unknown type {}", st)),
                };
                match &k {
                    Kind::Container(s) => {
                        for fd in ptr_fields(src, s) {
                            params.push(format!("self.{}", fd));
                        }
                    }
                    _ => params.push("self".into()),
                }
                cx.vars.insert("self".into(), k.clone());
                recv = Some(k);
            }
            syn::FnArg::Typed(t) => {
                let x = match &*t.pat {
                    syn::Pat::Ident(p) if p.by_ref.is_none() && p.subpat.is_none() => p.ident.to_string(),
                    other => return fail(format!("parameter pattern {} in {}", text(other), qname)),
                };
                let head = type_last_ident(&t.ty).unwrap_or_default();
                let k = match head.as_str() {
                    "EntryPtr" if !is_ref_type(&t.ty) => Kind::Ptr,
                    "Entry" => {
                        if is_ref_type(&t.ty) {
                            Kind::Ref
                        } else {
                            Kind::Node
                        }
                    }
                    s if src.structs.contains_key(s) && s != "EntryPtr" => Kind::Container(s.to_string()),
                    _ => Kind::Other,
                };
                match &k {
                    Kind::Container(s) => {
                        for fd in ptr_fields(src, s) {
                            params.push(format!("{}.{}", x, fd));
                        }
                    }
                    Kind::Other => {}
                    _ => params.push(x.clone()),
                }
                if cx.vars.insert(x.clone(), k.clone()).is_some() {
                    return fail(format!("parameter {} declared twice in {}", x, qname));
                }
                pkinds.push(k);
            }
        }
    }
    let mut body = vec![];
    cx.block(&f.block, true, &mut body);
    match mode {
        Mode::Whole => {}
        Mode::Outline => {
            if cx.loop_body.is_none() {
                body.push(S::Unknown(format!("the loop over {} was not found", MOVE_LOOP_ITER)));
            }
        }
        Mode::LoopBody => {
            params = vec![cx.loop_var.clone().unwrap_or_else(|| "entry".into())];
            body = match cx.loop_body.take() {
                Some(b) => b,
                None => vec![S::Unknown(format!("the loop over {} was not found", MOVE_LOOP_ITER))],
            };
            return (FnOut { name: qname, ident: ident.to_string(), file, params, body }, None);
        }
    }
    for fl in &cx.flags {
        params.push(fl.clone());
    }
    let done_entry = Done { ident: ident.to_string(), recv, params: pkinds, flags: cx.flags.len() };
    (FnOut { name: qname, ident: ident.to_string(), file, params, body }, Some(done_entry))
}

// ------------------------------------------------------------------------------------------------
// emission
// ------------------------------------------------------------------------------------------------

fn q(s: &str) -> String {
    let mut o = String::from("\"");
    for c in s.chars() {
        match c {
            '"' => o.push_str("\"\""),
            c if c.is_ascii() && !c.is_ascii_control() => o.push(c),
            _ => o.push('?'),
        }
    }
    o.push('"');
    o
}

fn pe(e: &E) -> String {
    match e {
        E::Var(x) => format!("EVar {}", q(x)),
        E::Null => "ENull".into(),
        E::Deref(a) => format!("EDeref ({})", pe(a)),
        E::Prev(a) => format!("EPrev ({})", pe(a)),
        E::Next(a) => format!("ENext ({})", pe(a)),
    }
}

fn pa(e: &E) -> String {
    match e {
        E::Null => "ENull".into(),
        _ => format!("({})", pe(e)),
    }
}

fn pc(c: &C) -> String {
    match c {
        C::Eq(a, b) => format!("CEq {} {}", pa(a), pa(b)),
        C::IsNull(a) => format!("CIsNull {}", pa(a)),
        C::Flag(x) => format!("CFlag {}", q(x)),
    }
}

fn pr(r: &R) -> String {
    match r {
        R::None => "RNone".into(),
        R::SomePtr(a) => format!("RSomePtr {}", pa(a)),
        R::SomeRefs(a) => format!("RSomeRefs {}", pa(a)),
        R::SomeKV(a) => format!("RSomeKV {}", pa(a)),
        R::Cursor(a, b) => format!("RCursor {} {}", pa(a), pa(b)),
    }
}

fn plist(l: &[S], ind: usize, out: &mut String) {
    let pad = " ".repeat(ind);
    if l.is_empty() {
        out.push_str("seq []");
        return;
    }
    out.push_str("seq [\n");
    for (k, s) in l.iter().enumerate() {
        out.push_str(&pad);
        out.push_str("  ");
        ps(s, ind + 2, out);
        if k + 1 < l.len() {
            out.push(';');
        }
        out.push('\n');
    }
    out.push_str(&pad);
    out.push(']');
}

fn ps(s: &S, ind: usize, out: &mut String) {
    match s {
        S::Let(x, e) => {
            let _ = write!(out, "SLet {} {}", q(x), pa(e));
        }
        S::Assign(x, e) => {
            let _ = write!(out, "SAssign {} {}", q(x), pa(e));
        }
        S::LetTake(x, e) => {
            let _ = write!(out, "SLetTake {} {}", q(x), pa(e));
        }
        S::LetStore(x, y) => {
            let _ = write!(out, "SLetStore {} {}", q(x), q(y));
        }
        S::SetPrev(a, b) => {
            let _ = write!(out, "SSetPrev {} {}", pa(a), pa(b));
        }
        S::SetNext(a, b) => {
            let _ = write!(out, "SSetNext {} {}", pa(a), pa(b));
        }
        S::If(c, a, b) => {
            let _ = write!(out, "SIf ({})\n{}  (", pc(c), " ".repeat(ind));
            plist(a, ind + 2, out);
            let _ = write!(out, ")\n{}  (", " ".repeat(ind));
            plist(b, ind + 2, out);
            out.push(')');
        }
        S::Call(f, args) => {
            let a: Vec<String> = args.iter().map(pe).collect();
            let _ = write!(out, "call {} [{}]", f, a.join("; "));
        }
        S::Ret(r) => {
            let _ = write!(out, "SRet ({})", pr(r));
        }
        S::Opaque(t) => {
            let _ = write!(out, "SOpaque {}", q(t));
        }
        S::Unknown(t) => {
            let _ = write!(out, "SUnknown {}", q(t));
        }
    }
}

fn collect(l: &[S], unknown: &mut Vec<String>, opaque: &mut Vec<String>) {
    for s in l {
        match s {
            S::Unknown(t) => unknown.push(t.clone()),
            S::Opaque(t) => opaque.push(t.clone()),
            S::If(_, a, b) => {
                collect(a, unknown, opaque);
                collect(b, unknown, opaque);
            }
            _ => {}
        }
    }
}

fn coq(fns: &[FnOut]) -> String {
    let mut o = String::new();
    o.push_str("(* GENERATED by /verif/sigdump (sigdump --bodies) from src/entry.rs, src/lib.rs, src/iter.rs.\n");
    o.push_str("   DO NOT EDIT: tools/body_check.py regenerates this file from the source and recompiles\n");
    o.push_str("   Gen/BodiesProps.v against it.  The bodies of the pointer functions as programs of Gen/PtrLang.v. *)\n");
    o.push_str("Require Import LruV.Gen.PtrLang.\nImport ListNotations.\nLocal Open Scope string_scope.\nLocal Open Scope list_scope.\n\n");
    for f in fns {
        let _ = writeln!(o, "(* {}{} *)", f.name, if f.file.is_empty() { String::new() } else { format!("  ({})", f.file) });
        let _ = writeln!(o, "Definition {} : fn_decl := {{|", f.ident);
        let _ = writeln!(o, "  fn_name := {};", q(&f.name));
        let ps_: Vec<String> = f.params.iter().map(|p| q(p)).collect();
        let _ = writeln!(o, "  fn_params := [{}];", ps_.join("; "));
        o.push_str("  fn_body := ");
        plist(&f.body, 2, &mut o);
        o.push_str("\n|}.\n\n");
    }
    let ids: Vec<String> = fns.iter().map(|f| f.ident.clone()).collect();
    let _ = writeln!(o, "Definition all_fns : list fn_decl :=\n  [{}].", ids.join("; "));
    let mut unk = vec![];
    for f in fns {
        let (mut u, mut op) = (vec![], vec![]);
        collect(&f.body, &mut u, &mut op);
        for t in u {
            unk.push(format!("({}, {})", q(&f.name), q(&t)));
        }
    }
    let _ = writeln!(o, "\n(* statements the translator did not understand (each is a fault in its program) *)");
    if unk.is_empty() {
        o.push_str("Definition translator_unknowns : list (string * string) := [].\n");
    } else {
        let _ = writeln!(o, "Definition translator_unknowns : list (string * string) :=\n  [{}].", unk.join(";\n   "));
    }
    o
}

fn js(s: &str) -> String {
    let mut o = String::from("\"");
    for c in s.chars() {
        match c {
            '"' => o.push_str("\\\""),
            '\\' => o.push_str("\\\\"),
            c if c.is_ascii() && !c.is_ascii_control() => o.push(c),
            _ => o.push('?'),
        }
    }
    o.push('"');
    o
}

fn json(fns: &[FnOut]) -> String {
    let mut items = vec![];
    for f in fns {
        let (mut u, mut op) = (vec![], vec![]);
        collect(&f.body, &mut u, &mut op);
        items.push(format!(
            "  {{\"name\": {}, \"ident\": {}, \"file\": {}, \"params\": [{}], \"unknown\": [{}], \"opaque\": [{}]}}",
            js(&f.name),
            js(&f.ident),
            js(&f.file),
            f.params.iter().map(|p| js(p)).collect::<Vec<_>>().join(", "),
            u.iter().map(|p| js(p)).collect::<Vec<_>>().join(", "),
            op.iter().map(|p| js(p)).collect::<Vec<_>>().join(", ")
        ));
    }
    format!("{{\"functions\": [\n{}\n]}}\n", items.join(",\n"))
}

pub fn main(args: &[String]) -> i32 {
    let repo = std::env::var("VERIF_REPO").unwrap_or_else(|_| "/repo".to_string());
    let out_v = args.first().cloned().unwrap_or_else(|| "/verif/coq/Gen/Bodies.v".to_string());
    let out_json = args.get(1).cloned();
    let mut parsed = vec![];
    for f in ["src/entry.rs", "src/lib.rs", "src/iter.rs"] {
        let path = format!("{}/{}", repo, f);
        let s = match std::fs::read_to_string(&path) {
            Ok(s) => s,
            Err(e) => {
                eprintln!("sigdump --bodies: cannot read {}: {}", f, e);
                return 2;
            }
        };
        match syn::parse_file(&s) {
            Ok(p) => parsed.push((f.to_string(), p)),
            Err(e) => {
                eprintln!("sigdump --bodies: cannot parse {}: {}", f, e);
                return 2;
            }
        }
    }
    let src = index(&parsed);
    let mut done: BTreeMap<String, Done> = BTreeMap::new();
    let mut outs = vec![];
    for (st, name, ident, mode) in TARGETS {
        let (o, d) = translate_fn(&src, &done, st, name, ident, *mode);
        if let Some(d) = d {
            let clean = {
                let (mut u, mut op) = (vec![], vec![]);
                collect(&o.body, &mut u, &mut op);
                u.is_empty()
            };
            // only functions that translated without Unknown, return nothing and take pointers can be callees
            if clean && *mode == Mode::Whole {
                done.insert(o.name.clone(), d);
            }
        }
        outs.push(o);
    }
    let v = coq(&outs);
    if let Err(e) = crate::write_if_changed(&out_v, &v) {
        eprintln!("sigdump --bodies: cannot write {}: {}", out_v, e);
        return 2;
    }
    if let Some(j) = out_json {
        if let Err(e) = crate::write_if_changed(&j, &json(&outs)) {
            eprintln!("sigdump --bodies: cannot write {}: {}", j, e);
            return 2;
        }
    }
    let mut n_unknown = 0;
    for f in &outs {
        let (mut u, mut op) = (vec![], vec![]);
        collect(&f.body, &mut u, &mut op);
        for t in &u {
            eprintln!("sigdump --bodies: {}: not understood: {}", f.name, t);
        }
        n_unknown += u.len();
    }
    println!("sigdump --bodies: {} functions, {} statements not understood", outs.len(), n_unknown);
    0
}
