//! Pass 2: the may-write call graph, and the source/fresh split of `LruCache::clone`.
//!
//! "Write primitive" = a syntactic construct through which memory that is not a plain local
//! binding may be modified:
//!   * assignment (`=`, `+=`, ...) whose left-hand side goes through a dereference, an index, a
//!     method/function result, a field of a local other than `self` (it may auto-deref a
//!     reference), or a field of `self` in a type whose storage is cache memory
//!     (`LruCache`, `Entry`, `EntryPtr`);
//!   * `&mut` of any such place (a mutable reborrow through a pointer);
//!   * a call of a method whose *name* is a known mutator (list below: `get_mut`, `as_mut`,
//!     `value_mut`, `assume_init_mut`, `unhinge`, `insert`, every `&mut self` method of hashbrown's
//!     `RawTable`, raw-pointer writers, interior-mutability setters, ...);
//!   * a call of `ptr::write*`, `ptr::drop_in_place`, `ptr::copy*`, `ptr::swap`, `mem::swap`,
//!     `mem::replace`, `mem::take`, `Box::from_raw`, `drop`;
//!   * anything that is not recognised: a method that is neither defined in the crate nor on the
//!     read-only list, a call through a non-path expression, an unknown function path, a macro
//!     whose arguments do not parse as expressions, an unknown macro, `ref mut` patterns, verbatim
//!     or otherwise unsupported expressions.  These are reported as warnings as well.
//! Not a write primitive (recorded separately as "own-state"): `self.f = ..` (one field deep) in
//! a `&mut self`/`mut self` method of a type that is not cache memory (the iterator structs: the
//! cursor of an iterator belongs to whoever holds the iterator); plain rebinding of a local
//! (`x = ..`).
//!
//! Callees: path calls `T::f` with `T` a crate type (or `Self`) resolve exactly; single-segment
//! paths resolve to the crate's free function or are calls of a local closure/callback; method
//! calls resolve exactly when the receiver is literally `self` and the impl'd type has a method of
//! that name, otherwise to *every* crate method of that name; operators add edges to the
//! corresponding trait method names (`==` -> `eq`, ...), `for` adds `into_iter`/`next`, `?` adds
//! `from`.  A receiver that is a parameter or `let` binding with a declared type whose head (through
//! `&`/`&mut`) is a scanned type resolves like `self` (only when the name has no other binding in
//! the function).  A path to a scanned function that is used as a value (`.map(Self::f)`) is an edge.
//!
//! Implicit drops.  No `drop` call is written where a value goes out of scope, is overwritten, or is
//! dropped while a panic unwinds.  `drop_glue(T)` is a pseudo function per scanned type `T` whose
//! drop runs code of the scanned files: it calls `T::drop` (the `impl Drop for T`, if any) and the
//! glue of every scanned type that occurs by value in a field of `T`.  A body gets an edge to
//! `drop_glue(T)` for every `T` a value of which may exist in it, regardless of control flow (so
//! scope ends, early returns, `?`, overwriting assignments and unwinding are all covered):
//!   (a) a struct literal `T { .. }` / `Self { .. }`, a tuple-struct constructor `T(..)`, a unit struct `T`;
//!   (b) a call or method call (operators, `for`, `?` included): every type that occurs by value in
//!       the declared return type of every scanned function the edge resolves to (`Self` and
//!       `Self::Assoc` resolved; through `Option`, `Result`, tuples, `Box`, any generic argument).
//!       A callee whose return type hides a type (`impl Trait`, `dyn Trait`) passes on every
//!       `drop_glue` edge of its own body (fixed point);
//!   (c) a parameter taken by value (a by-value `self` included), a `let` or closure parameter with
//!       a declared type: every type that occurs by value in the declared type;
//!   (d) fields: through `drop_glue`;
//!   (e) a value copied out from behind a pointer by foreign code on the read-only list
//!       (`ptr::read`, `.read()`, `.assume_init_read()`, `.cloned()`, `.to_owned()`, `.clone()` that
//!       resolves to no scanned function, `Default::default()`): its type is not written anywhere, so
//!       every droppable type reachable (through fields, also behind pointers) from a type the
//!       function mentions is counted.  (`take`, `replace`, `swap`, `pop`, `remove`, ... are write
//!       primitives themselves.)
//! Type parameters (`K`, `V`, `S`, ...) are user types: their drops are user code, not edges.
//! Not an edge, recorded as `fresh_drops`: the implicit drop of a value returned by
//! `LruCache::clone` (it is the cache clone built; see the clone split below).

use crate::{head_through_refs, owned_idents, ts, CloneAnalysis, FnDecl, GlueNode, Owned, Recv, TypeDef, CACHE_MEMORY_TYPES, CACHE_TYPE};
use std::collections::{BTreeMap, BTreeSet};
use syn::spanned::Spanned;
use syn::visit::{self, Visit};

pub const WRITE_METHODS: &[&str] = &[
    // named in the property / the crate's own mutators reached through Copy handles
    "get_mut", "as_mut", "value_mut", "assume_init_mut", "unhinge", "insert",
    // hashbrown RawTable: every `&mut self` method (0.14.5)
    "clear", "clear_no_drop", "drain", "drain_iter_from", "erase", "erase_entry", "erase_no_drop",
    "find_or_find_insert_slot", "get_many_mut", "get_many_unchecked_mut", "insert_entry", "insert_in_slot",
    "insert_no_grow", "remove", "remove_entry", "replace_bucket_with", "reserve", "reserve_rehash", "shrink_to",
    "shrink_to_fit", "try_insert_no_grow", "try_reserve",
    // raw pointers, MaybeUninit, Bucket
    "as_mut_ptr", "as_mut_slice", "assume_init_drop", "write", "write_unaligned", "write_volatile", "write_bytes",
    "copy_to", "copy_to_nonoverlapping", "copy_from", "copy_from_nonoverlapping", "swap", "replace", "take",
    "drop_in_place", "drop_seal_unused_marker",
    // interior mutability and collections
    "set", "store", "fetch_add", "fetch_sub", "fetch_or", "fetch_and", "compare_exchange", "compare_and_swap",
    "borrow_mut", "get_or_insert", "get_or_insert_with", "lock", "try_lock", "iter_mut", "values_mut", "push",
    "pop", "push_back", "push_front", "pop_back", "pop_front", "truncate", "extend", "append", "retain",
    "entry", "or_insert", "or_insert_with", "and_modify", "sort", "sort_by", "dedup", "reverse", "fill",
];

/// Methods of foreign types that are accepted as not writing to the cache.
pub const READ_METHODS: &[&str] = &[
    // hashbrown RawTable / Bucket, shared-reference API
    "len", "capacity", "is_empty", "get", "find", "iter", "buckets", "as_ptr", "as_ref", "bucket_index", "allocation_info",
    // Option / Result / iterator adaptors (they only run the closures, which are analysed in place)
    "map", "map_err", "and_then", "ok_or", "ok_or_else", "ok", "is_some", "is_none", "is_ok", "is_err", "unwrap",
    "unwrap_unchecked", "unwrap_or", "unwrap_or_else", "expect", "zip", "collect", "into_iter", "by_ref", "next",
    "next_back", "rev", "count", "filter", "enumerate", "copied", "cloned", "chain", "fold", "all", "any", "contains",
    "map_or", "map_or_else", "is_some_and", "is_none_or", "is_ok_and", "is_err_and", "unwrap_or_default", "or", "or_else", "and", "xor",
    "filter_map", "flat_map", "flatten", "skip", "take_while", "skip_while", "step_by", "peekable", "fuse", "inspect",
    "last", "nth", "position", "find_map", "sum", "product", "min_by", "max_by", "min_by_key", "max_by_key", "for_each", "try_fold",
    "size_hint", "then", "then_some", "as_deref", "unzip", "partition", "cycle", "scan", "map_while",
    "leading_zeros", "trailing_zeros", "abs_diff", "div_ceil", "checked_div", "saturating_mul", "wrapping_mul", "overflowing_add",
    "overflowing_sub", "is_zero",
    // hashing, comparison, cloning of user data through shared references
    "build_hasher", "hash", "finish", "borrow", "eq", "ne", "cmp", "partial_cmp", "clone",
    // MaybeUninit / raw pointers, reading side
    "assume_init_ref", "assume_init", "assume_init_read", "is_null", "read", "cast", "add", "sub", "offset",
    // integers
    "checked_add", "checked_sub", "checked_mul", "wrapping_add", "wrapping_sub", "saturating_sub", "saturating_add",
    "max", "min", "pow", "is_power_of_two", "next_power_of_two",
    // fmt builders (they write to the Formatter, never to the cache)
    "debug_map", "debug_struct", "debug_list", "debug_set", "debug_tuple", "entries", "field", "write_str", "write_fmt",
    // the crate's own size traits (src/mem_size.rs is not scanned; all take &self)
    "heap_size", "value_size", "mem_size",
    "to_owned", "to_string", "as_str", "as_bytes",
];

pub const WRITE_PATHS: &[&str] = &[
    "ptr::write", "ptr::write_unaligned", "ptr::write_volatile", "ptr::write_bytes", "ptr::drop_in_place", "ptr::copy",
    "ptr::copy_nonoverlapping", "ptr::swap", "ptr::swap_nonoverlapping", "ptr::replace", "mem::swap", "mem::replace",
    "mem::take", "Box::from_raw", "drop", "mem::drop", "write", "drop_in_place", "swap", "replace", "take",
    "copy_nonoverlapping", "copy", "write_bytes", "ManuallyDrop::drop",
];

pub const READ_PATHS: &[&str] = &[
    "Some", "Ok", "Err", "Box::new", "Box::into_raw", "MaybeUninit::new", "MaybeUninit::uninit", "ptr::null_mut",
    "ptr::null", "ptr::read", "ptr::read_unaligned", "ptr::eq", "mem::size_of", "mem::align_of", "mem::forget",
    "size_of", "RawTable::new", "RawTable::with_capacity", "RawTable::try_with_capacity", "RawTable::new_in",
    "DefaultHashBuilder::default", "Default::default", "Vec::new", "Vec::with_capacity", "String::new", "PhantomData",
    "Arc::clone", "Rc::clone", "usize::from", "u64::from", "NonNull::dangling", "NonNull::new_unchecked", "NonNull::new",
    "ManuallyDrop::new", "core::mem::size_of", "std::mem::size_of",
];

/// foreign calls on the read-only lists that can hand out an owned value whose type is written nowhere
pub const OWNING_READ_METHODS: &[&str] = &["read", "read_unaligned", "assume_init_read", "clone", "cloned", "to_owned", "unwrap_or_default"];
pub const OWNING_READ_PATHS: &[&str] = &["ptr::read", "ptr::read_unaligned", "Default::default"];

pub const GLUE_PREFIX: &str = "drop_glue(";
pub const DROPS_SUFFIX: &str = "@drops";

pub const READ_MACROS: &[&str] = &[
    "write", "writeln", "format", "format_args", "print", "println", "eprint", "eprintln", "assert", "assert_eq",
    "assert_ne", "debug_assert", "debug_assert_eq", "debug_assert_ne", "panic", "unreachable", "unimplemented", "todo",
    "vec", "cfg", "line", "file", "stringify", "concat",
];

pub struct Index {
    /// name -> (qualified name, number of non-receiver parameters) of functions with a receiver
    methods: BTreeMap<String, Vec<(String, usize)>>,
    /// name -> qualified names of all associated / free functions
    any: BTreeMap<String, Vec<String>>,
    /// (type, name) -> qualified names
    typed: BTreeMap<(String, String), Vec<String>>,
    free: BTreeMap<String, Vec<String>>,
    types: BTreeSet<String>,
    /// types whose drop runs code of the scanned files
    glue: BTreeSet<String>,
    /// type definitions of the scanned files (structs, enums, aliases)
    typedef_names: BTreeSet<String>,
    enum_names: BTreeSet<String>,
    /// scanned type -> droppable types reachable through any mention in fields (itself included)
    glue_reach_any: BTreeMap<String, Vec<String>>,
    /// qualified name -> (types by value in the return type, hidden type, head of the return type)
    ret: BTreeMap<String, (Vec<String>, bool, Option<String>)>,
    /// `<LruCache as Clone>::clone`
    clone_q: Option<String>,
}

fn build_index(decls: &[FnDecl], struct_names: &[String], dm: &DropModel) -> Index {
    let mut ix = Index {
        methods: BTreeMap::new(),
        any: BTreeMap::new(),
        typed: BTreeMap::new(),
        free: BTreeMap::new(),
        types: struct_names.iter().cloned().collect(),
        glue: dm.glue.clone(),
        typedef_names: dm.names.clone(),
        enum_names: dm.enums.clone(),
        glue_reach_any: dm.reach_any.clone(),
        ret: BTreeMap::new(),
        clone_q: None,
    };
    for d in decls {
        let f = &d.info;
        ix.ret.insert(f.qname.clone(), (f.ret_owned.clone(), f.ret_opaque, f.ret_head.clone()));
        if f.self_type.as_deref() == Some(CACHE_TYPE) && f.trait_name.as_deref() == Some("Clone") && f.name == "clone" && ix.clone_q.is_none() {
            ix.clone_q = Some(f.qname.clone());
        }
        ix.any.entry(f.name.clone()).or_default().push(f.qname.clone());
        if f.recv != Recv::None {
            ix.methods.entry(f.name.clone()).or_default().push((f.qname.clone(), f.params.len()));
        }
        match &f.self_type {
            Some(t) => {
                ix.types.insert(t.clone());
                ix.typed.entry((t.clone(), f.name.clone())).or_default().push(f.qname.clone());
            }
            None => ix.free.entry(f.name.clone()).or_default().push(f.qname.clone()),
        }
    }
    ix
}

impl Index {
    /// crate methods called `name` that take `nargs` arguments besides the receiver (Rust has no
    /// overloading, so a call with n arguments can only reach a method with n parameters)
    fn methods_named(&self, name: &str, nargs: usize) -> Vec<String> {
        self.methods.get(name).map(|v| v.iter().filter(|(_, n)| *n == nargs).map(|(q, _)| q.clone()).collect()).unwrap_or_default()
    }
    fn typed_method(&self, ty: &str, name: &str, nargs: usize) -> Vec<String> {
        let all = self.methods_named(name, nargs);
        self.typed.get(&(ty.to_string(), name.to_string())).map(|v| v.iter().filter(|q| all.contains(q)).cloned().collect()).unwrap_or_default()
    }
}

/// the scanned types a literal path names: `T { .. }`, `Self { .. }`, `m::T { .. }`, `E::Variant { .. }`
fn literal_types(path: &syn::Path, self_type: &Option<String>, names: &BTreeSet<String>) -> Vec<String> {
    let mut v = vec![];
    for seg in &path.segments {
        let id = seg.ident.to_string();
        let ty = if id == "Self" { self_type.clone().unwrap_or_default() } else { id };
        if names.contains(&ty) && !v.contains(&ty) {
            v.push(ty);
        }
    }
    v
}

pub fn glue_node(t: &str) -> String {
    format!("{}{})", GLUE_PREFIX, t)
}

// ------------------------------------------------------------------------------------------------
// drop glue: which types run code of the scanned files when a value is dropped
// ------------------------------------------------------------------------------------------------

pub struct DropModel {
    pub enums: BTreeSet<String>,
    pub names: BTreeSet<String>,
    pub glue: BTreeSet<String>,
    pub nodes: Vec<GlueNode>,
    pub reach_any: BTreeMap<String, Vec<String>>,
}

pub fn drop_model(decls: &[FnDecl], typedefs: &[TypeDef], warnings: &mut Vec<String>) -> DropModel {
    // merge definitions of the same name (inline modules are flattened)
    let mut order: Vec<String> = vec![];
    let mut owned: BTreeMap<String, Vec<String>> = BTreeMap::new();
    let mut any: BTreeMap<String, Vec<String>> = BTreeMap::new();
    let mut opaque: BTreeSet<String> = BTreeSet::new();
    for t in typedefs {
        if !order.contains(&t.name) {
            order.push(t.name.clone());
        }
        owned.entry(t.name.clone()).or_default().extend(t.owned.iter().cloned());
        any.entry(t.name.clone()).or_default().extend(t.any.iter().cloned());
        any.entry(t.name.clone()).or_default().extend(t.owned.iter().cloned());
        if t.opaque {
            opaque.insert(t.name.clone());
        }
    }
    // Drop impls of the scanned files
    let mut impls: BTreeMap<String, Vec<String>> = BTreeMap::new();
    for d in decls {
        let f = &d.info;
        if f.trait_name.as_deref() == Some("Drop") && f.name == "drop" {
            match &f.self_type {
                Some(t) => {
                    if !order.contains(t) {
                        warnings.push(format!("{}:{}: `impl Drop for {}`: the type is not defined in the scanned files; its fields are not known", f.file, f.line, t));
                        order.push(t.clone());
                    }
                    impls.entry(t.clone()).or_default().push(f.qname.clone());
                }
                None => warnings.push(format!("{}:{}: `impl Drop` for a type without a name: not an edge of any drop glue", f.file, f.line)),
            }
        }
    }
    let names: BTreeSet<String> = order.iter().cloned().collect();
    // least fixed point: a type needs glue when it has a Drop impl, owns a hidden type, or owns a type that needs glue
    let mut glue: BTreeSet<String> = impls.keys().cloned().collect();
    if !impls.is_empty() {
        glue.extend(opaque.iter().cloned());
    }
    loop {
        let mut grew = false;
        for t in &order {
            if !glue.contains(t) && owned.get(t).map(|v| v.iter().any(|u| glue.contains(u))).unwrap_or(false) {
                glue.insert(t.clone());
                grew = true;
            }
        }
        if !grew {
            break;
        }
    }
    let mut nodes = vec![];
    for t in &order {
        if !glue.contains(t) {
            continue;
        }
        let mut callees: Vec<String> = impls.get(t).cloned().unwrap_or_default();
        let push = |c: String, callees: &mut Vec<String>| {
            if !callees.contains(&c) {
                callees.push(c)
            }
        };
        for u in owned.get(t).cloned().unwrap_or_default() {
            if u != *t && glue.contains(&u) {
                push(glue_node(&u), &mut callees);
            }
        }
        if opaque.contains(t) {
            // a hidden type is owned: any Drop impl of the scanned files may run
            for u in impls.keys() {
                if u != t {
                    push(glue_node(u), &mut callees);
                }
            }
        }
        nodes.push(GlueNode { ty: t.clone(), node: glue_node(t), drop_impl: impls.get(t).and_then(|v| v.first().cloned()), callees });
    }
    // droppable types reachable from a type through any mention in fields
    let mut reach_any = BTreeMap::new();
    for t in &order {
        let mut seen: BTreeSet<String> = BTreeSet::new();
        let mut todo = vec![t.clone()];
        while let Some(x) = todo.pop() {
            if !seen.insert(x.clone()) {
                continue;
            }
            for u in any.get(&x).cloned().unwrap_or_default() {
                if names.contains(&u) && !seen.contains(&u) {
                    todo.push(u);
                }
            }
        }
        let v: Vec<String> = order.iter().filter(|u| seen.contains(*u) && glue.contains(*u)).cloned().collect();
        reach_any.insert(t.clone(), v);
    }
    let enums: BTreeSet<String> = typedefs.iter().filter(|t| t.kind == "enum").map(|t| t.name.clone()).collect();
    DropModel { enums, names, glue, nodes, reach_any }
}

/// parameters and `let`/closure bindings with a declared type: name -> (head through references,
/// behind a reference); `None` when the name is bound more than once or without a type
pub struct TypedEnv {
    map: BTreeMap<String, Option<(String, bool)>>,
}

struct TypedV {
    binds: BTreeMap<String, Vec<Option<(String, bool)>>>,
}
impl<'ast> Visit<'ast> for TypedV {
    fn visit_pat_type(&mut self, pt: &'ast syn::PatType) {
        if let syn::Pat::Ident(pi) = &*pt.pat {
            if pi.subpat.is_none() && pi.by_ref.is_none() {
                self.binds.entry(pi.ident.to_string()).or_default().push(head_through_refs(&pt.ty));
                return;
            }
        }
        visit::visit_pat_type(self, pt);
    }
    fn visit_pat_ident(&mut self, p: &'ast syn::PatIdent) {
        self.binds.entry(p.ident.to_string()).or_default().push(None);
        visit::visit_pat_ident(self, p);
    }
}

pub fn typed_env(sig: &syn::Signature, body: &syn::Block) -> TypedEnv {
    let mut v = TypedV { binds: BTreeMap::new() };
    for a in &sig.inputs {
        if let syn::FnArg::Typed(pt) = a {
            v.visit_pat_type(pt);
        }
    }
    v.visit_block(body);
    let mut map = BTreeMap::new();
    for (k, b) in v.binds {
        let one = if b.len() == 1 { b[0].clone() } else { None };
        map.insert(k, one);
    }
    TypedEnv { map }
}

fn strip(e: &syn::Expr) -> &syn::Expr {
    match e {
        syn::Expr::Paren(p) => strip(&p.expr),
        syn::Expr::Group(g) => strip(&g.expr),
        _ => e,
    }
}

fn path_ident(e: &syn::Expr) -> Option<String> {
    match strip(e) {
        syn::Expr::Path(p) if p.qself.is_none() && p.path.segments.len() == 1 => Some(p.path.segments[0].ident.to_string()),
        _ => None,
    }
}

#[derive(Debug, PartialEq)]
enum Place {
    Local(String),
    OwnState(String),
    Write(String),
    Ignore,
    Many(Vec<Place>),
}

struct Ctx<'a> {
    ix: &'a Index,
    qname: String,
    self_type: Option<String>,
    recv: Recv,
    file: String,
    typed: TypedEnv,
}

impl<'a> Ctx<'a> {
    /// the scanned type a method-call receiver is known to have: `self`, or a binding with a declared type
    fn recv_type(&self, recv: &syn::Expr) -> Option<String> {
        let id = path_ident(recv)?;
        if id == "self" {
            return self.self_type.clone();
        }
        match self.typed.map.get(&id) {
            Some(Some((h, _))) if self.ix.types.contains(h) => Some(h.clone()),
            _ => None,
        }
    }
    /// scanned functions a method call may dispatch to
    fn resolve_method(&self, recv: &syn::Expr, name: &str, nargs: usize) -> Vec<String> {
        if let Some(t) = self.recv_type(recv) {
            let v = self.ix.typed_method(&t, name, nargs);
            if !v.is_empty() {
                return v;
            }
        }
        self.ix.methods_named(name, nargs)
    }
    /// scanned functions a path names, when the path resolves exactly (`T::f`, `Self::f`, a free function)
    fn resolve_path_exact(&self, p: &syn::ExprPath, locals: &BTreeSet<String>) -> Option<Vec<String>> {
        if p.qself.is_some() {
            return None;
        }
        let segs: Vec<String> = p.path.segments.iter().map(|s| s.ident.to_string()).collect();
        let last = segs.last()?.clone();
        if segs.len() == 1 {
            if locals.contains(&last) {
                return None;
            }
            return self.ix.free.get(&last).cloned();
        }
        let ty = if segs[segs.len() - 2] == "Self" { self.self_type.clone().unwrap_or_default() } else { segs[segs.len() - 2].clone() };
        if self.ix.types.contains(&ty) {
            return self.ix.typed.get(&(ty, last)).cloned();
        }
        None
    }
    /// head of the static type of an expression, when it can be read off declarations
    fn expr_head(&self, e: &syn::Expr, locals: &BTreeSet<String>) -> Option<String> {
        match strip(e) {
            syn::Expr::MethodCall(m) => {
                // only when the receiver's type is known (a call resolved by name may dispatch to foreign code)
                let t = self.recv_type(&m.receiver)?;
                let c = self.ix.typed_method(&t, &m.method.to_string(), m.args.len());
                if c.len() == 1 {
                    self.ix.ret.get(&c[0]).and_then(|r| r.2.clone())
                } else {
                    None
                }
            }
            syn::Expr::Call(c) => match strip(&c.func) {
                syn::Expr::Path(p) => {
                    let v = self.resolve_path_exact(p, locals)?;
                    if v.len() == 1 {
                        self.ix.ret.get(&v[0]).and_then(|r| r.2.clone())
                    } else {
                        None
                    }
                }
                _ => None,
            },
            syn::Expr::Path(_) => {
                let id = path_ident(e)?;
                if id == "self" {
                    return if self.recv == Recv::Val { self.self_type.clone() } else { None };
                }
                match self.typed.map.get(&id) {
                    Some(Some((h, false))) => Some(h.clone()),
                    _ => None,
                }
            }
            _ => None,
        }
    }
    /// what `for _ in e` calls: `IntoIterator::into_iter(e)` and then `next` of the iterator.  When the type of `e` is
    /// a scanned type the calls resolve on it (an iterator is its own `into_iter`); otherwise by name.
    fn for_targets(&self, e: &syn::Expr, locals: &BTreeSet<String>) -> Vec<String> {
        if let Some(h) = self.expr_head(e, locals) {
            if self.ix.types.contains(&h) {
                let into = self.ix.typed_method(&h, "into_iter", 0);
                let next = self.ix.typed_method(&h, "next", 0);
                if !next.is_empty() {
                    // `h` is an iterator: the blanket `impl<I: Iterator> IntoIterator for I` is the identity
                    let mut v = into;
                    v.extend(next);
                    return v;
                }
                if into.len() == 1 {
                    if let Some(Some(h2)) = self.ix.ret.get(&into[0]).map(|r| r.2.clone()) {
                        let next2 = self.ix.typed_method(&h2, "next", 0);
                        if !next2.is_empty() {
                            let mut v = into;
                            v.extend(next2);
                            return v;
                        }
                    }
                }
            }
        }
        let mut v = self.ix.methods_named("into_iter", 0);
        v.extend(self.ix.methods_named("next", 0));
        v
    }
    fn classify_place(&self, e: &syn::Expr) -> Place {
        let e = strip(e);
        match e {
            syn::Expr::Path(_) => match path_ident(e) {
                Some(x) => Place::Local(x),
                None => Place::Write(format!("assignment to a path `{}`", ts(e))),
            },
            syn::Expr::Field(_) => {
                // peel fields
                let mut depth = 0;
                let mut cur = e;
                while let syn::Expr::Field(f) = strip(cur) {
                    depth += 1;
                    cur = &f.base;
                }
                let root = strip(cur);
                match path_ident(root) {
                    Some(x) if x == "self" => {
                        let cache_mem = self.self_type.as_ref().map(|t| CACHE_MEMORY_TYPES.contains(&t.as_str())).unwrap_or(true);
                        if !cache_mem && depth == 1 && (self.recv == Recv::Mut || self.recv == Recv::Val) {
                            Place::OwnState(format!("`{}` (own field of {})", ts(e), self.self_type.clone().unwrap_or_default()))
                        } else if cache_mem {
                            Place::Write(format!("assignment to `{}` (field of self in cache-memory type {})", ts(e), self.self_type.clone().unwrap_or_default()))
                        } else {
                            Place::Write(format!("assignment to `{}` (nested field of self: may go through a reference)", ts(e)))
                        }
                    }
                    Some(_) => Place::Write(format!("assignment to `{}` (field of a local: may auto-deref a reference)", ts(e))),
                    None => Place::Write(format!("assignment to `{}` (field of a pointee / call result)", ts(e))),
                }
            }
            syn::Expr::Unary(u) if matches!(u.op, syn::UnOp::Deref(_)) => Place::Write(format!("assignment through a dereference `{}`", ts(e))),
            syn::Expr::Index(_) => Place::Write(format!("assignment through an index `{}`", ts(e))),
            syn::Expr::Tuple(t) => Place::Many(t.elems.iter().map(|x| self.classify_place(x)).collect()),
            syn::Expr::Infer(_) => Place::Ignore,
            _ => Place::Write(format!("assignment to an unrecognised place `{}`", ts(e))),
        }
    }
}

struct BodyV<'a> {
    cx: &'a Ctx<'a>,
    locals: BTreeSet<String>,
    callees: Vec<String>,
    ext: Vec<String>,
    writes: Vec<String>,
    own: Vec<String>,
    warns: Vec<String>,
    /// why the body has an edge to `drop_glue(T)`
    drops: Vec<String>,
    /// values returned by `LruCache::clone`: dropping them writes into the memory that clone allocated
    fresh_drops: Vec<String>,
    /// callees whose return type hides a type: their `drop_glue` edges are inherited (fixed point in `analyse`)
    opaque_calls: Vec<String>,
    /// foreign calls that copy a value of unknown type out from behind a pointer
    owning_reads: Vec<(usize, String)>,
}

fn new_body_v<'a>(cx: &'a Ctx<'a>, locals: BTreeSet<String>) -> BodyV<'a> {
    BodyV { cx, locals, callees: vec![], ext: vec![], writes: vec![], own: vec![], warns: vec![], drops: vec![], fresh_drops: vec![], opaque_calls: vec![], owning_reads: vec![] }
}

/// scanned type names a function mentions anywhere (signature and body, expressions and types)
struct MentionedV<'a> {
    names: &'a BTreeSet<String>,
    out: BTreeSet<String>,
}
impl<'a, 'ast> Visit<'ast> for MentionedV<'a> {
    fn visit_path(&mut self, p: &'ast syn::Path) {
        for s in &p.segments {
            let id = s.ident.to_string();
            if self.names.contains(&id) {
                self.out.insert(id);
            }
        }
        visit::visit_path(self, p);
    }
}

struct LocalsV {
    names: BTreeSet<String>,
    ref_mut: Vec<(usize, String)>,
}
impl<'ast> Visit<'ast> for LocalsV {
    fn visit_pat_ident(&mut self, p: &'ast syn::PatIdent) {
        self.names.insert(p.ident.to_string());
        if p.by_ref.is_some() && p.mutability.is_some() {
            self.ref_mut.push((p.span().start().line, p.ident.to_string()));
        }
        visit::visit_pat_ident(self, p);
    }
}

impl<'a> BodyV<'a> {
    fn w(&mut self, line: usize, what: String) {
        self.writes.push(format!("L{}: {}", line, what));
    }
    fn unknown(&mut self, line: usize, what: String) {
        self.warns.push(format!("{}:{}: in `{}`: {} - counted as a write primitive", self.cx.file, line, self.cx.qname, what));
        self.writes.push(format!("L{}: UNRECOGNISED {}", line, what));
    }
    fn add_callees(&mut self, line: usize, v: &[String]) {
        for q in v {
            if !self.callees.contains(q) {
                self.callees.push(q.clone());
            }
        }
        self.ret_drops(line, v);
    }
    /// a value of type `ty` may exist in this body: it may be dropped here
    fn drop_edge(&mut self, line: usize, ty: &str, why: &str) {
        if self.cx.ix.glue.contains(ty) {
            let n = glue_node(ty);
            if !self.callees.contains(&n) {
                self.callees.push(n);
            }
            let d = format!("L{}: {} - {}", line, ty, why);
            if !self.drops.contains(&d) {
                self.drops.push(d);
            }
        }
    }
    /// (b): the values the called functions return
    fn ret_drops(&mut self, line: usize, cands: &[String]) {
        for q in cands {
            let Some((owned, opaque, _)) = self.cx.ix.ret.get(q).cloned() else { continue };
            let is_clone = self.cx.ix.clone_q.as_deref() == Some(q.as_str());
            for t in &owned {
                if is_clone && t == CACHE_TYPE {
                    let d = format!("L{}: {} returned by `{}`: the cache that clone built (fresh memory)", line, t, q);
                    if !self.fresh_drops.contains(&d) {
                        self.fresh_drops.push(d);
                    }
                } else {
                    self.drop_edge(line, t, &format!("value returned by `{}`", q));
                }
            }
            if opaque && !self.opaque_calls.contains(q) {
                self.opaque_calls.push(q.clone());
            }
        }
    }
    /// (a)/(c): types that occur by value in a written type
    fn type_drops(&mut self, line: usize, ty: &syn::Type, why: &str) {
        let mut o = Owned::default();
        owned_idents(ty, self.cx.self_type.as_deref(), &BTreeMap::new(), &mut o, 0);
        for t in o.idents {
            self.drop_edge(line, &t, why);
        }
    }
    fn add_ext(&mut self, s: String) {
        if !self.ext.contains(&s) {
            self.ext.push(s);
        }
    }
    fn edge_by_name(&mut self, line: usize, name: &str, nargs: usize) {
        let v = self.cx.ix.methods_named(name, nargs);
        self.add_callees(line, &v);
    }
    fn place(&mut self, line: usize, p: Place) {
        match p {
            Place::Local(_) | Place::Ignore => {}
            Place::OwnState(s) => self.own.push(format!("L{}: {}", line, s)),
            Place::Write(s) => self.w(line, s),
            Place::Many(v) => {
                for x in v {
                    self.place(line, x)
                }
            }
        }
    }
    fn method_call(&mut self, line: usize, name: &str, recv: &syn::Expr, nargs: usize) {
        let is_w = WRITE_METHODS.contains(&name);
        if is_w {
            self.w(line, format!("call of mutator `.{}()`", name));
        }
        let cands = self.cx.resolve_method(recv, name, nargs);
        if cands.is_empty() {
            if READ_METHODS.contains(&name) {
                self.add_ext(format!(".{}", name));
                if OWNING_READ_METHODS.contains(&name) {
                    self.owning_reads.push((line, format!(".{}()", name)));
                }
            } else if !is_w {
                self.unknown(line, format!("method `.{}()` is neither defined in the scanned files nor on the read-only list", name));
            }
        } else {
            self.add_callees(line, &cands);
        }
    }
    /// a path in value position (not the callee of a call): a function of the scanned files used as a value is as
    /// good as called; a unit struct is a value of its type
    fn path_value(&mut self, line: usize, p: &syn::ExprPath) {
        if p.qself.is_some() {
            return;
        }
        let segs: Vec<String> = p.path.segments.iter().map(|s| s.ident.to_string()).collect();
        if segs.len() == 1 {
            let id = &segs[0];
            if self.locals.contains(id) || id == "self" {
                return;
            }
            if self.cx.ix.typedef_names.contains(id) {
                self.drop_edge(line, id, "unit struct / constructor used as a value");
            }
        }
        if let Some(v) = self.cx.resolve_path_exact(p, &self.locals) {
            self.add_callees(line, &v);
        } else if segs.len() >= 2 {
            let t = if segs[segs.len() - 2] == "Self" { self.cx.self_type.clone().unwrap_or_default() } else { segs[segs.len() - 2].clone() };
            if self.cx.ix.enum_names.contains(&t) {
                self.drop_edge(line, &t, "enum variant used as a value");
            }
        }
    }
    fn path_call(&mut self, line: usize, p: &syn::ExprPath) {
        let segs: Vec<String> = p.path.segments.iter().map(|s| s.ident.to_string()).collect();
        if p.qself.is_some() {
            // <T as Trait>::f : by name
            let last = segs.last().cloned().unwrap_or_default();
            match self.cx.ix.any.get(&last) {
                Some(v) => {
                    let v = v.clone();
                    self.add_callees(line, &v)
                }
                None => self.unknown(line, format!("qualified path call `{}`", ts(p))),
            }
            return;
        }
        let joined = segs.join("::");
        let last = segs.last().cloned().unwrap_or_default();
        let last2 = if segs.len() >= 2 { format!("{}::{}", segs[segs.len() - 2], last) } else { last.clone() };
        if segs.len() == 1 {
            if let Some(v) = self.cx.ix.free.get(&last) {
                let v = v.clone();
                self.add_callees(line, &v);
            } else if self.locals.contains(&last) {
                self.add_ext(format!("callback:{}", last));
            } else if WRITE_PATHS.contains(&last.as_str()) {
                self.w(line, format!("call of `{}`", joined));
            } else if READ_PATHS.contains(&last.as_str()) {
                self.add_ext(joined);
            } else if last.chars().next().map(|c| c.is_uppercase()).unwrap_or(false) && self.cx.ix.types.contains(&last) {
                self.add_ext(format!("ctor:{}", last)); // tuple-struct constructor of a crate type
                self.drop_edge(line, &last, "tuple-struct constructor");
            } else {
                self.unknown(line, format!("call of unknown function `{}`", joined));
            }
            return;
        }
        let ty = if segs[segs.len() - 2] == "Self" { self.cx.self_type.clone().unwrap_or_default() } else { segs[segs.len() - 2].clone() };
        if self.cx.ix.types.contains(&ty) {
            if let Some(v) = self.cx.ix.typed.get(&(ty.clone(), last.clone())) {
                let v = v.clone();
                self.add_callees(line, &v);
                return;
            }
            // a trait/derived function of a crate type that is not in the scanned files
            if let Some(v) = self.cx.ix.any.get(&last) {
                let v = v.clone();
                self.add_callees(line, &v);
                return;
            }
            self.unknown(line, format!("call of `{}`: no such function in the scanned files", joined));
            return;
        }
        if WRITE_PATHS.contains(&last2.as_str()) || WRITE_PATHS.contains(&joined.as_str()) {
            self.w(line, format!("call of `{}`", joined));
        } else if READ_PATHS.contains(&last2.as_str()) || READ_PATHS.contains(&joined.as_str()) {
            if OWNING_READ_PATHS.contains(&last2.as_str()) || OWNING_READ_PATHS.contains(&joined.as_str()) {
                self.owning_reads.push((line, format!("{}()", joined)));
            }
            self.add_ext(joined);
        } else if let Some(v) = self.cx.ix.any.get(&last) {
            // e.g. `Clone::clone(x)`, `Iterator::next(&mut it)`: by name
            let v = v.clone();
            self.add_callees(line, &v);
            if !READ_METHODS.contains(&last.as_str()) {
                self.unknown(line, format!("call of `{}` through a foreign path", joined));
            }
        } else {
            self.unknown(line, format!("call of unknown function `{}`", joined));
        }
    }
}

fn binop_method(op: &syn::BinOp) -> (&'static str, bool) {
    use syn::BinOp::*;
    match op {
        Add(_) => ("add", false),
        Sub(_) => ("sub", false),
        Mul(_) => ("mul", false),
        Div(_) => ("div", false),
        Rem(_) => ("rem", false),
        And(_) | Or(_) => ("", false),
        BitXor(_) => ("bitxor", false),
        BitAnd(_) => ("bitand", false),
        BitOr(_) => ("bitor", false),
        Shl(_) => ("shl", false),
        Shr(_) => ("shr", false),
        Eq(_) => ("eq", false),
        Ne(_) => ("ne", false),
        Lt(_) | Le(_) | Gt(_) | Ge(_) => ("partial_cmp", false),
        AddAssign(_) => ("add_assign", true),
        SubAssign(_) => ("sub_assign", true),
        MulAssign(_) => ("mul_assign", true),
        DivAssign(_) => ("div_assign", true),
        RemAssign(_) => ("rem_assign", true),
        BitXorAssign(_) => ("bitxor_assign", true),
        BitAndAssign(_) => ("bitand_assign", true),
        BitOrAssign(_) => ("bitor_assign", true),
        ShlAssign(_) => ("shl_assign", true),
        ShrAssign(_) => ("shr_assign", true),
        _ => ("?", true),
    }
}

impl<'a, 'ast> Visit<'ast> for BodyV<'a> {
    fn visit_expr_assign(&mut self, a: &'ast syn::ExprAssign) {
        let line = a.span().start().line;
        let p = self.cx.classify_place(&a.left);
        self.place(line, p);
        visit::visit_expr_assign(self, a);
    }
    fn visit_expr_binary(&mut self, b: &'ast syn::ExprBinary) {
        let line = b.span().start().line;
        let (m, assign) = binop_method(&b.op);
        if m == "?" {
            self.unknown(line, format!("binary operator in `{}`", ts(b)));
        }
        if assign {
            let p = self.cx.classify_place(&b.left);
            self.place(line, p);
        }
        if !m.is_empty() {
            self.edge_by_name(line, m, 1);
            if m == "eq" || m == "ne" {
                self.edge_by_name(line, "eq", 1);
                self.edge_by_name(line, "ne", 1);
            }
            if m == "partial_cmp" {
                for n in ["lt", "le", "gt", "ge", "cmp"] {
                    self.edge_by_name(line, n, 1);
                }
            }
        }
        visit::visit_expr_binary(self, b);
    }
    fn visit_expr_unary(&mut self, u: &'ast syn::ExprUnary) {
        let line = u.span().start().line;
        match u.op {
            syn::UnOp::Deref(_) => {
                self.edge_by_name(line, "deref", 0);
                self.edge_by_name(line, "deref_mut", 0);
            }
            syn::UnOp::Not(_) => self.edge_by_name(line, "not", 0),
            syn::UnOp::Neg(_) => self.edge_by_name(line, "neg", 0),
            _ => {}
        }
        visit::visit_expr_unary(self, u);
    }
    fn visit_expr_index(&mut self, i: &'ast syn::ExprIndex) {
        let line = i.span().start().line;
        self.edge_by_name(line, "index", 1);
        self.edge_by_name(line, "index_mut", 1);
        visit::visit_expr_index(self, i);
    }
    fn visit_expr_struct(&mut self, st: &'ast syn::ExprStruct) {
        // (a) a struct literal is a value of that type
        let line = st.span().start().line;
        for ty in literal_types(&st.path, &self.cx.self_type, &self.cx.ix.typedef_names) {
            self.drop_edge(line, &ty, "struct literal");
        }
        visit::visit_expr_struct(self, st);
    }
    fn visit_pat_type(&mut self, pt: &'ast syn::PatType) {
        // (c) a binding with a declared type
        let line = pt.span().start().line;
        let why = format!("binding `{}` declared with type `{}`", ts(&pt.pat), ts(&pt.ty));
        self.type_drops(line, &pt.ty, &why);
        visit::visit_pat_type(self, pt);
    }
    fn visit_expr_path(&mut self, p: &'ast syn::ExprPath) {
        let line = p.span().start().line;
        self.path_value(line, p);
        visit::visit_expr_path(self, p);
    }
    fn visit_expr_reference(&mut self, r: &'ast syn::ExprReference) {
        if r.mutability.is_some() {
            let line = r.span().start().line;
            match self.cx.classify_place(&r.expr) {
                Place::Local(_) | Place::Ignore | Place::OwnState(_) => {}
                Place::Write(s) => {
                    let s = s.replacen("assignment to", "mutable borrow of", 1).replacen("assignment through", "mutable borrow through", 1);
                    // `&mut <call>(..)`/`&mut <literal>` borrow a temporary: not a place at all
                    match strip(&r.expr) {
                        syn::Expr::Call(_) | syn::Expr::MethodCall(_) | syn::Expr::Lit(_) | syn::Expr::Struct(_) | syn::Expr::Array(_) | syn::Expr::Closure(_) | syn::Expr::Block(_) | syn::Expr::Macro(_) => {}
                        _ => self.w(line, s),
                    }
                }
                Place::Many(_) => {}
            }
        }
        visit::visit_expr_reference(self, r);
    }
    fn visit_expr_method_call(&mut self, m: &'ast syn::ExprMethodCall) {
        let line = m.method.span().start().line;
        let name = m.method.to_string();
        self.method_call(line, &name, &m.receiver, m.args.len());
        visit::visit_expr_method_call(self, m);
    }
    fn visit_expr_call(&mut self, c: &'ast syn::ExprCall) {
        let line = c.span().start().line;
        match strip(&c.func) {
            syn::Expr::Path(p) => {
                self.path_call(line, p);
                // the callee path is not a value: visit only its generic arguments and the call's arguments
                visit::visit_path(self, &p.path);
            }
            other => {
                self.unknown(line, format!("call through a non-path expression `{}`", ts(other)));
                self.visit_expr(&c.func);
            }
        }
        for a in &c.args {
            self.visit_expr(a);
        }
    }
    fn visit_expr_for_loop(&mut self, f: &'ast syn::ExprForLoop) {
        let line = f.span().start().line;
        let v = self.cx.for_targets(&f.expr, &self.locals);
        self.add_callees(line, &v);
        visit::visit_expr_for_loop(self, f);
    }
    fn visit_expr_try(&mut self, t: &'ast syn::ExprTry) {
        let line = t.span().start().line;
        if let Some(v) = self.cx.ix.any.get("from") {
            let v = v.clone();
            self.add_callees(line, &v);
        }
        visit::visit_expr_try(self, t);
    }
    fn visit_macro(&mut self, m: &'ast syn::Macro) {
        let line = m.span().start().line;
        let name = m.path.segments.last().map(|s| s.ident.to_string()).unwrap_or_default();
        if !READ_MACROS.contains(&name.as_str()) {
            self.unknown(line, format!("macro `{}!` is not on the list of understood macros", name));
            return;
        }
        use syn::parse::Parser;
        let parser = syn::punctuated::Punctuated::<syn::Expr, syn::Token![,]>::parse_terminated;
        match parser.parse2(m.tokens.clone()) {
            Ok(exprs) => {
                for e in exprs.iter() {
                    // `name = value` inside format macros is a named argument, not an assignment
                    if let syn::Expr::Assign(a) = e {
                        self.visit_expr(&a.right);
                    } else {
                        self.visit_expr(e);
                    }
                }
            }
            Err(_) => self.unknown(line, format!("arguments of macro `{}!` do not parse as expressions", name)),
        }
    }
    fn visit_expr(&mut self, e: &'ast syn::Expr) {
        match e {
            syn::Expr::Verbatim(_) | syn::Expr::Async(_) | syn::Expr::Await(_) | syn::Expr::Yield(_) | syn::Expr::TryBlock(_) => {
                let line = e.span().start().line;
                self.unknown(line, format!("expression form `{}`", ts(e)));
            }
            _ => {}
        }
        visit::visit_expr(self, e);
    }
}

fn pat_idents(p: &syn::Pat, out: &mut BTreeSet<String>) {
    let mut v = LocalsV { names: BTreeSet::new(), ref_mut: vec![] };
    v.visit_pat(p);
    out.extend(v.names);
}

pub fn param_locals(sig_inputs: &syn::punctuated::Punctuated<syn::FnArg, syn::Token![,]>) -> Vec<String> {
    let mut s = BTreeSet::new();
    for a in sig_inputs {
        if let syn::FnArg::Typed(t) = a {
            pat_idents(&t.pat, &mut s);
        }
    }
    s.into_iter().collect()
}

pub fn analyse(decls: &mut Vec<FnDecl>, struct_names: &[String], typedefs: &[TypeDef], warnings: &mut Vec<String>) -> (CloneAnalysis, Vec<GlueNode>) {
    let dm = drop_model(decls, typedefs, warnings);
    let ix = build_index(decls, struct_names, &dm);
    let mut clone = CloneAnalysis::default();
    let mut opaque_calls: Vec<Vec<String>> = vec![];
    for k in 0..decls.len() {
        let (callees, ext, writes, own, warns, drops, fresh, opq) = {
            let d = &decls[k];
            let cx = Ctx { ix: &ix, qname: d.info.qname.clone(), self_type: d.info.self_type.clone(), recv: d.info.recv, file: d.info.file.clone(), typed: typed_env(&d.sig, &d.body) };
            let mut lv = LocalsV { names: d.local_names.iter().cloned().collect(), ref_mut: vec![] };
            lv.visit_block(&d.body);
            let mut v = new_body_v(&cx, lv.names.clone());
            for (line, name) in &lv.ref_mut {
                v.unknown(*line, format!("`ref mut {}` pattern", name));
            }
            // (c) parameters taken by value (a by-value receiver included) may be dropped here
            for t in &d.info.params_owned {
                v.drop_edge(d.info.line, t, "parameter taken by value");
            }
            v.visit_block(&d.body);
            // (e) values of unknown type copied out from behind a pointer
            if !v.owning_reads.is_empty() {
                let mut mv = MentionedV { names: &ix.typedef_names, out: BTreeSet::new() };
                mv.visit_signature(&d.sig);
                mv.visit_block(&d.body);
                if let Some(t) = &d.info.self_type {
                    mv.out.insert(t.clone());
                }
                let reads = v.owning_reads.clone();
                for (line, what) in reads {
                    for t in &mv.out {
                        for u in ix.glue_reach_any.get(t).cloned().unwrap_or_default() {
                            v.drop_edge(line, &u, &format!("`{}` copies a value of an unwritten type out from behind a pointer; reachable from `{}`", what, t));
                        }
                    }
                }
            }
            if d.info.self_type.as_deref() == Some(CACHE_TYPE) && d.info.trait_name.as_deref() == Some("Clone") && d.info.name == "clone" && !clone.found {
                clone = clone_split(&cx, d, &lv.names);
                v.warns.extend(clone_warnings(&clone, &cx));
            }
            (v.callees, v.ext, v.writes, v.own, v.warns, v.drops, v.fresh_drops, v.opaque_calls)
        };
        let d = &mut decls[k];
        d.info.callees = callees;
        d.info.ext_calls = ext;
        d.info.writes = writes;
        d.info.own_writes = own;
        d.info.drop_sites = drops;
        d.info.fresh_drops = fresh;
        opaque_calls.push(opq);
        warnings.extend(warns);
    }
    // (b), hidden return types: the caller may drop whatever the callee's body may hold (least fixed point)
    loop {
        let mut grew = false;
        for k in 0..decls.len() {
            for q in opaque_calls[k].clone() {
                let inherited: Vec<String> = decls.iter().filter(|d| d.info.qname == q).flat_map(|d| d.info.callees.iter().filter(|c| c.starts_with(GLUE_PREFIX)).cloned().collect::<Vec<_>>()).collect();
                for g in inherited {
                    if !decls[k].info.callees.contains(&g) {
                        decls[k].info.callees.push(g.clone());
                        decls[k].info.drop_sites.push(format!("{} - the return type of `{}` hides a type: whatever its body may hold", g, q));
                        grew = true;
                    }
                }
            }
        }
        if !grew {
            break;
        }
    }
    if !clone.found {
        warnings.push("no `impl Clone for LruCache` found: the clone@source node is recorded as writing".into());
        clone.src_writes.push("UNRECOGNISED: Clone::clone of LruCache not found".into());
    } else {
        // the source half inherits in the same way
        for q in clone.src_opaque_calls.clone() {
            for d in decls.iter().filter(|d| d.info.qname == q) {
                for g in d.info.callees.iter().filter(|c| c.starts_with(GLUE_PREFIX)) {
                    if !clone.src_callees.contains(g) {
                        clone.src_callees.push(g.clone());
                    }
                }
            }
        }
    }
    (clone, dm.nodes)
}

fn clone_warnings(_c: &CloneAnalysis, _cx: &Ctx) -> Vec<String> {
    vec![]
}

// ------------------------------------------------------------------------------------------------
// LruCache::clone: which sites act on the source (`self` and what is derived from it) and which
// on the freshly built cache
// ------------------------------------------------------------------------------------------------

#[derive(Clone, Copy, PartialEq, Debug)]
enum Root {
    Src,
    Fresh,
    Plain,
}

struct CloneV<'a> {
    cx: &'a Ctx<'a>,
    decls_plain_ctor: &'a dyn Fn(&syn::Expr) -> bool,
    env: BTreeMap<String, Root>,
    out: CloneAnalysis,
    /// scanned types the function mentions (for values of unwritten type, rule (e))
    mentioned: BTreeSet<String>,
}

fn root_expr(e: &syn::Expr) -> Option<&syn::Expr> {
    // the expression a place / receiver chain hangs off
    let e = strip(e);
    match e {
        syn::Expr::Field(f) => root_expr(&f.base),
        syn::Expr::MethodCall(m) => root_expr(&m.receiver),
        syn::Expr::Unary(u) => root_expr(&u.expr),
        syn::Expr::Reference(r) => root_expr(&r.expr),
        syn::Expr::Index(i) => root_expr(&i.expr),
        syn::Expr::Try(t) => root_expr(&t.expr),
        syn::Expr::Cast(c) => root_expr(&c.expr),
        syn::Expr::Unsafe(u) => match u.block.stmts.last() {
            Some(syn::Stmt::Expr(x, None)) => root_expr(x),
            _ => None,
        },
        syn::Expr::Block(b) => match b.block.stmts.last() {
            Some(syn::Stmt::Expr(x, None)) => root_expr(x),
            _ => None,
        },
        syn::Expr::Path(_) => Some(e),
        _ => Some(e),
    }
}

struct MentionsV<'a> {
    env: &'a BTreeMap<String, Root>,
    src: bool,
    fresh: bool,
}
impl<'a, 'ast> Visit<'ast> for MentionsV<'a> {
    fn visit_expr_path(&mut self, p: &'ast syn::ExprPath) {
        if p.qself.is_none() && p.path.segments.len() == 1 {
            let id = p.path.segments[0].ident.to_string();
            if id == "self" {
                self.src = true;
            }
            match self.env.get(&id) {
                Some(Root::Src) => self.src = true,
                Some(Root::Fresh) => self.fresh = true,
                _ => {}
            }
        }
    }
}

impl<'a> CloneV<'a> {
    fn mentions(&self, e: &syn::Expr) -> (bool, bool) {
        let mut m = MentionsV { env: &self.env, src: false, fresh: false };
        m.visit_expr(e);
        (m.src, m.fresh)
    }
    fn kind_of_value(&self, e: &syn::Expr) -> Root {
        if (self.decls_plain_ctor)(strip(e)) {
            return Root::Fresh;
        }
        let (s, f) = self.mentions(e);
        if s {
            Root::Src
        } else if f {
            Root::Fresh
        } else {
            Root::Plain
        }
    }
    fn kind_of_root(&self, e: &syn::Expr) -> Root {
        match root_expr(e) {
            Some(r) => match path_ident(r) {
                Some(x) if x == "self" => Root::Src,
                Some(x) => *self.env.get(&x).unwrap_or(&Root::Plain),
                None => {
                    // a call result or literal: judged by what it mentions
                    let (s, f) = self.mentions(r);
                    if s {
                        Root::Src
                    } else if f {
                        Root::Fresh
                    } else {
                        Root::Plain
                    }
                }
            },
            None => Root::Src, // not understood: treat as acting on the source
        }
    }
    fn by_name(&self, name: &str, nargs: usize) -> Vec<String> {
        self.cx.ix.methods_named(name, nargs)
    }
    fn src_callees(&mut self, v: Vec<String>) {
        for q in v {
            if !self.out.src_callees.contains(&q) {
                self.out.src_callees.push(q);
            }
        }
    }
    /// an implicit drop attributed to the source half: the value may carry handles of the source
    fn src_drop(&mut self, line: usize, ty: &str, why: &str) {
        if self.cx.ix.glue.contains(ty) {
            self.src_callees(vec![glue_node(ty)]);
            self.out.src_drop_sites.push(format!("L{}: {} - {}", line, ty, why));
        }
    }
    /// an implicit drop of a value that was built from plain values only: a write into fresh memory
    fn fresh_drop(&mut self, line: usize, ty: &str, why: &str) {
        if self.cx.ix.glue.contains(ty) {
            let d = format!("L{}: implicit drop of a `{}` - {}", line, ty, why);
            if !self.out.fresh_sites.contains(&d) {
                self.out.fresh_sites.push(d);
            }
        }
    }
    /// (b) for the values the candidates return.  `fresh`: the call is rooted in fresh/plain values and receives no
    /// source-derived argument, so what it returns cannot carry a handle of the source.
    fn ret_drops(&mut self, line: usize, cands: &[String], fresh: bool) {
        for q in cands {
            let Some((owned, opaque, _)) = self.cx.ix.ret.get(q).cloned() else { continue };
            let is_clone = self.cx.ix.clone_q.as_deref() == Some(q.as_str());
            for t in &owned {
                if fresh {
                    self.fresh_drop(line, t, &format!("returned by `{}`, which is called on plain / fresh values only", q));
                } else if is_clone && t == CACHE_TYPE {
                    self.fresh_drop(line, t, &format!("returned by `{}`: the cache a nested clone built", q));
                } else {
                    self.src_drop(line, t, &format!("value returned by `{}`", q));
                }
            }
            if opaque && !fresh && !self.out.src_opaque_calls.contains(q) {
                self.out.src_opaque_calls.push(q.clone());
            }
        }
    }
    fn type_drops(&mut self, line: usize, ty: &syn::Type, fresh: bool, why: &str) {
        let mut o = Owned::default();
        owned_idents(ty, self.cx.self_type.as_deref(), &BTreeMap::new(), &mut o, 0);
        for t in o.idents {
            if fresh {
                self.fresh_drop(line, &t, why);
            } else {
                self.src_drop(line, &t, why);
            }
        }
    }
    /// (e) in the source half
    fn owning_read(&mut self, line: usize, what: &str) {
        for t in self.mentioned.clone() {
            for u in self.cx.ix.glue_reach_any.get(&t).cloned().unwrap_or_default() {
                self.src_drop(line, &u, &format!("`{}` copies a value of an unwritten type out from behind a pointer; reachable from `{}`", what, t));
            }
        }
    }
    fn check_return(&mut self, e: &syn::Expr) {
        if self.kind_of_value(e) != Root::Fresh {
            self.out.returns_fresh = false;
            self.out.return_sites.push(format!("L{}: `{}` is not a fresh local or a plain constructor call", e.span().start().line, ts(e)));
        } else {
            self.out.return_sites.push(format!("L{}: `{}`", e.span().start().line, ts(e)));
        }
    }
}

impl<'a, 'ast> Visit<'ast> for CloneV<'a> {
    fn visit_local(&mut self, l: &'ast syn::Local) {
        // visit the initialiser first (its sites are classified with the old environment)
        if let Some(init) = &l.init {
            self.visit_expr(&init.expr);
            if let Some((_, d)) = &init.diverge {
                self.visit_expr(d);
            }
            let k = self.kind_of_value(&init.expr);
            if let syn::Pat::Type(pt) = &l.pat {
                let why = format!("binding `{}` declared with type `{}`", ts(&pt.pat), ts(&pt.ty));
                self.type_drops(l.span().start().line, &pt.ty, k == Root::Fresh, &why);
            }
            let mut names = BTreeSet::new();
            pat_idents(&l.pat, &mut names);
            for n in names {
                if k == Root::Fresh && !self.out.fresh_locals.contains(&n) {
                    self.out.fresh_locals.push(n.clone());
                }
                self.env.insert(n, k);
            }
        } else {
            if let syn::Pat::Type(pt) = &l.pat {
                let why = format!("binding `{}` declared with type `{}`", ts(&pt.pat), ts(&pt.ty));
                self.type_drops(l.span().start().line, &pt.ty, false, &why);
            }
            let mut names = BTreeSet::new();
            pat_idents(&l.pat, &mut names);
            for n in names {
                self.env.insert(n, Root::Plain);
            }
        }
    }
    fn visit_expr_struct(&mut self, st: &'ast syn::ExprStruct) {
        // a struct literal inside clone: counted for the source half whatever it is made of
        let line = st.span().start().line;
        for ty in literal_types(&st.path, &self.cx.self_type, &self.cx.ix.typedef_names) {
            self.src_drop(line, &ty, "struct literal");
        }
        visit::visit_expr_struct(self, st);
    }
    fn visit_expr_path(&mut self, p: &'ast syn::ExprPath) {
        // a scanned function used as a value (`.map(Self::f)`): as good as called, judged as acting on the source
        let line = p.span().start().line;
        let locals: BTreeSet<String> = self.env.keys().cloned().collect();
        if p.qself.is_none() && p.path.segments.len() == 1 {
            let id = p.path.segments[0].ident.to_string();
            if !locals.contains(&id) && id != "self" && self.cx.ix.typedef_names.contains(&id) {
                self.src_drop(line, &id, "unit struct / constructor used as a value");
            }
        }
        if let Some(v) = self.cx.resolve_path_exact(p, &locals) {
            self.ret_drops(line, &v, false);
            self.src_callees(v);
        } else if p.qself.is_none() && p.path.segments.len() >= 2 {
            let id = p.path.segments[p.path.segments.len() - 2].ident.to_string();
            let t = if id == "Self" { self.cx.self_type.clone().unwrap_or_default() } else { id };
            if self.cx.ix.enum_names.contains(&t) {
                self.src_drop(line, &t, "enum variant used as a value");
            }
        }
        visit::visit_expr_path(self, p);
    }
    fn visit_expr_return(&mut self, r: &'ast syn::ExprReturn) {
        if let Some(e) = &r.expr {
            self.check_return(e);
        } else {
            self.out.returns_fresh = false;
        }
        visit::visit_expr_return(self, r);
    }
    fn visit_expr_assign(&mut self, a: &'ast syn::ExprAssign) {
        let line = a.span().start().line;
        self.visit_expr(&a.right);
        match self.cx.classify_place(&a.left) {
            Place::Local(x) => {
                // rebinding: the local now holds whatever the right-hand side is made of; never downgrade
                let k = self.kind_of_value(&a.right);
                let old = *self.env.get(&x).unwrap_or(&Root::Plain);
                let new = if old == Root::Src || k == Root::Src { Root::Src } else if old == Root::Fresh || k == Root::Fresh { Root::Fresh } else { Root::Plain };
                self.env.insert(x, new);
            }
            Place::Ignore | Place::Many(_) | Place::OwnState(_) => {}
            Place::Write(s) => match self.kind_of_root(&a.left) {
                Root::Src => self.out.src_writes.push(format!("L{}: {} - rooted in the source", line, s)),
                Root::Fresh => self.out.fresh_sites.push(format!("L{}: {} - rooted in a fresh local", line, s)),
                Root::Plain => self.out.fresh_sites.push(format!("L{}: {} - rooted in a plain local", line, s)),
            },
        }
        self.visit_expr(&a.left);
    }
    fn visit_expr_binary(&mut self, b: &'ast syn::ExprBinary) {
        let line = b.span().start().line;
        let (m, assign) = binop_method(&b.op);
        if assign {
            if let Place::Write(s) = self.cx.classify_place(&b.left) {
                match self.kind_of_root(&b.left) {
                    Root::Src => self.out.src_writes.push(format!("L{}: {} - rooted in the source", line, s)),
                    _ => self.out.fresh_sites.push(format!("L{}: {}", line, s)),
                }
            }
        }
        if !m.is_empty() {
            let (s, _) = self.mentions(&b.left);
            let (s2, _) = self.mentions(&b.right);
            if s || s2 {
                let mut v = self.by_name(m, 1);
                if m == "eq" || m == "ne" {
                    v.extend(self.by_name("eq", 1));
                    v.extend(self.by_name("ne", 1));
                }
                self.ret_drops(line, &v, false);
                self.src_callees(v);
            }
        }
        visit::visit_expr_binary(self, b);
    }
    fn visit_expr_reference(&mut self, r: &'ast syn::ExprReference) {
        if r.mutability.is_some() {
            let line = r.span().start().line;
            if let Place::Write(s) = self.cx.classify_place(&r.expr) {
                if !matches!(strip(&r.expr), syn::Expr::Call(_) | syn::Expr::MethodCall(_) | syn::Expr::Lit(_) | syn::Expr::Struct(_)) {
                    match self.kind_of_root(&r.expr) {
                        Root::Src => self.out.src_writes.push(format!("L{}: mutable borrow: {} - rooted in the source", line, s)),
                        _ => self.out.fresh_sites.push(format!("L{}: mutable borrow: {}", line, s)),
                    }
                }
            }
        }
        visit::visit_expr_reference(self, r);
    }
    fn visit_expr_method_call(&mut self, m: &'ast syn::ExprMethodCall) {
        let line = m.method.span().start().line;
        let name = m.method.to_string();
        let root = self.kind_of_root(&m.receiver);
        let args_src = m.args.iter().any(|a| self.mentions(a).0);
        let cands = self.cx.resolve_method(&m.receiver, &name, m.args.len());
        let is_w = WRITE_METHODS.contains(&name.as_str());
        let unknown = cands.is_empty() && !READ_METHODS.contains(&name.as_str()) && !is_w;
        // what the call returns may be dropped here; it can carry a handle of the source unless the call
        // is rooted in fresh / plain values and receives nothing derived from the source
        self.ret_drops(line, &cands, root != Root::Src && !args_src);
        if cands.is_empty() && OWNING_READ_METHODS.contains(&name.as_str()) && (root == Root::Src || args_src) {
            self.owning_read(line, &format!(".{}()", name));
        }
        match root {
            Root::Src => {
                if is_w {
                    self.out.src_writes.push(format!("L{}: call of mutator `.{}()` on the source", line, name));
                }
                if unknown {
                    self.out.src_writes.push(format!("L{}: UNRECOGNISED method `.{}()` on the source", line, name));
                }
                self.src_callees(cands);
            }
            Root::Fresh | Root::Plain => {
                let d = format!("L{}: `{}.{}(..)`{}", line, ts(&m.receiver), name, if args_src { " with source-derived arguments" } else { "" });
                self.out.fresh_sites.push(d.clone());
                if args_src {
                    // a plain receiver with source arguments (e.g. a closure over the source) is judged as source
                    if root == Root::Plain {
                        if is_w {
                            self.out.src_writes.push(format!("L{}: mutator `.{}()` receives source-derived arguments", line, name));
                        }
                        self.src_callees(cands);
                    } else {
                        self.out.residual.push(d);
                        // the callee runs on the fresh cache but holds source-derived values: its explicit code is what
                        // Layer B models; the drops it performs implicitly are in no model and are attributed to the source half
                        for q in cands {
                            if !self.out.residual_callees.contains(&q) {
                                self.out.residual_callees.push(q.clone());
                            }
                            self.src_callees(vec![format!("{}{}", q, DROPS_SUFFIX)]);
                        }
                    }
                }
            }
        }
        visit::visit_expr_method_call(self, m);
    }
    fn visit_expr_call(&mut self, c: &'ast syn::ExprCall) {
        let line = c.span().start().line;
        let args_src = c.args.iter().any(|a| self.mentions(a).0);
        let plain_ctor = (self.decls_plain_ctor)(&syn::Expr::Call(c.clone()));
        if args_src && !plain_ctor {
            // source-derived data handed to a function that could keep pointers into it: judge the callee as acting on the source
            let mut tmp = new_body_v(self.cx, self.env.keys().cloned().collect());
            match strip(&c.func) {
                syn::Expr::Path(p) => tmp.path_call(line, p),
                other => tmp.unknown(line, format!("call through a non-path expression `{}`", ts(other))),
            }
            for w in tmp.writes {
                self.out.src_writes.push(format!("{} - with source-derived arguments", w));
            }
            for d in tmp.drops {
                self.out.src_drop_sites.push(format!("{} - with source-derived arguments", d));
            }
            for d in tmp.fresh_drops {
                if !self.out.fresh_sites.contains(&d) {
                    self.out.fresh_sites.push(d);
                }
            }
            for q in tmp.opaque_calls {
                if !self.out.src_opaque_calls.contains(&q) {
                    self.out.src_opaque_calls.push(q);
                }
            }
            for (l, what) in tmp.owning_reads {
                self.owning_read(l, &what);
            }
            self.src_callees(tmp.callees);
        } else {
            self.out.fresh_sites.push(format!("L{}: `{}(..)`{}", line, ts(&c.func), if plain_ctor { " - constructor taking only plain values" } else { "" }));
            // what it returns is built from plain values only
            if let syn::Expr::Path(p) = strip(&c.func) {
                let locals: BTreeSet<String> = self.env.keys().cloned().collect();
                if let Some(v) = self.cx.resolve_path_exact(p, &locals) {
                    self.ret_drops(line, &v, true);
                }
            }
        }
        // the callee path is not a value: only its generic arguments and the call's arguments are visited
        match strip(&c.func) {
            syn::Expr::Path(p) => visit::visit_path(self, &p.path),
            _ => self.visit_expr(&c.func),
        }
        for a in &c.args {
            self.visit_expr(a);
        }
    }
    fn visit_expr_for_loop(&mut self, f: &'ast syn::ExprForLoop) {
        if self.mentions(&f.expr).0 {
            let locals: BTreeSet<String> = self.env.keys().cloned().collect();
            let v = self.cx.for_targets(&f.expr, &locals);
            self.ret_drops(f.span().start().line, &v, false);
            self.src_callees(v);
            let mut names = BTreeSet::new();
            pat_idents(&f.pat, &mut names);
            for n in names {
                self.env.insert(n, Root::Src);
            }
        }
        visit::visit_expr_for_loop(self, f);
    }
    fn visit_macro(&mut self, m: &'ast syn::Macro) {
        self.out.src_writes.push(format!("L{}: UNRECOGNISED macro `{}!` in clone", m.span().start().line, ts(&m.path)));
    }
    fn visit_expr_closure(&mut self, c: &'ast syn::ExprClosure) {
        // closure parameters receive whatever the adaptor feeds them; be conservative: source
        for p in &c.inputs {
            if let syn::Pat::Type(pt) = p {
                let why = format!("closure parameter `{}` declared with type `{}`", ts(&pt.pat), ts(&pt.ty));
                self.type_drops(p.span().start().line, &pt.ty, false, &why);
            }
            let mut names = BTreeSet::new();
            pat_idents(p, &mut names);
            for n in names {
                self.env.insert(n, Root::Src);
            }
        }
        visit::visit_expr_closure(self, c);
    }
}

fn clone_split(cx: &Ctx, d: &FnDecl, _locals: &BTreeSet<String>) -> CloneAnalysis {
    // a "plain constructor" call: `T::f(args)` / `f(args)` resolving to exactly one scanned function that has
    // no receiver and whose parameters are all plain values (integers, bare type parameters)
    let plain: BTreeSet<String> = PLAIN_CTORS.with(|p| p.borrow().clone());
    let is_plain_ctor = |e: &syn::Expr| -> bool {
        if let syn::Expr::Call(c) = strip(e) {
            if let syn::Expr::Path(p) = strip(&c.func) {
                if p.qself.is_some() {
                    return false;
                }
                let segs: Vec<String> = p.path.segments.iter().map(|s| s.ident.to_string()).collect();
                let q = if segs.len() >= 2 {
                    let ty = if segs[segs.len() - 2] == "Self" { cx.self_type.clone().unwrap_or_default() } else { segs[segs.len() - 2].clone() };
                    format!("{}::{}", ty, segs[segs.len() - 1])
                } else {
                    segs.join("::")
                };
                return plain.contains(&q);
            }
        }
        false
    };
    let mut mv = MentionedV { names: &cx.ix.typedef_names, out: BTreeSet::new() };
    mv.visit_signature(&d.sig);
    mv.visit_block(&d.body);
    if let Some(t) = &cx.self_type {
        mv.out.insert(t.clone());
    }
    let mut v = CloneV { cx, decls_plain_ctor: &is_plain_ctor, env: BTreeMap::new(), out: CloneAnalysis { found: true, returns_fresh: true, ..Default::default() }, mentioned: mv.out };
    // parameters by value (none for `clone(&self)`; whatever is there is counted for the source half)
    for t in &d.info.params_owned {
        v.src_drop(d.info.line, t, "parameter taken by value");
    }
    v.visit_block(&d.body);
    // the value clone returns: the tail expression (explicit `return`s are checked where they occur)
    match d.body.stmts.last() {
        Some(syn::Stmt::Expr(e, None)) => v.check_return(e),
        _ => {
            v.out.returns_fresh = false;
            v.out.return_sites.push("the body has no tail expression".into());
        }
    }
    v.out
}

thread_local! {
    pub static PLAIN_CTORS: std::cell::RefCell<BTreeSet<String>> = std::cell::RefCell::new(BTreeSet::new());
}

pub fn set_plain_ctors(decls: &[FnDecl]) {
    let mut s = BTreeSet::new();
    let mut count: BTreeMap<String, usize> = BTreeMap::new();
    for d in decls {
        *count.entry(d.info.qname.clone()).or_insert(0) += 1;
    }
    for d in decls {
        let f = &d.info;
        if f.recv == Recv::None && f.params.iter().all(|p| p.plain) && count[&f.qname] == 1 && !f.qname.contains('#') {
            s.insert(f.qname.clone());
        }
    }
    PLAIN_CTORS.with(|p| *p.borrow_mut() = s);
}
