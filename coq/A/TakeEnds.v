(* The list-level specification of double-ended iteration (C12): any interleaving of next() and
   next_back() on a list M yields a prefix of M from the front and a reversed suffix from the back,
   each element exactly once, then None for ever. *)
Require Export LruV.A.ListLemmas.

(* the elements a run yielded from the front (pattern entry true) and from the back (false), in yield order *)
Fixpoint fronts {A} (pat : list bool) (outs : list (option A)) : list A :=
  match pat, outs with
  | true :: p, Some a :: o => a :: fronts p o
  | _ :: p, _ :: o => fronts p o
  | _, _ => []
  end.
Fixpoint backs {A} (pat : list bool) (outs : list (option A)) : list A :=
  match pat, outs with
  | false :: p, Some a :: o => a :: backs p o
  | _ :: p, _ :: o => backs p o
  | _, _ => []
  end.

(* what a run handed out *)
Definition somes {A} (outs : list (option A)) : list A := flat_map (fun o => match o with Some a => [a] | None => [] end) outs.

Lemma somes_none {A} n : somes (repeat (@None A) n) = [].
Proof. induction n as [|n IH]; cbn [repeat]; [reflexivity|]. unfold somes in *. cbn [flat_map app]. exact IH. Qed.

Lemma take_ends_nil {A} (pat : list bool) : take_ends (@nil A) pat = (repeat None (length pat), []).
Proof. induction pat as [|[|] p IH]; cbn [take_ends length repeat]; [reflexivity| |]; rewrite IH; reflexivity. Qed.

Lemma fronts_none {A} p n : fronts p (repeat (@None A) n) = [].
Proof. revert n. induction p as [|[|] p IH]; intros [|n]; cbn; auto. Qed.
Lemma backs_none {A} p n : backs p (repeat (@None A) n) = [].
Proof. revert n. induction p as [|[|] p IH]; intros [|n]; cbn; auto. Qed.

(* M = (yielded from the front) ++ (not yielded) ++ reverse (yielded from the back): every element is
   yielded at most once, in list order from the front and reverse list order from the back *)
Theorem take_ends_split {A} (pat : list bool) : forall (M : list A),
  let '(outs, rest) := take_ends M pat in
  M = fronts pat outs ++ rest ++ rev (backs pat outs) /\ length outs = length pat.
Proof.
  induction pat as [|f p IH]; intros M; cbn [take_ends].
  - cbn. rewrite app_nil_r. auto.
  - destruct f.
    + destruct M as [|a M'].
      * rewrite take_ends_nil. cbn [fronts backs length]. rewrite fronts_none, backs_none, repeat_length. auto.
      * specialize (IH M'). destruct (take_ends M' p) as [o m]. destruct IH as [IH1 IH2]. cbn [fronts backs app length]. split; [now rewrite <- IH1|now rewrite IH2].
    + destruct M as [|a M'].
      * rewrite take_ends_nil. cbn [fronts backs length]. rewrite fronts_none, backs_none, repeat_length. auto.
      * specialize (IH (removelast (a :: M'))). destruct (take_ends (removelast (a :: M')) p) as [o m]. destruct IH as [IH1 IH2].
        cbn [fronts backs length rev]. split; [|now rewrite IH2].
        assert (Hne : a :: M' <> []) by discriminate. rewrite (app_removelast_last a Hne) at 1. rewrite IH1.
        rewrite <- !app_assoc. reflexivity.
Qed.

(* None is returned only once everything has been yielded, and from then on for ever (fused) *)
Theorem take_ends_fused {A} (pat : list bool) : forall (M : list A),
  let '(outs, rest) := take_ends M pat in
  exists taken k, outs = map Some taken ++ repeat None k /\ (k <> 0%nat -> rest = []) /\ (length taken <= length M)%nat.
Proof.
  induction pat as [|f p IH]; intros M; cbn [take_ends].
  - exists [], 0%nat. cbn. repeat split; auto; lia.
  - destruct M as [|a M'].
    + destruct f; rewrite take_ends_nil; exists [], (S (length p)); cbn; auto.
    + destruct f.
      * specialize (IH M'). destruct (take_ends M' p) as [o m]. destruct IH as (t & k & -> & Hk & Hl).
        exists (a :: t), k. cbn [map app length]. repeat split; auto. lia.
      * specialize (IH (removelast (a :: M'))). destruct (take_ends (removelast (a :: M')) p) as [o m]. destruct IH as (t & k & -> & Hk & Hl).
        exists (last (a :: M') a :: t), k. cbn [map app length]. repeat split; auto.
        assert (Hne : a :: M' <> []) by discriminate. pose proof (f_equal (@length A) (app_removelast_last a Hne)) as Hlen.
        rewrite app_length in Hlen. cbn [length] in *. lia.
Qed.

(* consuming everything from the front gives the list, from the back its reverse *)
Lemma take_ends_all_front {A} (M : list A) : take_ends M (repeat true (length M)) = (map Some M, []).
Proof. induction M as [|a M IH]; cbn [length repeat take_ends map]; [reflexivity|]. now rewrite IH. Qed.

(* take_ends commutes with maps: iterating over nodes and reading their entries is iterating over the entries *)
Lemma removelast_map {A B} (f : A -> B) l : removelast (map f l) = map f (removelast l).
Proof. induction l as [|a l IH]; [reflexivity|]. destruct l as [|b l]; [reflexivity|]. cbn [map removelast] in *. now rewrite IH. Qed.
Lemma last_map {A B} (f : A -> B) l d : last (map f l) (f d) = f (last l d).
Proof. induction l as [|a l IH]; [reflexivity|]. destruct l as [|b l]; [reflexivity|]. cbn [map last] in *. exact IH. Qed.
Lemma take_ends_map {A B} (f : A -> B) (pat : list bool) : forall M,
  take_ends (map f M) pat = (map (option_map f) (fst (take_ends M pat)), map f (snd (take_ends M pat))).
Proof.
  induction pat as [|b p IH]; intros M; cbn [take_ends]; [reflexivity|].
  destruct M as [|a M'].
  - cbn [map]. destruct b; specialize (IH []); cbn [map] in IH; rewrite IH; destruct (take_ends (@nil A) p); reflexivity.
  - destruct b; cbn [map].
    + rewrite IH. destruct (take_ends M' p). reflexivity.
    + change (f a :: map f M') with (map f (a :: M')). rewrite removelast_map, IH, last_map.
      destruct (take_ends (removelast (a :: M')) p). reflexivity.
Qed.
