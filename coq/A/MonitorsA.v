(* Boolean monitors: the per-step statements of the properties, as executable functions of what
   is observed of the implementation (pre-state, operation, result, events, post-state).
   They are extracted and evaluated on the implementation's observations; MonitorsSound.v proves
   that every step of the model satisfies them. Definitions only. *)
Require Export LruV.A.ModelA.

Section Params.
Variables (E VS : N).

(* the size estimate of an entry as a mathematical integer (no wrap) *)
Definition true_size (e : entry) : N := kheap (ek e) + vheap (ev e) + E.

Fixpoint remove1 (x : N) (l : list N) : option (list N) :=
  match l with [] => None | y :: r => if x =? y then Some r else option_map (cons y) (remove1 x r) end.
(* a is a sub-multiset of b; returns what is left of b *)
Fixpoint msub (a b : list N) : option (list N) :=
  match a with [] => Some b | x :: r => match remove1 x b with None => None | Some b' => msub r b' end end.
Definition perm_eqb (a b : list N) : bool := match msub a b with Some [] => true | _ => false end.
Definition subm_b (a b : list N) : bool := match msub a b with Some _ => true | None => false end.
Fixpoint nodup_b (l : list N) : bool :=
  match l with [] => true | x :: r => negb (existsb (N.eqb x) r) && nodup_b r end.

(* C01: the bound, on the counter and on the true sum of the size estimates *)
Definition c01_mon (post : cache) : bool :=
  (cur post <=? maxs post) && (sumN (map true_size (ents post)) <=? maxs post).

(* C02: exact accounting *)
Definition c02_mon (post : cache) : bool :=
  (cur post =? sumN (map es (ents post))) &&
  forallb (fun e => es e =? true_size e) (ents post) &&
  Bool.eqb (cur post =? 0) (match ents post with [] => true | _ => false end).

(* C03: eviction is minimal, in the TRUE sizes of the entries (not the recorded ones): when an insertion, a mutate that
   keeps its entry, or a lowered limit made entries leave, the last of them to leave (the most recently used of them)
   could not have stayed: with it, the entries held afterwards would not fit.  `gone` = the entries of the state
   before whose key is no longer held. *)
Definition c03_gone (pre post : cache) : list entry :=
  filter (fun e => negb (existsb (N.eqb (kid (ek e))) (map (fun e' => kid (ek e')) (ents post)))) (ents pre).
Definition c03_mon (pre : cache) (p : op) (post : cache) : bool :=
  let asked := match p with
               | Insert _ _ | SetMaxSize _ => true
               | Mutate q _ _ => existsb (N.eqb q) (map (fun e' => kid (ek e')) (ents post))
               | _ => false
               end in
  if asked then match rev (c03_gone pre post) with
                | [] => true
                | e :: _ => maxs post <? sumN (map true_size (ents post)) + true_size e
                end
  else true.

(* C04: at most one entry per key *)
Definition c04_nodup_mon (post : cache) : bool := nodup_b (map (fun e => kid (ek e)) (ents post)).

(* tokens an operation brings in / hands back to the caller *)
Definition op_toks (p : op) : list N :=
  match p with Insert k v | TryInsert k v => [ktok k; vtok v] | _ => [] end.
Definition kv_toks (x : key * val) : list N := [ktok (fst x); vtok (snd x)].
Definition returned (p : op) (o : out) : list N :=
  match p, o with
  | Insert _ _, OInsOk (Some v) => [vtok v]
  | Insert _ _, OInsTooLarge k v _ _ => [ktok k; vtok v]
  | TryInsert _ _, OTryTooLarge k v _ _ => [ktok k; vtok v]
  | TryInsert _ _, OTryWouldEject k v _ _ => [ktok k; vtok v]
  | TryInsert _ _, OTryOccupied k v => [ktok k; vtok v]
  | Remove _, OVal (Some v) => [vtok v]
  | RemoveEntry _, OKV (Some x) => kv_toks x
  | RemoveLru, OKV (Some x) => kv_toks x
  | RemoveMru, OKV (Some x) => kv_toks x
  | Mutate _ _ _, OMutTooLarge k v _ _ _ => [ktok k; vtok v]
  | DrainOp _ _, OItems l => flat_map (fun i => match i with Some x => kv_toks x | None => [] end) l
  | _, _ => []
  end.
Definition leaks (p : op) : bool := match p with DrainOp _ FForget => true | _ => false end.

(* C06, one step: every token is accounted for exactly once; an operation that forgets an
   iterator may lose tokens but nothing is dropped or returned that was not held, or twice *)
Definition c06_mon (pre : cache) (p : op) (o : out) (dropped : list N) (post : cache) : bool :=
  let before := all_toks (ents pre) ++ op_toks p in
  let after := all_toks (ents post) ++ dropped ++ returned p o in
  nodup_b after && (if leaks p then subm_b after before else perm_eqb after before).

(* C20: hashing work bound, from observed quantities *)
Definition c20_mon (pre : cache) (p : op) (hashes : N) (rebuilt : bool) (post : cache) : bool :=
  let departed := N.of_nat (length (filter (fun e => negb (existsb (fun e' => ktok (ek e') =? ktok (ek e)) (ents post))) (ents pre))) in
  let may_rebuild := match p with Reserve _ | TryReserve _ | ShrinkTo _ | ShrinkToFit | Insert _ _ | TryInsert _ _ => true | _ => false end in
  let free := match p with IterOp _ | DrainOp _ _ | Clear | DebugFmt | PeekLru | PeekMru | GetLru | Len | IsEmpty | CurrentSize | MaxSize | Capacity => true | _ => false end in
  if free then hashes =? 0
  else hashes <=? 2 + departed + (if rebuilt && may_rebuild then len post else 0).
(* C13: the capacity inequalities, from observed quantities *)
Definition c13_mon (pre : cache) (p : op) (o : out) (post : cache) : bool :=
  let capb := capacity (tb pre) in let capa := capacity (tb post) in
  match p, o with
  | Reserve n, OUnit => len pre + n <=? capa
  | TryReserve n, OResOk => len pre + n <=? capa
  | TryReserve _, OResOverflow | TryReserve _, OResRefused => (capa =? capb) && (nb (tb post) =? nb (tb pre))
  | ShrinkTo n, OUnit => (capa <=? capb) && (if N.max (len pre) n <=? capb then N.max (len pre) n <=? capa else true)
  | ShrinkToFit, OUnit => (capa <=? capb) && (if len pre <=? capb then len pre <=? capa else true)
  (* automatic growth: when an insertion changes the number of buckets, the new table is the smallest one holding twice
     the entries that were in the table when it refused the new one (all of the final entries but the new one) *)
  | Insert _ _, OInsOk _ | TryInsert _ _, OTryOk =>
      if nb (tb post) =? nb (tb pre) then true
      else match c2b (N.max (2 * (len post - 1)) 1) with Some b => nb (tb post) =? b | None => false end
  | _, _ => true
  end.
End Params.
