(* Layer A: abstract, executable model of lru_mem::LruCache (src/lib.rs, src/iter.rs).
   One cache = its entries in recency order (LRU first) with the size recorded for each,
   the two counters and an abstraction of the hashbrown table's capacity accounting
   (Layer T). Definitions only. *)
Require Export LruV.Base.

Record entry := { ek : key; ev : val; es : N }.                       (* es = Entry.size as recorded *)
Record tbl := { nb : N; tombs : N }.             (* buckets (1 = unallocated singleton); tombstones *)
Record cache := { ents : list entry; cur : N; maxs : N; tb : tbl }.   (* ents: LRU first *)

(* what hashbrown / the allocator decided during this operation, as far as the abstraction
   does not determine it. Theorems quantify over all oracles. *)
Record oracle := { o_tomb : N;      (* how many of this operation's erasures left a tombstone *)
                   o_reuse : bool;  (* the insertion landed on a tombstone *)
                   o_alloc : bool   (* the allocator granted the table *) }.

(* which version of the code is modelled. The pinned tree has two defects at this level
   (DESIGN.md 8.1, 8.4); `fixed` follows the repaired code. *)
Record variant := { mut_orig : bool; shrink_orig : bool }.
Definition pinned : variant := {| mut_orig := true; shrink_orig := true |}.
Definition fixed : variant := {| mut_orig := false; shrink_orig := false |}.

Section Params.
Variables (E VS : N).             (* size_of::<Entry<K,V>>(), size_of::<V>() *)

(* entry_size (src/entry.rs): two usize additions *)
Definition esz (k : key) (v : val) : option N := a <- add64 (kheap k) (vheap v) ;; add64 a E.
Definition msz (v : val) : option N := add64 VS (vheap v).      (* value.mem_size() *)

(* ---------- hashbrown 0.14 capacity accounting (Layer T) ---------- *)
Definition npow2 (n : N) : N := 2 ^ N.log2_up n.          (* usize::next_power_of_two, n >= 1 *)
Definition c2b (cap : N) : option N :=                    (* capacity_to_buckets *)
  if cap <? 8 then Some (if cap <? 4 then 4 else 8)
  else m <- mul64 cap 8 ;; Some (npow2 (m / 7)).
Definition b2c (mask : N) : N := if mask <? 8 then mask else (mask + 1) / 8 * 7.   (* bucket_mask_to_capacity *)
Definition fullcap (t : tbl) : N := if nb t =? 1 then 0 else b2c (nb t - 1).
Definition capacity (t : tbl) : N := fullcap t - tombs t.
Definition growth_left (t : tbl) (items : N) : N := capacity t - items.

(* TableLayout::calculate_layout_for with size_of::<T>() = E, ctrl_align = 16, Group::WIDTH = 16 *)
Definition layout_ok (b : N) : bool :=
  match mul64 E b with
  | None => false
  | Some sz => match add64 sz 15 with
               | None => false
               | Some x => let off := x / 16 * 16 in
                           match add64 off (b + 16) with
                           | None => false
                           | Some len => len <=? 9223372036854775807 - 15
                           end
               end
  end.

Inductive alloc_res := AOk (t : tbl) | AOverflow | ARefused.
Definition t_alloc (n : N) (alloc_ok : bool) : alloc_res :=          (* RawTable::try_with_capacity *)
  if n =? 0 then AOk {| nb := 1; tombs := 0 |} else
  match c2b n with
  | None => AOverflow
  | Some b => if negb (layout_ok b) then AOverflow
              else if alloc_ok then AOk {| nb := b; tombs := 0 |} else ARefused
  end.
Definition t_erase (t : tbl) (k : N) : tbl := {| nb := nb t; tombs := tombs t + k |}.
Definition t_clear (t : tbl) : tbl := {| nb := nb t; tombs := 0 |}.

(* ---------- events and outputs ---------- *)
Record events := { e_evicted : list entry;        (* entries evicted to make room, in eviction order *)
                   e_dropped : list N;            (* tokens whose Drop ran inside the call (multiset) *)
                   e_hashes : N;                  (* key hashes computed *)
                   e_rebuilt : bool;              (* table rebuilt *)
                   e_visits : list (key * val) }. (* predicate calls, in order *)
Definition ev0 : events := {| e_evicted := []; e_dropped := []; e_hashes := 0; e_rebuilt := false; e_visits := [] |}.
Definition hashed (n : N) : events := {| e_evicted := []; e_dropped := []; e_hashes := n; e_rebuilt := false; e_visits := [] |}.

Inductive out :=
| OUnit | OBool (b : bool) | ONum (n : N)
| OVal (o : option val) | OKV (o : option (key * val))
| OInsOk (old : option val) | OInsTooLarge (k : key) (v : val) (sz mx : N)
| OTryOk | OTryTooLarge (k : key) (v : val) (sz mx : N) | OTryWouldEject (k : key) (v : val) (sz free : N)
| OTryOccupied (k : key) (v : val)
| OMutNone | OMutOk | OMutTooLarge (k : key) (v : val) (old new mx : N)
| OItems (l : list (option (key * val)))
| OResOk | OResOverflow | OResRefused | OPanic.

(* how an owning / draining iterator ends: dropped normally, or leaked with mem::forget *)
Inductive fin := FDrop | FForget.

Inductive op :=
| Insert (k : key) (v : val) | TryInsert (k : key) (v : val)
| Get (q : N) | GetEntry (q : N) | Peek (q : N) | PeekEntry (q : N) | Contains (q : N) | Touch (q : N)
| GetLru | PeekLru | PeekMru | Remove (q : N) | RemoveEntry (q : N) | RemoveLru | RemoveMru
| Mutate (q : N) (newtag newheap : N) | SetMaxSize (n : N) | Retain (keep : key -> val -> bool) | Clear
| IterOp (pat : list bool) | DrainOp (pat : list bool) (f : fin)
| Reserve (n : N) | TryReserve (n : N) | ShrinkTo (n : N) | ShrinkToFit
| DebugFmt | Len | IsEmpty | CurrentSize | MaxSize | Capacity.

(* ---------- helpers on the list ---------- *)
Definition len (s : cache) : N := N.of_nat (length (ents s)).
Definition toks (e : entry) : list N := [ktok (ek e); vtok (ev e)].
Definition kv (e : entry) := (ek e, ev e).
Definition all_toks (l : list entry) : list N := flat_map toks l.

Fixpoint find_id (q : N) (l : list entry) : option entry :=
  match l with [] => None | e :: r => if kid (ek e) =? q then Some e else find_id q r end.
Fixpoint remove_id (q : N) (l : list entry) : list entry :=
  match l with [] => [] | e :: r => if kid (ek e) =? q then r else e :: remove_id q r end.

(* while current_size > target { remove_lru() }.
   None = arithmetic fault, or the loop spinning for ever on an empty list *)
Fixpoint eject (l : list entry) (c target : N) : option (list entry * N * list entry) :=
  if c <=? target then Some (l, c, []) else
  match l with
  | [] => None
  | e :: r => c' <- sub64 c (es e) ;;
              x <- eject r c' target ;;
              let '(l', c'', evd) := x in Some (l', c'', e :: evd)
  end.

(* insert_unchecked's table side: try_insert_no_grow, growing to max(2*capacity,1) on failure.
   items = entries in the table before the insertion. Returns new table and whether it was rebuilt. *)
Definition t_insert (t : tbl) (items : N) (o : oracle) : option (tbl * bool) :=
  if andb (o_reuse o) (0 <? tombs t) then Some ({| nb := nb t; tombs := tombs t - 1 |}, false)
  else if 0 <? growth_left t items then Some (t, false)
  else c2 <- mul64 (capacity t) 2 ;;
       match t_alloc (N.max c2 1) true with
       | AOk t' => if 0 <? growth_left t' items then Some (t', true) else None
       | _ => None          (* reallocate() unwraps: a refusal here aborts/panics; excluded from traces *)
       end.

Definition set_ents (s : cache) l c t := {| ents := l; cur := c; maxs := maxs s; tb := t |}.

(* ---------- operations ---------- *)
Definition do_insert (s : cache) (k : key) (v : val) (o : oracle) : option (cache * out * events) :=
  sz <- esz k v ;;
  if maxs s <? sz then Some (s, OInsTooLarge k v sz (maxs s), ev0) else
  let old := find_id (kid k) (ents s) in
  let l0 := remove_id (kid k) (ents s) in
  c0 <- match old with Some e => sub64 (cur s) (es e) | None => Some (cur s) end ;;
  tgt <- sub64 (maxs s) sz ;;
  x <- eject l0 c0 tgt ;;
  let '(l1, c1, evd) := x in
  let t1 := t_erase (tb s) (o_tomb o) in
  ti <- t_insert t1 (N.of_nat (length l1)) o ;;
  let '(t2, rebuilt) := ti in
  c2 <- add64 c1 sz ;;
  Some (set_ents s (l1 ++ [{| ek := k; ev := v; es := sz |}]) c2 t2,
        OInsOk (option_map ev old),
        {| e_evicted := evd;
           e_dropped := (match old with Some e => [ktok (ek e)] | None => [] end) ++ all_toks evd;
           e_hashes := 1 + N.of_nat (length evd) + (if rebuilt then N.of_nat (length l1) else 0);
           e_rebuilt := rebuilt; e_visits := [] |}).

Definition do_try_insert (s : cache) (k : key) (v : val) (o : oracle) : option (cache * out * events) :=
  sz <- esz k v ;;
  if maxs s <? sz then Some (s, OTryTooLarge k v sz (maxs s), ev0) else
  free <- sub64 (maxs s) (cur s) ;;
  if free <? sz then Some (s, OTryWouldEject k v sz free, ev0) else
  match find_id (kid k) (ents s) with
  | Some _ => Some (s, OTryOccupied k v, hashed 1)
  | None =>
    ti <- t_insert (tb s) (len s) o ;;
    let '(t2, rebuilt) := ti in
    c2 <- add64 (cur s) sz ;;
    Some (set_ents s (ents s ++ [{| ek := k; ev := v; es := sz |}]) c2 t2, OTryOk,
          {| e_evicted := []; e_dropped := []; e_hashes := 1 + (if rebuilt then len s else 0);
             e_rebuilt := rebuilt; e_visits := [] |})
  end.

Definition do_touch (s : cache) (q : N) : cache * option entry :=
  match find_id q (ents s) with
  | Some e => (set_ents s (remove_id q (ents s) ++ [e]) (cur s) (tb s), Some e)
  | None => (s, None)
  end.

(* mutate. mut_orig = true: the pinned tree (current_size += diff BEFORE evicting);
   mut_orig = false: the repaired order (touch, evict down to max - diff, then account). *)
Definition do_mutate (vr : variant) (s : cache) (q newtag newheap : N) (o : oracle) : option (cache * out * events) :=
  match find_id q (ents s) with
  | None => Some (s, OMutNone, hashed 1)
  | Some e =>
    let v' := {| vtok := vtok (ev e); vtag := newtag; vheap := newheap |} in
    oldv <- msz (ev e) ;; newv <- msz v' ;;
    let l0 := remove_id q (ents s) in
    if oldv <? newv then
      diff <- sub64 newv oldv ;;
      nes <- add64 (es e) diff ;;
      if maxs s <? nes then
        c <- sub64 (cur s) (es e) ;;
        Some (set_ents s l0 c (t_erase (tb s) (o_tomb o)), OMutTooLarge (ek e) v' (es e) nes (maxs s), hashed 2)
      else if mut_orig vr then
        c <- add64 (cur s) diff ;;
        x <- eject (l0 ++ [{| ek := ek e; ev := v'; es := nes |}]) c (maxs s) ;;
        let '(l1, c1, evd) := x in
        Some (set_ents s l1 c1 (t_erase (tb s) (o_tomb o)), OMutOk,
              {| e_evicted := evd; e_dropped := all_toks evd; e_hashes := 1 + N.of_nat (length evd); e_rebuilt := false; e_visits := [] |})
      else
        tgt <- sub64 (maxs s) diff ;;
        x <- eject (l0 ++ [{| ek := ek e; ev := v'; es := es e |}]) (cur s) tgt ;;
        let '(l1, c1, evd) := x in
        c2 <- add64 c1 diff ;;
        match l1 with
        | [] => None     (* the mutated entry itself was evicted: the size update would write to a moved-out bucket *)
        | _ => Some (set_ents s (removelast l1 ++ [{| ek := ek e; ev := v'; es := nes |}]) c2 (t_erase (tb s) (o_tomb o)), OMutOk,
              {| e_evicted := evd; e_dropped := all_toks evd; e_hashes := 1 + N.of_nat (length evd); e_rebuilt := false; e_visits := [] |})
        end
    else
      diff <- sub64 oldv newv ;;
      nes <- sub64 (es e) diff ;;
      c <- sub64 (cur s) diff ;;
      Some (set_ents s (l0 ++ [{| ek := ek e; ev := v'; es := nes |}]) c (tb s), OMutOk, hashed 1)
  end.

Definition removed_ev (e : entry) (o : oracle) (s : cache) (l : list entry) : option (cache * events) :=
  c <- sub64 (cur s) (es e) ;;
  Some (set_ents s l c (t_erase (tb s) (o_tomb o)), hashed 1).

(* the list-level specification of a double-ended iterator run: true = next(), false = next_back() *)
Fixpoint take_ends {A} (M : list A) (pat : list bool) : list (option A) * list A :=
  match pat with
  | [] => ([], M)
  | true :: r => match M with
                 | [] => let '(o, m) := take_ends [] r in (None :: o, m)
                 | a :: M' => let '(o, m) := take_ends M' r in (Some a :: o, m) end
  | false :: r => match M with
                  | [] => let '(o, m) := take_ends [] r in (None :: o, m)
                  | a :: _ => let '(o, m) := take_ends (removelast M) r in (Some (last M a) :: o, m) end
  end.

(* try_reallocate(n): everything unchanged unless it succeeds *)
Definition do_realloc (s : cache) (n : N) (o : oracle) : cache * alloc_res :=
  match t_alloc n (o_alloc o) with
  | AOk t' => (set_ents s (ents s) (cur s) t', AOk t')
  | r => (s, r)
  end.
Definition rebuilt_ev (s : cache) : events := {| e_evicted := []; e_dropped := []; e_hashes := len s; e_rebuilt := true; e_visits := [] |}.

(* shrink_to(n). shrink_orig = true: the pinned tree (reallocates whenever capacity > want);
   false: the repaired code (allocates the smaller table first and keeps the old one when the
   new one would not be smaller). *)
Definition do_shrink (vr : variant) (s : cache) (n : N) (o : oracle) : option (cache * out * events) :=
  let want := N.max (len s) n in
  if want <? capacity (tb s) then
    if shrink_orig vr then
      match do_realloc s want o with
      | (s', AOk _) => Some (s', OUnit, rebuilt_ev s)
      | (s', _) => Some (s', OPanic, ev0) end
    else
      match t_alloc want (o_alloc o) with
      | AOk t' => if capacity t' <? capacity (tb s) then Some (set_ents s (ents s) (cur s) t', OUnit, rebuilt_ev s)
                  else Some (s, OUnit, ev0)
      | _ => Some (s, OPanic, ev0) end
  else Some (s, OUnit, ev0).

Definition stepA (vr : variant) (s : cache) (p : op) (o : oracle) : option (cache * out * events) :=
  match p with
  | Insert k v => do_insert s k v o
  | TryInsert k v => do_try_insert s k v o
  | Get q => let '(s', r) := do_touch s q in Some (s', OVal (option_map ev r), hashed 1)
  | GetEntry q => let '(s', r) := do_touch s q in Some (s', OKV (option_map kv r), hashed 1)
  | Touch q => let '(s', _) := do_touch s q in Some (s', OUnit, hashed 1)
  | Peek q => Some (s, OVal (option_map ev (find_id q (ents s))), hashed 1)
  | PeekEntry q => Some (s, OKV (option_map kv (find_id q (ents s))), hashed 1)
  | Contains q => Some (s, OBool (match find_id q (ents s) with Some _ => true | None => false end), hashed 1)
  | GetLru => match ents s with
              | [] => Some (s, OKV None, ev0)
              | e :: r => Some (set_ents s (r ++ [e]) (cur s) (tb s), OKV (Some (kv e)), ev0) end
  | PeekLru => Some (s, OKV (option_map kv (hd_error (ents s))), ev0)
  | PeekMru => Some (s, OKV (match ents s with [] => None | e :: _ => Some (kv (last (ents s) e)) end), ev0)
  | Remove q => match find_id q (ents s) with
                | None => Some (s, OVal None, hashed 1)
                | Some e => x <- removed_ev e o s (remove_id q (ents s)) ;;
                            let '(s', evs) := x in
                            Some (s', OVal (Some (ev e)),
                                  {| e_evicted := []; e_dropped := [ktok (ek e)]; e_hashes := 1; e_rebuilt := false; e_visits := [] |}) end
  | RemoveEntry q => match find_id q (ents s) with
                | None => Some (s, OKV None, hashed 1)
                | Some e => x <- removed_ev e o s (remove_id q (ents s)) ;;
                            let '(s', evs) := x in Some (s', OKV (Some (kv e)), evs) end
  | RemoveLru => match ents s with
                 | [] => Some (s, OKV None, ev0)
                 | e :: r => x <- removed_ev e o s r ;; let '(s', evs) := x in Some (s', OKV (Some (kv e)), evs) end
  | RemoveMru => match ents s with
                 | [] => Some (s, OKV None, ev0)
                 | a :: _ => let e := last (ents s) a in
                             x <- removed_ev e o s (removelast (ents s)) ;; let '(s', evs) := x in Some (s', OKV (Some (kv e)), evs) end
  | Mutate q nt nh => do_mutate vr s q nt nh o
  | SetMaxSize n =>
      x <- eject (ents s) (cur s) n ;;
      let '(l1, c1, evd) := x in
      Some ({| ents := l1; cur := c1; maxs := n; tb := t_erase (tb s) (o_tomb o) |}, OUnit,
            {| e_evicted := evd; e_dropped := all_toks evd; e_hashes := N.of_nat (length evd); e_rebuilt := false; e_visits := [] |})
  | Retain keep =>
      let kept := filter (fun e => keep (ek e) (ev e)) (ents s) in
      let gone := filter (fun e => negb (keep (ek e) (ev e))) (ents s) in
      c <- fold_left (fun c e => c0 <- c ;; sub64 c0 (es e)) gone (Some (cur s)) ;;
      Some (set_ents s kept c (t_erase (tb s) (o_tomb o)), OUnit,
            {| e_evicted := []; e_dropped := all_toks gone; e_hashes := N.of_nat (length gone); e_rebuilt := false;
               e_visits := map kv (ents s) |})
  | Clear => Some (set_ents s [] 0 (t_clear (tb s)), OUnit,
                   {| e_evicted := []; e_dropped := all_toks (ents s); e_hashes := 0; e_rebuilt := false; e_visits := [] |})
  | IterOp pat => Some (s, OItems (map (option_map kv) (fst (take_ends (ents s) pat))), ev0)
  | DebugFmt => Some (s, OItems (map (fun e => Some (kv e)) (ents s)), ev0)
  | DrainOp pat f =>
      (* repaired Drain: the cache is emptied when the Drain is created; dropping it drops the
         entries not yielded, forgetting it leaks them *)
      let '(outs, rest) := take_ends (ents s) pat in
      Some (set_ents s [] 0 (t_clear (tb s)), OItems (map (option_map kv) outs),
            {| e_evicted := []; e_dropped := (match f with FDrop => all_toks rest | FForget => [] end);
               e_hashes := 0; e_rebuilt := false; e_visits := [] |})
  | Reserve n =>
      match add64 (len s) n with
      | None => Some (s, OPanic, ev0)
      | Some want => if capacity (tb s) <? want then
                       match do_realloc s want o with
                       | (s', AOk _) => Some (s', OUnit, rebuilt_ev s)
                       | (s', _) => Some (s', OPanic, ev0) end
                     else Some (s, OUnit, ev0)
      end
  | TryReserve n =>
      match add64 (len s) n with
      | None => Some (s, OResOverflow, ev0)
      | Some want => if capacity (tb s) <? want then
                       match do_realloc s want o with
                       | (s', AOk _) => Some (s', OResOk, rebuilt_ev s)
                       | (s', AOverflow) => Some (s', OResOverflow, ev0)
                       | (s', ARefused) => Some (s', OResRefused, ev0) end
                     else Some (s, OResOk, ev0)
      end
  | ShrinkTo n => do_shrink vr s n o
  | ShrinkToFit => do_shrink vr s 0 o
  | Len => Some (s, ONum (len s), ev0)
  | IsEmpty => Some (s, OBool (match ents s with [] => true | _ => false end), ev0)
  | CurrentSize => Some (s, ONum (cur s), ev0)
  | MaxSize => Some (s, ONum (maxs s), ev0)
  | Capacity => Some (s, ONum (capacity (tb s)), ev0)
  end.

Definition new_cache (mx cap : N) : option cache :=
  match t_alloc cap true with AOk t => Some {| ents := []; cur := 0; maxs := mx; tb := t |} | _ => None end.

(* ---------- operations that involve more than one cache, or consume the cache ---------- *)

(* Clone: with_capacity(self.capacity()), current_size copied, entries re-inserted LRU to MRU with
   their recorded sizes. The copies get fresh object tokens: tokens are renamed by `ren`. *)
Definition clone_entry (ren : N -> N) (e : entry) : entry :=
  {| ek := {| kid := kid (ek e); ktok := ren (ktok (ek e)); kheap := kheap (ek e) |};
     ev := {| vtok := ren (vtok (ev e)); vtag := vtag (ev e); vheap := vheap (ev e) |};
     es := es e |}.
Definition do_clone (s : cache) (ren : N -> N) : option (cache * events) :=
  match t_alloc (capacity (tb s)) true with
  | AOk t => Some ({| ents := map (clone_entry ren) (ents s); cur := cur s; maxs := maxs s; tb := t |},
                   {| e_evicted := []; e_dropped := []; e_hashes := len s; e_rebuilt := false; e_visits := [] |})
  | _ => None
  end.

(* Drop for LruCache *)
Definition do_drop (s : cache) : events :=
  {| e_evicted := []; e_dropped := all_toks (ents s); e_hashes := 0; e_rebuilt := false; e_visits := [] |}.

(* into_iter / into_keys / into_values: items yielded for the pattern; what the iterator's own Drop drops.
   kind: 0 = pairs, 1 = keys (values of yielded pairs are dropped at once), 2 = values *)
Definition yielded_drops (kind : N) (outs : list (option entry)) : list N :=
  flat_map (fun o => match o with None => [] | Some e =>
     if kind =? 1 then [vtok (ev e)] else if kind =? 2 then [ktok (ek e)] else [] end) outs.
Definition do_into_iter (s : cache) (kind : N) (pat : list bool) (f : fin) : out * events :=
  let '(outs, rest) := take_ends (ents s) pat in
  (OItems (map (option_map kv) outs),
   {| e_evicted := []; e_dropped := yielded_drops kind outs ++ (match f with FDrop => all_toks rest | FForget => [] end);
      e_hashes := 0; e_rebuilt := false; e_visits := [] |}).
End Params.
