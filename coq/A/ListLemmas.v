(* List and arithmetic lemmas shared by the Layer A proofs. *)
Require Export LruV.A.ModelA.
From Coq Require Export Lia Permutation.
Global Arguments N.add : simpl never.
Global Arguments N.sub : simpl never.
Global Arguments N.mul : simpl never.
Global Arguments N.leb : simpl never.
Global Arguments N.ltb : simpl never.
Global Arguments N.eqb : simpl never.

Lemma sumN_app a b : sumN (a ++ b) = sumN a + sumN b.
Proof. unfold sumN. induction a as [|x a IH]; cbn [app fold_right]; [lia|]. rewrite IH. lia. Qed.
Lemma sumN_cons x a : sumN (x :: a) = x + sumN a.
Proof. reflexivity. Qed.

Definition sum_es (l : list entry) : N := sumN (map es l).
Definition kids (l : list entry) : list N := map (fun e => kid (ek e)) l.

Lemma sum_es_app a b : sum_es (a ++ b) = sum_es a + sum_es b.
Proof. unfold sum_es. rewrite map_app. apply sumN_app. Qed.
Lemma sum_es_cons e a : sum_es (e :: a) = es e + sum_es a.
Proof. reflexivity. Qed.
Lemma sum_es_nil : sum_es [] = 0.
Proof. reflexivity. Qed.
Lemma kids_app a b : kids (a ++ b) = kids a ++ kids b.
Proof. unfold kids. apply map_app. Qed.

Lemma add64_some a b : a + b < W -> add64 a b = Some (a + b).
Proof. intros H. unfold add64. destruct (N.ltb_spec (a + b) W); [reflexivity|lia]. Qed.
Lemma sub64_some a b : b <= a -> sub64 a b = Some (a - b).
Proof. intros H. unfold sub64. destruct (N.leb_spec b a); [reflexivity|lia]. Qed.
Lemma add64_inv a b c : add64 a b = Some c -> c = a + b /\ a + b < W.
Proof. unfold add64. destruct (N.ltb_spec (a + b) W); [|discriminate]. intros [= <-]. split; [reflexivity|assumption]. Qed.
Lemma sub64_inv a b c : sub64 a b = Some c -> c = a - b /\ b <= a.
Proof. unfold sub64. destruct (N.leb_spec b a); [|discriminate]. intros [= <-]. split; [reflexivity|assumption]. Qed.

Lemma bind_some {A B} (o : option A) (f : A -> option B) r :
  bind o f = Some r -> exists a, o = Some a /\ f a = Some r.
Proof. destruct o as [a|]; cbn [bind]; [eauto|discriminate]. Qed.

(* ---------- find_id / remove_id ---------- *)
Lemma find_id_none q l : find_id q l = None -> remove_id q l = l /\ ~ In q (kids l).
Proof.
  induction l as [|e r IH]; cbn [find_id remove_id kids map]; [intros; split; [reflexivity|intros []]|].
  destruct (N.eqb_spec (kid (ek e)) q) as [Heq|Hne]; [discriminate|].
  intros H. destruct (IH H) as [IH1 IH2]. split; [now rewrite IH1|]. intros [Hin|Hin]; [congruence|]. now apply IH2.
Qed.

Lemma find_id_some q l e : find_id q l = Some e ->
  exists l1 l2, l = l1 ++ e :: l2 /\ remove_id q l = l1 ++ l2 /\ kid (ek e) = q /\ ~ In q (kids l1).
Proof.
  induction l as [|x r IH]; cbn [find_id remove_id]; [discriminate|].
  destruct (N.eqb_spec (kid (ek x)) q) as [Heq|Hne].
  - intros [= <-]. exists [], r. repeat split; auto.
  - intros H. destruct (IH H) as (l1 & l2 & -> & Hr & Hk & Hn). exists (x :: l1), l2.
    repeat split; cbn [app]; auto; [now rewrite Hr|]. cbn [kids map]. intros [Hin|Hin]; [congruence|]. now apply Hn.
Qed.

Lemma NoDup_app_remove_mid {A} (l1 l2 : list A) x : NoDup (l1 ++ x :: l2) -> NoDup (l1 ++ l2) /\ ~ In x (l1 ++ l2).
Proof. intros H. split; [eapply NoDup_remove_1; eauto|eapply NoDup_remove_2; eauto]. Qed.

Lemma NoDup_snoc {A} (l : list A) x : NoDup l -> ~ In x l -> NoDup (l ++ [x]).
Proof.
  induction l as [|y l IH]; intros Hn Hx; cbn; [repeat constructor; easy|].
  apply NoDup_cons_iff in Hn as [Hy Hl]. constructor.
  - intros H. apply in_app_or in H as [H|[<-|[]]]; [tauto|]. apply Hx. now left.
  - apply IH; [exact Hl|]. intros H. apply Hx. now right.
Qed.

Lemma NoDup_app_l {A} (a b : list A) : NoDup (a ++ b) -> NoDup a.
Proof. induction a as [|x a IH]; cbn; [constructor|]. intros H. apply NoDup_cons_iff in H as [H1 H2]. constructor; [|auto]. intros Hin. apply H1. apply in_or_app. now left. Qed.
Lemma NoDup_app_r {A} (a b : list A) : NoDup (a ++ b) -> NoDup b.
Proof. induction a as [|x a IH]; cbn; [auto|]. intros H. apply NoDup_cons_iff in H as [_ H2]. auto. Qed.

Lemma snoc_split {A} (l0 : list A) x ev l1 : l0 ++ [x] = ev ++ l1 -> l1 <> [] -> exists l1', l1 = l1' ++ [x] /\ l0 = ev ++ l1'.
Proof.
  intros H Hne. destruct (exists_last Hne) as (l1' & y & ->). rewrite app_assoc in H.
  apply app_inj_tail in H as [H1 H2]. subst. eauto.
Qed.

Lemma last_removelast_split {A} (l : list A) d : l <> [] -> l = removelast l ++ [last l d].
Proof. intros H. now apply app_removelast_last. Qed.

Lemma filter_split_sum (f : entry -> bool) l :
  sum_es l = sum_es (filter f l) + sum_es (filter (fun e => negb (f e)) l).
Proof.
  induction l as [|e r IH]; cbn [filter]; [reflexivity|]. destruct (f e); cbn [negb]; rewrite !sum_es_cons; lia.
Qed.

Lemma NoDup_map_filter {A B} (g : A -> B) (f : A -> bool) l : NoDup (map g l) -> NoDup (map g (filter f l)).
Proof.
  induction l as [|x r IH]; cbn [filter map]; [auto|]. intros H. apply NoDup_cons_iff in H as [H1 H2].
  destruct (f x); cbn [map]; [|auto]. constructor; [|auto]. intros Hin. apply H1.
  apply in_map_iff in Hin as (y & Hy & Hin). apply filter_In in Hin as [Hin _]. apply in_map_iff. eauto.
Qed.
