(* Hashing cost (C20) at the level of the abstract model: the number of key hashes an operation
   computes (e_hashes, which the correspondence check compares with the implementation's count of
   Hash::hash calls) is bounded by 2 + departures + (held entries, only when the table is rebuilt). *)
Require Export LruV.A.SpecA.

Definition added (p : op) (o : out) : N :=
  match p, o with Insert _ _, OInsOk _ | TryInsert _ _, OTryOk => 1 | _, _ => 0 end.
Definition hash_free (p : op) : bool :=
  match p with IterOp _ | DrainOp _ _ | Clear | DebugFmt | PeekLru | PeekMru | GetLru | Len | IsEmpty | CurrentSize | MaxSize | Capacity => true | _ => false end.
Definition may_rebuild (p : op) : bool :=
  match p with Reserve _ | TryReserve _ | ShrinkTo _ | ShrinkToFit | Insert _ _ | TryInsert _ _ => true | _ => false end.

Lemma len_app (s : cache) l1 l2 : ents s = l1 ++ l2 -> len s = N.of_nat (length l1) + N.of_nat (length l2).
Proof. unfold len. intros ->. rewrite app_length. lia. Qed.
Lemma length_filter_split {A} (f : A -> bool) l : (length l = length (filter f l) + length (filter (fun x => negb (f x)) l))%nat.
Proof. induction l as [|x l IH]; cbn [filter length]; [reflexivity|]. destruct (f x); cbn [negb length]; lia. Qed.
Lemma length_remove_id q l e : find_id q l = Some e -> length l = S (length (remove_id q l)).
Proof. intros Hf. destruct (find_id_some _ _ _ Hf) as (la & lb & -> & -> & _). rewrite !app_length. cbn [length]. lia. Qed.

Section Params.
Variables (E VS : N).
Hypothesis E_pos : 0 < E.
Hypothesis VS_le_E : VS <= E.
Notation Inv := (Inv E).

Definition cost_ok (s : cache) (p : op) (s' : cache) (o : out) (evs : events) : Prop :=
  e_hashes evs + len s' <= 2 + len s + added p o + (if e_rebuilt evs then len s' else 0) /\
  (hash_free p = true -> e_hashes evs = 0) /\
  (e_rebuilt evs = true -> may_rebuild p = true).

Lemma cost_same s p o n : n <= 2 -> (hash_free p = true -> n = 0) -> cost_ok s p s o (hashed n).
Proof. intros H1 H2. unfold cost_ok. cbn [e_hashes e_rebuilt hashed]. repeat split; auto; try lia; try discriminate. Qed.
Lemma cost_same0 s p o : cost_ok s p s o ev0.
Proof. unfold cost_ok. cbn [e_hashes e_rebuilt ev0]. repeat split; auto; try lia; try discriminate. Qed.

Lemma removed_cost e o s l r : removed_ev e o s l = Some r -> ents (fst r) = l /\ snd r = hashed 1.
Proof. unfold removed_ev. intros H. apply bind_some in H as (c & _ & H). injection H as <-. auto. Qed.

Theorem step_cost s p o s' out evs : Inv s -> wf_op E s p ->
  stepA E VS fixed s p o = Some (s', out, evs) -> cost_ok s p s' out evs.
Proof.
  intros HI Hwf H. destruct p; cbn [stepA wf_op] in H, Hwf;
    try (injection H as <- <- <-; first [apply cost_same0 | apply cost_same; [lia|discriminate]]).
  - (* Insert *)
    destruct (insert_spec E VS E_pos VS_le_E s k v o _ HI Hwf H) as [[_ Hr]|(_ & evd & rest & t2 & rb & Hmp & _ & _ & Hr)];
      injection Hr as -> -> ->; [apply cost_same0|].
    unfold cost_ok. cbn [e_hashes e_rebuilt added may_rebuild hash_free]. destruct Hmp as (Hl & _).
    assert (Hlen : N.of_nat (length (remove_id (kid k) (ents s))) <= len s).
    { unfold len. destruct (find_id (kid k) (ents s)) eqn:Hf; [rewrite (length_remove_id _ _ _ Hf); lia|destruct (find_id_none _ _ Hf) as [-> _]; lia]. }
    rewrite Hl, app_length in Hlen. unfold len at 1 3. cbn [ents set_ents]. rewrite app_length. cbn [length].
    repeat split; try discriminate; destruct rb; lia.
  - (* TryInsert *)
    destruct (try_insert_spec E VS E_pos VS_le_E s k v o _ HI Hwf H) as [[_ Hr]|[(_ & _ & Hr)|[(_ & _ & Hr)|(_ & Hfree & t2 & rb & _ & Hr)]]];
      injection Hr as -> -> ->; try apply cost_same0; [apply cost_same; [lia|discriminate]|].
    unfold cost_ok. cbn [e_hashes e_rebuilt added may_rebuild hash_free]. unfold len. cbn [ents set_ents]. rewrite app_length. cbn [length].
    repeat split; try discriminate; destruct rb; lia.
  - destruct (do_touch s q) eqn:Ht. injection H as <- <- <-. unfold do_touch in Ht. destruct (find_id q (ents s)) as [e|] eqn:Hf; injection Ht as <- <-; [|apply cost_same; [lia|discriminate]].
    unfold cost_ok. cbn [e_hashes e_rebuilt hashed added hash_free may_rebuild]. unfold len. cbn [ents set_ents]. rewrite app_length, (length_remove_id _ _ _ Hf). cbn [length].
    repeat split; try discriminate; lia.
  - destruct (do_touch s q) eqn:Ht. injection H as <- <- <-. unfold do_touch in Ht. destruct (find_id q (ents s)) as [e|] eqn:Hf; injection Ht as <- <-; [|apply cost_same; [lia|discriminate]].
    unfold cost_ok. cbn [e_hashes e_rebuilt hashed added hash_free may_rebuild]. unfold len. cbn [ents set_ents]. rewrite app_length, (length_remove_id _ _ _ Hf). cbn [length].
    repeat split; try discriminate; lia.
  - destruct (do_touch s q) eqn:Ht. injection H as <- <- <-. unfold do_touch in Ht. destruct (find_id q (ents s)) as [e|] eqn:Hf; injection Ht as <- <-; [|apply cost_same; [lia|discriminate]].
    unfold cost_ok. cbn [e_hashes e_rebuilt hashed added hash_free may_rebuild]. unfold len. cbn [ents set_ents]. rewrite app_length, (length_remove_id _ _ _ Hf). cbn [length].
    repeat split; try discriminate; lia.
  - (* GetLru *) destruct (ents s) as [|e r] eqn:El; injection H as <- <- <-; [apply cost_same0|].
    unfold cost_ok. cbn [e_hashes e_rebuilt ev0 added hash_free may_rebuild]. unfold len. cbn [ents set_ents]. rewrite El, app_length. cbn [length].
    repeat split; try discriminate; lia.
  - (* Remove *) destruct (find_id q (ents s)) as [e|] eqn:Hf; [|injection H as <- <- <-; apply cost_same; [lia|discriminate]].
    apply bind_some in H as ([s1 e1] & H1 & H). injection H as <- <- <-. apply removed_cost in H1 as [H1 _]. cbn [fst] in H1.
    unfold cost_ok. cbn [e_hashes e_rebuilt added hash_free may_rebuild]. unfold len. rewrite H1, (length_remove_id _ _ _ Hf).
    repeat split; try discriminate; lia.
  - (* RemoveEntry *) destruct (find_id q (ents s)) as [e|] eqn:Hf; [|injection H as <- <- <-; apply cost_same; [lia|discriminate]].
    apply bind_some in H as ([s1 e1] & H1 & H). injection H as <- <- <-. apply removed_cost in H1 as [H1 H2]. cbn [fst snd] in H1, H2. subst e1.
    unfold cost_ok. cbn [e_hashes e_rebuilt hashed added hash_free may_rebuild]. unfold len. rewrite H1, (length_remove_id _ _ _ Hf).
    repeat split; try discriminate; lia.
  - (* RemoveLru *) destruct (ents s) as [|e r] eqn:El; [injection H as <- <- <-; apply cost_same0|].
    apply bind_some in H as ([s1 e1] & H1 & H). injection H as <- <- <-. apply removed_cost in H1 as [H1 H2]. cbn [fst snd] in H1, H2. subst e1.
    unfold cost_ok. cbn [e_hashes e_rebuilt hashed added hash_free may_rebuild]. unfold len. rewrite H1, El. cbn [length].
    repeat split; try discriminate; lia.
  - (* RemoveMru *) destruct (ents s) as [|a r] eqn:El; [injection H as <- <- <-; apply cost_same0|].
    apply bind_some in H as ([s1 e1] & H1 & H). injection H as <- <- <-. apply removed_cost in H1 as [H1 H2]. cbn [fst snd] in H1, H2. subst e1.
    unfold cost_ok. cbn [e_hashes e_rebuilt hashed added hash_free may_rebuild]. unfold len. rewrite H1, El.
    assert (Hne : a :: r <> []) by discriminate. pose proof (f_equal (@length entry) (app_removelast_last a Hne)) as Hlen. rewrite app_length in Hlen. cbn [length] in Hlen.
    repeat split; try discriminate; cbn [length]; lia.
  - (* Mutate *) pose proof (mutate_spec E VS E_pos VS_le_E s q newtag newheap o _ HI Hwf H) as Hs.
    destruct (find_id q (ents s)) as [e|] eqn:Hf; [|injection Hs as -> -> ->; apply cost_same; [lia|discriminate]].
    cbv zeta in Hs. pose proof (length_remove_id _ _ _ Hf) as Hlen.
    destruct Hs as (_ & _ & _ & [(_ & _ & Hr)|[(_ & _ & evd & rest & Hmp & Hr)|(_ & Hr)]]); injection Hr as -> -> ->;
      unfold cost_ok; cbn [e_hashes e_rebuilt hashed added hash_free may_rebuild]; unfold len; cbn [ents set_ents].
    + repeat split; try discriminate; lia.
    + destruct Hmp as (Hl & _). rewrite Hl, app_length in Hlen. rewrite app_length. cbn [length]. repeat split; try discriminate; lia.
    + rewrite app_length. cbn [length]. repeat split; try discriminate; lia.
  - (* SetMaxSize *) destruct (set_max_spec E VS E_pos VS_le_E s n o _ HI H) as (evd & rest & (Hl & _) & Hr). injection Hr as -> -> ->.
    unfold cost_ok. cbn [e_hashes e_rebuilt added hash_free may_rebuild]. unfold len. cbn [ents]. rewrite Hl, app_length. repeat split; try discriminate; lia.
  - (* Retain *) apply bind_some in H as (c & _ & H). injection H as <- <- <-.
    unfold cost_ok. cbn [e_hashes e_rebuilt added hash_free may_rebuild]. unfold len. cbn [ents set_ents].
    pose proof (length_filter_split (fun e => keep (ek e) (ev e)) (ents s)). repeat split; try discriminate; lia.
  - (* Clear *) injection H as <- <- <-. unfold cost_ok. cbn. unfold len. cbn. repeat split; auto; try discriminate; lia.
  - (* Drain *) destruct (take_ends (ents s) pat). injection H as <- <- <-. unfold cost_ok. cbn. unfold len. cbn. repeat split; auto; try discriminate; lia.
  - (* Reserve *) destruct (add64 (len s) n); [|injection H as <- <- <-; apply cost_same0].
    destruct (capacity (tb s) <? n0); [|injection H as <- <- <-; apply cost_same0].
    pose proof (realloc_same E s n0 o) as (R1 & _). destruct (do_realloc E s n0 o) as [s1 [t| |]]; injection H as <- <- <-; cbn [fst] in R1;
      unfold cost_ok, rebuilt_ev, len; cbn [e_hashes e_rebuilt ev0 added hash_free may_rebuild]; rewrite R1; repeat split; try discriminate; lia.
  - (* TryReserve *) destruct (add64 (len s) n); [|injection H as <- <- <-; apply cost_same0].
    destruct (capacity (tb s) <? n0); [|injection H as <- <- <-; apply cost_same0].
    pose proof (realloc_same E s n0 o) as (R1 & _). destruct (do_realloc E s n0 o) as [s1 [t| |]]; injection H as <- <- <-; cbn [fst] in R1;
      unfold cost_ok, rebuilt_ev, len; cbn [e_hashes e_rebuilt ev0 added hash_free may_rebuild]; rewrite R1; repeat split; try discriminate; lia.
  - (* ShrinkTo *) unfold do_shrink in H. destruct (N.max (len s) n <? capacity (tb s)); [|injection H as <- <- <-; apply cost_same0].
    cbn [shrink_orig fixed] in H. destruct (t_alloc E (N.max (len s) n) (o_alloc o)); try (injection H as <- <- <-; apply cost_same0).
    destruct (capacity t <? capacity (tb s)); injection H as <- <- <-; [|apply cost_same0].
    unfold cost_ok, rebuilt_ev, len; cbn [e_hashes e_rebuilt added hash_free may_rebuild ents set_ents]; repeat split; try discriminate; lia.
  - (* ShrinkToFit *) unfold do_shrink in H. destruct (N.max (len s) 0 <? capacity (tb s)); [|injection H as <- <- <-; apply cost_same0].
    cbn [shrink_orig fixed] in H. destruct (t_alloc E (N.max (len s) 0) (o_alloc o)); try (injection H as <- <- <-; apply cost_same0).
    destruct (capacity t <? capacity (tb s)); injection H as <- <- <-; [|apply cost_same0].
    unfold cost_ok, rebuilt_ev, len; cbn [e_hashes e_rebuilt added hash_free may_rebuild ents set_ents]; repeat split; try discriminate; lia.
Qed.
End Params.
