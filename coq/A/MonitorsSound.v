(* Every step of the model satisfies the Boolean monitors that are evaluated on the implementation (A/MonitorsA.v):
   a monitor that fires on an observed step therefore reports a behaviour no execution of the model has.
   c01_mon / c02_mon: A/InvA.v (inv_c01_mon, inv_c02_mon); c13_mon's growth clause: T/GrowthMon.v. Here: the one-entry-per-
   key monitor (C04) and the token ledger (C06). *)
Require Import LruV.A.MonitorsA LruV.A.InvA LruV.A.LedgerA LruV.A.PanicProps.

Lemma existsb_eqb_in x l : existsb (N.eqb x) l = true <-> In x l.
Proof. rewrite existsb_exists. split; [intros (y & Hy & E0); apply N.eqb_eq in E0; now subst|intros H; exists x; split; [exact H|apply N.eqb_refl]]. Qed.

Lemma nodup_b_spec l : nodup_b l = true <-> NoDup l.
Proof.
  induction l as [|x l IH]; cbn [nodup_b]; [split; [constructor|reflexivity]|].
  rewrite andb_true_iff, negb_true_iff, IH, NoDup_cons_iff. split; intros [H1 H2]; split; auto.
  - intros Hi. apply existsb_eqb_in in Hi. congruence.
  - destruct (existsb (N.eqb x) l) eqn:E0; [apply existsb_eqb_in in E0; tauto|reflexivity].
Qed.

Theorem c04_nodup_mon_sound E s : Inv E s -> c04_nodup_mon s = true.
Proof. intros (_ & _ & _ & _ & Hnd). unfold c04_nodup_mon. apply nodup_b_spec. exact Hnd. Qed.

(* ---------- multisets by counting ---------- *)
Lemma remove1_some x : forall b b', remove1 x b = Some b' -> forall y, cnt y b = (c1 y x + cnt y b')%nat.
Proof.
  induction b as [|z b IH]; intros b' H y; cbn [remove1] in H; [discriminate|].
  destruct (N.eqb_spec x z) as [->|Hne]; [injection H as <-; apply cnt_cons|].
  destruct (remove1 x b) as [b1|]; [|discriminate]. injection H as <-. rewrite !cnt_cons, (IH b1 eq_refl y). lia.
Qed.
Lemma remove1_none x : forall b, remove1 x b = None -> cnt x b = 0%nat.
Proof.
  induction b as [|z b IH]; intros H; cbn [remove1] in H; [reflexivity|].
  destruct (N.eqb_spec x z) as [->|Hne]; [discriminate|]. destruct (remove1 x b); [discriminate|].
  rewrite cnt_cons, IH by reflexivity. unfold c1. destruct (N.eq_dec z x); [congruence|reflexivity].
Qed.
Lemma c1_self x : c1 x x = 1%nat. Proof. unfold c1. destruct (N.eq_dec x x); [reflexivity|congruence]. Qed.

Lemma msub_some : forall a b r, msub a b = Some r -> forall y, cnt y b = (cnt y a + cnt y r)%nat.
Proof.
  induction a as [|x a IH]; intros b r H y; cbn [msub] in H; [injection H as <-; reflexivity|].
  destruct (remove1 x b) as [b'|] eqn:Er; [|discriminate]. rewrite (remove1_some x b b' Er y), (IH b' r H y), cnt_cons. lia.
Qed.
Lemma msub_total : forall a b, (forall y, cnt y a <= cnt y b)%nat -> exists r, msub a b = Some r.
Proof.
  induction a as [|x a IH]; intros b Hle; cbn [msub]; [eauto|].
  destruct (remove1 x b) as [b'|] eqn:Er.
  - apply IH. intros y. specialize (Hle y). rewrite cnt_cons, (remove1_some x b b' Er y) in Hle. lia.
  - specialize (Hle x). rewrite cnt_cons, c1_self, (remove1_none x b Er) in Hle. lia.
Qed.
Lemma cnt_zero_nil r : (forall y, cnt y r = 0%nat) -> r = [].
Proof. destruct r as [|z r]; [reflexivity|]. intros H. specialize (H z). rewrite cnt_cons, c1_self in H. lia. Qed.

Lemma perm_eqb_bal a b : bal b a -> perm_eqb a b = true.
Proof.
  intros Hb. unfold perm_eqb. destruct (msub_total a b) as [r Hr]; [intros y; rewrite (Hb y); lia|]. rewrite Hr.
  assert (r = []) by (apply cnt_zero_nil; intros y; pose proof (msub_some a b r Hr y) as H1; rewrite (Hb y) in H1; lia). now subst.
Qed.
Lemma subm_b_le a b : (forall y, cnt y a <= cnt y b)%nat -> subm_b a b = true.
Proof. intros H. unfold subm_b. destruct (msub_total a b H) as [r ->]. reflexivity. Qed.

Lemma nodup_cnt l : NoDup l <-> forall y, (cnt y l <= 1)%nat.
Proof. unfold cnt. apply NoDup_count_occ. Qed.

Lemma cnt_app y a b : cnt y (a ++ b) = (cnt y a + cnt y b)%nat.
Proof. unfold cnt. apply count_occ_app. Qed.

Section Params.
Variables (E VS : N).
Hypothesis E_pos : 0 < E.
Hypothesis VS_le_E : VS <= E.

(* the token ledger: with distinct tokens before the step, what the model holds, drops and hands back afterwards is
   duplicate-free and is exactly what was there before (a sub-multiset when the step forgets a Drain) *)
Theorem c06_mon_sound s p o s' out evs : Inv E s -> wf_op E s p -> toks_ok s p ->
  stepA E VS fixed s p o = Some (s', out, evs) ->
  c06_mon s p out (e_dropped evs) s' = true.
Proof.
  intros HI Hwf Htok H. pose proof (step_ledger E VS E_pos VS_le_E s p o s' out evs HI Hwf H) as Hb.
  unfold c06_mon. set (before := all_toks (ents s) ++ op_toks p) in *. set (after := all_toks (ents s') ++ e_dropped evs ++ returned p out).
  assert (Hle : forall y, (cnt y after <= cnt y before)%nat).
  { intros y. specialize (Hb y). unfold after. rewrite !cnt_app in *. lia. }
  assert (Hnd : nodup_b after = true).
  { apply nodup_b_spec, nodup_cnt. intros y. specialize (Hle y). pose proof (proj1 (nodup_cnt before) Htok y). lia. }
  rewrite Hnd. cbn [andb]. destruct (leaks p) eqn:El; [now apply subm_b_le|].
  apply perm_eqb_bal. intros y. specialize (Hb y). unfold after. rewrite !cnt_app in *.
  assert (Hlk : leaked s p = []) by (destruct p; try reflexivity; destruct f; [reflexivity|discriminate El]).
  rewrite Hlk in Hb. cbn [cnt count_occ] in Hb. unfold cnt in *. cbn [count_occ] in Hb. lia.
Qed.
End Params.
