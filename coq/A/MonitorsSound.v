(* Every step of the model satisfies the Boolean monitors that are evaluated on the implementation (A/MonitorsA.v):
   a monitor that fires on an observed step therefore reports a behaviour no execution of the model has.
   c01_mon / c02_mon: A/InvA.v (inv_c01_mon, inv_c02_mon); c13_mon's growth clause: T/GrowthMon.v. Here: the one-entry-per-
   key monitor (C04) and the token ledger (C06). *)
Require Import LruV.A.MonitorsA LruV.A.InvA LruV.A.LedgerA LruV.A.PanicProps LruV.A.CostA LruV.A.SpecA.

Lemma existsb_eqb_in x l : existsb (N.eqb x) l = true <-> In x l.
Proof. rewrite existsb_exists. split; [intros (y & Hy & E0); apply N.eqb_eq in E0; now subst|intros H; exists x; split; [exact H|apply N.eqb_refl]]. Qed.

Lemma nodup_b_spec l : nodup_b l = true <-> NoDup l.
Proof.
  induction l as [|x l IH]; cbn [nodup_b]; [split; [constructor|reflexivity]|].
  rewrite andb_true_iff, negb_true_iff, IH, NoDup_cons_iff. split; intros [H1 H2]; split; auto.
  - intros Hi. apply existsb_eqb_in in Hi. congruence.
  - destruct (existsb (N.eqb x) l) eqn:E0; [apply existsb_eqb_in in E0; tauto|reflexivity].
Qed.

Theorem c04_nodup_mon_sound E s : Inv E s -> c04_nodup_mon s = true.
Proof. intros (_ & _ & _ & _ & Hnd). unfold c04_nodup_mon. apply nodup_b_spec. exact Hnd. Qed.

(* ---------- multisets by counting ---------- *)
Lemma remove1_some x : forall b b', remove1 x b = Some b' -> forall y, cnt y b = (c1 y x + cnt y b')%nat.
Proof.
  induction b as [|z b IH]; intros b' H y; cbn [remove1] in H; [discriminate|].
  destruct (N.eqb_spec x z) as [->|Hne]; [injection H as <-; apply cnt_cons|].
  destruct (remove1 x b) as [b1|]; [|discriminate]. injection H as <-. rewrite !cnt_cons, (IH b1 eq_refl y). lia.
Qed.
Lemma remove1_none x : forall b, remove1 x b = None -> cnt x b = 0%nat.
Proof.
  induction b as [|z b IH]; intros H; cbn [remove1] in H; [reflexivity|].
  destruct (N.eqb_spec x z) as [->|Hne]; [discriminate|]. destruct (remove1 x b); [discriminate|].
  rewrite cnt_cons, IH by reflexivity. unfold c1. destruct (N.eq_dec z x); [congruence|reflexivity].
Qed.
Lemma c1_self x : c1 x x = 1%nat. Proof. unfold c1. destruct (N.eq_dec x x); [reflexivity|congruence]. Qed.

Lemma msub_some : forall a b r, msub a b = Some r -> forall y, cnt y b = (cnt y a + cnt y r)%nat.
Proof.
  induction a as [|x a IH]; intros b r H y; cbn [msub] in H; [injection H as <-; reflexivity|].
  destruct (remove1 x b) as [b'|] eqn:Er; [|discriminate]. rewrite (remove1_some x b b' Er y), (IH b' r H y), cnt_cons. lia.
Qed.
Lemma msub_total : forall a b, (forall y, cnt y a <= cnt y b)%nat -> exists r, msub a b = Some r.
Proof.
  induction a as [|x a IH]; intros b Hle; cbn [msub]; [eauto|].
  destruct (remove1 x b) as [b'|] eqn:Er.
  - apply IH. intros y. specialize (Hle y). rewrite cnt_cons, (remove1_some x b b' Er y) in Hle. lia.
  - specialize (Hle x). rewrite cnt_cons, c1_self, (remove1_none x b Er) in Hle. lia.
Qed.
Lemma cnt_zero_nil r : (forall y, cnt y r = 0%nat) -> r = [].
Proof. destruct r as [|z r]; [reflexivity|]. intros H. specialize (H z). rewrite cnt_cons, c1_self in H. lia. Qed.

Lemma perm_eqb_bal a b : bal b a -> perm_eqb a b = true.
Proof.
  intros Hb. unfold perm_eqb. destruct (msub_total a b) as [r Hr]; [intros y; rewrite (Hb y); lia|]. rewrite Hr.
  assert (r = []) by (apply cnt_zero_nil; intros y; pose proof (msub_some a b r Hr y) as H1; rewrite (Hb y) in H1; lia). now subst.
Qed.
Lemma subm_b_le a b : (forall y, cnt y a <= cnt y b)%nat -> subm_b a b = true.
Proof. intros H. unfold subm_b. destruct (msub_total a b H) as [r ->]. reflexivity. Qed.

Lemma nodup_cnt l : NoDup l <-> forall y, (cnt y l <= 1)%nat.
Proof. unfold cnt. apply NoDup_count_occ. Qed.

Lemma cnt_app y a b : cnt y (a ++ b) = (cnt y a + cnt y b)%nat.
Proof. unfold cnt. apply count_occ_app. Qed.

Section Params.
Variables (E VS : N).
Hypothesis E_pos : 0 < E.
Hypothesis VS_le_E : VS <= E.

(* the token ledger: with distinct tokens before the step, what the model holds, drops and hands back afterwards is
   duplicate-free and is exactly what was there before (a sub-multiset when the step forgets a Drain) *)
Theorem c06_mon_sound s p o s' out evs : Inv E s -> wf_op E s p -> toks_ok s p ->
  stepA E VS fixed s p o = Some (s', out, evs) ->
  c06_mon s p out (e_dropped evs) s' = true.
Proof.
  intros HI Hwf Htok H. pose proof (step_ledger E VS E_pos VS_le_E s p o s' out evs HI Hwf H) as Hb.
  unfold c06_mon. set (before := all_toks (ents s) ++ op_toks p) in *. set (after := all_toks (ents s') ++ e_dropped evs ++ returned p out).
  assert (Hle : forall y, (cnt y after <= cnt y before)%nat).
  { intros y. specialize (Hb y). unfold after. rewrite !cnt_app in *. lia. }
  assert (Hnd : nodup_b after = true).
  { apply nodup_b_spec, nodup_cnt. intros y. specialize (Hle y). pose proof (proj1 (nodup_cnt before) Htok y). lia. }
  rewrite Hnd. cbn [andb]. destruct (leaks p) eqn:El; [now apply subm_b_le|].
  apply perm_eqb_bal. intros y. specialize (Hb y). unfold after. rewrite !cnt_app in *.
  assert (Hlk : leaked s p = []) by (destruct p; try reflexivity; destruct f; [reflexivity|discriminate El]).
  rewrite Hlk in Hb. cbn [cnt count_occ] in Hb. unfold cnt in *. cbn [count_occ] in Hb. lia.
Qed.
(* ---------- the hashing-cost monitor (C20) ---------- *)
Definition kts (l : list entry) : list N := map (fun e => ktok (ek e)) l.

Lemma kts_in_toks l t : In t (kts l) -> In t (all_toks l).
Proof. induction l as [|e l IH]; cbn [kts map all_toks flat_map toks app]; [tauto|]. intros [<-|Hi]; [now left|right; right; apply IH, Hi]. Qed.
Lemma kts_nodup l : NoDup (all_toks l) -> NoDup (kts l).
Proof.
  induction l as [|e l IH]; cbn [kts map all_toks flat_map toks app]; [constructor|]. intros Hnd.
  apply NoDup_cons_iff in Hnd as [H1 Hnd]. apply NoDup_cons_iff in Hnd as [_ Hnd]. constructor; [|apply IH, Hnd].
  intros Hi. apply H1. right. apply kts_in_toks, Hi.
Qed.

Lemma existsb_ktok t l : existsb (fun e' => ktok (ek e') =? t) l = true <-> In t (kts l).
Proof.
  unfold kts. rewrite existsb_exists, in_map_iff. split.
  - intros (x & Hx & E0). apply N.eqb_eq in E0. eauto.
  - intros (x & E0 & Hx). exists x. split; [exact Hx|]. now apply N.eqb_eq.
Qed.

Lemma NoDup_app_intro {A} (a b : list A) : NoDup a -> NoDup b -> (forall x, In x a -> In x b -> False) -> NoDup (a ++ b).
Proof.
  induction a as [|x a IH]; intros Ha Hb Hd; cbn [app]; [exact Hb|]. apply NoDup_cons_iff in Ha as [Hx Ha]. constructor.
  - intros Hi. apply in_app_or in Hi as [Hi|Hi]; [tauto|]. apply (Hd x); [now left|exact Hi].
  - apply IH; auto. intros y Hy1 Hy2. apply (Hd y); [now right|exact Hy2].
Qed.

(* the entries of `pre` whose key object is still in `post`, together with k fresh key objects of `post`, fit into `post` *)
Lemma stayed_le pre post (fresh : list N) :
  NoDup (kts pre) -> NoDup fresh -> (forall t, In t fresh -> ~ In t (kts pre) /\ In t (kts post)) ->
  (length (filter (fun e => existsb (fun e' => ktok (ek e') =? ktok (ek e)) post) pre) + length fresh <= length post)%nat.
Proof.
  intros Hnd Hnf Hfr.
  set (A := filter (fun t => existsb (fun e' => ktok (ek e') =? t) post) (kts pre)).
  assert (HlenA : length A = length (filter (fun e => existsb (fun e' => ktok (ek e') =? ktok (ek e)) post) pre)).
  { unfold A, kts. clear. induction pre as [|e pre IH]; [reflexivity|]. cbn [map filter]. destruct (existsb _ post); cbn [length]; now rewrite IH. }
  rewrite <- HlenA, <- app_length. replace (length post) with (length (kts post)) by apply map_length.
  apply NoDup_incl_length.
  - apply NoDup_app_intro; [apply NoDup_filter, Hnd|exact Hnf|].
    intros t Ht1 Ht2. apply filter_In in Ht1 as [Ht1 _]. now destruct (Hfr t Ht2).
  - intros t Ht. apply in_app_or in Ht as [Ht|Ht]; [apply filter_In in Ht as [_ Ht]; now apply existsb_ktok|now destruct (Hfr t Ht)].
Qed.

Theorem c20_mon_sound s p o s' out evs : Inv E s -> wf_op E s p -> toks_ok s p ->
  stepA E VS fixed s p o = Some (s', out, evs) ->
  c20_mon s p (e_hashes evs) (e_rebuilt evs) s' = true.
Proof.
  intros HI Hwf Htok H. destruct (step_cost E VS E_pos VS_le_E s p o s' out evs HI Hwf H) as (C1 & C2 & C3).
  unfold c20_mon. cbv zeta.
  change (match p with IterOp _ | DrainOp _ _ | Clear | DebugFmt | PeekLru | PeekMru | GetLru | Len | IsEmpty | CurrentSize | MaxSize | Capacity => true | _ => false end) with (hash_free p).
  change (match p with Reserve _ | TryReserve _ | ShrinkTo _ | ShrinkToFit | Insert _ _ | TryInsert _ _ => true | _ => false end) with (may_rebuild p).
  destruct (hash_free p) eqn:Hf; [rewrite (C2 eq_refl); reflexivity|].
  apply N.leb_le.
  assert (Hrb : (e_rebuilt evs && may_rebuild p)%bool = e_rebuilt evs) by (destruct (e_rebuilt evs) eqn:Er; [rewrite (C3 eq_refl); reflexivity|reflexivity]).
  rewrite Hrb.
  assert (Hndk : NoDup (kts (ents s))).
  { apply kts_nodup. unfold toks_ok in Htok. now apply NoDup_app_l in Htok. }
  (* the key objects the operation adds *)
  assert (Hfresh : exists fresh, N.of_nat (length fresh) = added p out /\ NoDup fresh /\ (forall t, In t fresh -> ~ In t (kts (ents s)) /\ In t (kts (ents s')))).
  { destruct p; try (exists []; cbn [added length]; split; [now destruct out|]; split; [constructor|intros ? []]).
    - cbn [stepA wf_op] in H, Hwf. destruct (insert_spec E VS E_pos VS_le_E s k v o _ HI Hwf H) as [[_ Hr]|(_ & evd & rest & t2 & rb & _ & _ & _ & Hr)];
        injection Hr as -> -> _; [exists []; cbn; split; [reflexivity|split; [constructor|intros ? []]]|].
      exists [ktok k]. cbn [added length]. split; [reflexivity|]. split; [constructor; [intros []|constructor]|].
      intros t [<-|[]]. split.
      + intros Hi. apply kts_in_toks in Hi. unfold toks_ok in Htok. cbn [op_toks] in Htok. apply (nodup_app_disj _ _ (ktok k) Htok); [now left|exact Hi].
      + cbn [ents set_ents]. unfold kts. rewrite map_app. apply in_or_app. right. now left.
    - cbn [stepA wf_op] in H, Hwf. destruct (try_insert_spec E VS E_pos VS_le_E s k v o _ HI Hwf H) as [[_ Hr]|[(_ & _ & Hr)|[(_ & _ & Hr)|(_ & _ & t2 & rb & _ & Hr)]]];
        injection Hr as -> -> _; try (exists []; cbn; split; [reflexivity|split; [constructor|intros ? []]]).
      exists [ktok k]. cbn [added length]. split; [reflexivity|]. split; [constructor; [intros []|constructor]|].
      intros t [<-|[]]. split.
      + intros Hi. apply kts_in_toks in Hi. unfold toks_ok in Htok. cbn [op_toks] in Htok. apply (nodup_app_disj _ _ (ktok k) Htok); [now left|exact Hi].
      + cbn [ents set_ents]. unfold kts. rewrite map_app. apply in_or_app. right. now left. }
  destruct Hfresh as (fresh & Hlen & Hnf & Hfr).
  pose proof (stayed_le (ents s) (ents s') fresh Hndk Hnf Hfr) as Hst.
  pose proof (length_filter_split (fun e => existsb (fun e' => ktok (ek e') =? ktok (ek e)) (ents s')) (ents s)) as Hsp.
  unfold len in *. destruct (e_rebuilt evs); lia.
Qed.
End Params.
