(* History-level statements (C05, C04): what a client that only sees the operations it issued and what
   they returned can say about the cache after ANY history — the properties in their own words
   ("the order of last access", "the value most recently stored, if not since removed or evicted"),
   by induction over histories of unbounded length from the step theorems of OrderA.v. *)
Require Export LruV.A.OrderA.
Require Import Sorted.

Section Params.
Variables (E VS : N).
Hypothesis E_pos : 0 < E.
Hypothesis VS_le_E : VS <= E.
Notation Inv := (Inv E).

(* one record per completed call, newest first: the operation, what it returned, what it reported *)
Definition call := (op * out * events)%type.

(* histories: every state comes with the calls that produced it *)
Inductive Hist : list call -> cache -> Prop :=
| hist_new mx cap s : mx < W -> new_cache E mx cap = Some s -> Hist [] s
| hist_step h s p o s' out evs : Hist h s -> wf_op E s p -> stepA E VS fixed s p o = Some (s', out, evs) ->
    Hist ((p, out, evs) :: h) s'.

Lemma hist_reach h s : Hist h s -> Reach E VS s.
Proof.
  induction 1 as [mx cap s Hmx Hn|h s p o s' out evs _ IH Hwf Hs]; [eapply reach_new; eauto|].
  change s' with (fst (fst (s', out, evs))). eapply reach_step; eauto.
Qed.
Lemma reach_hist s : Reach E VS s -> exists h, Hist h s.
Proof.
  induction 1 as [mx cap s Hmx Hn|s p o [[s' out] evs] _ [h IH] Hwf Hs]; [exists []; eapply hist_new; eauto|].
  exists ((p, out, evs) :: h). cbn [fst]. eapply hist_step; eauto.
Qed.

(* ---------- C05: the order is the order of last access ---------- *)

(* the key a call accesses, read off the call and its result alone: the seven promoting operations when
   they find / store their key.  Observers, rejected insertions, removals, retain, capacity operations,
   iteration: none. *)
Definition accessed (p : op) (o : out) : option N :=
  match p, o with
  | Insert k _, OInsOk _ => Some (kid k)
  | TryInsert k _, OTryOk => Some (kid k)
  | Get q, OVal (Some _) => Some q
  | GetEntry q, OKV (Some _) => Some q
  | Touch q, _ => Some q                 (* touch returns nothing: it counts as an access of q; a no-op when q is absent *)
  | GetLru, OKV (Some x) => Some (kid (fst x))
  | Mutate q _ _, OMutOk => Some q
  | _, _ => None
  end.

(* time of the last access of q: calls are numbered 1, 2, ... in the order they were made; 0 = never *)
Fixpoint last_access (h : list call) (q : N) : nat :=
  match h with
  | [] => 0
  | (p, o, _) :: r => match accessed p o with
                      | Some k => if k =? q then length h else last_access r q
                      | None => last_access r q
                      end
  end.

Lemma last_access_le h q : (last_access h q <= length h)%nat.
Proof.
  induction h as [|[[p o] evs] r IH]; [apply le_n|]. cbn [last_access].
  destruct (accessed p o) as [k|]; [destruct (k =? q); [apply le_n|]|]; cbn [length]; apply le_S, IH.
Qed.

(* promoted (which looks at the state) and accessed (which does not) agree on keys that are held *)
Lemma promoted_accessed s p o s' out evs : Inv s -> wf_op E s p -> stepA E VS fixed s p o = Some (s', out, evs) ->
  match promoted s p out with
  | Some q => accessed p out = Some q
  | None => match accessed p out with Some q => ~ In q (kids (ents s')) | None => True end
  end.
Proof.
  intros HI Hwf H. unfold promoted, promoted_kv.
  destruct p as [k v|k v|q|q|q|q|q|q| | | |q|q| | |q nt nh|n|keep| |pat|pat f|n|n|n| | | | | | |]; cbn [accessed option_map fst]; try exact I;
    try (repeat (match goal with |- context [match ?x with _ => _ end] => is_var x; destruct x end); cbn [option_map fst]; try exact I; reflexivity).
  - (* Touch *) cbn [stepA] in H. unfold do_touch in H. destruct (find_id q (ents s)) as [e|] eqn:Hf; cbn [option_map fst]; [reflexivity|].
    injection H as <- _ _. exact (proj2 (find_id_none _ _ Hf)).
  - (* Mutate *) destruct out; cbn [option_map fst]; try exact I.
    destruct (find_id q (ents s)) as [e|] eqn:Hf; cbn [option_map fst]; [reflexivity|].
    cbn [stepA] in H. unfold do_mutate in H. rewrite Hf in H. discriminate.
Qed.

Definition by_last_access (h : list call) (a b : N) : Prop := (last_access h a < last_access h b)%nat.

Lemma sorted_filter {A} (R : A -> A -> Prop) f l : StronglySorted R l -> StronglySorted R (filter f l).
Proof.
  induction 1 as [|a l Hs IH Hall]; cbn [filter]; [constructor|]. destruct (f a); [|exact IH].
  constructor; [exact IH|]. apply Forall_forall. intros x Hx. apply filter_In in Hx as [Hx _].
  exact (proj1 (Forall_forall _ _) Hall x Hx).
Qed.
Lemma sorted_snoc {A} (R : A -> A -> Prop) l x : StronglySorted R l -> (forall y, In y l -> R y x) -> StronglySorted R (l ++ [x]).
Proof.
  induction 1 as [|a l Hs IH Hall]; intros Hx; cbn [app]; [constructor; constructor|].
  constructor; [apply IH; intros y Hy; apply Hx; now right|].
  apply Forall_forall. intros y Hy. apply in_app_or in Hy as [Hy|[<-|[]]]; [exact (proj1 (Forall_forall _ _) Hall y Hy)|apply Hx; now left].
Qed.
Lemma sorted_ext {A} (R R' : A -> A -> Prop) l : (forall a b, In a l -> In b l -> R a b -> R' a b) -> StronglySorted R l -> StronglySorted R' l.
Proof.
  intros Hext Hs. induction Hs as [|a l Hs IH Hall]; [constructor|].
  constructor; [apply IH; intros; apply Hext; auto; now right|].
  apply Forall_forall. intros y Hy. apply Hext; [now left|now right|exact (proj1 (Forall_forall _ _) Hall y Hy)].
Qed.

(* THE ORDER OF LAST ACCESS.  After any history, the keys from least- to most-recently-used are strictly
   increasing in the time of their last access, and every held key was accessed at some time. *)
Theorem order_is_last_access h s : Hist h s ->
  StronglySorted (by_last_access h) (kids (ents s)) /\ forall q, In q (kids (ents s)) -> (0 < last_access h q)%nat.
Proof.
  induction 1 as [mx cap s Hmx Hn|h s p o s' out evs HH [IHs IHp] Hwf Hs].
  - unfold new_cache in Hn. destruct (t_alloc E cap true); try discriminate. injection Hn as <-. cbn [ents kids map]. split; [constructor|intros q []].
  - pose proof (reach_inv E VS E_pos VS_le_E s (hist_reach h s HH)) as HI.
    pose proof (step_order_keys E VS E_pos VS_le_E s p o s' out evs HI Hwf Hs) as Hk. cbv zeta in Hk.
    pose proof (promoted_accessed s p o s' out evs HI Hwf Hs) as Hpa.
    set (surv := filter (fun x => memb x (kids (ents s')) && negb (match promoted s p out with Some q => x =? q | None => false end)) (kids (ents s))) in *.
    assert (Hsurv_in : forall x, In x surv -> In x (kids (ents s)) /\ In x (kids (ents s')) /\ promoted s p out <> Some x).
    { intros x Hx. apply filter_In in Hx as [Hx Hb]. apply andb_true_iff in Hb as [Hm Hb]. apply memb_in in Hm. repeat split; auto.
      intros Hq. rewrite Hq, N.eqb_refl in Hb. discriminate. }
    (* survivors keep their time of last access *)
    assert (Hkeep : forall x, In x surv -> last_access ((p, out, evs) :: h) x = last_access h x).
    { intros x Hx. destruct (Hsurv_in x Hx) as (_ & Hin' & Hnp). cbn [last_access].
      destruct (accessed p out) as [k|] eqn:Ha; [|reflexivity]. destruct (N.eqb_spec k x) as [->|]; [|reflexivity]. exfalso.
      destruct (promoted s p out) as [q|]; [congruence|]. now apply Hpa. }
    assert (Hsorted : StronglySorted (by_last_access ((p, out, evs) :: h)) surv).
    { apply (sorted_ext (by_last_access h)).
      - intros a b Ha Hb. unfold by_last_access. now rewrite (Hkeep a Ha), (Hkeep b Hb).
      - apply sorted_filter. exact IHs. }
    rewrite Hk. destruct (promoted s p out) as [q|] eqn:Hp.
    + assert (Hq : last_access ((p, out, evs) :: h) q = S (length h)) by (cbn [last_access]; rewrite Hpa, N.eqb_refl; reflexivity).
      split.
      * apply sorted_snoc; [exact Hsorted|]. intros y Hy. unfold by_last_access. rewrite Hq, (Hkeep y Hy).
        apply le_n_S, last_access_le.
      * intros x Hx. apply in_app_or in Hx as [Hx|[<-|[]]]; [|rewrite Hq; apply le_n_S, le_0_n].
        rewrite (Hkeep x Hx). apply IHp. now destruct (Hsurv_in x Hx).
    + rewrite app_nil_r. split; [exact Hsorted|]. intros x Hx. rewrite (Hkeep x Hx). apply IHp. now destruct (Hsurv_in x Hx).
Qed.

(* ---------- C04: the value most recently stored, if not since removed or evicted ---------- *)

(* what a successful mutate leaves as the value: the closure's result *)
Definition mutv (v : val) (nt nh : N) : val := {| vtok := vtok v; vtag := nt; vheap := nh |}.

(* the keys a call reports as having left the cache: evicted entries (reported by the call), the entry a
   removal returned, the entry a too-large mutate handed back, the entries the retain predicate rejected,
   everything on clear / drain *)
Definition leaving (p : op) (o : out) (evs : events) (q : N) : bool :=
  memb q (kids (e_evicted evs)) ||
  match p, o with
  | Remove k, OVal (Some _) => q =? k
  | RemoveEntry k, OKV (Some _) => q =? k
  | RemoveLru, OKV (Some x) => q =? kid (fst x)
  | RemoveMru, OKV (Some x) => q =? kid (fst x)
  | Mutate k _ _, OMutTooLarge _ _ _ _ _ => q =? k
  | Retain keep, _ => existsb (fun x => (kid (fst x) =? q) && negb (keep (fst x) (snd x))) (e_visits evs)
  | Clear, _ => true
  | DrainOp _ _, _ => true
  | _, _ => false
  end.

(* the sequential map a client keeps from what it issued and what came back *)
Definition smap := N -> option val.
Definition sm_step (m : smap) (c : call) : smap :=
  let '(p, o, evs) := c in fun q =>
  match p, o with
  | Insert k v, OInsOk _ => if q =? kid k then Some v else if leaving p o evs q then None else m q
  | TryInsert k v, OTryOk => if q =? kid k then Some v else if leaving p o evs q then None else m q
  | Mutate k nt nh, OMutOk => if q =? k then option_map (fun v => mutv v nt nh) (m q) else if leaving p o evs q then None else m q
  | _, _ => if leaving p o evs q then None else m q
  end.
Fixpoint sm_of (h : list call) : smap :=
  match h with [] => fun _ => None | c :: r => sm_step (sm_of r) c end.

Lemma split_nodup_in (a b : list entry) q : NoDup (kids (a ++ b)) -> In q (kids (a ++ b)) ->
  (In q (kids b) <-> memb q (kids a) = false).
Proof.
  rewrite kids_app. intros Hnd Hin. split.
  - intros Hb. apply memb_notin. intros Ha. revert Hnd Ha Hb. generalize (kids a) (kids b). clear.
    intros A B Hnd Ha Hb. induction A as [|x A IH]; [destruct Ha|]. cbn [app] in Hnd. apply NoDup_cons_iff in Hnd as [Hx Hnd].
    destruct Ha as [->|Ha]; [apply Hx, in_or_app; now right|auto].
  - intros Hm. apply in_app_or in Hin as [Ha|Hb]; [|exact Hb]. apply memb_in in Ha. congruence.
Qed.
Lemma kids_cons e l : kids (e :: l) = kid (ek e) :: kids l.
Proof. reflexivity. Qed.
Lemma kids_remove_id q x l : NoDup (kids l) -> (In x (kids (remove_id q l)) <-> In x (kids l) /\ x <> q).
Proof.
  induction l as [|e r IH]; [cbn; tauto|]. rewrite kids_cons. intros Hnd. apply NoDup_cons_iff in Hnd as [He Hnd].
  cbn [remove_id]. destruct (N.eqb_spec (kid (ek e)) q) as [Heq|Hne].
  - split; [intros Hx; split; [now right|intros ->; now rewrite Heq in He]|intros [[Hx|Hx] Hn]; [congruence|exact Hx]].
  - rewrite kids_cons. cbn [In]. rewrite (IH Hnd). split.
    + intros [Hx|[Hx Hn]]; [split; [now left|congruence]|split; [now right|exact Hn]].
    + intros [[Hx|Hx] Hn]; [now left|right; now split].
Qed.
Lemma nodup_subl_kids (S L : list entry) : subl S L -> NoDup (kids L) -> NoDup (kids S).
Proof.
  induction 1 as [|x S L Hs IH|x S L Hs IH]; rewrite ?kids_cons; intros Hnd; [constructor| |]; apply NoDup_cons_iff in Hnd as [Hx Hnd]; [auto|].
  constructor; [|auto]. intros Hin. apply Hx. eapply subl_in; [apply (subl_map (fun e => kid (ek e))); exact Hs|exact Hin].
Qed.
Ltac fin Hin := unfold leaving; cbn; first [tauto | split; [intros _; reflexivity | intros _; exact Hin]].
Ltac brk H := repeat match type of H with context [match ?x with _ => _ end] => destruct x eqn:? end.

Lemma evict_keys l0 evd rest tgt q : NoDup (kids l0) -> minimal_prefix l0 evd rest tgt -> In q (kids l0) ->
  (In q (kids rest) <-> memb q (kids evd) = false).
Proof. intros Hnd [-> _] Hin. now apply split_nodup_in. Qed.
Lemma in_kids_snoc q l e : q <> kid (ek e) -> (In q (kids (l ++ [e])) <-> In q (kids l)).
Proof. intros Hne. rewrite kids_app. cbn [kids map In]. split; [intros H; apply in_app_or in H as [H|[H|[]]]; [exact H|congruence]|intros H; apply in_or_app; now left]. Qed.

Definition rejected (keep : key -> val -> bool) (q : N) (x : key * val) : bool := (kid (fst x) =? q) && negb (keep (fst x) (snd x)).
Lemma rejected_notin keep r q : ~ In q (kids r) -> existsb (rejected keep q) (map kv r) = false.
Proof.
  induction r as [|e r IH]; [reflexivity|]. rewrite kids_cons. intros Hn. cbn [map existsb]. unfold rejected at 1. cbn [kv fst snd].
  destruct (N.eqb_spec (kid (ek e)) q) as [Heq|_]; [exfalso; apply Hn; now left|]. cbn [andb orb]. apply IH. intros H. apply Hn. now right.
Qed.
Lemma filter_kids_in (f : entry -> bool) r q : In q (kids (filter f r)) -> In q (kids r).
Proof. apply subl_in. apply (subl_map (fun e => kid (ek e))). apply subl_filter. Qed.
Lemma retain_keys keep l q : NoDup (kids l) -> In q (kids l) ->
  (In q (kids (filter (fun e => keep (ek e) (ev e)) l)) <-> existsb (rejected keep q) (map kv l) = false).
Proof.
  induction l as [|e r IH]; [intros _ []|]. rewrite kids_cons. intros Hnd Hin. apply NoDup_cons_iff in Hnd as [He Hnd].
  cbn [filter map existsb]. unfold rejected at 1. cbn [kv fst snd].
  destruct (N.eqb_spec (kid (ek e)) q) as [Heq|Hne].
  - subst q. cbn [andb]. destruct (keep (ek e) (ev e)); cbn [negb orb].
    + rewrite kids_cons. split; [intros _; now apply rejected_notin|intros _; now left].
    + split; [intros Hq; exfalso; apply He; eapply filter_kids_in; exact Hq|discriminate].
  - destruct Hin as [|Hin]; [congruence|]. cbn [andb orb]. destruct (keep (ek e) (ev e)); [|now apply IH].
    rewrite kids_cons. cbn [In]. rewrite <- (IH Hnd Hin). split; [intros [|]; [congruence|auto]|auto].
Qed.

Lemma realloc_ents s n o : ents (fst (do_realloc E s n o)) = ents s.
Proof. unfold do_realloc. now destruct (t_alloc E n (o_alloc o)). Qed.

Lemma step_leaving s p o s' out evs q : Inv s -> wf_op E s p -> stepA E VS fixed s p o = Some (s', out, evs) ->
  In q (kids (ents s)) -> promoted s p out <> Some q ->
  (In q (kids (ents s')) <-> leaving p out evs q = false).
Proof.
  intros HI Hwf H Hin Hnp. pose proof HI as (_ & _ & _ & _ & Hnd).
  destruct p as [k v|k v|k|k|k|k|k|k| | | |k|k| | |k nt nh|n|keep| |pat|pat f|n|n|n| | | | | | |]; cbn [stepA] in H.
  all: try (injection H as <- <- <-; fin Hin).
  all: try (unfold do_shrink, do_realloc in H; cbn [shrink_orig fixed] in H; brk H; try discriminate; injection H as <- <- <-; fin Hin).
  - (* Insert *) cbn [wf_op] in Hwf.
    assert (Hnd0 : NoDup (kids (remove_id (kid k) (ents s)))) by (eapply nodup_subl_kids; [apply remove_id_subl|exact Hnd]).
    destruct (insert_spec E VS E_pos VS_le_E s k v o _ HI Hwf H) as [[_ Hr]|(_ & evd & rest & t2 & rb & Hmp & _ & _ & Hr)]; injection Hr as -> -> ->; [fin Hin|].
    assert (Hqk : q <> kid k) by (intros ->; apply Hnp; reflexivity).
    unfold leaving; cbn [e_evicted]. rewrite orb_false_r. cbn [ents set_ents]. rewrite in_kids_snoc by (cbn [mk_entry ek]; exact Hqk).
    apply (evict_keys _ _ _ _ q Hnd0 Hmp). apply kids_remove_id; auto.
  - (* TryInsert *) cbn [wf_op] in Hwf.
    destruct (try_insert_spec E VS E_pos VS_le_E s k v o _ HI Hwf H) as [[_ Hr]|[(_ & _ & Hr)|[(_ & _ & Hr)|(_ & _ & t2 & rb & _ & Hr)]]]; injection Hr as -> -> ->; try (fin Hin).
    assert (Hqk : q <> kid k) by (intros ->; apply Hnp; reflexivity).
    unfold leaving; cbn [e_evicted kids map memb existsb orb]. cbn [ents set_ents]. rewrite in_kids_snoc by (cbn [mk_entry ek]; exact Hqk). tauto.
  - (* Get *) unfold do_touch in H. destruct (find_id k (ents s)) as [e|] eqn:Hf; injection H as <- <- <-; [|fin Hin].
    unfold leaving; cbn [e_evicted hashed kids map memb existsb orb]. split; [reflexivity|intros _].
    cbn [ents set_ents]. rewrite kids_app. apply in_or_app. left. apply kids_remove_id; [exact Hnd|]. split; [exact Hin|].
    intros ->. apply Hnp. reflexivity.
  - (* GetEntry *) unfold do_touch in H. destruct (find_id k (ents s)) as [e|] eqn:Hf; injection H as <- <- <-; [|fin Hin].
    unfold leaving; cbn [e_evicted hashed kids map memb existsb orb]. split; [reflexivity|intros _].
    cbn [ents set_ents]. rewrite kids_app. apply in_or_app. left. apply kids_remove_id; [exact Hnd|]. split; [exact Hin|].
    intros ->. apply Hnp. reflexivity.
  - (* Touch *) unfold do_touch in H. destruct (find_id k (ents s)) as [e|] eqn:Hf; injection H as <- <- <-; [|fin Hin].
    unfold leaving; cbn [e_evicted hashed kids map memb existsb orb]. split; [reflexivity|intros _].
    cbn [ents set_ents]. rewrite kids_app. apply in_or_app. left. apply kids_remove_id; [exact Hnd|]. split; [exact Hin|].
    intros ->. apply Hnp. unfold promoted, promoted_kv. rewrite Hf. reflexivity.
  - (* GetLru *) destruct (ents s) as [|e r] eqn:Hl; injection H as <- <- <-; [destruct Hin|].
    unfold leaving; cbn. split; [reflexivity|intros _]. change (In q (kids (r ++ [e]))). rewrite kids_app.
    rewrite kids_cons in Hin. destruct Hin as [Hq|Hq]; apply in_or_app; [right; now left|now left].
  - (* Remove *) destruct (find_id k (ents s)) as [e|] eqn:Hf; [|injection H as <- <- <-; fin Hin].
    unfold removed_ev in H. destruct (sub64 (cur s) (es e)) as [c|]; cbn [bind] in H; [|discriminate]. injection H as <- <- <-.
    unfold leaving; cbn. change (In q (kids (remove_id k (ents s))) <-> (q =? k) = false). rewrite (kids_remove_id k q _ Hnd), N.eqb_neq. tauto.
  - (* RemoveEntry *) destruct (find_id k (ents s)) as [e|] eqn:Hf; [|injection H as <- <- <-; fin Hin].
    unfold removed_ev in H. destruct (sub64 (cur s) (es e)) as [c|]; cbn [bind] in H; [|discriminate]. injection H as <- <- <-.
    unfold leaving; cbn. change (In q (kids (remove_id k (ents s))) <-> (q =? k) = false). rewrite (kids_remove_id k q _ Hnd), N.eqb_neq. tauto.
  - (* RemoveLru *) destruct (ents s) as [|e r] eqn:Hl; [destruct Hin|].
    unfold removed_ev in H. destruct (sub64 (cur s) (es e)) as [c|]; cbn [bind] in H; [|discriminate]. injection H as <- <- <-.
    unfold leaving; cbn. change (In q (kids r) <-> (q =? kid (ek e)) = false). rewrite N.eqb_neq. rewrite kids_cons in Hin, Hnd.
    apply NoDup_cons_iff in Hnd as [He _]. split; [intros Hq ->; tauto|intros Hq; destruct Hin; [congruence|assumption]].
  - (* RemoveMru *) destruct (ents s) as [|a r] eqn:Hl; [destruct Hin|]. rewrite <- Hl in *.
    assert (Hne : ents s <> []) by (rewrite Hl; discriminate). set (e := last (ents s) a) in *.
    unfold removed_ev in H. destruct (sub64 (cur s) (es e)) as [c|]; cbn [bind] in H; [|discriminate]. injection H as <- <- <-.
    unfold leaving; cbn. change (In q (kids (removelast (ents s))) <-> (q =? kid (ek e)) = false). rewrite N.eqb_neq.
    rewrite (app_removelast_last a Hne) in Hin, Hnd. fold e in Hin, Hnd. rewrite kids_app in Hin, Hnd. cbn [kids map] in Hin, Hnd.
    apply NoDup_remove_2 in Hnd. rewrite app_nil_r in Hnd. apply in_app_or in Hin as [Hq|[Hq|[]]].
    + split; [intros _ ->; tauto|intros _; exact Hq].
    + split; [intros Hq'; congruence|congruence].
  - (* Mutate *) pose proof (mutate_spec E VS E_pos VS_le_E s k nt nh o _ HI Hwf H) as Hs.
    destruct (find_id k (ents s)) as [e|] eqn:Hf; [|injection Hs as -> -> ->; fin Hin]. cbv zeta in Hs.
    destruct (find_id_in _ _ _ Hf) as [_ Hk].
    assert (Hnd0 : NoDup (kids (remove_id k (ents s)))) by (eapply nodup_subl_kids; [apply remove_id_subl|exact Hnd]).
    destruct Hs as (_ & _ & _ & [(_ & _ & Hr)|[(_ & _ & evd & rest & Hmp & Hr)|(_ & Hr)]]); injection Hr as -> -> ->.
    + unfold leaving; cbn. change (In q (kids (remove_id k (ents s))) <-> (q =? k) = false). rewrite (kids_remove_id k q _ Hnd), N.eqb_neq. tauto.
    + assert (Hqk : q <> k) by (intros ->; apply Hnp; unfold promoted, promoted_kv; rewrite Hf; reflexivity).
      unfold leaving; cbn [e_evicted]. rewrite orb_false_r. cbn [ents set_ents]. rewrite in_kids_snoc by (cbn [mk_entry ek]; congruence).
      apply (evict_keys _ _ _ _ q Hnd0 Hmp). apply kids_remove_id; auto.
    + assert (Hqk : q <> k) by (intros ->; apply Hnp; unfold promoted, promoted_kv; rewrite Hf; reflexivity).
      unfold leaving; cbn [e_evicted hashed kids map memb existsb orb]. cbn [ents set_ents]. rewrite in_kids_snoc by (cbn [mk_entry ek]; congruence).
      rewrite (kids_remove_id k q _ Hnd). tauto.
  - (* SetMaxSize *) change (stepA E VS fixed s (SetMaxSize n) o = Some (s', out, evs)) in H; destruct (set_max_spec E VS E_pos VS_le_E s n o _ HI H) as (evd & rest & Hmp & Hr). injection Hr as -> -> ->.
    unfold leaving; cbn [e_evicted]. rewrite orb_false_r. cbn [ents]. exact (evict_keys _ _ _ _ q Hnd Hmp Hin).
  - (* Retain *) match type of H with bind ?x _ = _ => destruct x as [c|] end; cbn [bind] in H; [|discriminate]. injection H as <- <- <-.
    unfold leaving; cbn [e_evicted kids map memb existsb orb e_visits]. cbn [ents set_ents]. exact (retain_keys keep (ents s) q Hnd Hin).
  - (* Clear *) injection H as <- <- <-. unfold leaving; cbn. split; [intros []|discriminate].
  - (* Drain *) destruct (take_ends (ents s) pat) as [outs rest]. injection H as <- <- <-. unfold leaving; cbn. split; [intros []|discriminate].
  - (* Reserve *) destruct (add64 (len s) n) as [want|]; [|injection H as <- <- <-; fin Hin].
    destruct (capacity (tb s) <? want); [|injection H as <- <- <-; fin Hin].
    pose proof (realloc_ents s want o) as Hc. destruct (do_realloc E s want o) as [c a]. cbn [fst] in Hc.
    destruct a; injection H as <- <- <-; unfold leaving; cbn; rewrite Hc; tauto.
  - (* TryReserve *) destruct (add64 (len s) n) as [want|]; [|injection H as <- <- <-; fin Hin].
    destruct (capacity (tb s) <? want); [|injection H as <- <- <-; fin Hin].
    pose proof (realloc_ents s want o) as Hc. destruct (do_realloc E s want o) as [c a]. cbn [fst] in Hc.
    destruct a; injection H as <- <- <-; unfold leaving; cbn; rewrite Hc; tauto.
Qed.

Lemma sm_step_other m p out evs q : (forall k, accessed p out = Some k -> q <> k) ->
  sm_step m (p, out, evs) q = if leaving p out evs q then None else m q.
Proof.
  intros Hk. destruct p; try reflexivity; destruct out; try reflexivity; cbn [sm_step];
    (destruct (N.eqb_spec q (kid k)) as [Heq|_] || destruct (N.eqb_spec q q0) as [Heq|_]); try reflexivity; exfalso; exact (Hk _ eq_refl Heq).
Qed.

Lemma lookup_in s q v : lookup s q = Some v -> In q (kids (ents s)).
Proof.
  unfold lookup. destruct (find_id q (ents s)) as [e|] eqn:Hf; [|discriminate]. intros _.
  destruct (find_id_in _ _ _ Hf) as [Hin <-]. unfold kids. exact (in_map (fun e => kid (ek e)) _ _ Hin).
Qed.

(* the part of a step away from the key it stores / promotes *)
Lemma step_sm_generic s p o s' out evs m q : Inv s -> wf_op E s p -> stepA E VS fixed s p o = Some (s', out, evs) ->
  (forall x, lookup s x = m x) -> promoted s p out <> Some q ->
  (if memb q (kids (ents s')) then lookup s q else None) = if leaving p out evs q then None else m q.
Proof.
  intros HI Hwf H Hm Hnp. rewrite <- Hm. destruct (lookup s q) as [v|] eqn:Hl; [|now destruct (memb q (kids (ents s'))), (leaving p out evs q)].
  pose proof (step_leaving s p o s' out evs q HI Hwf H (lookup_in s q v Hl) Hnp) as Hiff.
  destruct (leaving p out evs q).
  - rewrite memb_notin; [reflexivity|]. intros Hin. apply Hiff in Hin. discriminate.
  - rewrite (proj2 (memb_in _ _) (proj2 Hiff eq_refl)). reflexivity.
Qed.

(* the key a step stores or promotes: the client's map has the value the table holds *)
Lemma step_sm_promoted s p o s' out evs m k w : Inv s -> wf_op E s p -> stepA E VS fixed s p o = Some (s', out, evs) ->
  (forall x, lookup s x = m x) -> promoted_kv s p out = Some (k, w) -> sm_step m (p, out, evs) k = Some w.
Proof.
  intros HI Hwf H Hm Hpk. unfold promoted_kv in Hpk.
  destruct p as [k0 v|k0 v|k0|k0|k0|k0|k0|k0| | | |k0|k0| | |k0 nt nh|n|keep| |pat|pat f|n|n|n| | | | | | |]; try discriminate; cbn [stepA] in H.
  - destruct out; try discriminate. injection Hpk as <- <-. cbn [sm_step]. now rewrite N.eqb_refl.
  - destruct out; try discriminate. injection Hpk as <- <-. cbn [sm_step]. now rewrite N.eqb_refl.
  - (* Get *) unfold do_touch in H. destruct (find_id k0 (ents s)) as [e|] eqn:Hf; injection H as <- <- <-; [|discriminate].
    injection Hpk as <- <-. cbn. rewrite <- Hm. unfold lookup. now rewrite Hf.
  - (* GetEntry *) unfold do_touch in H. destruct (find_id k0 (ents s)) as [e|] eqn:Hf; injection H as <- <- <-; [|discriminate].
    injection Hpk as <- <-. cbn. rewrite <- Hm. unfold lookup. now rewrite Hf.
  - (* Touch *) unfold do_touch in H. destruct (find_id k0 (ents s)) as [e|] eqn:Hf; injection H as <- <- <-; [|discriminate].
    injection Hpk as <- <-. cbn. rewrite <- Hm. unfold lookup. now rewrite Hf.
  - (* GetLru *) destruct (ents s) as [|e r] eqn:Hl; injection H as <- <- <-; [discriminate|].
    injection Hpk as <- <-. cbn. rewrite <- Hm. unfold lookup. rewrite Hl. cbn [find_id]. now rewrite N.eqb_refl.
  - (* Mutate *) destruct out; try discriminate. destruct (find_id k0 (ents s)) as [e|] eqn:Hf; [|discriminate].
    injection Hpk as <- <-. cbn [sm_step]. rewrite N.eqb_refl, <- Hm. unfold lookup. rewrite Hf. reflexivity.
Qed.

(* an accessed key that is not held (touch of an absent key): still absent *)
Lemma step_sm_absent s p out evs m k : (forall x, lookup s x = m x) -> promoted_kv s p out = None -> accessed p out = Some k ->
  sm_step m (p, out, evs) k = None.
Proof.
  intros Hm Hpk Ha. unfold promoted_kv in Hpk.
  destruct p as [k0 v|k0 v|k0|k0|k0|k0|k0|k0| | | |k0|k0| | |k0 nt nh|n|keep| |pat|pat f|n|n|n| | | | | | |]; cbn [accessed] in Ha; try discriminate;
    try (destruct out as [| | |[?|]|[?|]| | | | | | | | | | | | | |]; discriminate).
  - (* Touch *) injection Ha as <-. destruct (find_id k0 (ents s)) eqn:Hf; [discriminate|]. destruct out; cbn [sm_step]; rewrite <- Hm; unfold lookup; rewrite Hf; cbn [option_map]; now destruct (leaving _ _ _ _).
  - (* Mutate *) destruct out; try discriminate. injection Ha as <-. destruct (find_id k0 (ents s)) eqn:Hf; [discriminate|].
    cbn [sm_step]. rewrite N.eqb_refl, <- Hm. unfold lookup. now rewrite Hf.
Qed.

(* one step: the cache's map follows the client's map *)
Theorem step_sm s p o s' out evs m : Inv s -> wf_op E s p -> stepA E VS fixed s p o = Some (s', out, evs) ->
  (forall x, lookup s x = m x) -> forall q, lookup s' q = sm_step m (p, out, evs) q.
Proof.
  intros HI Hwf H Hm q. rewrite (step_map E VS E_pos VS_le_E s p o s' out evs HI Hwf H q).
  pose proof (promoted_accessed s p o s' out evs HI Hwf H) as Hpa. unfold promoted in Hpa.
  destruct (promoted_kv s p out) as [[k w]|] eqn:Hpk; cbn [option_map fst] in Hpa.
  - destruct (N.eqb_spec q k) as [->|Hne]; [symmetry; eapply step_sm_promoted; eauto|].
    rewrite sm_step_other by (intros k' Hk'; congruence).
    apply (step_sm_generic s p o s' out evs m q HI Hwf H Hm). unfold promoted. rewrite Hpk. cbn [option_map fst]. congruence.
  - destruct (accessed p out) as [k|] eqn:Ha.
    + destruct (N.eqb_spec q k) as [->|Hne].
      * rewrite (memb_notin _ _ Hpa). symmetry. eapply step_sm_absent; eauto.
      * rewrite sm_step_other by (intros k' Hk'; congruence).
        apply (step_sm_generic s p o s' out evs m q HI Hwf H Hm). unfold promoted. rewrite Hpk. discriminate.
    + rewrite sm_step_other by (intros k' Hk'; congruence).
      apply (step_sm_generic s p o s' out evs m q HI Hwf H Hm). unfold promoted. rewrite Hpk. discriminate.
Qed.

(* THE VALUE MOST RECENTLY STORED.  After any history, a lookup of any key finds exactly what the client's
   sequential map holds: the value most recently stored for the key (by insert, try_insert or the closure
   of mutate) if the key has not since been removed, evicted, rejected by retain, cleared or drained;
   otherwise nothing. *)
Theorem lookup_is_last_store h s : Hist h s -> forall q, lookup s q = sm_of h q.
Proof.
  induction 1 as [mx cap s Hmx Hn|h s p o s' out evs HH IH Hwf Hs]; intros q.
  - unfold new_cache in Hn. destruct (t_alloc E cap true); try discriminate. injection Hn as <-. reflexivity.
  - cbn [sm_of]. exact (step_sm s p o s' out evs (sm_of h) (reach_inv E VS E_pos VS_le_E s (hist_reach h s HH)) Hwf Hs IH q).
Qed.

(* ---------- consequences: who is least recently used, who is evicted ---------- *)
Lemma sorted_subl {A} (R : A -> A -> Prop) (S L : list A) : subl S L -> StronglySorted R L -> StronglySorted R S.
Proof.
  induction 1 as [|x S L Hs IH|x S L Hs IH]; intros HL; [constructor| |]; inversion HL as [|? ? HL' Hall]; subst; [auto|].
  constructor; [auto|]. apply Forall_forall. intros y Hy. exact (proj1 (Forall_forall _ _) Hall y (subl_in _ _ _ Hs Hy)).
Qed.
Lemma sorted_app_lt {A} (R : A -> A -> Prop) (a b : list A) : StronglySorted R (a ++ b) -> forall x y, In x a -> In y b -> R x y.
Proof.
  induction a as [|z a IH]; intros Hs x y Hx Hy; [destruct Hx|]. cbn [app] in Hs. inversion Hs as [|? ? Hs' Hall]; subst.
  destruct Hx as [<-|Hx]; [|now apply IH]. apply (proj1 (Forall_forall _ _) Hall). apply in_or_app. now right.
Qed.

(* peek_lru / the head of the order is the key whose last access is the oldest; the last is the newest *)
Theorem lru_is_least_recently_accessed h s e r : Hist h s -> ents s = e :: r ->
  forall q, In q (kids r) -> (last_access h (kid (ek e)) < last_access h q)%nat.
Proof.
  intros HH He q Hq. destruct (order_is_last_access h s HH) as [Hs _]. rewrite He, kids_cons in Hs.
  inversion Hs as [|? ? _ Hall]; subst. exact (proj1 (Forall_forall _ _) Hall q Hq).
Qed.
Theorem mru_is_most_recently_accessed h s l e : Hist h s -> ents s = l ++ [e] ->
  forall q, In q (kids l) -> (last_access h q < last_access h (kid (ek e)))%nat.
Proof.
  intros HH He q Hq. destruct (order_is_last_access h s HH) as [Hs _]. rewrite He, kids_app in Hs.
  apply (sorted_app_lt _ _ _ Hs q (kid (ek e)) Hq). now left.
Qed.

(* whatever an insertion, a growing mutate or a lowered limit evicts was accessed less recently than every old entry that
   stays: with l0 the old entries other than the one being replaced / mutated (a sublist of the old order), split by the
   eviction into the evicted prefix and the rest *)
Theorem evicted_are_least_recently_accessed h s l0 evd rest tgt : Hist h s -> subl l0 (ents s) -> minimal_prefix l0 evd rest tgt ->
  forall a b, In a (kids evd) -> In b (kids rest) -> (last_access h a < last_access h b)%nat.
Proof.
  intros HH Hs0 (Hl & _) a b Ha Hb. destruct (order_is_last_access h s HH) as [Hs _].
  pose proof (sorted_subl _ _ _ (subl_map (fun e => kid (ek e)) _ _ Hs0) Hs) as Hs'. fold (kids l0) in Hs'. rewrite Hl, kids_app in Hs'.
  exact (sorted_app_lt _ _ _ Hs' a b Ha Hb).
Qed.
End Params.
