(* Ownership ledger (C06): every key and value object (identified by its token) that enters a cache
   is, step by step, still held, dropped, handed back, or (only when an iterator is forgotten) leaked —
   and the multiset balance is exact, so nothing is dropped twice, both dropped and returned, or lost. *)
Require Export LruV.A.SpecA LruV.A.TakeEnds LruV.A.OrderA.

Definition cnt (x : N) (l : list N) : nat := count_occ N.eq_dec l x.
Definition bal (A B : list N) : Prop := forall x, cnt x A = cnt x B.
Definition ctoks (x : N) (l : list entry) : nat := cnt x (all_toks l).

Definition c1 (x a : N) : nat := if N.eq_dec a x then 1%nat else 0%nat.
Lemma cnt_cons x a l : cnt x (a :: l) = (c1 x a + cnt x l)%nat.
Proof. unfold cnt, c1. cbn [count_occ]. destruct (N.eq_dec a x); reflexivity. Qed.
Lemma cnt_nil x : cnt x [] = 0%nat.
Proof. reflexivity. Qed.
Lemma cnt_app x a b : cnt x (a ++ b) = (cnt x a + cnt x b)%nat.
Proof. apply count_occ_app. Qed.
Lemma all_toks_app a b : all_toks (a ++ b) = all_toks a ++ all_toks b.
Proof. apply flat_map_app. Qed.
Lemma ctoks_app x a b : ctoks x (a ++ b) = (ctoks x a + ctoks x b)%nat.
Proof. unfold ctoks. now rewrite all_toks_app, cnt_app. Qed.
Lemma ctoks_cons x e l : ctoks x (e :: l) = (cnt x (toks e) + ctoks x l)%nat.
Proof. unfold ctoks, all_toks. cbn [flat_map]. apply cnt_app. Qed.
Lemma ctoks_nil x : ctoks x [] = 0%nat.
Proof. reflexivity. Qed.
Lemma ctoks_filter x (f : entry -> bool) l : ctoks x l = (ctoks x (filter f l) + ctoks x (filter (fun e => negb (f e)) l))%nat.
Proof. induction l as [|e l IH]; cbn [filter]; [reflexivity|]. destruct (f e); cbn [negb]; rewrite !ctoks_cons; lia. Qed.

(* tokens handed out by an iterator run *)
Lemma take_ends_count (pat : list bool) : forall (M : list entry),
  let '(outs, rest) := take_ends M pat in forall x, ctoks x M = (ctoks x (somes outs) + ctoks x rest)%nat.
Proof.
  induction pat as [|f p IH]; intros M; cbn [take_ends]; [intros x; cbn; reflexivity|].
  destruct M as [|a M'].
  - destruct f; rewrite take_ends_nil; intros x; cbn [somes flat_map app];
      (assert (Hs : somes (repeat (@None entry) (length p)) = []) by (induction (length p); cbn; auto)); unfold somes in Hs; rewrite Hs; reflexivity.
  - destruct f.
    + specialize (IH M'). destruct (take_ends M' p) as [o m]. intros x. cbn [somes flat_map app]. fold (somes o). rewrite !ctoks_cons, IH. lia.
    + specialize (IH (removelast (a :: M'))). destruct (take_ends (removelast (a :: M')) p) as [o m]. intros x.
      cbn [somes flat_map app]. fold (somes o).
      assert (Hne : a :: M' <> []) by discriminate. rewrite (app_removelast_last a Hne) at 1.
      rewrite ctoks_app, (ctoks_cons x (last (a :: M') a) []), ctoks_nil, (ctoks_cons x (last (a :: M') a) (somes o)), (IH x). lia.
Qed.

Lemma returned_items x (outs : list (option entry)) :
  cnt x (flat_map (fun i => match i with Some y => kv_toks y | None => [] end) (map (option_map kv) outs)) = ctoks x (somes outs).
Proof.
  induction outs as [|[e|] o IH]; cbn [map flat_map option_map somes app]; [reflexivity| |exact IH].
  fold (somes o). rewrite cnt_app, ctoks_cons, IH. reflexivity.
Qed.

Definition leaked (s : cache) (p : op) : list N :=
  match p with DrainOp pat FForget => all_toks (snd (take_ends (ents s) pat)) | _ => [] end.

Section Params.
Variables (E VS : N).
Hypothesis E_pos : 0 < E.
Hypothesis VS_le_E : VS <= E.
Notation Inv := (Inv E).

Ltac fold_ctoks := repeat match goal with |- context [cnt ?x (all_toks ?l)] => change (cnt x (all_toks l)) with (ctoks x l) end.
Ltac bal_tac := unfold bal; intros x; repeat rewrite ?cnt_app, ?all_toks_app; fold_ctoks;
  repeat rewrite ?ctoks_app, ?ctoks_cons, ?ctoks_nil; unfold toks, mk_entry, mutated, kv_toks, kv; cbn [ek ev ktok vtok fst snd]; repeat rewrite ?cnt_cons, ?cnt_nil; try lia.

Theorem step_ledger s p o s' out evs : Inv s -> wf_op E s p ->
  stepA E VS fixed s p o = Some (s', out, evs) ->
  bal (all_toks (ents s) ++ op_toks p) (all_toks (ents s') ++ e_dropped evs ++ returned p out ++ leaked s p).
Proof.
  intros HI Hwf H. destruct p; cbn [stepA wf_op] in H, Hwf; cbn [op_toks leaked];
    try (injection H as <- <- <-; cbn [returned e_dropped ev0 hashed]; bal_tac; fail).
  - (* Insert *)
    destruct (insert_spec E VS E_pos VS_le_E s k v o _ HI Hwf H) as [[_ Hr]|(_ & evd & rest & t2 & rb & (Hl & _) & _ & _ & Hr)];
      injection Hr as -> -> ->; cbn [returned e_dropped ev0 ents set_ents]; [bal_tac|].
    destruct (find_id (kid k) (ents s)) as [e|] eqn:Hf; cbn [option_map].
    + destruct (find_id_some _ _ _ Hf) as (la & lb & El & Er & _). rewrite Er in Hl. rewrite El. bal_tac.
      assert (Hx : ctoks x (la ++ lb) = ctoks x (evd ++ rest)) by now rewrite Hl. rewrite !ctoks_app in Hx. lia.
    + destruct (find_id_none _ _ Hf) as [Er _]. rewrite Er in Hl. rewrite Hl. bal_tac.
  - (* TryInsert *)
    destruct (try_insert_spec E VS E_pos VS_le_E s k v o _ HI Hwf H) as [[_ Hr]|[(_ & _ & Hr)|[(_ & _ & Hr)|(_ & Hfree & t2 & rb & _ & Hr)]]];
      injection Hr as -> -> ->; cbn [returned e_dropped ev0 hashed ents set_ents]; bal_tac.
  - (* Get *) destruct (do_touch s q) eqn:Ht. injection H as <- <- <-. unfold do_touch in Ht. destruct (find_id q (ents s)) as [e|] eqn:Hf; injection Ht as <- <-; cbn [returned e_dropped hashed option_map ents set_ents]; [|bal_tac].
    destruct (find_id_some _ _ _ Hf) as (la & lb & El & Er & _). rewrite Er, El. bal_tac.
  - destruct (do_touch s q) eqn:Ht. injection H as <- <- <-. unfold do_touch in Ht. destruct (find_id q (ents s)) as [e|] eqn:Hf; injection Ht as <- <-; cbn [returned e_dropped hashed option_map ents set_ents]; [|bal_tac].
    destruct (find_id_some _ _ _ Hf) as (la & lb & El & Er & _). rewrite Er, El. bal_tac.
  - destruct (do_touch s q) eqn:Ht. injection H as <- <- <-. unfold do_touch in Ht. destruct (find_id q (ents s)) as [e|] eqn:Hf; injection Ht as <- <-; cbn [returned e_dropped hashed option_map ents set_ents]; [|bal_tac].
    destruct (find_id_some _ _ _ Hf) as (la & lb & El & Er & _). rewrite Er, El. bal_tac.
  - (* GetLru *) destruct (ents s) as [|e r] eqn:El; injection H as <- <- <-; cbn [returned e_dropped ev0 ents set_ents]; [rewrite El|]; bal_tac.
  - (* Remove *) destruct (find_id q (ents s)) as [e|] eqn:Hf; [|injection H as <- <- <-; cbn [returned e_dropped hashed]; bal_tac].
    apply bind_some in H as ([s1 e1] & H1 & H). injection H as <- <- <-. apply removed_ents in H1. cbn [fst] in H1. rewrite H1.
    destruct (find_id_some _ _ _ Hf) as (la & lb & El & Er & _). rewrite Er, El. cbn [returned e_dropped]. bal_tac.
  - (* RemoveEntry *) destruct (find_id q (ents s)) as [e|] eqn:Hf; [|injection H as <- <- <-; cbn [returned e_dropped hashed]; bal_tac].
    apply bind_some in H as ([s1 e1] & H1 & H). injection H as <- <- <-. pose proof (removed_ents _ _ _ _ _ H1) as H2. cbn [fst] in H2. rewrite H2.
    unfold removed_ev in H1. apply bind_some in H1 as (c & _ & H1). injection H1 as _ <-.
    destruct (find_id_some _ _ _ Hf) as (la & lb & El & Er & _). rewrite Er, El. cbn [returned e_dropped hashed option_map]. bal_tac.
  - (* RemoveLru *) destruct (ents s) as [|e r] eqn:El; [injection H as <- <- <-; cbn [returned e_dropped ev0]; rewrite El; bal_tac|].
    apply bind_some in H as ([s1 e1] & H1 & H). injection H as <- <- <-. pose proof (removed_ents _ _ _ _ _ H1) as H2. cbn [fst] in H2. rewrite H2.
    unfold removed_ev in H1. apply bind_some in H1 as (c & _ & H1). injection H1 as _ <-. cbn [returned e_dropped hashed]. bal_tac.
  - (* RemoveMru *) destruct (ents s) as [|a r] eqn:El; [injection H as <- <- <-; cbn [returned e_dropped ev0]; rewrite El; bal_tac|].
    assert (Hne : a :: r <> []) by discriminate. pose proof (app_removelast_last a Hne) as Hsp.
    set (lst := last (a :: r) a) in *. set (rl := removelast (a :: r)) in *.
    apply bind_some in H as ([s1 e1] & H1 & H). injection H as <- <- <-. pose proof (removed_ents _ _ _ _ _ H1) as H2. cbn [fst] in H2. rewrite H2.
    unfold removed_ev in H1. apply bind_some in H1 as (c & _ & H1). injection H1 as _ <-. cbn [returned e_dropped hashed].
    rewrite Hsp. bal_tac.
  - (* Mutate *) pose proof (mutate_spec E VS E_pos VS_le_E s q newtag newheap o _ HI Hwf H) as Hs.
    destruct (find_id q (ents s)) as [e|] eqn:Hf; [|injection Hs as -> -> ->; cbn [returned e_dropped hashed]; bal_tac].
    cbv zeta in Hs. destruct (find_id_some _ _ _ Hf) as (la & lb & El & Er & _). rewrite Er in Hs.
    destruct Hs as (_ & _ & _ & [(_ & _ & Hr)|[(_ & _ & evd & rest & (Hl & _) & Hr)|(_ & Hr)]]); injection Hr as -> -> ->; cbn [returned e_dropped hashed ents set_ents]; rewrite El.
    + bal_tac.
    + bal_tac. assert (Hx : ctoks x (la ++ lb) = ctoks x (evd ++ rest)) by now rewrite Hl. rewrite !ctoks_app in Hx. lia.
    + bal_tac.
  - (* SetMaxSize *) destruct (set_max_spec E VS E_pos VS_le_E s n o _ HI H) as (evd & rest & (Hl & _) & Hr). injection Hr as -> -> ->.
    cbn [returned e_dropped ents]. rewrite Hl. bal_tac.
  - (* Retain *) apply bind_some in H as (c & _ & H). injection H as <- <- <-. cbn [returned e_dropped ents set_ents].
    bal_tac. rewrite (ctoks_filter x (fun e => keep (ek e) (ev e)) (ents s)). lia.
  - (* Drain *) pose proof (take_ends_count pat (ents s)) as Hc. destruct (take_ends (ents s) pat) as [outs rest] eqn:Ht. injection H as <- <- <-.
    cbn [returned e_dropped ents set_ents snd]. intros x. repeat rewrite ?cnt_app, ?all_toks_app. rewrite returned_items. fold_ctoks. specialize (Hc x).
    destruct f; fold_ctoks; rewrite ?ctoks_nil, ?cnt_nil; lia.
  - (* Reserve *) destruct (add64 (len s) n); [|injection H as <- <- <-; cbn [returned e_dropped ev0]; bal_tac].
    destruct (capacity (tb s) <? n0); [|injection H as <- <- <-; cbn [returned e_dropped ev0]; bal_tac].
    pose proof (realloc_same E s n0 o) as (R1 & _). destruct (do_realloc E s n0 o) as [s1 [t| |]]; injection H as <- <- <-; cbn [fst] in R1; rewrite R1; cbn [returned e_dropped ev0 rebuilt_ev]; bal_tac.
  - (* TryReserve *) destruct (add64 (len s) n); [|injection H as <- <- <-; cbn [returned e_dropped ev0]; bal_tac].
    destruct (capacity (tb s) <? n0); [|injection H as <- <- <-; cbn [returned e_dropped ev0]; bal_tac].
    pose proof (realloc_same E s n0 o) as (R1 & _). destruct (do_realloc E s n0 o) as [s1 [t| |]]; injection H as <- <- <-; cbn [fst] in R1; rewrite R1; cbn [returned e_dropped ev0 rebuilt_ev]; bal_tac.
  - (* ShrinkTo *) unfold do_shrink in H. destruct (N.max (len s) n <? capacity (tb s)); [|injection H as <- <- <-; cbn [returned e_dropped ev0]; bal_tac].
    cbn [shrink_orig fixed] in H. destruct (t_alloc E (N.max (len s) n) (o_alloc o)); try (injection H as <- <- <-; cbn [returned e_dropped ev0]; bal_tac).
    destruct (capacity t <? capacity (tb s)); injection H as <- <- <-; cbn [returned e_dropped ev0 rebuilt_ev ents set_ents]; bal_tac.
  - (* ShrinkToFit *) unfold do_shrink in H. destruct (N.max (len s) 0 <? capacity (tb s)); [|injection H as <- <- <-; cbn [returned e_dropped ev0]; bal_tac].
    cbn [shrink_orig fixed] in H. destruct (t_alloc E (N.max (len s) 0) (o_alloc o)); try (injection H as <- <- <-; cbn [returned e_dropped ev0]; bal_tac).
    destruct (capacity t <? capacity (tb s)); injection H as <- <- <-; cbn [returned e_dropped ev0 rebuilt_ev ents set_ents]; bal_tac.
Qed.
End Params.

(* ---------- whole histories ---------- *)
Section History.
Variables (E VS : N).
Hypothesis E_pos : 0 < E.
Hypothesis VS_le_E : VS <= E.

(* Run s l s' I D R L: the history l (operations with the oracle's choices) takes s to s', introducing the
   tokens I, dropping D, handing back R and leaking L (only through forgotten drains) *)
Inductive Run : cache -> list (op * oracle) -> cache -> list N -> list N -> list N -> list N -> Prop :=
| Run_nil s : Run s [] s [] [] [] []
| Run_cons s p o s1 out evs l s' I D R L :
    wf_op E s p -> stepA E VS fixed s p o = Some (s1, out, evs) -> Run s1 l s' I D R L ->
    Run s ((p, o) :: l) s' (op_toks p ++ I) (e_dropped evs ++ D) (returned p out ++ R) (leaked s p ++ L).

Lemma bal_perm A B : bal A B <-> Permutation A B.
Proof. unfold bal, cnt. symmetry. apply (Permutation_count_occ N.eq_dec). Qed.

Theorem run_ledger s l s' I D R L : Inv E s -> Run s l s' I D R L ->
  bal (all_toks (ents s) ++ I) (all_toks (ents s') ++ D ++ R ++ L) /\ Inv E s'.
Proof.
  intros HI HR. induction HR as [s|s p o s1 out evs l s' I D R L Hwf Hstep HR IH].
  - split; [|exact HI]. intros x. rewrite !cnt_app. cbn. lia.
  - pose proof (step_inv E VS E_pos VS_le_E s p o _ HI Hwf Hstep) as HI1. cbn [fst] in HI1.
    destruct (IH HI1) as [IHb HI']. split; [|exact HI'].
    pose proof (step_ledger E VS E_pos VS_le_E s p o s1 out evs HI Hwf Hstep) as Hs.
    intros x. specialize (IHb x). specialize (Hs x). rewrite !cnt_app in *. lia.
Qed.

(* From creation to destruction: every token that ever entered the cache is, once the cache is dropped,
   in exactly one of dropped / handed back / leaked, exactly once; and nothing is leaked unless an
   iterator was forgotten. *)
Theorem exactly_once mx cap s0 l s' I D R L : mx < W -> new_cache E mx cap = Some s0 -> Run s0 l s' I D R L -> NoDup I ->
  let D' := D ++ e_dropped (do_drop s') in
  Permutation I (D' ++ R ++ L) /\ NoDup (D' ++ R ++ L) /\
  (forall t, In t I -> In t D' \/ In t R \/ In t L) /\
  (forall t, In t D' -> ~ In t R /\ ~ In t L).
Proof.
  intros Hmx Hnew HR Hnd. cbv zeta.
  assert (HI0 : Inv E s0) by (eapply reach_inv; eauto; eapply reach_new; eauto).
  assert (He : ents s0 = []) by (unfold new_cache in Hnew; destruct (t_alloc E cap true); try discriminate; now injection Hnew as <-).
  destruct (run_ledger s0 l s' I D R L HI0 HR) as [Hb _]. rewrite He in Hb. cbn [all_toks flat_map app] in Hb.
  assert (Hp : Permutation I ((D ++ e_dropped (do_drop s')) ++ R ++ L)).
  { apply bal_perm. intros x. specialize (Hb x). unfold do_drop. cbn [e_dropped]. rewrite !cnt_app in *. lia. }
  assert (Hnd' : NoDup ((D ++ e_dropped (do_drop s')) ++ R ++ L)) by (eapply Permutation_NoDup; eauto).
  split; [exact Hp|]. split; [exact Hnd'|]. split.
  - intros t Ht. apply (Permutation_in _ Hp) in Ht. apply in_app_or in Ht as [Ht|Ht]; [now left|]. apply in_app_or in Ht. tauto.
  - intros t Ht. split; intros Hin.
    + apply in_split in Ht as (a & b & Eq). rewrite Eq, <- app_assoc in Hnd'. cbn [app] in Hnd'. apply NoDup_remove_2 in Hnd'. apply Hnd'.
      apply in_or_app. right. apply in_or_app. right. apply in_or_app. now left.
    + apply in_split in Ht as (a & b & Eq). rewrite Eq, <- app_assoc in Hnd'. cbn [app] in Hnd'. apply NoDup_remove_2 in Hnd'. apply Hnd'.
      apply in_or_app. right. apply in_or_app. right. apply in_or_app. now right.
Qed.

Lemma run_no_forget_no_leak s l s' I D R L : Run s l s' I D R L ->
  Forall (fun po => match fst po with DrainOp _ FForget => False | _ => True end) l -> L = [].
Proof.
  induction 1 as [|s p o s1 out evs l s' I D R L Hwf Hstep HR IH]; [reflexivity|]. intros Hf. inversion Hf as [|? ? Hp Hl]; subst.
  rewrite (IH Hl), app_nil_r. cbn [fst] in Hp. destruct p; try reflexivity. destruct f; [reflexivity|contradiction].
Qed.
End History.
