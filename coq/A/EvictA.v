(* The eviction loop: while current_size > target { remove_lru() }.
   Under exact accounting it terminates, never under/overflows, and removes exactly the shortest
   prefix (least-recently-used first) whose removal meets the target. *)
Require Export LruV.A.ListLemmas.

Lemma eject_spec l : forall c target, c = sum_es l ->
  exists l' ev, eject l c target = Some (l', sum_es l', ev) /\ l = ev ++ l' /\ sum_es l' <= target
     /\ (forall ev0 e, ev = ev0 ++ [e] -> target < sum_es l - sum_es ev0)
     /\ (c <= target -> ev = []).
Proof.
  induction l as [|e r IH]; intros c target Hc.
  - rewrite sum_es_nil in Hc. subst c. exists [], []. cbn [eject]. destruct (N.leb_spec 0 target); [|lia].
    repeat split; rewrite ?sum_es_nil; try lia. intros [|? ?] ? Hd; discriminate Hd.
  - cbn [eject]. destruct (N.leb_spec c target) as [Hle|Hgt].
    + exists (e :: r), []. subst c. repeat split; try lia. intros [|? ?] ? Hd; discriminate Hd.
    + rewrite sum_es_cons in Hc. rewrite sub64_some by lia. cbn [bind].
      destruct (IH (c - es e) target ltac:(lia)) as (l' & ev & He & Hl & Hs & Hmin & _).
      rewrite He. cbn [bind]. exists l', (e :: ev). repeat split.
      * now rewrite Hl.
      * exact Hs.
      * intros ev0 e0 Hev. destruct ev0 as [|x ev0]; cbn [app] in Hev.
        -- rewrite sum_es_nil, sum_es_cons. lia.
        -- injection Hev as -> Hev. specialize (Hmin _ _ Hev). rewrite !sum_es_cons. lia.
      * lia.
Qed.
