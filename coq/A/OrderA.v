(* Recency order (C05): every operation leaves the relative order of the surviving entries unchanged
   and puts the promoted entry (if the operation promotes) at the most-recently-used end. *)
Require Export LruV.A.SpecA.

(* sublist obtained by deleting elements *)
Inductive subl {A} : list A -> list A -> Prop :=
| subl_nil : subl [] []
| subl_skip x S L : subl S L -> subl S (x :: L)
| subl_keep x S L : subl S L -> subl (x :: S) (x :: L).

Lemma subl_refl {A} (l : list A) : subl l l.
Proof. induction l; [apply subl_nil|apply subl_keep; auto]. Qed.
Lemma subl_nil_l {A} (l : list A) : subl [] l.
Proof. induction l; [apply subl_nil|apply subl_skip; auto]. Qed.
Lemma subl_in {A} (S L : list A) x : subl S L -> In x S -> In x L.
Proof. induction 1; cbn; intuition. Qed.
Lemma subl_app_r {A} (a b : list A) : subl b (a ++ b).
Proof. induction a; cbn; [apply subl_refl|now apply subl_skip]. Qed.
Lemma subl_app_l {A} (a b : list A) : subl a (a ++ b).
Proof. induction a; cbn; [apply subl_nil_l|now apply subl_keep]. Qed.
Lemma subl_app {A} (a a' b b' : list A) : subl a a' -> subl b b' -> subl (a ++ b) (a' ++ b').
Proof. induction 1; cbn; intros; auto; [apply subl_skip|apply subl_keep]; auto. Qed.
Lemma subl_trans {A} (a b c : list A) : subl a b -> subl b c -> subl a c.
Proof.
  intros Hab Hbc. revert a Hab. induction Hbc as [|x S L _ IH|x S L _ IH]; intros a Hab.
  - exact Hab.
  - apply subl_skip. auto.
  - inversion Hab; subst; [apply subl_skip|apply subl_keep]; auto.
Qed.
Lemma subl_map {A B} (g : A -> B) S L : subl S L -> subl (map g S) (map g L).
Proof. induction 1; cbn; [apply subl_nil|apply subl_skip|apply subl_keep]; auto. Qed.
Lemma subl_filter {A} (f : A -> bool) l : subl (filter f l) l.
Proof. induction l as [|x l IH]; cbn; [apply subl_nil|]. destruct (f x); [apply subl_keep|apply subl_skip]; auto. Qed.
Lemma subl_mid {A} (a b : list A) x : subl (a ++ b) (a ++ x :: b).
Proof. apply subl_app; [apply subl_refl|apply subl_skip; apply subl_refl]. Qed.
Lemma subl_removelast {A} (l : list A) : subl (removelast l) l.
Proof.
  destruct l as [|a l]; [apply subl_nil|]. assert (H : a :: l <> []) by discriminate.
  rewrite (app_removelast_last a H) at 2. apply subl_app_l.
Qed.

Definition memb (x : N) (l : list N) : bool := existsb (N.eqb x) l.
Lemma memb_in x l : memb x l = true <-> In x l.
Proof. unfold memb. rewrite existsb_exists. split; [intros (y & Hy & He); apply N.eqb_eq in He; now subst|intros H; exists x; split; [exact H|apply N.eqb_refl]]. Qed.
Lemma memb_notin x l : ~ In x l -> memb x l = false.
Proof. intros H. destruct (memb x l) eqn:E; [|reflexivity]. apply memb_in in E. tauto. Qed.

(* with distinct elements, a sublist is recovered by filtering on membership: "same relative order" *)
Lemma subl_filter_mem S L : NoDup L -> subl S L -> filter (fun x => memb x S) L = S.
Proof.
  intros Hnd Hs. induction Hs as [|x S L Hs IH|x S L Hs IH].
  - reflexivity.
  - apply NoDup_cons_iff in Hnd as [Hx Hnd]. cbn [filter]. rewrite memb_notin; [auto|]. intros Hin. apply Hx. eapply subl_in; eauto.
  - apply NoDup_cons_iff in Hnd as [Hx Hnd]. cbn [filter]. unfold memb at 1. cbn [existsb]. rewrite N.eqb_refl. cbn [orb]. f_equal.
    transitivity (filter (fun y => memb y S) L); [|apply IH; exact Hnd]. apply filter_ext_in. intros y Hy. unfold memb. cbn [existsb].
    destruct (N.eqb_spec y x) as [->|]; [tauto|reflexivity].
Qed.

Lemma remove_id_subl q l : subl (remove_id q l) l.
Proof. induction l as [|e r IH]; cbn [remove_id]; [apply subl_nil|]. destruct (kid (ek e) =? q); [apply subl_skip; apply subl_refl|now apply subl_keep]. Qed.

Section Params.
Variables (E VS : N).
Hypothesis E_pos : 0 < E.
Hypothesis VS_le_E : VS <= E.
Notation Inv := (Inv E).

(* the key an operation promotes to most-recently-used and the value that entry then carries, given the
   state before and the operation's result *)
Definition promoted_kv (s : cache) (p : op) (o : out) : option (N * val) :=
  match p, o with
  | Insert k v, OInsOk _ => Some (kid k, v)
  | TryInsert k v, OTryOk => Some (kid k, v)
  | Get q, OVal (Some v) => Some (q, v)
  | GetEntry q, OKV (Some x) => Some (q, snd x)
  | Touch q, _ => match find_id q (ents s) with Some e => Some (q, ev e) | None => None end
  | GetLru, OKV (Some x) => Some (kid (fst x), snd x)
  | Mutate q nt nh, OMutOk => match find_id q (ents s) with Some e => Some (q, mutated e nt nh) | None => None end
  | _, _ => None
  end.
Definition promoted (s : cache) (p : op) (o : out) : option N := option_map fst (promoted_kv s p o).

(* shape of the entry list after a step: a sublist of the old list (same relative order), followed by
   the promoted entry when there is one *)
Definition order_shape (l l' : list entry) (pk : option (N * val)) : Prop :=
  exists S prom, l' = S ++ prom /\ subl S l /\
    match pk with
    | None => prom = []
    | Some (q, w) => exists e, prom = [e] /\ kid (ek e) = q /\ ev e = w /\ ~ In q (kids S)
    end.

Lemma shape_same l : order_shape l l None.
Proof. exists l, []. rewrite app_nil_r. repeat split. apply subl_refl. Qed.
Lemma shape_sub l l' : subl l' l -> order_shape l l' None.
Proof. intros H. exists l', []. rewrite app_nil_r. repeat split. exact H. Qed.

Lemma notin_remove_id q l : NoDup (kids l) -> ~ In q (kids (remove_id q l)).
Proof.
  intros Hnd. destruct (find_id q l) as [e|] eqn:Hf.
  - destruct (find_id_some _ _ _ Hf) as (la & lb & El & Er & Hk & Hn). rewrite Er. rewrite El, kids_app in Hnd. cbn [kids map] in Hnd.
    apply NoDup_app_remove_mid in Hnd as [_ Hnd2]. rewrite Hk in Hnd2. now rewrite kids_app.
  - destruct (find_id_none _ _ Hf) as [-> Hn]. exact Hn.
Qed.

Lemma notin_subl q (S L : list entry) : subl S L -> ~ In q (kids L) -> ~ In q (kids S).
Proof. intros Hs Hn Hin. apply Hn. eapply subl_in; [apply subl_map; exact Hs|exact Hin]. Qed.

Lemma touch_shape s q : Inv s ->
  order_shape (ents s) (ents (fst (do_touch s q))) (match find_id q (ents s) with Some e => Some (q, ev e) | None => None end).
Proof.
  intros (_ & _ & _ & _ & Hnd). unfold do_touch. destruct (find_id q (ents s)) as [e|] eqn:Hf; cbn [fst ents set_ents]; [|apply shape_same].
  exists (remove_id q (ents s)), [e]. split; [reflexivity|]. split; [apply remove_id_subl|].
  exists e. destruct (find_id_some _ _ _ Hf) as (la & lb & El & Er & Hk & Hn). repeat split; auto. now apply notin_remove_id.
Qed.

Lemma removed_ents e o s l r : removed_ev e o s l = Some r -> ents (fst r) = l.
Proof. unfold removed_ev. intros H. apply bind_some in H as (c & _ & H). now injection H as <-. Qed.

Theorem step_order_shape s p o s' out evs : Inv s -> wf_op E s p ->
  stepA E VS fixed s p o = Some (s', out, evs) -> order_shape (ents s) (ents s') (promoted_kv s p out).
Proof.
  intros HI Hwf H. pose proof HI as (Hsum & Hle & Hmax & Hall & Hnd).
  destruct p; cbn [stepA wf_op] in H, Hwf;
    try (injection H as <- <- <-; cbn [promoted_kv]; apply shape_same).
  - (* Insert *)
    destruct (insert_spec E VS E_pos VS_le_E s k v o _ HI Hwf H) as [[_ Hr]|(_ & evd & rest & t2 & rb & Hmp & _ & _ & Hr)];
      injection Hr as -> -> ->; cbn [promoted_kv]; [apply shape_same|]. cbn [ents set_ents].
    destruct Hmp as (Hl & _). exists rest, [mk_entry k v (kheap k + vheap v + E)]. split; [reflexivity|].
    assert (Hsub : subl rest (ents s)) by (eapply subl_trans; [|apply (remove_id_subl (kid k))]; rewrite Hl; apply subl_app_r).
    split; [exact Hsub|]. eexists. repeat split.
    eapply notin_subl; [|apply (notin_remove_id (kid k) (ents s) Hnd)]. rewrite Hl. apply subl_app_r.
  - (* TryInsert *)
    destruct (try_insert_spec E VS E_pos VS_le_E s k v o _ HI Hwf H) as [[_ Hr]|[(_ & _ & Hr)|[(_ & _ & Hr)|(_ & Hfree & t2 & rb & _ & Hr)]]];
      injection Hr as -> -> ->; cbn [promoted_kv]; try apply shape_same. cbn [ents set_ents].
    exists (ents s), [mk_entry k v (kheap k + vheap v + E)]. split; [reflexivity|]. split; [apply subl_refl|].
    eexists. repeat split. now destruct (find_id_none _ _ Hfree).
  - (* Get *) pose proof (touch_shape s q HI) as Ht. unfold do_touch in *. destruct (find_id q (ents s)); injection H as <- <- <-; exact Ht.
  - (* GetEntry *) pose proof (touch_shape s q HI) as Ht. unfold do_touch in *. destruct (find_id q (ents s)); injection H as <- <- <-; exact Ht.
  - (* Touch *) pose proof (touch_shape s q HI) as Ht. cbn [promoted_kv]. unfold do_touch in *. destruct (find_id q (ents s)); injection H as <- <- <-; exact Ht.
  - (* GetLru *) destruct (ents s) as [|e r] eqn:El; injection H as <- <- <-; cbn [promoted_kv]; [rewrite El; apply shape_same|].
    cbn [ents set_ents fst kv]. exists r, [e]. split; [reflexivity|]. split; [apply subl_skip; apply subl_refl|].
    exists e. repeat split. cbn [kids map] in Hnd. now apply NoDup_cons_iff in Hnd as [? _].
  - (* Remove *) destruct (find_id q (ents s)) as [e|] eqn:Hf; [|injection H as <- <- <-; apply shape_same].
    apply bind_some in H as ([s1 e1] & H1 & H). injection H as <- <- <-. cbn [promoted_kv].
    apply removed_ents in H1. cbn [fst] in H1. rewrite H1. apply shape_sub, remove_id_subl.
  - (* RemoveEntry *) destruct (find_id q (ents s)) as [e|] eqn:Hf; [|injection H as <- <- <-; apply shape_same].
    apply bind_some in H as ([s1 e1] & H1 & H). injection H as <- <- <-. cbn [promoted_kv].
    apply removed_ents in H1. cbn [fst] in H1. rewrite H1. apply shape_sub, remove_id_subl.
  - (* RemoveLru *) destruct (ents s) as [|e r] eqn:El; [injection H as <- <- <-; rewrite El; apply shape_same|].
    apply bind_some in H as ([s1 e1] & H1 & H). injection H as <- <- <-. cbn [promoted_kv].
    apply removed_ents in H1. cbn [fst] in H1. rewrite H1. apply shape_sub. apply subl_skip. apply subl_refl.
  - (* RemoveMru *) destruct (ents s) as [|a r] eqn:El; [injection H as <- <- <-; rewrite El; apply shape_same|].
    apply bind_some in H as ([s1 e1] & H1 & H). injection H as <- <- <-. cbn [promoted_kv].
    apply removed_ents in H1. cbn [fst] in H1. rewrite H1. apply shape_sub. apply subl_removelast.
  - (* Mutate *) pose proof (mutate_spec E VS E_pos VS_le_E s q newtag newheap o _ HI Hwf H) as Hs.
    destruct (find_id q (ents s)) as [e|] eqn:Hf; [|injection Hs as -> -> ->; apply shape_same].
    cbv zeta in Hs. destruct (find_id_some _ _ _ Hf) as (la & lb & El & Er & Hk & Hn).
    destruct Hs as (_ & _ & _ & [(_ & _ & Hr)|[(_ & _ & evd & rest & Hmp & Hr)|(_ & Hr)]]); injection Hr as -> -> ->; cbn [promoted_kv ents set_ents].
    + apply shape_sub, remove_id_subl.
    + rewrite Hf. destruct Hmp as (Hl & _). exists rest, [mk_entry (ek e) (mutated e newtag newheap) (kheap (ek e) + newheap + E)]. split; [reflexivity|].
      split; [eapply subl_trans; [|apply (remove_id_subl q)]; rewrite Hl; apply subl_app_r|].
      eexists. repeat split; [exact Hk|]. eapply notin_subl; [|apply (notin_remove_id q (ents s) Hnd)]. rewrite Hl. apply subl_app_r.
    + rewrite Hf. exists (remove_id q (ents s)), [mk_entry (ek e) (mutated e newtag newheap) (kheap (ek e) + newheap + E)]. split; [reflexivity|].
      split; [apply remove_id_subl|]. eexists. repeat split; [exact Hk|]. now apply notin_remove_id.
  - (* SetMaxSize *) destruct (set_max_spec E VS E_pos VS_le_E s n o _ HI H) as (evd & rest & (Hl & _) & Hr). injection Hr as -> -> ->.
    cbn [promoted_kv ents]. apply shape_sub. rewrite Hl. apply subl_app_r.
  - (* Retain *) apply bind_some in H as (c & _ & H). injection H as <- <- <-. cbn [promoted_kv ents set_ents]. apply shape_sub, subl_filter.
  - (* Clear *) injection H as <- <- <-. cbn [promoted_kv ents set_ents]. apply shape_sub, subl_nil_l.
  - (* Drain *) destruct (take_ends (ents s) pat). injection H as <- <- <-. cbn [promoted_kv ents set_ents]. apply shape_sub, subl_nil_l.
  - (* Reserve *) destruct (add64 (len s) n); [|injection H as <- <- <-; apply shape_same].
    destruct (capacity (tb s) <? n0); [|injection H as <- <- <-; apply shape_same].
    pose proof (realloc_same E s n0 o) as (R1 & _). destruct (do_realloc E s n0 o) as [s1 [t| |]]; injection H as <- <- <-; cbn [fst promoted_kv] in *; rewrite R1; apply shape_same.
  - (* TryReserve *) destruct (add64 (len s) n); [|injection H as <- <- <-; apply shape_same].
    destruct (capacity (tb s) <? n0); [|injection H as <- <- <-; apply shape_same].
    pose proof (realloc_same E s n0 o) as (R1 & _). destruct (do_realloc E s n0 o) as [s1 [t| |]]; injection H as <- <- <-; cbn [fst promoted_kv] in *; rewrite R1; apply shape_same.
  - (* ShrinkTo *) unfold do_shrink in H. destruct (N.max (len s) n <? capacity (tb s)); [|injection H as <- <- <-; apply shape_same].
    cbn [shrink_orig fixed] in H. destruct (t_alloc E (N.max (len s) n) (o_alloc o)); try (injection H as <- <- <-; apply shape_same).
    destruct (capacity t <? capacity (tb s)); injection H as <- <- <-; apply shape_same.
  - (* ShrinkToFit *) unfold do_shrink in H. destruct (N.max (len s) 0 <? capacity (tb s)); [|injection H as <- <- <-; apply shape_same].
    cbn [shrink_orig fixed] in H. destruct (t_alloc E (N.max (len s) 0) (o_alloc o)); try (injection H as <- <- <-; apply shape_same).
    destruct (capacity t <? capacity (tb s)); injection H as <- <- <-; apply shape_same.
Qed.

(* the same statement in the property's words: the keys after the step are the surviving old keys in
   their old relative order, followed by the promoted key *)
Theorem step_order_keys s p o s' out evs : Inv s -> wf_op E s p ->
  stepA E VS fixed s p o = Some (s', out, evs) ->
  let pk := promoted s p out in
  let survivors := filter (fun x => memb x (kids (ents s')) && negb (match pk with Some q => x =? q | None => false end)) (kids (ents s)) in
  kids (ents s') = survivors ++ (match pk with Some q => [q] | None => [] end).
Proof.
  intros HI Hwf H. cbv zeta. pose proof HI as (_ & _ & _ & _ & Hnd).
  destruct (step_order_shape s p o s' out evs HI Hwf H) as (S & prom & Hl & Hs & Hp).
  rewrite Hl, kids_app. unfold promoted. destruct (promoted_kv s p out) as [[q w]|]; cbn [option_map fst].
  - destruct Hp as (e & -> & Hk & _ & Hnin). cbn [kids map]. rewrite Hk. f_equal.
    rewrite <- (subl_filter_mem (kids S) (kids (ents s)) Hnd (subl_map _ _ _ Hs)) at 1.
    apply filter_ext_in. intros x Hx. unfold memb. rewrite existsb_app. cbn [existsb]. rewrite orb_false_r.
    destruct (N.eqb_spec x q) as [->|Hne]; cbn [negb]; [|now rewrite orb_false_r, andb_true_r].
    rewrite andb_false_r. apply (memb_notin q (kids S) Hnin).
  - subst prom. cbn [kids map]. rewrite !app_nil_r.
    rewrite <- (subl_filter_mem (kids S) (kids (ents s)) Hnd (subl_map _ _ _ Hs)) at 1.
    apply filter_ext. intros x. now rewrite andb_true_r.
Qed.

(* ---------- the cache as a key -> value map (C04) ---------- *)
Definition lookup (s : cache) (q : N) : option val := option_map ev (find_id q (ents s)).

Lemma find_id_app_l q a b : In q (kids a) -> find_id q (a ++ b) = find_id q a.
Proof.
  induction a as [|e a IH]; [intros []|]. cbn [kids map app find_id]. destruct (N.eqb_spec (kid (ek e)) q); [reflexivity|].
  intros [?|Hin]; [congruence|]. now apply IH.
Qed.
Lemma find_id_app_r q a b : ~ In q (kids a) -> find_id q (a ++ b) = find_id q b.
Proof.
  induction a as [|e a IH]; [reflexivity|]. cbn [kids map app find_id]. intros Hn. destruct (N.eqb_spec (kid (ek e)) q); [exfalso; apply Hn; now left|].
  apply IH. intros Hin. apply Hn. now right.
Qed.
Lemma find_id_notin q l : ~ In q (kids l) -> find_id q l = None.
Proof. induction l as [|e l IH]; [reflexivity|]. cbn [kids map find_id]. intros Hn. destruct (N.eqb_spec (kid (ek e)) q); [exfalso; apply Hn; now left|]. apply IH. intros Hin. apply Hn. now right. Qed.
Lemma find_id_in q l e : find_id q l = Some e -> In e l /\ kid (ek e) = q.
Proof. intros H. destruct (find_id_some _ _ _ H) as (la & lb & -> & _ & Hk & _). split; [apply in_or_app; right; now left|exact Hk]. Qed.

(* in a list with distinct keys, a sublist finds the same entry for every key it still holds *)
Lemma find_id_subl q (S L : list entry) : NoDup (kids L) -> subl S L -> In q (kids S) -> find_id q S = find_id q L.
Proof.
  intros Hnd Hs. induction Hs as [|x S L Hs IH|x S L Hs IH]; intros Hin.
  - destruct Hin.
  - cbn [kids map] in Hnd. apply NoDup_cons_iff in Hnd as [Hx Hnd]. cbn [find_id].
    destruct (N.eqb_spec (kid (ek x)) q) as [Heq|]; [|auto]. exfalso. apply Hx. rewrite Heq. eapply subl_in; [apply subl_map; exact Hs|exact Hin].
  - cbn [kids map] in Hnd, Hin. apply NoDup_cons_iff in Hnd as [Hx Hnd]. cbn [find_id].
    destruct (N.eqb_spec (kid (ek x)) q) as [Heq|Hne]; [reflexivity|]. destruct Hin as [?|Hin]; [congruence|]. auto.
Qed.

(* every step acts on the map exactly as a sequential map would: the promoted/written key carries the
   value the table says; every other key still present has the value it had; nothing else appears *)
Theorem step_map s p o s' out evs : Inv s -> wf_op E s p ->
  stepA E VS fixed s p o = Some (s', out, evs) ->
  forall q, lookup s' q =
    match promoted_kv s p out with
    | Some (k, w) => if q =? k then Some w else if memb q (kids (ents s')) then lookup s q else None
    | None => if memb q (kids (ents s')) then lookup s q else None
    end.
Proof.
  intros HI Hwf H q. pose proof HI as (_ & _ & _ & _ & Hnd).
  destruct (step_order_shape s p o s' out evs HI Hwf H) as (S & prom & Hl & Hs & Hp). unfold lookup. rewrite Hl.
  destruct (promoted_kv s p out) as [[k w]|].
  - destruct Hp as (e & -> & Hk & Hv & Hnin). destruct (N.eqb_spec q k) as [->|Hne].
    + rewrite find_id_app_r by exact Hnin. cbn [find_id]. rewrite Hk, N.eqb_refl. cbn [option_map]. now rewrite Hv.
    + rewrite kids_app. cbn [kids map]. rewrite Hk. unfold memb. rewrite existsb_app. cbn [existsb]. rewrite orb_false_r.
      destruct (N.eqb_spec q k); [congruence|]. rewrite orb_false_r. fold (memb q (kids S)).
      destruct (memb q (kids S)) eqn:Hm.
      * apply memb_in in Hm. rewrite find_id_app_l by exact Hm. now rewrite (find_id_subl q S (ents s) Hnd Hs Hm).
      * assert (Hn : ~ In q (kids S)) by (intros Hin; apply memb_in in Hin; congruence).
        rewrite find_id_app_r by exact Hn. cbn [find_id]. rewrite Hk. destruct (N.eqb_spec k q); [congruence|reflexivity].
  - subst prom. rewrite app_nil_r. destruct (memb q (kids S)) eqn:Hm.
    + apply memb_in in Hm. now rewrite (find_id_subl q S (ents s) Hnd Hs Hm).
    + assert (Hn : ~ In q (kids S)) by (intros Hin; apply memb_in in Hin; congruence). now rewrite find_id_notin.
Qed.
End Params.
