(* C16: at every point where an operation calls back into user code, the state an unwinder would find
   satisfies the accounting invariant (current_size = sum of the recorded sizes, within the limit, one
   entry per key), the tokens the unwinding drops are not held by that state (nothing dropped twice),
   and at closure / predicate points nothing has been lost except what the predicate already rejected. *)
Require Export LruV.A.PanicA LruV.A.OrderA.

Section Params.
Variables (E VS : N).
Hypothesis E_pos : 0 < E.
Hypothesis VS_le_E : VS <= E.

(* what survives a panic: exact accounting of the RECORDED sizes (after a closure ran, a recorded size may lag
   behind the value's new size: the property asks for the sum of the recorded sizes), the bound, distinct keys *)
Definition InvW (s : cache) : Prop :=
  cur s = sum_es (ents s) /\ cur s <= maxs s /\ maxs s < W /\ NoDup (kids (ents s)).

Lemma Inv_InvW s : Inv E s -> InvW s.
Proof. intros (H1 & H2 & H3 & _ & H5). unfold InvW. auto. Qed.

Definition pt_ok (held0 : list N) (pp : ppoint) : Prop :=
  InvW (pst pp) /\ (forall t, In t (all_toks (ents (pst pp))) -> In t held0) /\
  (forall t, In t (pdrop pp) -> ~ In t (all_toks (ents (pst pp)))).

Lemma all_toks_subl (S L : list entry) t : subl S L -> In t (all_toks S) -> In t (all_toks L).
Proof.
  intros Hs. induction Hs as [|x S L _ IH|x S L _ IH]; cbn [all_toks flat_map]; auto.
  - intros H. apply in_or_app. right. auto.
  - intros H. apply in_app_or in H as [H|H]; apply in_or_app; [now left|right; auto].
Qed.
Lemma kids_subl_nodup (S L : list entry) : subl S L -> NoDup (kids L) -> NoDup (kids S).
Proof.
  intros Hs. induction Hs as [|x S L Hs IH|x S L Hs IH]; cbn [kids map]; auto; intros Hnd; apply NoDup_cons_iff in Hnd as [Hx Hnd]; auto.
  constructor; [|auto]. intros Hin. apply Hx. eapply subl_in; [apply subl_map; exact Hs|exact Hin].
Qed.

(* the eviction loop: every intermediate state is a suffix of the list with exact accounting *)
Lemma eject_pts_ok (mk : list entry -> N -> cache) m held0 d :
  (forall l c, ents (mk l c) = l /\ cur (mk l c) = c /\ maxs (mk l c) = m) -> m < W ->
  forall l c target, c = sum_es l -> c <= m -> NoDup (kids l) ->
  (forall t, In t (all_toks l) -> In t held0) -> (forall t, In t d -> ~ In t (all_toks l)) ->
  forall pp, In pp (eject_pts mk l c target d) -> pt_ok held0 pp.
Proof.
  intros Hmk Hm l. induction l as [|e r IH]; intros c target Hc Hle Hnd Hheld Hd pp Hin; cbn [eject_pts] in Hin.
  - destruct (c <=? target); destruct Hin.
  - destruct (c <=? target); [destruct Hin|].
    cbn [lookup_pts app] in Hin. destruct Hin as [<-|[<-|Hin]].
    + destruct (Hmk (e :: r) c) as (H1 & H2 & H3). unfold pt_ok, InvW. cbn [pst pdrop pt]. rewrite H1, H2, H3. repeat split; auto.
    + destruct (Hmk (e :: r) c) as (H1 & H2 & H3). unfold pt_ok, InvW. cbn [pst pdrop pt]. rewrite H1, H2, H3. repeat split; auto.
    + rewrite sum_es_cons in Hc. apply (IH (c - es e) target); auto; try lia.
      * cbn [kids map] in Hnd. now apply NoDup_cons_iff in Hnd as [_ ?].
      * intros t Ht. apply Hheld. cbn [all_toks flat_map]. apply in_or_app. now right.
      * intros t Ht Hi. apply (Hd t Ht). cbn [all_toks flat_map]. apply in_or_app. now right.
Qed.

Lemma rehash_pts_ok held0 s d : InvW s -> (forall t, In t (all_toks (ents s)) -> In t held0) ->
  (forall t, In t d -> ~ In t (all_toks (ents s))) -> forall pp, In pp (rehash_pts s d) -> pt_ok held0 pp.
Proof. intros HI Hh Hd pp Hin. unfold rehash_pts in Hin. apply in_map_iff in Hin as (x & <- & _). unfold pt_ok. cbn. auto. Qed.

Lemma lookup_pts_ok held0 s d : InvW s -> (forall t, In t (all_toks (ents s)) -> In t held0) ->
  (forall t, In t d -> ~ In t (all_toks (ents s))) -> forall pp, In pp (lookup_pts s d) -> pt_ok held0 pp.
Proof. intros HI Hh Hd pp [<-|[<-|[]]]; unfold pt_ok; cbn; auto. Qed.

(* tokens are object identities: those held are pairwise distinct, and those an operation brings in are new *)
Definition toks_ok (s : cache) (p : op) : Prop := NoDup (all_toks (ents s) ++ op_toks p).

Lemma nodup_app_disj {A} (a b : list A) x : NoDup (a ++ b) -> In x b -> ~ In x a.
Proof. intros Hnd Hb Ha. apply in_split in Ha as (a1 & a2 & ->). rewrite <- app_assoc in Hnd. cbn [app] in Hnd. apply NoDup_remove_2 in Hnd. apply Hnd. apply in_or_app. right. apply in_or_app. now right. Qed.

Lemma remove_id_toks q l t : In t (all_toks (remove_id q l)) -> In t (all_toks l).
Proof. apply all_toks_subl, remove_id_subl. Qed.

Lemma suffix_of_eject l c target l1 c1 evd : c = sum_es l -> eject l c target = Some (l1, c1, evd) -> l = evd ++ l1 /\ c1 = sum_es l1 /\ c1 <= c.
Proof.
  intros Hc He. destruct (eject_spec l c target Hc) as (l' & ev' & He' & Hl & _). rewrite He' in He. injection He as <- <- <-.
  split; [exact Hl|]. split; [reflexivity|]. rewrite Hc, Hl, sum_es_app. lia.
Qed.

Lemma find_id_unique q l e x : NoDup (kids l) -> find_id q l = Some e -> In x l -> kid (ek x) = q -> x = e.
Proof.
  intros Hnd Hf Hx Hk. destruct (find_id_some _ _ _ Hf) as (la & lb & -> & _ & Hke & Hn).
  rewrite kids_app in Hnd. cbn [kids map] in Hnd. apply NoDup_app_remove_mid in Hnd as [_ Hnd2]. rewrite Hke in Hnd2.
  apply in_app_or in Hx as [Hx|[<-|Hx]]; [|reflexivity|]; exfalso.
  - apply Hn. rewrite <- Hk. unfold kids. now apply in_map with (f := fun e => kid (ek e)).
  - apply Hnd2. apply in_or_app. right. rewrite <- Hk. unfold kids. now apply in_map with (f := fun e => kid (ek e)).
Qed.

Lemma inplace_same q (v' : val) l :
  (forall x, In x l -> kid (ek x) = q -> vtok (ev x) = vtok v') ->
  let f := fun x => if kid (ek x) =? q then {| ek := ek x; ev := v'; es := es x |} else x in
  sum_es (map f l) = sum_es l /\ kids (map f l) = kids l /\ all_toks (map f l) = all_toks l.
Proof.
  intros H f. induction l as [|x r IH]; [auto|]. destruct IH as (I1 & I2 & I3); [intros y Hy; apply H; now right|].
  cbn [map]. rewrite !sum_es_cons. unfold kids, all_toks in *. cbn [map flat_map]. rewrite I1, I2, I3.
  assert (Hfx : es (f x) = es x /\ kid (ek (f x)) = kid (ek x) /\ toks (f x) = toks x).
  { unfold f. destruct (N.eqb_spec (kid (ek x)) q) as [Hq|]; [|auto]. unfold toks. cbn [es ek ev]. rewrite (H x (or_introl eq_refl) Hq). auto. }
  destruct Hfx as (-> & -> & ->). auto.
Qed.

Theorem panic_points_ok s p o : Inv E s -> wf_op E s p -> toks_ok s p ->
  forall pp, In pp (panic_points E s p o) -> pt_ok (all_toks (ents s)) pp.
Proof.
  intros HI Hwf Htok pp Hin. pose proof (Inv_InvW s HI) as HW. pose proof HI as (Hsum & Hle & Hmax & Hall & Hnd).
  assert (Hself : forall t, In t (all_toks (ents s)) -> In t (all_toks (ents s))) by auto.
  assert (Hnil : forall t, In t (@nil N) -> ~ In t (all_toks (ents s))) by (intros t []).
  destruct p; cbn [panic_points wf_op op_toks] in Hin, Hwf, Htok; try (destruct Hin; fail);
    try (apply (lookup_pts_ok _ s [] HW Hself Hnil pp Hin); fail).
  - (* Insert *)
    unfold insert_pts in Hin.
    assert (Hown : forall t, In t [ktok k; vtok v] -> ~ In t (all_toks (ents s))) by (intros t Ht; eapply nodup_app_disj; eauto).
    apply in_app_or in Hin as [Hin|Hin]; [destruct Hin as [<-|[<-|[]]]; unfold pt_ok; cbn; auto|].
    rewrite (esz_some E VS E_pos VS_le_E k v Hwf) in Hin. set (sz := kheap k + vheap v + E) in *.
    destruct (N.ltb_spec (maxs s) sz); [destruct Hin|].
    apply in_app_or in Hin as [Hin|Hin]; [apply (lookup_pts_ok _ s _ HW Hself Hown pp Hin)|]. cbv zeta in Hin.
    set (old := find_id (kid k) (ents s)) in *. set (l0 := remove_id (kid k) (ents s)) in *.
    set (c0 := cur s - match old with Some e => es e | None => 0 end) in *.
    assert (Hl0 : c0 = sum_es l0 /\ c0 <= cur s /\ (forall e, old = Some e -> ~ In (vtok (ev e)) (all_toks l0))).
    { unfold c0, l0, old. destruct (find_id (kid k) (ents s)) as [e|] eqn:Hf.
      - destruct (find_id_some _ _ _ Hf) as (la & lb & El & Er & _). rewrite Er. rewrite El in Hsum. rewrite sum_es_app, sum_es_cons in Hsum.
        split; [rewrite sum_es_app; lia|]. split; [lia|]. intros e' [= <-].
        apply NoDup_app_l in Htok. rewrite El in Htok. unfold all_toks in *. rewrite flat_map_app in *. cbn [flat_map toks] in Htok.
        intros Hi. apply in_app_or in Hi as [Hi|Hi].
        + apply (nodup_app_disj _ _ (vtok (ev e)) Htok); [cbn; right; now left|exact Hi].
        + apply NoDup_app_r in Htok. cbn [app] in Htok. apply NoDup_cons_iff in Htok as [_ Htok]. apply NoDup_cons_iff in Htok as [Hn _]. tauto.
      - destruct (find_id_none _ _ Hf) as [-> _]. split; [lia|]. split; [lia|]. discriminate. }
    destruct Hl0 as (Hc0 & Hc0le & Hold).
    assert (Hnd0 : NoDup (kids l0)) by (eapply kids_subl_nodup; [apply remove_id_subl|exact Hnd]).
    assert (Hheld0 : forall t, In t (all_toks l0) -> In t (all_toks (ents s))) by (intros t; apply remove_id_toks).
    assert (Hown1 : forall t, In t ([ktok k; vtok v] ++ match old with Some e => [vtok (ev e)] | None => [] end) -> ~ In t (all_toks l0)).
    { intros t Ht Hi. apply in_app_or in Ht as [Ht|Ht]; [apply (Hown t Ht); now apply Hheld0|].
      destruct old as [e|]; [|destruct Ht]. destruct Ht as [<-|[]]. now apply (Hold e eq_refl). }
    apply in_app_or in Hin as [Hin|Hin].
    + eapply (eject_pts_ok (fun l c => set_ents s l c (t_erase (tb s) (o_tomb o))) (maxs s)); [intros ? ?; cbv beta; unfold set_ents; cbn [ents cur maxs]; auto|exact Hmax|exact Hc0|lia|exact Hnd0|exact Hheld0|exact Hown1|exact Hin].
    + destruct (eject l0 c0 (maxs s - sz)) as [[[l1 c1] evd]|] eqn:He; [|destruct Hin].
      destruct (suffix_of_eject _ _ _ _ _ _ Hc0 He) as (Hl & Hc1 & Hc1le).
      destruct (t_insert E (t_erase (tb s) (o_tomb o)) (N.of_nat (length l1)) o) as [[t2 [|]]|]; try (destruct Hin; fail).
      assert (Hsub : subl l1 l0) by (rewrite Hl; apply subl_app_r).
      eapply rehash_pts_ok; [| | |exact Hin].
      * unfold InvW. cbn [ents cur maxs set_ents]. repeat split; auto; [lia|eapply kids_subl_nodup; eauto].
      * cbn [ents set_ents]. intros t Ht. apply Hheld0. eapply all_toks_subl; eauto.
      * cbn [ents set_ents]. intros t Ht Hi. destruct old as [e|]; [|destruct Ht]. destruct Ht as [<-|[]]. apply (Hold e eq_refl). eapply all_toks_subl; eauto.
  - (* TryInsert *)
    unfold try_insert_pts in Hin.
    assert (Hown : forall t, In t [ktok k; vtok v] -> ~ In t (all_toks (ents s))) by (intros t Ht; eapply nodup_app_disj; eauto).
    apply in_app_or in Hin as [Hin|Hin]; [destruct Hin as [<-|[<-|[]]]; unfold pt_ok; cbn; auto|].
    rewrite (esz_some E VS E_pos VS_le_E k v Hwf) in Hin.
    destruct (maxs s <? kheap k + vheap v + E); [destruct Hin|]. destruct (maxs s - cur s <? kheap k + vheap v + E); [destruct Hin|].
    apply in_app_or in Hin as [Hin|Hin]; [apply (lookup_pts_ok _ s _ HW Hself Hown pp Hin)|].
    destruct (find_id (kid k) (ents s)); [destruct Hin|]. destruct (t_insert E (tb s) (len s) o) as [[t2 [|]]|]; try (destruct Hin; fail).
    apply (rehash_pts_ok _ s [] HW Hself Hnil pp Hin).
  - (* RemoveLru *) destruct (ents s) eqn:El; [destruct Hin|]. rewrite <- El in *. apply (lookup_pts_ok _ s [] HW Hself Hnil pp Hin).
  - (* RemoveMru *) destruct (ents s) eqn:El; [destruct Hin|]. rewrite <- El in *. apply (lookup_pts_ok _ s [] HW Hself Hnil pp Hin).
  - (* Mutate *)
    unfold mutate_pts in Hin. apply in_app_or in Hin as [Hin|Hin]; [apply (lookup_pts_ok _ s [] HW Hself Hnil pp Hin)|].
    destruct (find_id q (ents s)) as [e|] eqn:Hf; [|destruct Hin]. cbv zeta in Hin.
    destruct (find_id_some _ _ _ Hf) as (la & lb & El & Er & Hk & Hnq).
    set (v' := {| vtok := vtok (ev e); vtag := newtag; vheap := newheap |}) in *.
    set (inplace := map (fun x => if kid (ek x) =? q then {| ek := ek x; ev := v'; es := es x |} else x) (ents s)) in *.
    assert (Hip : sum_es inplace = sum_es (ents s) /\ kids inplace = kids (ents s) /\ all_toks inplace = all_toks (ents s)).
    { unfold inplace. apply inplace_same. intros x Hx Hkx. pose proof Hnd as Hnd'. rewrite (find_id_unique q (ents s) e x Hnd Hf Hx Hkx). reflexivity. }
    destruct Hip as (Hs1 & Hs2 & Hs3).
    assert (HWm : InvW (set_ents s inplace (cur s) (tb s))) by (unfold InvW; cbn [ents cur maxs set_ents]; rewrite Hs1, Hs2; auto).
    assert (Hheldm : forall t, In t (all_toks (ents (set_ents s inplace (cur s) (tb s)))) -> In t (all_toks (ents s))) by (cbn [ents set_ents]; now rewrite Hs3).
    assert (Hnilm : forall t, In t (@nil N) -> ~ In t (all_toks (ents (set_ents s inplace (cur s) (tb s))))) by (intros t []).
    cbn [app] in Hin. destruct Hin as [<-|[<-|[<-|Hin]]]; try (unfold pt_ok; cbn [pst pdrop pt]; auto; fail).
    destruct (vheap (ev e) <? newheap); [|destruct Hin].
    destruct (maxs s <? es e + (newheap - vheap (ev e))); [apply (lookup_pts_ok _ _ [] HWm Hheldm Hnilm pp Hin)|].
    rewrite Er in Hin. set (e0 := {| ek := ek e; ev := v'; es := es e |}) in *.
    rewrite El in Hsum, Hnd. rewrite sum_es_app, sum_es_cons in Hsum. rewrite kids_app in Hnd. cbn [kids map] in Hnd.
    eapply (eject_pts_ok (fun l c => set_ents s l c (tb s)) (maxs s) (all_toks (ents s)) []); [intros ? ?; cbv beta; unfold set_ents; cbn [ents cur maxs]; auto|exact Hmax| | | | |intros t []|exact Hin].
    + rewrite !sum_es_app, sum_es_cons, sum_es_nil. cbn [es e0]. lia.
    + exact Hle.
    + rewrite !kids_app. cbn [kids map ek e0]. apply NoDup_app_remove_mid in Hnd as [Hnd1 Hnd2]. apply NoDup_snoc; rewrite <- kids_app in *; auto.
    + intros t Ht. rewrite El. unfold all_toks in *. rewrite !flat_map_app in *. cbn [flat_map toks ek ev vtok e0 v'] in *.
      apply in_app_or in Ht as [Ht|Ht]; [apply in_app_or in Ht as [Ht|Ht]; apply in_or_app; [now left|right; apply in_or_app; now right]|].
      apply in_or_app. right. apply in_or_app. left. rewrite app_nil_r in Ht. exact Ht.
  - (* SetMaxSize *)
    unfold set_max_pts in Hin. eapply (eject_pts_ok (fun l c => set_ents s l c (tb s)) (maxs s) (all_toks (ents s)) []); [intros ? ?; cbv beta; unfold set_ents; cbn [ents cur maxs]; auto|exact Hmax|exact Hsum|exact Hle|exact Hnd|auto|intros t []|exact Hin].
  - (* Retain *)
    assert (G : forall todo done c, ents s = ents s -> c = sum_es (done ++ todo) -> c <= maxs s -> NoDup (kids (done ++ todo)) ->
                (forall t, In t (all_toks (done ++ todo)) -> In t (all_toks (ents s))) ->
                forall pp, In pp (retain_pts s keep o done todo c) -> pt_ok (all_toks (ents s)) pp).
    { clear Hin pp. induction todo as [|e r IH]; intros done c _ Hc Hcle Hndd Hh pp Hin; cbn [retain_pts] in Hin; [destruct Hin|].
      assert (HWh : InvW (set_ents s (done ++ e :: r) c (tb s))) by (unfold InvW; cbn [ents cur maxs set_ents]; auto).
      destruct Hin as [<-|Hin]; [unfold pt_ok; cbn [pst pdrop pt ents set_ents]; split; [exact HWh|split; [exact Hh|intros t []]]|].
      destruct (keep (ek e) (ev e)).
      - apply (IH (done ++ [e]) c eq_refl); rewrite <- ?app_assoc; auto.
      - apply in_app_or in Hin as [Hin|Hin].
        + apply (lookup_pts_ok _ _ [] HWh); auto; intros t [].
        + rewrite sum_es_app, sum_es_cons in Hc. apply (IH done (c - es e) eq_refl); auto.
          * rewrite sum_es_app. lia.
          * lia.
          * rewrite kids_app in *. cbn [kids map] in Hndd. eapply NoDup_remove_1; eauto.
          * intros t Ht. apply Hh. unfold all_toks in *. rewrite flat_map_app in *. cbn [flat_map]. apply in_app_or in Ht as [?|?]; apply in_or_app; [now left|right; apply in_or_app; now right]. }
    apply (G (ents s) [] (cur s) eq_refl); auto.
  - (* Reserve *) destruct (add64 (len s) n); [|destruct Hin]. destruct (capacity (tb s) <? n0); [|destruct Hin].
    unfold realloc_pts in Hin. destruct (t_alloc E n0 (o_alloc o)); try (destruct Hin; fail). apply (rehash_pts_ok _ s [] HW Hself Hnil pp Hin).
  - (* TryReserve *) destruct (add64 (len s) n); [|destruct Hin]. destruct (capacity (tb s) <? n0); [|destruct Hin].
    unfold realloc_pts in Hin. destruct (t_alloc E n0 (o_alloc o)); try (destruct Hin; fail). apply (rehash_pts_ok _ s [] HW Hself Hnil pp Hin).
  - (* ShrinkTo *) cbv zeta in Hin. destruct (N.max (len s) n <? capacity (tb s)); [|destruct Hin].
    destruct (t_alloc E (N.max (len s) n) (o_alloc o)); try (destruct Hin; fail). destruct (capacity t <? capacity (tb s)); [|destruct Hin].
    apply (rehash_pts_ok _ s [] HW Hself Hnil pp Hin).
  - (* ShrinkToFit *) cbv zeta in Hin. destruct (len s <? capacity (tb s)); [|destruct Hin].
    destruct (t_alloc E (len s) (o_alloc o)); try (destruct Hin; fail). destruct (capacity t <? capacity (tb s)); [|destruct Hin].
    apply (rehash_pts_ok _ s [] HW Hself Hnil pp Hin).
Qed.

(* closure and predicate points: nothing has been lost except what the predicate already rejected *)
Theorem closure_point_state s q nt nh o pp : In pp (mutate_pts s q nt nh o) -> pk pp = KClosure -> pst pp = s.
Proof.
  unfold mutate_pts. intros Hin Hk. apply in_app_or in Hin as [Hin|Hin]; [destruct Hin as [<-|[<-|[]]]; discriminate|].
  destruct (find_id q (ents s)) as [e|]; [|destruct Hin]. cbv zeta in Hin. cbn [app] in Hin.
  destruct Hin as [<-|[<-|[<-|Hin]]]; try discriminate; [reflexivity|].
  exfalso. destruct (vheap (ev e) <? nh); [|destruct Hin].
  destruct (maxs s <? es e + (nh - vheap (ev e))).
  - destruct Hin as [<-|[<-|[]]]; discriminate.
  - revert Hin Hk. generalize (cur s). generalize (remove_id q (ents s) ++ [{| ek := ek e; ev := {| vtok := vtok (ev e); vtag := nt; vheap := nh |}; es := es e |}]).
    intros l. induction l as [|x r IH]; intros c Hin Hk; cbn [eject_pts] in Hin; destruct (c <=? maxs s - (nh - vheap (ev e))); try (destruct Hin; fail).
    cbn [lookup_pts app] in Hin. destruct Hin as [<-|[<-|Hin]]; try discriminate. eapply IH; eauto.
Qed.

Theorem pred_point_state s keep o : forall todo done c pp, In pp (retain_pts s keep o done todo c) -> pk pp = KPred ->
  exists visited unvisited, todo = visited ++ unvisited /\ ents (pst pp) = done ++ filter (fun e => keep (ek e) (ev e)) visited ++ unvisited.
Proof.
  induction todo as [|e r IH]; intros done c pp Hin Hk; cbn [retain_pts] in Hin; [destruct Hin|].
  destruct Hin as [<-|Hin]; [exists [], (e :: r); cbn; auto|].
  destruct (keep (ek e) (ev e)) eqn:Hke.
  - destruct (IH (done ++ [e]) c pp Hin Hk) as (vi & un & -> & Hen). exists (e :: vi), un. split; [reflexivity|]. cbn [filter]. rewrite Hke, Hen, <- app_assoc. reflexivity.
  - apply in_app_or in Hin as [Hin|Hin]; [destruct Hin as [<-|[<-|[]]]; discriminate|].
    destruct (IH done (c - es e) pp Hin Hk) as (vi & un & -> & Hen). exists (e :: vi), un. split; [reflexivity|]. cbn [filter]. now rewrite Hke.
Qed.

(* clone: the source is what every callback of a clone sees, and it is never changed *)
Theorem clone_points_source s pp : In pp (clone_pts s) -> pst pp = s /\ pdrop pp = [].
Proof. unfold clone_pts. intros Hin. apply in_flat_map in Hin as (x & _ & [<-|[<-|[<-|[]]]]); auto. Qed.

(* the number of hash points is the hashing cost of the model (C20 speaks about the same artefact) *)
Definition n_hash (l : list ppoint) : N := N.of_nat (length (filter (fun pp => match pk pp with KHash => true | _ => false end) l)).
End Params.
