(* Panic points (C16): for every operation, the list of points at which the implementation calls back
   into user code — Hash, Eq, size estimation (HeapSize), the mutate closure, the retain predicate,
   Clone — each with the state of the cache an unwinder would find if that call panicked, and the tokens
   that the unwinding itself drops (locals owning a key or value). Entries held in an `Entry`
   (MaybeUninit) local at that moment are leaked, which the property allows.
   The order of the list is the order of the calls. A point of kind KEq stands for "zero or more
   comparisons happen here" (how many candidates hashbrown compares depends on the hash function).
   Definitions only; the theorems are in A/PanicProps.v. This follows the repaired code (hashes are
   computed before any entry is moved during reallocation). *)
Require Export LruV.A.ModelA.

Inductive pkind := KSize | KHash | KEq | KClosure | KPred | KClone.
Record ppoint := { pk : pkind; pst : cache; pdrop : list N }.
Definition pt (k : pkind) (s : cache) (d : list N) : ppoint := {| pk := k; pst := s; pdrop := d |}.

Section Params.
Variables (E VS : N).

(* a lookup by key: one hash, then comparisons, all on an unchanged state *)
Definition lookup_pts (s : cache) (d : list N) : list ppoint := [pt KHash s d; pt KEq s d].

(* the eviction loop: before each removal the victim's key is hashed and compared (remove_ptr) *)
Fixpoint eject_pts (mk : list entry -> N -> cache) (l : list entry) (c target : N) (d : list N) : list ppoint :=
  if c <=? target then [] else
  match l with
  | [] => []
  | e :: r => lookup_pts (mk l c) d ++ eject_pts mk r (c - es e) target d
  end.

(* move_to_table: every held entry is hashed once, before anything is moved *)
Definition rehash_pts (s : cache) (d : list N) : list ppoint := map (fun _ => pt KHash s d) (ents s).

Definition insert_pts (s : cache) (k : key) (v : val) (o : oracle) : list ppoint :=
  let own := [ktok k; vtok v] in
  [pt KSize s own; pt KSize s own] ++
  match esz E k v with
  | None => []
  | Some sz =>
    if maxs s <? sz then [] else
    lookup_pts s own ++
    let old := find_id (kid k) (ents s) in
    let l0 := remove_id (kid k) (ents s) in
    let c0 := cur s - match old with Some e => es e | None => 0 end in
    let own1 := own ++ match old with Some e => [vtok (ev e)] | None => [] end in     (* `result` holds the old value *)
    let t1 := t_erase (tb s) (o_tomb o) in
    let mk := fun l c => set_ents s l c t1 in
    eject_pts mk l0 c0 (maxs s - sz) own1 ++
    match eject l0 c0 (maxs s - sz) with
    | None => []
    | Some (l1, c1, _) =>
      match t_insert E t1 (N.of_nat (length l1)) o with
      | Some (_, true) => rehash_pts (mk l1 c1) (match old with Some e => [vtok (ev e)] | None => [] end)   (* the new Entry is leaked *)
      | _ => []
      end
    end
  end.

Definition try_insert_pts (s : cache) (k : key) (v : val) (o : oracle) : list ppoint :=
  let own := [ktok k; vtok v] in
  [pt KSize s own; pt KSize s own] ++
  match esz E k v with
  | None => []
  | Some sz =>
    if maxs s <? sz then [] else
    if maxs s - cur s <? sz then [] else
    lookup_pts s own ++
    match find_id (kid k) (ents s) with
    | Some _ => []
    | None => match t_insert E (tb s) (len s) o with
              | Some (_, true) => rehash_pts s []
              | _ => []
              end
    end
  end.

Definition mutate_pts (s : cache) (q nt nh : N) (o : oracle) : list ppoint :=
  lookup_pts s [] ++
  match find_id q (ents s) with
  | None => []
  | Some e =>
    let v' := {| vtok := vtok (ev e); vtag := nt; vheap := nh |} in
    let l0 := remove_id q (ents s) in
    (* the value is mutated in place: same recorded size, same position, until the bookkeeping runs *)
    let inplace := map (fun x => if kid (ek x) =? q then {| ek := ek x; ev := v'; es := es x |} else x) (ents s) in
    let sm := set_ents s inplace (cur s) (tb s) in
    [pt KSize s []; pt KClosure s []; pt KSize sm []] ++
    if vheap (ev e) <? nh then
      let diff := nh - vheap (ev e) in
      if maxs s <? es e + diff then lookup_pts sm []                       (* remove_entry(key) *)
      else
        let e0 := {| ek := ek e; ev := v'; es := es e |} in
        eject_pts (fun l c => set_ents s l c (tb s)) (l0 ++ [e0]) (cur s) (maxs s - diff) []
    else []
  end.

(* retain: the predicate sees the state after the removals decided so far; a rejected entry is then looked up by key *)
Fixpoint retain_pts (s : cache) (keep : key -> val -> bool) (o : oracle) (done todo : list entry) (c : N) : list ppoint :=
  match todo with
  | [] => []
  | e :: r =>
    let here := set_ents s (done ++ todo) c (tb s) in
    pt KPred here [] ::
    if keep (ek e) (ev e) then retain_pts s keep o (done ++ [e]) r c
    else lookup_pts here [] ++ retain_pts s keep o done r (c - es e)
  end.

Definition set_max_pts (s : cache) (n : N) : list ppoint :=
  eject_pts (fun l c => set_ents s l c (tb s)) (ents s) (cur s) n [].

Definition realloc_pts (s : cache) (want : N) (o : oracle) : list ppoint :=
  match t_alloc E want (o_alloc o) with AOk _ => rehash_pts s [] | _ => [] end.

Definition panic_points (s : cache) (p : op) (o : oracle) : list ppoint :=
  match p with
  | Insert k v => insert_pts s k v o
  | TryInsert k v => try_insert_pts s k v o
  | Get _ | GetEntry _ | Peek _ | PeekEntry _ | Contains _ | Touch _ | Remove _ | RemoveEntry _ => lookup_pts s []
  | RemoveLru | RemoveMru => match ents s with [] => [] | _ => lookup_pts s [] end
  | Mutate q nt nh => mutate_pts s q nt nh o
  | SetMaxSize n => set_max_pts s n
  | Retain keep => retain_pts s keep o [] (ents s) (cur s)
  | Reserve n | TryReserve n =>
      match add64 (len s) n with
      | Some want => if capacity (tb s) <? want then realloc_pts s want o else []
      | None => []
      end
  | ShrinkTo n =>
      let want := N.max (len s) n in
      if want <? capacity (tb s) then
        match t_alloc E want (o_alloc o) with AOk t' => if capacity t' <? capacity (tb s) then rehash_pts s [] else [] | _ => [] end
      else []
  | ShrinkToFit =>
      let want := len s in
      if want <? capacity (tb s) then
        match t_alloc E want (o_alloc o) with AOk t' => if capacity t' <? capacity (tb s) then rehash_pts s [] else [] | _ => [] end
      else []
  | _ => []
  end.

(* clone never touches the source: every callback (clone of key, clone of value, hash of the copy) sees the
   source as it was; the partially built copy is a separate value that the unwinding drops *)
Definition clone_pts (s : cache) : list ppoint :=
  flat_map (fun _ => [pt KClone s []; pt KClone s []; pt KHash s []]) (ents s).
End Params.
