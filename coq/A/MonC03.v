(* The C03 monitor (A/MonitorsA.v: eviction is minimal in the true sizes of the entries) holds for every step of
   the model from a state satisfying the invariant: a monitor that fires on an observed step of the
   implementation reports a behaviour no execution of the model has. *)
Require Import LruV.A.MonitorsA LruV.A.HistoryA.

Section Params.
Variables (E VS : N).
Hypothesis E_pos : 0 < E.
Hypothesis VS_le_E : VS <= E.
Notation Inv := (Inv E).

Lemma existsb_memb x l : existsb (N.eqb x) l = memb x l.
Proof. reflexivity. Qed.

(* the entries whose key is not in K are exactly the sublist S, when S holds exactly those keys *)
Lemma gone_eq (K : list N) : forall (S L : list entry), subl S L -> NoDup (kids L) ->
  (forall e, In e L -> (memb (kid (ek e)) K = false <-> In (kid (ek e)) (kids S))) ->
  filter (fun e => negb (memb (kid (ek e)) K)) L = S.
Proof.
  induction 1 as [|x S L Hs IH|x S L Hs IH]; intros Hnd Hiff; [reflexivity| |]; rewrite kids_cons in Hnd; apply NoDup_cons_iff in Hnd as [Hx Hnd]; cbn [filter].
  - assert (Hm : memb (kid (ek x)) K = true).
    { destruct (memb (kid (ek x)) K) eqn:Hm; [reflexivity|]. exfalso. apply Hx. apply (proj1 (Hiff x (or_introl eq_refl))) in Hm.
      eapply subl_in; [apply (subl_map (fun e => kid (ek e))); exact Hs|exact Hm]. }
    rewrite Hm. cbn [negb]. apply IH; [exact Hnd|]. intros e He. apply Hiff. now right.
  - assert (Hm : memb (kid (ek x)) K = false) by (apply Hiff; [now left|rewrite kids_cons; now left]).
    rewrite Hm. cbn [negb]. f_equal. apply IH; [exact Hnd|]. intros e He. rewrite (Hiff e (or_intror He)). rewrite kids_cons. cbn [In].
    split; [intros [Heq|H]; [exfalso; apply Hx; rewrite Heq; unfold kids; exact (in_map (fun e => kid (ek e)) _ _ He)|exact H]|auto].
Qed.

Lemma c03_gone_eq pre post S : subl S (ents pre) -> NoDup (kids (ents pre)) ->
  (forall q, In q (kids (ents pre)) -> (memb q (kids (ents post)) = false <-> In q (kids S))) ->
  c03_gone pre post = S.
Proof.
  intros Hs Hnd Hiff. unfold c03_gone. apply (gone_eq (kids (ents post)) S (ents pre) Hs Hnd).
  intros e He. apply Hiff. unfold kids. exact (in_map (fun e => kid (ek e)) _ _ He).
Qed.

Lemma memb_false_iff q l : memb q l = false <-> ~ In q l.
Proof. split; [intros H Hin; apply memb_in in Hin; congruence|apply memb_notin]. Qed.

Lemma sum_true_es l : Forall (fun e => es e = true_size E e) l -> sumN (map (true_size E) l) = sum_es l.
Proof. induction 1 as [|e l He _ IH]; [reflexivity|]. rewrite sum_es_cons, <- IH, He. reflexivity. Qed.

(* what the monitor checks, from a minimal prefix *)
Lemma minimal_last (l0 evd rest : list entry) tgt : minimal_prefix l0 evd rest tgt ->
  match rev evd with [] => True | e :: _ => tgt < es e + sum_es rest end.
Proof.
  intros (Hl & _ & Hmin & _). destruct (rev evd) as [|e r] eqn:Hr; [exact I|].
  assert (He : evd = rev r ++ [e]) by (rewrite <- (rev_involutive evd), Hr; reflexivity).
  specialize (Hmin _ _ He). rewrite Hl, He, !sum_es_app, sum_es_cons in Hmin. change (sum_es []) with 0 in Hmin. lia.
Qed.

Lemma c03_none (s s' : cache) : NoDup (kids (ents s)) -> (forall q, In q (kids (ents s)) -> In q (kids (ents s'))) -> c03_gone s s' = [].
Proof.
  intros Hnd Hall. apply c03_gone_eq; [apply subl_nil_l|exact Hnd|]. intros q Hq. split; [|intros []].
  intros Hm. apply memb_false_iff in Hm. exact (Hm (Hall q Hq)).
Qed.

Lemma forall_subl {A} (P : A -> Prop) (S L : list A) : subl S L -> Forall P L -> Forall P S.
Proof. intros Hs HL. apply Forall_forall. intros x Hx. exact (proj1 (Forall_forall _ _) HL x (subl_in _ _ _ Hs Hx)). Qed.

(* the common part: the entries that left are the minimal prefix, and its last entry could not have stayed *)
Lemma c03_core (s s' : cache) l0 evd rest tgt tail : Inv s -> minimal_prefix l0 evd rest tgt -> subl l0 (ents s) ->
  ents s' = rest ++ tail ->
  (forall q, In q (kids (ents s)) -> (In q (kids l0) <-> ~ In q (kids tail))) ->
  maxs s' <= tgt + sumN (map (true_size E) tail) ->
  match rev (c03_gone s s') with [] => true | e :: _ => maxs s' <? sumN (map (true_size E) (ents s')) + true_size E e end = true.
Proof.
  intros (_ & _ & _ & Hall & Hnd) Hmp Hs0 Hents Htail Hmax. pose proof Hmp as (Hl & _).
  assert (Hnd0 : NoDup (kids l0)) by (eapply nodup_subl_kids; eauto).
  assert (Hse : subl evd (ents s)) by (eapply subl_trans; [|exact Hs0]; rewrite Hl; apply subl_app_l).
  assert (Hsr : subl rest (ents s)) by (eapply subl_trans; [|exact Hs0]; rewrite Hl; apply subl_app_r).
  assert (Hg : c03_gone s s' = evd).
  { apply c03_gone_eq; [exact Hse|exact Hnd|]. intros q Hq. rewrite Hents, kids_app, memb_false_iff.
    destruct (in_dec N.eq_dec q (kids l0)) as [Hin0|Hnin0].
    - pose proof (proj1 (Htail q Hq) Hin0) as Hnt. pose proof (evict_keys l0 evd rest tgt q Hnd0 Hmp Hin0) as Hek. split.
      + intros Hn. destruct (memb q (kids evd)) eqn:Hm; [now apply memb_in|]. exfalso. apply Hn, in_or_app. left. now apply Hek.
      + intros He Hn. apply in_app_or in Hn as [Hn|Hn]; [|tauto]. apply Hek in Hn. apply memb_in in He. congruence.
    - split.
      + intros Hn. exfalso. apply Hn, in_or_app. right. destruct (in_dec N.eq_dec q (kids tail)) as [H|H]; [exact H|]. exfalso. apply Hnin0. now apply Htail.
      + intros He. exfalso. apply Hnin0. rewrite Hl, kids_app. apply in_or_app. now left. }
  rewrite Hg. pose proof (minimal_last l0 evd rest tgt Hmp) as Hlast. destruct (rev evd) as [|e r] eqn:Hr; [reflexivity|].
  apply N.ltb_lt. rewrite Hents, map_app, sumN_app, (sum_true_es rest (forall_subl _ _ _ Hsr Hall)).
  assert (He : es e = true_size E e).
  { assert (Hin : In e evd) by (apply in_rev; rewrite Hr; now left). exact (proj1 (Forall_forall _ _) Hall e (subl_in _ _ _ Hse Hin)). }
  rewrite <- He. lia.
Qed.

Theorem c03_mon_sound s p o s' out evs : Inv s -> wf_op E s p -> stepA E VS fixed s p o = Some (s', out, evs) -> c03_mon E s p s' = true.
Proof.
  intros HI Hwf H. pose proof HI as (_ & _ & _ & _ & Hnd).
  destruct p as [k v|k v|k|k|k|k|k|k| | | |k|k| | |k nt nh|n|keep| |pat|pat f|n|n|n| | | | | | |]; try reflexivity; unfold c03_mon.
  - (* Insert *) cbn [wf_op] in Hwf. cbn [stepA] in H.
    destruct (insert_spec E VS E_pos VS_le_E s k v o _ HI Hwf H) as [[_ Hr]|(Hfit & evd & rest & t2 & rb & Hmp & _ & _ & Hr)]; injection Hr as -> -> ->.
    + rewrite (c03_none s s Hnd (fun q Hq => Hq)). reflexivity.
    + eapply (c03_core s _ (remove_id (kid k) (ents s)) evd rest _ [mk_entry k v (kheap k + vheap v + E)] HI Hmp (remove_id_subl _ _)); [reflexivity| |].
      * intros q Hq. rewrite (kids_remove_id (kid k) q _ Hnd). cbn [kids map mk_entry ek In]. split; [intros [_ Hne] [Heq|[]]; congruence|intros Hn; split; [exact Hq|intros ->; apply Hn; now left]].
      * cbn [maxs set_ents map sumN fold_right]. unfold true_size, mk_entry. cbn [ek ev]. lia.
  - (* Mutate *) cbn [stepA] in H. pose proof (mutate_spec E VS E_pos VS_le_E s k nt nh o _ HI Hwf H) as Hs.
    destruct (find_id k (ents s)) as [e|] eqn:Hf; [|injection Hs as -> -> ->; rewrite (c03_none s s Hnd (fun q Hq => Hq)); now destruct (existsb _ _)].
    cbv zeta in Hs. destruct (find_id_in _ _ _ Hf) as [_ Hk].
    destruct Hs as (_ & _ & _ & [(_ & _ & Hr)|[(_ & Hfit & evd & rest & Hmp & Hr)|(_ & Hr)]]); injection Hr as -> -> ->.
    + (* handed back: the entry is gone, nothing was evicted *) cbn [ents set_ents]. fold (kids (remove_id k (ents s))). rewrite existsb_memb.
      rewrite (memb_notin _ _ (notin_remove_id k (ents s) Hnd)). reflexivity.
    + destruct (existsb _ _); [|reflexivity].
      eapply (c03_core s _ (remove_id k (ents s)) evd rest _ [mk_entry (ek e) (mutated e nt nh) (kheap (ek e) + nh + E)] HI Hmp (remove_id_subl _ _)); [reflexivity| |].
      * intros q Hq. rewrite (kids_remove_id k q _ Hnd). cbn [kids map mk_entry ek In]. rewrite Hk. split; [intros [_ Hne] [Heq|[]]; congruence|intros Hn; split; [exact Hq|intros ->; apply Hn; now left]].
      * cbn [maxs set_ents map sumN fold_right]. unfold true_size, mutated, mk_entry. cbn [ek ev vheap]. lia.
    + destruct (existsb _ _); [|reflexivity]. rewrite c03_none; [reflexivity|exact Hnd|].
      intros q Hq. cbn [ents set_ents]. rewrite kids_app. apply in_or_app. destruct (N.eq_dec q k) as [->|Hne]; [right; cbn [kids map mk_entry ek]; left; exact Hk|left; apply kids_remove_id; auto].
  - (* SetMaxSize *) destruct (set_max_spec E VS E_pos VS_le_E s n o _ HI H) as (evd & rest & Hmp & Hr). injection Hr as -> -> ->.
    apply (c03_core s _ (ents s) evd rest n [] HI Hmp (subl_refl _)); [cbn [ents]; now rewrite app_nil_r| |cbn [maxs map sumN fold_right]; lia].
    intros q Hq. cbn [kids map In]. tauto.
Qed.
End Params.
