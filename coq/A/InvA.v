(* The accounting invariant of Layer A, its preservation by every operation (for every table
   oracle), and arithmetic safety: on the repaired code no reachable step under/overflows a
   64-bit counter or spins in the eviction loop.  C01, C02. *)
Require Export LruV.A.EvictA LruV.A.MonitorsA.

Section Params.
Variables (E VS : N).
Hypothesis E_pos : 0 < E.
Hypothesis VS_le_E : VS <= E.      (* size_of::<V>() <= size_of::<Entry<K,V>>() : the entry contains the value *)

Notation tsz := (true_size E).

Definition Inv (s : cache) : Prop :=
  cur s = sum_es (ents s) /\ cur s <= maxs s /\ maxs s < W /\
  Forall (fun e => es e = tsz e) (ents s) /\ NoDup (kids (ents s)).

(* the pairs an operation presents must have a representable entry_size (DESIGN.md 9.2) *)
Definition wf_op (s : cache) (p : op) : Prop :=
  match p with
  | Insert k v | TryInsert k v => kheap k + vheap v + E < W
  | Mutate q _ nh => match find_id q (ents s) with Some e => kheap (ek e) + nh + E < W | None => True end
  | SetMaxSize n => n < W
  | _ => True
  end.

Lemma esz_some k v : kheap k + vheap v + E < W -> esz E k v = Some (kheap k + vheap v + E).
Proof. intros H. unfold esz. rewrite add64_some by lia. cbn [bind]. now rewrite add64_some. Qed.

Lemma Inv_intro l c m t : c = sum_es l -> c <= m -> m < W -> Forall (fun e => es e = tsz e) l -> NoDup (kids l) ->
  Inv {| ents := l; cur := c; maxs := m; tb := t |}.
Proof. intros. unfold Inv; cbn [ents cur maxs]. auto. Qed.

Lemma Forall_es_le l e : In e l -> es e <= sum_es l.
Proof. induction l as [|x r IH]; [intros []|]. intros [->|H]; rewrite sum_es_cons; [lia|]. specialize (IH H). lia. Qed.

Lemma kids_sub_ev (ev l' : list entry) q : ~ In q (kids (ev ++ l')) -> ~ In q (kids l').
Proof. rewrite kids_app. intros H Hin. apply H. apply in_or_app. now right. Qed.

(* ---------- insert ---------- *)
Lemma insert_inv s k v o r : Inv s -> kheap k + vheap v + E < W -> do_insert E s k v o = Some r ->
  Inv (fst (fst r)).
Proof.
  intros (Hsum & Hle & Hmax & Hall & Hnd) Hwf H. unfold do_insert in H. rewrite esz_some in H by exact Hwf. cbn [bind] in H. cbv zeta in H.
  set (sz := kheap k + vheap v + E) in *.
  destruct (N.ltb_spec (maxs s) sz) as [Hbig|Hfit].
  - injection H as <-. cbn. unfold Inv. auto.
  - apply bind_some in H as (c0 & Hc0 & H). apply bind_some in H as (tgt & Htgt & H).
    apply bind_some in H as (x & Hx & H). destruct x as [[l1 c1] evd].
    apply bind_some in H as ([t2 rebuilt] & _ & H). apply bind_some in H as (c2 & Hc2 & H). injection H as <-. cbn [fst].
    apply sub64_inv in Htgt as [-> _]. apply add64_inv in Hc2 as [-> Hlt].
    assert (Hrem : c0 = sum_es (remove_id (kid k) (ents s)) /\ Forall (fun e => es e = tsz e) (remove_id (kid k) (ents s))
                   /\ NoDup (kids (remove_id (kid k) (ents s))) /\ ~ In (kid k) (kids (remove_id (kid k) (ents s)))).
    { destruct (find_id (kid k) (ents s)) as [e|] eqn:Hf.
      - destruct (find_id_some _ _ _ Hf) as (la & lb & El & Er & Hk & Hn). rewrite Er. apply sub64_inv in Hc0 as [-> _].
        rewrite El in Hsum, Hall, Hnd. rewrite sum_es_app, sum_es_cons in Hsum. rewrite kids_app in Hnd. cbn [kids map] in Hnd.
        apply NoDup_app_remove_mid in Hnd as [Hnd1 Hnd2]. rewrite Hk in Hnd2.
        repeat split.
        + rewrite sum_es_app. lia.
        + apply Forall_app in Hall as [Ha Hb]. apply Forall_app. split; [exact Ha|]. now inversion Hb.
        + now rewrite kids_app.
        + now rewrite kids_app.
      - destruct (find_id_none _ _ Hf) as [-> Hn]. injection Hc0 as <-. auto. }
    destruct Hrem as (Hc0' & Hall0 & Hnd0 & Hnin0).
    destruct (eject_spec (remove_id (kid k) (ents s)) c0 (maxs s - sz) Hc0') as (l' & ev & He & Hl & Hs & _).
    rewrite He in Hx. injection Hx as <- <- <-.
    apply Inv_intro.
    + rewrite sum_es_app, sum_es_cons, sum_es_nil. cbn [es]. lia.
    + lia.
    + exact Hmax.
    + rewrite Hl in Hall0. apply Forall_app in Hall0 as [_ Hl']. apply Forall_app. split; [exact Hl'|].
      constructor; [|constructor]. reflexivity.
    + rewrite kids_app. cbn [kids map ek kid]. rewrite Hl in Hnd0, Hnin0. rewrite kids_app in Hnd0.
      apply NoDup_snoc; [now apply NoDup_app_r in Hnd0|]. now apply kids_sub_ev in Hnin0.
Qed.

Lemma insert_arith s k v o : Inv s -> kheap k + vheap v + E < W -> do_insert E s k v o = None ->
  exists t n, t_insert E t n o = None.
Proof.
  intros (Hsum & Hle & Hmax & Hall & Hnd) Hwf H. unfold do_insert in H. rewrite esz_some in H by exact Hwf. cbn [bind] in H. cbv zeta in H.
  set (sz := kheap k + vheap v + E) in *.
  destruct (N.ltb_spec (maxs s) sz) as [Hbig|Hfit]; [discriminate|].
  assert (Hrem : exists c0, match find_id (kid k) (ents s) with Some e => sub64 (cur s) (es e) | None => Some (cur s) end = Some c0
                   /\ c0 = sum_es (remove_id (kid k) (ents s)) /\ c0 <= cur s).
  { destruct (find_id (kid k) (ents s)) as [e|] eqn:Hf.
    - destruct (find_id_some _ _ _ Hf) as (la & lb & El & Er & Hk & Hn). rewrite Er.
      rewrite El in Hsum. rewrite sum_es_app, sum_es_cons in Hsum. exists (cur s - es e). rewrite sub64_some by lia.
      repeat split; [|lia]. rewrite sum_es_app. lia.
    - destruct (find_id_none _ _ Hf) as [-> Hn]. exists (cur s). repeat split; [exact Hsum|lia]. }
  destruct Hrem as (c0 & Hm & Hc0 & Hc0le). rewrite Hm in H. cbn [bind] in H. rewrite sub64_some in H by lia. cbn [bind] in H.
  destruct (eject_spec (remove_id (kid k) (ents s)) c0 (maxs s - sz) Hc0) as (l' & ev & He & Hl & Hs & _).
  rewrite He in H. cbn [bind] in H.
  destruct (t_insert E (t_erase (tb s) (o_tomb o)) (N.of_nat (length l')) o) as [[t2 rb]|] eqn:Ht; [|eauto].
  cbn [bind] in H. rewrite add64_some in H by lia. discriminate.
Qed.

(* ---------- try_insert ---------- *)
Lemma try_insert_inv s k v o r : Inv s -> kheap k + vheap v + E < W -> do_try_insert E s k v o = Some r -> Inv (fst (fst r)).
Proof.
  intros (Hsum & Hle & Hmax & Hall & Hnd) Hwf H. unfold do_try_insert in H. rewrite esz_some in H by exact Hwf. cbn [bind] in H.
  set (sz := kheap k + vheap v + E) in *.
  destruct (N.ltb_spec (maxs s) sz) as [Hbig|Hfit]; [injection H as <-; cbn; unfold Inv; auto|].
  rewrite sub64_some in H by lia. cbn [bind] in H.
  destruct (N.ltb_spec (maxs s - cur s) sz) as [Hbig|Hfit2]; [injection H as <-; cbn; unfold Inv; auto|].
  destruct (find_id (kid k) (ents s)) as [e|] eqn:Hf; [injection H as <-; cbn; unfold Inv; auto|].
  apply bind_some in H as ([t2 rb] & _ & H). apply bind_some in H as (c2 & Hc2 & H). injection H as <-. cbn [fst].
  apply add64_inv in Hc2 as [-> Hlt]. destruct (find_id_none _ _ Hf) as [_ Hn].
  apply Inv_intro; auto.
  - rewrite sum_es_app, sum_es_cons, sum_es_nil. cbn [es]. lia.
  - lia.
  - apply Forall_app. split; [exact Hall|]. constructor; [reflexivity|constructor].
  - rewrite kids_app. now apply NoDup_snoc.
Qed.

Lemma try_insert_arith s k v o : Inv s -> kheap k + vheap v + E < W -> do_try_insert E s k v o = None ->
  exists t n, t_insert E t n o = None.
Proof.
  intros (Hsum & Hle & Hmax & Hall & Hnd) Hwf H. unfold do_try_insert in H. rewrite esz_some in H by exact Hwf. cbn [bind] in H.
  set (sz := kheap k + vheap v + E) in *.
  destruct (N.ltb_spec (maxs s) sz) as [Hbig|Hfit]; [discriminate|].
  rewrite sub64_some in H by lia. cbn [bind] in H.
  destruct (N.ltb_spec (maxs s - cur s) sz) as [Hbig|Hfit2]; [discriminate|].
  destruct (find_id (kid k) (ents s)) as [e|] eqn:Hf; [discriminate|].
  destruct (t_insert E (tb s) (len s) o) as [[t2 rb]|] eqn:Ht; [|eauto].
  cbn [bind] in H. rewrite add64_some in H by lia. discriminate.
Qed.

(* ---------- touch ---------- *)
Lemma touch_inv s q : Inv s -> Inv (fst (do_touch s q)).
Proof.
  intros (Hsum & Hle & Hmax & Hall & Hnd). unfold do_touch. destruct (find_id q (ents s)) as [e|] eqn:Hf; cbn [fst]; [|unfold Inv; auto].
  destruct (find_id_some _ _ _ Hf) as (la & lb & El & Er & Hk & Hn). rewrite Er. rewrite El in *.
  rewrite kids_app in Hnd. cbn [kids map] in Hnd. apply NoDup_app_remove_mid in Hnd as [Hnd1 Hnd2].
  apply Forall_app in Hall as [Ha Hb]. inversion Hb as [|? ? He Hb']; subst.
  apply Inv_intro; auto.
  - rewrite Hsum. rewrite !sum_es_app, !sum_es_cons, sum_es_nil. lia.
  - apply Forall_app. split; [apply Forall_app; auto|]. constructor; [exact He|constructor].
  - rewrite kids_app. cbn [kids map]. apply NoDup_snoc; rewrite kids_app; auto.
Qed.

(* ---------- removal of one entry ---------- *)
Lemma removed_inv s e o la lb r : Inv s -> ents s = la ++ e :: lb -> removed_ev e o s (la ++ lb) = Some r -> Inv (fst r).
Proof.
  intros (Hsum & Hle & Hmax & Hall & Hnd) El H. unfold removed_ev in H. apply bind_some in H as (c & Hc & H). injection H as <-. cbn [fst].
  apply sub64_inv in Hc as [-> Hle2]. rewrite El in *. rewrite sum_es_app, sum_es_cons in Hsum.
  rewrite kids_app in Hnd. cbn [kids map] in Hnd. apply NoDup_app_remove_mid in Hnd as [Hnd1 _].
  apply Forall_app in Hall as [Ha Hb]. inversion Hb; subst.
  apply Inv_intro; auto.
  - rewrite sum_es_app. lia.
  - lia.
  - apply Forall_app; auto.
  - now rewrite kids_app.
Qed.
Lemma removed_arith s e o la lb : Inv s -> ents s = la ++ e :: lb -> removed_ev e o s (la ++ lb) <> None.
Proof.
  intros (Hsum & _) El. unfold removed_ev. rewrite El in Hsum. rewrite sum_es_app, sum_es_cons in Hsum.
  rewrite sub64_some by lia. discriminate.
Qed.

(* ---------- mutate (repaired order) ---------- *)
Lemma msz_some v : vheap v + E < W -> msz VS v = Some (VS + vheap v).
Proof. intros H. unfold msz. apply add64_some. lia. Qed.

Lemma mutate_cases s q nt nh o : Inv s -> wf_op s (Mutate q nt nh) ->
  exists r, do_mutate VS fixed s q nt nh o = Some r /\ Inv (fst (fst r)).
Proof.
  intros HI Hwf. pose proof HI as (Hsum & Hle & Hmax & Hall & Hnd). unfold do_mutate. cbn [wf_op] in Hwf.
  destruct (find_id q (ents s)) as [e|] eqn:Hf; [|eexists; split; [reflexivity|exact HI]].
  destruct (find_id_some _ _ _ Hf) as (la & lb & El & Er & Hk & Hn). rewrite Er.
  rewrite El in Hsum, Hall, Hnd. rewrite sum_es_app, sum_es_cons in Hsum.
  rewrite kids_app in Hnd. cbn [kids map] in Hnd. apply NoDup_app_remove_mid in Hnd as [Hnd1 Hnd2].
  apply Forall_app in Hall as [Ha Hb]. inversion Hb as [|? ? Hes Hb']; subst. unfold true_size in Hes.
  assert (Hold : vheap (ev e) + E < W) by lia.
  rewrite (msz_some (ev e)) by exact Hold. cbn [bind].
  rewrite msz_some by (cbn [vheap]; lia). cbn [bind vheap].
  destruct (N.ltb_spec (VS + vheap (ev e)) (VS + nh)) as [Hgrow|Hshrink].
  - (* growing *)
    rewrite sub64_some by lia. cbn [bind]. rewrite add64_some by lia. cbn [bind].
    set (diff := VS + nh - (VS + vheap (ev e))). assert (Hdiff : diff = nh - vheap (ev e)) by (unfold diff; lia).
    destruct (N.ltb_spec (maxs s) (es e + diff)) as [Hbig|Hfit].
    + rewrite sub64_some by lia. cbn [bind]. eexists; split; [reflexivity|]. cbn [fst].
      apply Inv_intro; auto; [rewrite sum_es_app; lia|lia|apply Forall_app; auto|now rewrite kids_app].
    + cbn [mut_orig fixed]. rewrite sub64_some by lia. cbn [bind].
      set (e0 := {| ek := ek e; ev := {| vtok := vtok (ev e); vtag := nt; vheap := nh |}; es := es e |}).
      assert (Hc : cur s = sum_es ((la ++ lb) ++ [e0])) by (rewrite !sum_es_app, sum_es_cons, sum_es_nil; cbn [es e0]; lia).
      destruct (eject_spec ((la ++ lb) ++ [e0]) (cur s) (maxs s - diff) Hc) as (l1 & evd & He & Hl & Hs & Hmin & _).
      rewrite He. cbn [bind].
      assert (Hne : l1 <> []).
      { intros ->. rewrite app_nil_r in Hl. specialize (Hmin (la ++ lb) e0 (eq_sym Hl)).
        rewrite sum_es_app, sum_es_cons, sum_es_nil in Hmin. cbn [es e0] in Hmin. lia. }
      destruct (snoc_split _ _ _ _ Hl Hne) as (l1' & -> & Hl0).
      rewrite sum_es_app, sum_es_cons, sum_es_nil in Hs. cbn [es e0] in Hs.
      rewrite add64_some by (rewrite sum_es_app, sum_es_cons, sum_es_nil; cbn [es e0]; lia). cbn [bind].
      destruct (l1' ++ [e0]) as [|z zs] eqn:Ez; [destruct l1'; discriminate|]. rewrite <- Ez. rewrite removelast_last.
      eexists; split; [reflexivity|]. cbn [fst].
      apply Inv_intro; auto.
      * rewrite !sum_es_app, !sum_es_cons, !sum_es_nil. cbn [es e0]. lia.
      * rewrite sum_es_app, sum_es_cons, sum_es_nil. cbn [es e0]. lia.
      * assert (Hall0 : Forall (fun e1 => es e1 = tsz e1) (la ++ lb)) by (apply Forall_app; auto).
        rewrite Hl0 in Hall0. apply Forall_app in Hall0 as [_ H1]. apply Forall_app. split; [exact H1|].
        constructor; [|constructor]. cbn [es]. unfold true_size. cbn [ek ev vheap]. lia.
      * assert (Hnd0 : NoDup (kids (la ++ lb))) by now rewrite kids_app.
        assert (Hnin0 : ~ In (kid (ek e)) (kids (la ++ lb))) by now rewrite kids_app.
        rewrite Hl0 in Hnd0, Hnin0. rewrite kids_app. cbn [kids map ek]. apply NoDup_snoc.
        -- rewrite kids_app in Hnd0. now apply NoDup_app_r in Hnd0.
        -- now apply kids_sub_ev in Hnin0.
  - (* non-expanding *)
    rewrite sub64_some by lia. cbn [bind]. rewrite sub64_some by lia. cbn [bind]. rewrite sub64_some by lia. cbn [bind].
    eexists; split; [reflexivity|]. cbn [fst].
    apply Inv_intro; auto.
    + rewrite !sum_es_app, sum_es_cons, sum_es_nil. cbn [es]. lia.
    + lia.
    + apply Forall_app. split; [apply Forall_app; auto|]. constructor; [|constructor]. cbn [es]. unfold true_size. cbn [ek ev vheap]. lia.
    + rewrite kids_app. cbn [kids map ek]. apply NoDup_snoc; rewrite kids_app; auto.
Qed.

(* ---------- retain ---------- *)
Lemma fold_sub_spec gone : forall c, sum_es gone <= c ->
  fold_left (fun c e => c0 <- c ;; sub64 c0 (es e)) gone (Some c) = Some (c - sum_es gone).
Proof.
  induction gone as [|e r IH]; intros c H; cbn [fold_left]; [rewrite sum_es_nil; f_equal; lia|].
  rewrite sum_es_cons in H. cbn [bind]. rewrite sub64_some by lia. rewrite IH by lia. f_equal. rewrite sum_es_cons. lia.
Qed.

Lemma retain_cases s keep o : Inv s ->
  exists r, stepA E VS fixed s (Retain keep) o = Some r /\ Inv (fst (fst r)).
Proof.
  intros (Hsum & Hle & Hmax & Hall & Hnd). cbn [stepA].
  pose proof (filter_split_sum (fun e => keep (ek e) (ev e)) (ents s)) as Hsplit.
  rewrite fold_sub_spec by lia. cbn [bind]. eexists; split; [reflexivity|]. cbn [fst].
  apply Inv_intro; auto; [lia|lia| |].
  - apply Forall_forall. intros x Hx. apply filter_In in Hx as [Hx _]. revert x Hx. now apply Forall_forall.
  - now apply NoDup_map_filter.
Qed.

(* ---------- set_max_size ---------- *)
Lemma set_max_cases s n o : Inv s -> n < W ->
  exists r, stepA E VS fixed s (SetMaxSize n) o = Some r /\ Inv (fst (fst r)).
Proof.
  intros (Hsum & Hle & Hmax & Hall & Hnd) Hn. cbn [stepA].
  destruct (eject_spec (ents s) (cur s) n Hsum) as (l1 & evd & He & Hl & Hs & _). rewrite He. cbn [bind].
  eexists; split; [reflexivity|]. cbn [fst]. apply Inv_intro; auto.
  - rewrite Hl in Hall. now apply Forall_app in Hall as [_ ?].
  - rewrite Hl, kids_app in Hnd. now apply NoDup_app_r in Hnd.
Qed.

(* ---------- capacity operations never touch entries or counters ---------- *)
Lemma realloc_same s n o : ents (fst (do_realloc E s n o)) = ents s /\ cur (fst (do_realloc E s n o)) = cur s /\ maxs (fst (do_realloc E s n o)) = maxs s.
Proof. unfold do_realloc. destruct (t_alloc E n (o_alloc o)); cbn; auto. Qed.

Lemma Inv_same s s' : Inv s -> ents s' = ents s -> cur s' = cur s -> maxs s' = maxs s -> Inv s'.
Proof. unfold Inv. intros H -> -> ->. exact H. Qed.

Lemma shrink_cases s n o : Inv s -> exists r, do_shrink E fixed s n o = Some r /\ Inv (fst (fst r)).
Proof.
  intros HI. unfold do_shrink. destruct (N.max (len s) n <? capacity (tb s)); [|eauto].
  cbn [shrink_orig fixed]. destruct (t_alloc E (N.max (len s) n) (o_alloc o)); [|eauto|eauto].
  destruct (capacity t <? capacity (tb s)); eexists; (split; [reflexivity|]); cbn [fst]; [|exact HI].
  eapply Inv_same; [exact HI|reflexivity..].
Qed.

(* ---------- every operation ---------- *)
Theorem step_total_inv s p o : Inv s -> wf_op s p ->
  (exists r, stepA E VS fixed s p o = Some r /\ Inv (fst (fst r))) \/
  (stepA E VS fixed s p o = None /\ (match p with Insert _ _ | TryInsert _ _ => True | _ => False end) /\ exists t n, t_insert E t n o = None).
Proof.
  intros HI Hwf. pose proof HI as (Hsum & Hle & Hmax & Hall & Hnd).
  destruct p; cbn [wf_op] in Hwf.
  - (* Insert *) cbn [stepA]. destruct (do_insert E s k v o) as [r|] eqn:H; [left|right].
    + eexists; split; [reflexivity|]. eapply insert_inv; eauto.
    + split; [reflexivity|]. split; [exact I|]. eapply insert_arith; eauto.
  - (* TryInsert *) cbn [stepA]. destruct (do_try_insert E s k v o) as [r|] eqn:H; [left|right].
    + eexists; split; [reflexivity|]. eapply try_insert_inv; eauto.
    + split; [reflexivity|]. split; [exact I|]. eapply try_insert_arith; eauto.
  - (* Get *) left. cbn [stepA]. pose proof (touch_inv s q HI). destruct (do_touch s q). eexists; split; [reflexivity|exact H].
  - left. cbn [stepA]. pose proof (touch_inv s q HI). destruct (do_touch s q). eexists; split; [reflexivity|exact H].
  - left. eexists; split; [reflexivity|exact HI].
  - left. eexists; split; [reflexivity|exact HI].
  - left. eexists; split; [reflexivity|exact HI].
  - (* Touch *) left. cbn [stepA]. pose proof (touch_inv s q HI). destruct (do_touch s q). eexists; split; [reflexivity|exact H].
  - (* GetLru *) left. cbn [stepA]. destruct (ents s) as [|e r] eqn:El; [eexists; split; [reflexivity|exact HI]|].
    eexists; split; [reflexivity|]. cbn [fst].  cbn [kids map] in Hnd. apply NoDup_cons_iff in Hnd as [Hn1 Hn2].
    inversion Hall; subst. apply Inv_intro; auto.
    + rewrite Hsum, sum_es_app, !sum_es_cons, sum_es_nil. lia.
    + apply Forall_app. split; auto.
    + rewrite kids_app. now apply NoDup_snoc.
  - left. eexists; split; [reflexivity|exact HI].
  - left. eexists; split; [reflexivity|exact HI].
  - (* Remove *) left. cbn [stepA]. destruct (find_id q (ents s)) as [e|] eqn:Hf; [|eexists; split; [reflexivity|exact HI]].
    destruct (find_id_some _ _ _ Hf) as (la & lb & El & Er & Hk & Hn). rewrite Er.
    destruct (removed_ev e o s (la ++ lb)) as [[s' evs]|] eqn:Hr; [|exfalso; eapply removed_arith; eauto].
    cbn [bind]. eexists; split; [reflexivity|]. cbn [fst]. eapply (removed_inv s e o la lb (s', evs)); eauto.
  - (* RemoveEntry *) left. cbn [stepA]. destruct (find_id q (ents s)) as [e|] eqn:Hf; [|eexists; split; [reflexivity|exact HI]].
    destruct (find_id_some _ _ _ Hf) as (la & lb & El & Er & Hk & Hn). rewrite Er.
    destruct (removed_ev e o s (la ++ lb)) as [[s' evs]|] eqn:Hr; [|exfalso; eapply removed_arith; eauto].
    cbn [bind]. eexists; split; [reflexivity|]. cbn [fst]. eapply (removed_inv s e o la lb (s', evs)); eauto.
  - (* RemoveLru *) left. cbn [stepA]. destruct (ents s) as [|e r] eqn:El; [eexists; split; [reflexivity|exact HI]|].
    destruct (removed_ev e o s r) as [[s' evs]|] eqn:Hr; [|exfalso; eapply (removed_arith s e o [] r); eauto].
    cbn [bind]. eexists; split; [reflexivity|]. cbn [fst]. eapply (removed_inv s e o [] r (s', evs)); eauto.
  - (* RemoveMru *) left. cbn [stepA]. destruct (ents s) as [|a r] eqn:El; [eexists; split; [reflexivity|exact HI]|].
    assert (Hne : a :: r <> []) by discriminate.
    pose proof (last_removelast_split (a :: r) a Hne) as Hsp.
    assert (Hsp' : ents s = removelast (a :: r) ++ last (a :: r) a :: []) by (rewrite El; exact Hsp).
    destruct (removed_ev (last (a :: r) a) o s (removelast (a :: r))) as [[s' evs]|] eqn:Hr.
    + cbn [bind]. eexists; split; [reflexivity|]. cbn [fst].
      apply (removed_inv s (last (a :: r) a) o (removelast (a :: r)) [] (s', evs)); auto. now rewrite app_nil_r.
    + exfalso. apply (removed_arith s (last (a :: r) a) o (removelast (a :: r)) [] HI Hsp'). now rewrite app_nil_r.
  - (* Mutate *) left. cbn [stepA]. apply mutate_cases; auto.
  - (* SetMaxSize *) left. apply set_max_cases; auto.
  - (* Retain *) left. apply retain_cases; auto.
  - (* Clear *) left. eexists; split; [reflexivity|]. cbn [fst]. apply Inv_intro; auto; [lia|constructor].
  - (* IterOp *) left. eexists; split; [reflexivity|exact HI].
  - (* DrainOp *) left. cbn [stepA]. destruct (take_ends (ents s) pat) as [outs rest]. eexists; split; [reflexivity|]. cbn [fst].
    apply Inv_intro; auto; [lia|constructor].
  - (* Reserve *) left. cbn [stepA]. destruct (add64 (len s) n); [|eexists; split; [reflexivity|exact HI]].
    destruct (capacity (tb s) <? n0); [|eexists; split; [reflexivity|exact HI]].
    pose proof (realloc_same s n0 o) as (R1 & R2 & R3). destruct (do_realloc E s n0 o) as [s' [t| |]]; cbn [fst] in *;
      (eexists; split; [reflexivity|]); cbn [fst]; eapply Inv_same; eauto.
  - (* TryReserve *) left. cbn [stepA]. destruct (add64 (len s) n); [|eexists; split; [reflexivity|exact HI]].
    destruct (capacity (tb s) <? n0); [|eexists; split; [reflexivity|exact HI]].
    pose proof (realloc_same s n0 o) as (R1 & R2 & R3). destruct (do_realloc E s n0 o) as [s' [t| |]]; cbn [fst] in *;
      (eexists; split; [reflexivity|]); cbn [fst]; eapply Inv_same; eauto.
  - (* ShrinkTo *) left. cbn [stepA]. apply shrink_cases; auto.
  - left. cbn [stepA]. apply shrink_cases; auto.
  - left. eexists; split; [reflexivity|exact HI].
  - left. eexists; split; [reflexivity|exact HI].
  - left. eexists; split; [reflexivity|exact HI].
  - left. eexists; split; [reflexivity|exact HI].
  - left. eexists; split; [reflexivity|exact HI].
  - left. eexists; split; [reflexivity|exact HI].
Qed.

Corollary step_inv s p o r : Inv s -> wf_op s p -> stepA E VS fixed s p o = Some r -> Inv (fst (fst r)).
Proof. intros HI Hwf H. destruct (step_total_inv s p o HI Hwf) as [(r' & H' & HI')|(H' & _)]; congruence. Qed.

(* ---------- reachability ---------- *)
Inductive Reach : cache -> Prop :=
| reach_new mx cap s : mx < W -> new_cache E mx cap = Some s -> Reach s
| reach_step s p o r : Reach s -> wf_op s p -> stepA E VS fixed s p o = Some r -> Reach (fst (fst r)).

Theorem reach_inv s : Reach s -> Inv s.
Proof.
  induction 1 as [mx cap s Hmx Hnew|s p o r _ IH Hwf Hstep].
  - unfold new_cache in Hnew. destruct (t_alloc E cap true); try discriminate. injection Hnew as <-.
    apply Inv_intro; auto; try lia; try (now constructor).
  - eapply step_inv; eauto.
Qed.

(* ---------- what the invariant says in the properties' terms ---------- *)
Lemma sum_tsz_eq l : Forall (fun e => es e = tsz e) l -> sumN (map tsz l) = sum_es l.
Proof. induction 1 as [|e r He _ IH]; [reflexivity|]. cbn [map]. rewrite sumN_cons, sum_es_cons, IH. lia. Qed.

Lemma inv_c01_mon s : Inv s -> c01_mon E s = true.
Proof.
  intros (Hsum & Hle & Hmax & Hall & Hnd). unfold c01_mon. rewrite (sum_tsz_eq _ Hall), <- Hsum.
  destruct (N.leb_spec (cur s) (maxs s)); [reflexivity|lia].
Qed.

Lemma inv_zero_iff s : Inv s -> (cur s = 0 <-> ents s = []).
Proof.
  intros (Hsum & _ & _ & Hall & _). split.
  - intros H0. destruct (ents s) as [|e r]; [reflexivity|]. inversion Hall as [|? ? He _]; subst.
    rewrite sum_es_cons in Hsum. unfold true_size in He. lia.
  - intros Hnil. rewrite Hnil in Hsum. exact Hsum.
Qed.

Lemma inv_c02_mon s : Inv s -> c02_mon E s = true.
Proof.
  intros HI. pose proof HI as (Hsum & Hle & Hmax & Hall & Hnd). unfold c02_mon.
  change (sumN (map es (ents s))) with (sum_es (ents s)). rewrite <- Hsum, N.eqb_refl. cbn [andb].
  assert (Hf : forallb (fun e => es e =? tsz e) (ents s) = true).
  { apply forallb_forall. intros x Hx. apply N.eqb_eq. revert x Hx. now apply Forall_forall. }
  rewrite Hf. cbn [andb]. pose proof (inv_zero_iff s HI) as [H1 H2].
  destruct (N.eqb_spec (cur s) 0) as [H0|H0]; destruct (ents s) as [|e r] eqn:El; try reflexivity.
  - specialize (H1 H0). discriminate.
  - exfalso. apply H0. now apply H2.
Qed.
End Params.
