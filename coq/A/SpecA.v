(* Characterisation ("spec") lemmas for the operations with non-trivial control flow: exactly what
   insert, try_insert, mutate (repaired order) and set_max_size do to a state satisfying the
   accounting invariant. The per-property theorems (C03, C04, C05, C06, C10, C11, C20) are derived
   from these. *)
Require Export LruV.A.InvA.

Section Params.
Variables (E VS : N).
Hypothesis E_pos : 0 < E.
Hypothesis VS_le_E : VS <= E.
Notation Inv := (Inv E).

Lemma match_snoc {A T} (l : list A) x (a b : T) : match l ++ [x] with [] => a | _ :: _ => b end = b.
Proof. destruct l; reflexivity. Qed.

Definition mk_entry (k : key) (v : val) (sz : N) : entry := {| ek := k; ev := v; es := sz |}.

(* minimal eviction: evd is the shortest prefix of l whose removal brings the total to at most target *)
Definition minimal_prefix (l evd rest : list entry) (target : N) : Prop :=
  l = evd ++ rest /\ sum_es rest <= target /\
  (forall ev0 e, evd = ev0 ++ [e] -> target < sum_es l - sum_es ev0) /\
  (sum_es l <= target -> evd = []).

Lemma eject_minimal l c target : c = sum_es l ->
  exists evd rest, eject l c target = Some (rest, sum_es rest, evd) /\ minimal_prefix l evd rest target.
Proof.
  intros Hc. destruct (eject_spec l c target Hc) as (l' & evd & He & Hl & Hs & Hmin & Hz).
  exists evd, l'. split; [exact He|]. unfold minimal_prefix. repeat split; auto. intros H. apply Hz. lia.
Qed.

(* ---------- insert ---------- *)
Lemma insert_spec s k v o r : Inv s -> kheap k + vheap v + E < W -> do_insert E s k v o = Some r ->
  let sz := kheap k + vheap v + E in
  let old := find_id (kid k) (ents s) in
  let l0 := remove_id (kid k) (ents s) in
  (maxs s < sz /\ r = (s, OInsTooLarge k v sz (maxs s), ev0)) \/
  (sz <= maxs s /\ exists evd rest t2 rb,
     minimal_prefix l0 evd rest (maxs s - sz) /\
     sum_es l0 = cur s - match old with Some e => es e | None => 0 end /\
     t_insert E (t_erase (tb s) (o_tomb o)) (N.of_nat (length rest)) o = Some (t2, rb) /\
     r = (set_ents s (rest ++ [mk_entry k v sz]) (sum_es rest + sz) t2, OInsOk (option_map ev old),
          {| e_evicted := evd;
             e_dropped := (match old with Some e => [ktok (ek e)] | None => [] end) ++ all_toks evd;
             e_hashes := 1 + N.of_nat (length evd) + (if rb then N.of_nat (length rest) else 0);
             e_rebuilt := rb; e_visits := [] |})).
Proof.
  intros (Hsum & Hle & Hmax & Hall & Hnd) Hwf H. cbv zeta. unfold do_insert in H. rewrite (esz_some E VS E_pos VS_le_E) in H by exact Hwf. cbn [bind] in H. cbv zeta in H.
  set (sz := kheap k + vheap v + E) in *.
  destruct (N.ltb_spec (maxs s) sz) as [Hbig|Hfit]; [left; split; [exact Hbig|congruence]|right; split; [exact Hfit|]].
  assert (Hrem : exists c0, match find_id (kid k) (ents s) with Some e => sub64 (cur s) (es e) | None => Some (cur s) end = Some c0
                   /\ c0 = sum_es (remove_id (kid k) (ents s))
                   /\ c0 = cur s - match find_id (kid k) (ents s) with Some e => es e | None => 0 end).
  { destruct (find_id (kid k) (ents s)) as [e|] eqn:Hf.
    - destruct (find_id_some _ _ _ Hf) as (la & lb & El & Er & Hk & Hn). rewrite Er.
      rewrite El in Hsum. rewrite sum_es_app, sum_es_cons in Hsum. exists (cur s - es e). rewrite sub64_some by lia.
      repeat split. rewrite sum_es_app. lia.
    - destruct (find_id_none _ _ Hf) as [-> Hn]. exists (cur s). repeat split; [exact Hsum|lia]. }
  destruct Hrem as (c0 & Hm & Hc0 & Hc0'). rewrite Hm in H. cbn [bind] in H. rewrite sub64_some in H by lia. cbn [bind] in H.
  destruct (eject_minimal (remove_id (kid k) (ents s)) c0 (maxs s - sz) Hc0) as (evd & rest & He & Hmp).
  rewrite He in H. cbn [bind] in H.
  destruct (t_insert E (t_erase (tb s) (o_tomb o)) (N.of_nat (length rest)) o) as [[t2 rb]|] eqn:Ht; [|discriminate].
  cbn [bind] in H. destruct Hmp as (Hl & Hs & Hmin & Hz).
  rewrite add64_some in H by lia. cbn [bind] in H. injection H as <-.
  exists evd, rest, t2, rb. repeat split; auto. lia.
Qed.

(* ---------- try_insert ---------- *)
Lemma try_insert_spec s k v o r : Inv s -> kheap k + vheap v + E < W -> do_try_insert E s k v o = Some r ->
  let sz := kheap k + vheap v + E in
  (maxs s < sz /\ r = (s, OTryTooLarge k v sz (maxs s), ev0)) \/
  (sz <= maxs s /\ maxs s - cur s < sz /\ r = (s, OTryWouldEject k v sz (maxs s - cur s), ev0)) \/
  (sz <= maxs s - cur s /\ find_id (kid k) (ents s) <> None /\ r = (s, OTryOccupied k v, hashed 1)) \/
  (sz <= maxs s - cur s /\ find_id (kid k) (ents s) = None /\ exists t2 rb,
     t_insert E (tb s) (len s) o = Some (t2, rb) /\
     r = (set_ents s (ents s ++ [mk_entry k v sz]) (cur s + sz) t2, OTryOk,
          {| e_evicted := []; e_dropped := []; e_hashes := 1 + (if rb then len s else 0); e_rebuilt := rb; e_visits := [] |})).
Proof.
  intros (Hsum & Hle & Hmax & Hall & Hnd) Hwf H. cbv zeta. unfold do_try_insert in H. rewrite (esz_some E VS E_pos VS_le_E) in H by exact Hwf. cbn [bind] in H.
  set (sz := kheap k + vheap v + E) in *.
  destruct (N.ltb_spec (maxs s) sz) as [Hbig|Hfit]; [left; split; [exact Hbig|congruence]|right].
  rewrite sub64_some in H by lia. cbn [bind] in H.
  destruct (N.ltb_spec (maxs s - cur s) sz) as [Hbig|Hfit2]; [left; repeat split; auto; congruence|right].
  destruct (find_id (kid k) (ents s)) as [e|] eqn:Hf; [left; repeat split; auto; congruence|right].
  repeat split; auto.
  destruct (t_insert E (tb s) (len s) o) as [[t2 rb]|] eqn:Ht; [|discriminate]. cbn [bind] in H.
  rewrite add64_some in H by lia. cbn [bind] in H. injection H as <-. exists t2, rb. split; reflexivity.
Qed.

(* ---------- mutate (repaired order) ---------- *)
Definition mutated (e : entry) (nt nh : N) : val := {| vtok := vtok (ev e); vtag := nt; vheap := nh |}.

Lemma mutate_spec s q nt nh o r : Inv s -> wf_op E s (Mutate q nt nh) -> do_mutate VS fixed s q nt nh o = Some r ->
  match find_id q (ents s) with
  | None => r = (s, OMutNone, hashed 1)
  | Some e =>
    let v' := mutated e nt nh in
    let l0 := remove_id q (ents s) in
    let nes := kheap (ek e) + nh + E in
    es e = kheap (ek e) + vheap (ev e) + E /\ sum_es l0 = cur s - es e /\ es e <= cur s /\
    ((vheap (ev e) < nh /\ maxs s < nes /\
        r = (set_ents s l0 (cur s - es e) (t_erase (tb s) (o_tomb o)), OMutTooLarge (ek e) v' (es e) nes (maxs s), hashed 2)) \/
     (vheap (ev e) < nh /\ nes <= maxs s /\ exists evd rest,
        minimal_prefix l0 evd rest (maxs s - nes) /\
        r = (set_ents s (rest ++ [mk_entry (ek e) v' nes]) (sum_es rest + nes) (t_erase (tb s) (o_tomb o)), OMutOk,
             {| e_evicted := evd; e_dropped := all_toks evd; e_hashes := 1 + N.of_nat (length evd); e_rebuilt := false; e_visits := [] |})) \/
     (nh <= vheap (ev e) /\
        r = (set_ents s (l0 ++ [mk_entry (ek e) v' nes]) (cur s - (vheap (ev e) - nh)) (tb s), OMutOk, hashed 1)))
  end.
Proof.
  intros HI Hwf H. pose proof HI as (Hsum & Hle & Hmax & Hall & Hnd). unfold do_mutate in H. cbn [wf_op] in Hwf.
  destruct (find_id q (ents s)) as [e|] eqn:Hf; [|congruence].
  destruct (find_id_some _ _ _ Hf) as (la & lb & El & Er & Hk & Hn). rewrite Er in *. cbv zeta.
  rewrite El in Hsum, Hall, Hnd. rewrite sum_es_app, sum_es_cons in Hsum.
  apply Forall_app in Hall as [Ha Hb]. inversion Hb as [|? ? Hes Hb']; subst. unfold true_size in Hes.
  assert (Hold : vheap (ev e) + E < W) by lia.
  rewrite (msz_some E VS E_pos VS_le_E (ev e)) in H by exact Hold. cbn [bind] in H.
  rewrite (msz_some E VS E_pos VS_le_E) in H by (cbn [vheap]; lia). cbn [bind vheap] in H.
  split; [exact Hes|]. split; [rewrite sum_es_app; lia|]. split; [lia|].
  destruct (N.ltb_spec (VS + vheap (ev e)) (VS + nh)) as [Hgrow|Hshrink].
  - rewrite sub64_some in H by lia. cbn [bind] in H. rewrite add64_some in H by lia. cbn [bind] in H.
    set (diff := VS + nh - (VS + vheap (ev e))) in *. assert (Hdiff : diff = nh - vheap (ev e)) by (unfold diff; lia).
    assert (Hnes : es e + diff = kheap (ek e) + nh + E) by lia.
    destruct (N.ltb_spec (maxs s) (es e + diff)) as [Hbig|Hfit].
    + left. rewrite sub64_some in H by lia. cbn [bind] in H. injection H as <-. rewrite <- Hnes. split; [lia|]. split; [lia|]. reflexivity.
    + right; left. cbn [mut_orig fixed] in H. rewrite sub64_some in H by lia. cbn [bind] in H.
      set (e0 := {| ek := ek e; ev := {| vtok := vtok (ev e); vtag := nt; vheap := nh |}; es := es e |}) in *.
      assert (Hc : cur s = sum_es ((la ++ lb) ++ [e0])) by (rewrite !sum_es_app, sum_es_cons, sum_es_nil; cbn [es e0]; lia).
      destruct (eject_spec ((la ++ lb) ++ [e0]) (cur s) (maxs s - diff) Hc) as (l1 & evd & He & Hl & Hs & Hmin & Hz).
      rewrite He in H. cbn [bind] in H.
      assert (Hne : l1 <> []).
      { intros ->. rewrite app_nil_r in Hl. specialize (Hmin (la ++ lb) e0 (eq_sym Hl)).
        rewrite sum_es_app, sum_es_cons, sum_es_nil in Hmin. cbn [es e0] in Hmin. lia. }
      destruct (snoc_split _ _ _ _ Hl Hne) as (l1' & -> & Hl0).
      rewrite sum_es_app, sum_es_cons, sum_es_nil in Hs, H. cbn [es e0] in Hs, H.
      rewrite add64_some in H by lia. cbn [bind] in H.
      rewrite match_snoc in H. rewrite removelast_last in H.
      rewrite Hnes in H. replace (sum_es l1' + (es e + 0) + diff) with (sum_es l1' + (kheap (ek e) + nh + E)) in H by lia.
      injection H as <-. split; [lia|]. split; [lia|]. exists evd, l1'. split.
      * unfold minimal_prefix. repeat split; auto.
        -- lia.
        -- intros ev0 x Hev. specialize (Hmin ev0 x Hev). rewrite !sum_es_app, sum_es_cons, sum_es_nil in Hmin. cbn [es e0] in Hmin.
           rewrite sum_es_app. lia.
        -- intros Hfits. apply Hz. rewrite Hsum. rewrite sum_es_app in Hfits. lia.
      * reflexivity.
    - right; right. rewrite sub64_some in H by lia. cbn [bind] in H. rewrite sub64_some in H by lia. cbn [bind] in H.
      rewrite sub64_some in H by lia. cbn [bind] in H.
      assert (D : VS + vheap (ev e) - (VS + nh) = vheap (ev e) - nh) by lia. rewrite D in H.
      assert (Hn2 : es e - (vheap (ev e) - nh) = kheap (ek e) + nh + E) by lia. rewrite Hn2 in H.
      injection H as <-. split; [lia|]. reflexivity.
Qed.

(* ---------- set_max_size ---------- *)
Lemma set_max_spec s n o r : Inv s -> stepA E VS fixed s (SetMaxSize n) o = Some r ->
  exists evd rest, minimal_prefix (ents s) evd rest n /\
    r = ({| ents := rest; cur := sum_es rest; maxs := n; tb := t_erase (tb s) (o_tomb o) |}, OUnit,
         {| e_evicted := evd; e_dropped := all_toks evd; e_hashes := N.of_nat (length evd); e_rebuilt := false; e_visits := [] |}).
Proof.
  intros (Hsum & _) H. cbn [stepA] in H.
  destruct (eject_minimal (ents s) (cur s) n Hsum) as (evd & rest & He & Hmp). rewrite He in H. cbn [bind] in H.
  injection H as <-. eauto.
Qed.
End Params.
