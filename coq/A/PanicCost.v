(* Consistency of the two models of user callbacks: the number of Hash points panic_points lists for an operation
   is exactly the hashing cost the step function reports (C16 and C20 speak about the same artefact). *)
Require Export LruV.A.PanicProps LruV.A.CostA.

Definition is_hash (pp : ppoint) : bool := match pk pp with KHash => true | _ => false end.
Definition nh (l : list ppoint) : N := N.of_nat (length (filter is_hash l)).

Lemma nh_app a b : nh (a ++ b) = nh a + nh b.
Proof. unfold nh. rewrite filter_app, app_length. lia. Qed.
Lemma nh_lookup s d : nh (lookup_pts s d) = 1.
Proof. reflexivity. Qed.
Lemma nh_rehash s d : nh (rehash_pts s d) = len s.
Proof. unfold nh, rehash_pts, len. induction (ents s) as [|e r IH]; cbn [map filter is_hash pk pt length]; [reflexivity|]. cbn [length] in *. lia. Qed.

Lemma nh_eject mk l : forall c target d l1 c1 evd, eject l c target = Some (l1, c1, evd) ->
  nh (eject_pts mk l c target d) = N.of_nat (length evd).
Proof.
  induction l as [|e r IH]; intros c target d l1 c1 evd He; cbn [eject eject_pts] in *.
  - destruct (c <=? target); [injection He as _ _ <-; reflexivity|discriminate].
  - destruct (c <=? target); [injection He as _ _ <-; reflexivity|].
    apply bind_some in He as (c' & Hc' & He). apply sub64_inv in Hc' as [-> _].
    apply bind_some in He as ([[l' c''] ev'] & He' & He). injection He as _ _ <-.
    rewrite nh_app, nh_lookup, (IH _ _ d _ _ _ He'). cbn [length]. lia.
Qed.

Section Params.
Variables (E VS : N).
Hypothesis E_pos : 0 < E.
Hypothesis VS_le_E : VS <= E.

Theorem hash_points_are_the_cost s p o s' out evs : Inv E s -> wf_op E s p ->
  stepA E VS fixed s p o = Some (s', out, evs) -> nh (panic_points E s p o) = e_hashes evs.
Proof.
  intros HI Hwf H. pose proof HI as (Hsum & Hle & Hmax & Hall & Hnd).
  destruct p; cbn [stepA wf_op panic_points] in *;
    try (injection H as <- <- <-; reflexivity).
  - (* Insert *)
    unfold insert_pts, do_insert in *. rewrite (esz_some E VS E_pos VS_le_E k v Hwf) in *. cbn [bind] in H. cbv zeta in H.
    rewrite nh_app. change (nh [pt KSize s [ktok k; vtok v]; pt KSize s [ktok k; vtok v]]) with 0.
    destruct (maxs s <? kheap k + vheap v + E); [injection H as <- <- <-; reflexivity|].
    rewrite nh_app, nh_lookup. cbv zeta.
    apply bind_some in H as (c0 & Hc0 & H). apply bind_some in H as (tgt & Htgt & H). apply sub64_inv in Htgt as [-> _].
    apply bind_some in H as ([[l1 c1] evd] & He & H). apply bind_some in H as ([t2 rb] & Ht & H). apply bind_some in H as (c2 & _ & H).
    injection H as <- <- <-. cbn [e_hashes].
    assert (Ec0 : c0 = cur s - match find_id (kid k) (ents s) with Some e => es e | None => 0 end).
    { destruct (find_id (kid k) (ents s)); [now apply sub64_inv in Hc0 as [-> _]|injection Hc0 as <-; lia]. }
    rewrite <- Ec0. rewrite nh_app, (nh_eject _ _ _ _ _ _ _ _ He). rewrite He, Ht.
    destruct rb; [rewrite nh_rehash; unfold len; cbn [ents set_ents]; lia|cbn; lia].
  - (* TryInsert *)
    unfold try_insert_pts, do_try_insert in *. rewrite (esz_some E VS E_pos VS_le_E k v Hwf) in *. cbn [bind] in H.
    rewrite nh_app. change (nh [pt KSize s [ktok k; vtok v]; pt KSize s [ktok k; vtok v]]) with 0.
    destruct (maxs s <? kheap k + vheap v + E); [injection H as <- <- <-; reflexivity|].
    apply bind_some in H as (free & Hfree & H). apply sub64_inv in Hfree as [-> _].
    destruct (maxs s - cur s <? kheap k + vheap v + E); [injection H as <- <- <-; reflexivity|].
    rewrite nh_app, nh_lookup. destruct (find_id (kid k) (ents s)); [injection H as <- <- <-; reflexivity|].
    apply bind_some in H as ([t2 rb] & Ht & H). apply bind_some in H as (c2 & _ & H). injection H as <- <- <-. cbn [e_hashes]. rewrite Ht.
    destruct rb; [rewrite nh_rehash; lia|cbn; lia].
  - destruct (do_touch s q). injection H as <- <- <-. reflexivity.
  - destruct (do_touch s q). injection H as <- <- <-. reflexivity.
  - destruct (do_touch s q). injection H as <- <- <-. reflexivity.
  - destruct (ents s); injection H as <- <- <-; reflexivity.
  - destruct (find_id q (ents s)); [|injection H as <- <- <-; reflexivity]. apply bind_some in H as ([s1 e1] & _ & H). injection H as <- <- <-. reflexivity.
  - destruct (find_id q (ents s)); [|injection H as <- <- <-; reflexivity]. apply bind_some in H as ([s1 e1] & H1 & H). injection H as <- <- <-.
    unfold removed_ev in H1. apply bind_some in H1 as (c & _ & H1). injection H1 as _ <-. reflexivity.
  - destruct (ents s); [injection H as <- <- <-; reflexivity|]. apply bind_some in H as ([s1 e1] & H1 & H). injection H as <- <- <-.
    unfold removed_ev in H1. apply bind_some in H1 as (c & _ & H1). injection H1 as _ <-. reflexivity.
  - destruct (ents s); [injection H as <- <- <-; reflexivity|]. apply bind_some in H as ([s1 e1] & H1 & H). injection H as <- <- <-.
    unfold removed_ev in H1. apply bind_some in H1 as (c & _ & H1). injection H1 as _ <-. reflexivity.
  - (* Mutate *)
    unfold mutate_pts, do_mutate in *. rewrite nh_app, nh_lookup.
    destruct (find_id q (ents s)) as [e|] eqn:Hf; [|injection H as <- <- <-; reflexivity]. cbv zeta.
    destruct (find_id_some _ _ _ Hf) as (la & lb & El & Er & Hk & Hn).
    rewrite El in Hsum, Hall. rewrite sum_es_app, sum_es_cons in Hsum. apply Forall_app in Hall as [_ Hb]. inversion Hb as [|? ? Hes _]; subst. unfold true_size in Hes.
    rewrite (msz_some E VS E_pos VS_le_E (ev e)) in H by lia. cbn [bind] in H.
    rewrite (msz_some E VS E_pos VS_le_E) in H by (cbn [vheap]; lia). cbn [bind vheap] in H.
    rewrite nh_app. match goal with |- context [nh [?a; ?b; ?c]] => change (nh [a; b; c]) with 0 end.
    destruct (N.ltb_spec (VS + vheap (ev e)) (VS + newheap)) as [Hg|Hs].
    + destruct (N.ltb_spec (vheap (ev e)) newheap); [|lia].
      rewrite sub64_some in H by lia. cbn [bind] in H. rewrite add64_some in H by lia. cbn [bind] in H.
      replace (VS + newheap - (VS + vheap (ev e))) with (newheap - vheap (ev e)) in H by lia.
      destruct (N.ltb_spec (maxs s) (es e + (newheap - vheap (ev e)))).
      * rewrite sub64_some in H by lia. cbn [bind] in H. injection H as <- <- <-. reflexivity.
      * cbn [mut_orig fixed] in H. rewrite sub64_some in H by lia. cbn [bind] in H.
        apply bind_some in H as ([[l1 c1] evd] & He & H). apply bind_some in H as (c2 & _ & H).
        rewrite (nh_eject _ _ _ _ _ _ _ _ He). destruct l1; [discriminate|]. injection H as <- <- <-. cbn [e_hashes]. lia.
    + destruct (N.ltb_spec (vheap (ev e)) newheap); [lia|].
      apply bind_some in H as (d & _ & H). apply bind_some in H as (n1 & _ & H). apply bind_some in H as (c & _ & H). injection H as <- <- <-. reflexivity.
  - (* SetMaxSize *) unfold set_max_pts. apply bind_some in H as ([[l1 c1] evd] & He & H). injection H as <- <- <-. cbn [e_hashes]. apply (nh_eject _ _ _ _ _ _ _ _ He).
  - (* Retain *)
    apply bind_some in H as (c & _ & H). injection H as <- <- <-. cbn [e_hashes].
    assert (G : forall todo done c, nh (retain_pts s keep o done todo c) = N.of_nat (length (filter (fun e => negb (keep (ek e) (ev e))) todo))).
    { induction todo as [|e r IH]; intros done c0; cbn [retain_pts filter]; [reflexivity|].
      change (pt KPred ?a ?b :: ?l) with ([pt KPred a b] ++ l). rewrite nh_app. change (nh [pt KPred _ _]) with 0.
      destruct (keep (ek e) (ev e)); cbn [negb]; [rewrite IH; lia|]. rewrite nh_app, nh_lookup, IH. cbn [length]. lia. }
    apply G.
  - destruct (take_ends (ents s) pat). injection H as <- <- <-. reflexivity.
  - (* Reserve *) destruct (add64 (len s) n); [|injection H as <- <- <-; reflexivity].
    destruct (capacity (tb s) <? n0); [|injection H as <- <- <-; reflexivity].
    unfold realloc_pts, do_realloc in *. destruct (t_alloc E n0 (o_alloc o)); injection H as <- <- <-; try reflexivity. cbn [e_hashes rebuilt_ev]. apply nh_rehash.
  - (* TryReserve *) destruct (add64 (len s) n); [|injection H as <- <- <-; reflexivity].
    destruct (capacity (tb s) <? n0); [|injection H as <- <- <-; reflexivity].
    unfold realloc_pts, do_realloc in *. destruct (t_alloc E n0 (o_alloc o)); injection H as <- <- <-; try reflexivity. cbn [e_hashes rebuilt_ev]. apply nh_rehash.
  - (* ShrinkTo *) unfold do_shrink in H. cbv zeta. destruct (N.max (len s) n <? capacity (tb s)); [|injection H as <- <- <-; reflexivity].
    cbn [shrink_orig fixed] in H. destruct (t_alloc E (N.max (len s) n) (o_alloc o)); try (injection H as <- <- <-; reflexivity).
    destruct (capacity t <? capacity (tb s)); injection H as <- <- <-; [cbn [e_hashes rebuilt_ev]; apply nh_rehash|reflexivity].
  - (* ShrinkToFit *) unfold do_shrink in H. cbv zeta. replace (N.max (len s) 0) with (len s) in H by lia. destruct (len s <? capacity (tb s)); [|injection H as <- <- <-; reflexivity].
    cbn [shrink_orig fixed] in H. destruct (t_alloc E (len s) (o_alloc o)); try (injection H as <- <- <-; reflexivity).
    destruct (capacity t <? capacity (tb s)); injection H as <- <- <-; [cbn [e_hashes rebuilt_ev]; apply nh_rehash|reflexivity].
Qed.
End Params.
