(* Layer M -- executable model of /repo/src/mem_size.rs (HeapSize / ValueSize / MemSize).

   Definitions only, no proofs (those are in MemProps.v), so the model still evaluates when a
   proof breaks.  What is modelled, impl by impl, with the line numbers of the tree this was
   written against:

     blanket  impl<T: Sized> ValueSize for T            (308-327)  -> vsz, vs_sum_iter, vs_sum_exact
     blanket  impl MemSize for T                        (363-367)  -> ms
     basic_mem_size!(leaf)  incl. str, CStr, OsStr      (369-454)  -> zero3 (bulk helpers do not iterate)
     tuple_heap_size!(A..J) arity 1-10                  (456-524)  -> tup_hs / tup_bulk / tup_bulk_exact
     Wrapping<T>                                        (526-548)
     [T]                                                (550-560)
     SizedArrayFlatIterator                             (562-596)  -> flat_next, flat_len
     [T; N]                                             (598-623)
     Vec / HashMap / HashSet / BinaryHeap               (625-662)
     Box<T: ?Sized>                                     (664-688)
     Mutex / RwLock                                     (690-700)
     String CString OsString &T &mut T Option Result PhantomData Range* Path PathBuf (702-822)

   An iterator handed to a bulk helper is modelled by the list of items it yields; `make_iter` is a
   `Fn`, so calling it several times (tuples: once per component, Box: twice) yields that list again.
   An ExactSizeIterator additionally carries the number its `len()` reports, passed explicitly,
   because SizedArrayFlatIterator::size_hint *computes* it (sections * N) instead of counting.

   `sizeof` (rustc's layout) is a Section variable: the harness measures it for every type it probes. *)
Require Export LruV.Base.
Local Open Scope N_scope.

(* ------------------------------------------------------------------------------------------- *)
(* type shapes                                                                                   *)
(* ------------------------------------------------------------------------------------------- *)
Inductive rshape := RRange | RRangeFrom | RRangeTo | RRangeInclusive | RRangeToInclusive.

Inductive ty :=
| TLeaf (id : N)                 (* every Sized type implemented through basic_mem_size!: (), integers, floats, bool,
                                    char, NonZero*, Ordering, Duration, Instant, Alignment, PhantomPinned, Shutdown,
                                    RangeFull, ThreadId, the net address types, RandomState; id only names it *)
| TRef (t : ty)                  (* &T and &mut T, T possibly unsized *)
| TBox (t : ty)                  (* Box<T>, T possibly unsized: TSlice, TStr, TCStr, TOsStr, TPath *)
| TSlice (t : ty)                (* [T]   (unsized) *)
| TStr | TCStr | TOsStr | TPath  (* unsized byte-like types *)
| TArray (n : N) (t : ty)        (* [T; N], N = 0 allowed *)
| TTuple (ts : list ty)          (* (A,), (A,B), ... arity 1-10 *)
| TVec (t : ty) | TString | TCString | TOsString | TPathBuf
| TOption (t : ty) | TResult (t e : ty) | TWrapping (t : ty)
| TRange (s : rshape) (t : ty)
| TMutex (t : ty) | TRwLock (t : ty) | TPhantom
| THashMap (k v s : ty) | THashSet (t s : ty) | TBinaryHeap (t : ty).

(* values: length AND capacity wherever Rust carries both *)
Inductive value :=
| VUnit                                   (* a leaf value / PhantomData: nothing the traits look at *)
| VRef (v : value)                        (* a reference and what it points to *)
| VBox (v : value)
| VSeq (vs : list value)                  (* [T], [T;N], tuple components, range fields (start,end) *)
| VBytes (n : N)                          (* str / CStr / OsStr / Path: size_of_val = n (CStr: with the nul) *)
| VVec (cap : N) (vs : list value)        (* Vec, BinaryHeap: capacity, elements *)
| VBuf (cap len : N)                      (* String, OsString, PathBuf: capacity, length *)
| VCString (len : N)                      (* CString: length without the nul *)
| VNone | VSome (v : value) | VOk (v : value) | VErr (v : value)
| VWrap (v : value)                       (* Wrapping *)
| VLock (poisoned : bool) (v : value)     (* Mutex, RwLock *)
| VMap (buckets cap : N) (h : value) (ks vs : list value)   (* HashMap: table buckets (0 = unallocated), capacity(), hasher, keys, values *)
| VSet (buckets cap : N) (h : value) (vs : list value).     (* HashSet *)

(* projections the bulk paths apply to each yielded item *)
Definition unbox v := match v with VBox x => x | _ => VUnit end.           (* &**item *)
Definition unwrap v := match v with VWrap x => x | _ => VUnit end.         (* &item.0 *)
Definition elems v := match v with VSeq xs => xs | _ => [] end.            (* &item[..] *)
Definition tup_nth (i : nat) v := nth i (elems v) VUnit.                   (* let (A,B,..) = tuple; X *)
Definition bytes v := match v with VBytes n => n | _ => 0 end.
Definition len (A : Type) (l : list A) : N := N.of_nat (length l).
Arguments len {A} l.

(* hashbrown: bucket_mask_to_capacity, with `buckets` = bucket_mask + 1, and 0 for the unallocated singleton *)
Definition b2c (buckets : N) : N := if buckets <? 8 then buckets - 1 else buckets / 8 * 7.
Definition round_up (a m : N) : N := (a + (m - 1)) / m * m.

(* ------------------------------------------------------------------------------------------- *)
(* SizedArrayFlatIterator as written in /repo NOW (commit 38e31d2: a loop).                       *)
(* ------------------------------------------------------------------------------------------- *)
Inductive next_impl := NextLoop | NextRecursive.
(* which of the two the source has; tools/memsize_check.py re-derives this from the text of fn next on every run *)
Definition flat_impl : next_impl := NextLoop.

Section Flat.
  Context {A : Type}.
  (* one call of next(): (item, current_section', subsequent_sections', stack frames of `next` alive at the deepest point).
       loop {                                               | pre-fix body:
         if let item @ Some(_) = self.current_section.next() { return item; }         same
         match self.subsequent_sections.next() {
           Some(s) => self.current_section = s.iter(),      | Some(s) => { self.current_section = s.iter(); self.next() }
           None => return None } }                          | None => None
     NextLoop: going round the loop costs no frame.  NextRecursive: one more frame per empty section
     (no tail-call elimination is guaranteed; a debug build performs none). *)
  Fixpoint flat_next (impl : next_impl) (cur : list A) (rest : list (list A)) : option A * list A * list (list A) * N :=
    match cur with
    | x :: c => (Some x, c, rest, 1)
    | [] => match rest with
            | [] => (None, [], [], 1)
            | s :: rest' =>
                let '(r, c, q, d) := flat_next impl s rest' in
                (r, c, q, match impl with NextLoop => d | NextRecursive => 1 + d end)
            end
    end.
  Definition flat_next_depth impl cur rest : N := snd (flat_next impl cur rest).
  (* size_hint: self.current_section.len() + self.subsequent_sections.len() * N *)
  Definition flat_len (n : N) (cur : list A) (rest_len : N) : N := len cur + rest_len * n.
  (* rest_len is what subsequent_sections.len() reports (the caller's ExactSizeIterator) *)
End Flat.

Section M.
Variable sizeof : ty -> N.      (* mem::size_of::<T>() for Sized T; never consulted for unsized T *)
Variable gw : N.                (* hashbrown Group::WIDTH = alignment of the control bytes (16 with SSE2) *)

Definition sized (t : ty) : bool :=
  match t with TSlice _ | TStr | TCStr | TOsStr | TPath => false | _ => true end.

(* ValueSize::value_size: mem::size_of::<Self>() for Sized (blanket), mem::size_of_val(self) for the unsized impls *)
Definition vsz (t : ty) (v : value) : N :=
  match t with
  | TSlice t' => sizeof t' * len (elems v)
  | TStr | TCStr | TOsStr | TPath => bytes v
  | _ => sizeof t
  end.
(* value_size_sum_iter: Sized -> size_of * iterator.count(); unsized -> default: map(value_size).sum() *)
Definition vs_sum_iter (t : ty) (vs : list value) : N :=
  if sized t then sizeof t * len vs else sumN (map (vsz t) vs).
(* value_size_sum_exact_size_iter: Sized -> size_of * iterator.len(); unsized -> default: Self::value_size_sum_iter *)
Definition vs_sum_exact (t : ty) (n : N) (vs : list value) : N :=
  if sized t then sizeof t * n else vs_sum_iter t vs.

(* heap_size, heap_size_sum_iter, heap_size_sum_exact_size_iter of one type *)
Record hsf := { f_hs : value -> N; f_sum : list value -> N; f_exact : N -> list value -> N }.

(* an impl that overrides nothing: sum_iter = make_iter().map(heap_size).sum(); exact = Self::heap_size_sum_iter *)
Definition dflt (h : value -> N) : hsf :=
  let s := fun vs => sumN (map h vs) in {| f_hs := h; f_sum := s; f_exact := fun _ => s |}.
(* basic_mem_size!: all three are the constant 0, the iterator is not even built *)
Definition zero3 : hsf := {| f_hs := fun _ => 0; f_sum := fun _ => 0; f_exact := fun _ _ => 0 |}.

(* tuple_heap_size!:  0 + A.heap_size() + B.heap_size() + ... *)
Fixpoint tup_hs (i : nat) (rs : list hsf) (v : value) : N :=
  match rs with [] => 0 | r :: rs' => f_hs r (tup_nth i v) + tup_hs (S i) rs' v end.
(* 0 + A::heap_size_sum_iter(|| make_iter().map(|t| t.0)) + B::heap_size_sum_iter(|| make_iter().map(|t| t.1)) + ... *)
Fixpoint tup_bulk (i : nat) (rs : list hsf) (vs : list value) : N :=
  match rs with [] => 0 | r :: rs' => f_sum r (map (tup_nth i) vs) + tup_bulk (S i) rs' vs end.
Fixpoint tup_bulk_exact (i : nat) (rs : list hsf) (n : N) (vs : list value) : N :=
  match rs with [] => 0 | r :: rs' => f_exact r n (map (tup_nth i) vs) + tup_bulk_exact (S i) rs' n vs end.

Definition rng_hs (s : rshape) (r : hsf) (v : value) : N :=
  match s with
  | RRange | RRangeInclusive => f_hs r (tup_nth 0 v) + f_hs r (tup_nth 1 v)      (* start + end *)
  | RRangeFrom | RRangeTo | RRangeToInclusive => f_hs r (tup_nth 0 v)            (* the one bound *)
  end.

Fixpoint H (t : ty) : hsf :=
  match t with
  | TLeaf _ | TStr | TCStr | TOsStr => zero3
  | TPath | TRef _ | TPhantom => dflt (fun _ => 0)
  | TBox t' =>
      let r := H t' in
      {| f_hs := fun v => vsz t' (unbox v) + f_hs r (unbox v);                         (* T::mem_size(self.as_ref()) *)
         f_sum := fun vs => f_sum r (map unbox vs) + vs_sum_iter t' (map unbox vs);
         f_exact := fun n vs => f_exact r n (map unbox vs) + vs_sum_exact t' n (map unbox vs) |}
  | TSlice t' =>
      let r := H t' in dflt (fun v => f_exact r (len (elems v)) (elems v))             (* T::exact(|| self.iter()) *)
  | TArray n t' =>
      let r := H t' in
      let h := fun v => f_exact r (len (elems v)) (elems v) in                         (* self[..].heap_size() *)
      {| f_hs := h;
         f_sum := fun vs => sumN (map h vs);                                            (* <[T]>::heap_size_sum_iter, the default *)
         f_exact := fun m vs => f_exact r (flat_len n (@nil value) m) (concat (map elems vs)) |}
                                                                                        (* T::exact over the flat iterator *)
  | TTuple ts =>
      let rs := map H ts in
      {| f_hs := tup_hs 0 rs; f_sum := tup_bulk 0 rs; f_exact := tup_bulk_exact 0 rs |}
  | TWrapping t' =>
      let r := H t' in
      {| f_hs := fun v => f_hs r (unwrap v);
         f_sum := fun vs => f_sum r (map unwrap vs);
         f_exact := fun n vs => f_exact r n (map unwrap vs) |}
  | TVec t' =>
      let r := H t' in
      dflt (fun v => match v with
                     | VVec cap xs => f_exact r (len xs) xs + cap * sizeof t'            (* as_slice().heap_size() + capacity * size_of *)
                     | _ => 0 end)
  | TBinaryHeap t' =>
      let r := H t' in
      dflt (fun v => match v with VVec cap xs => f_exact r (len xs) xs + cap * sizeof t' | _ => 0 end)
  | THashMap k v s =>
      let rk := H k in let rv := H v in let rs := H s in
      dflt (fun x => match x with
                     | VMap _ cap h ks vs =>
                         f_hs rs h + (f_exact rk (len ks) ks + f_exact rv (len vs) vs) + cap * sizeof (TTuple [k; v])
                     | _ => 0 end)
  | THashSet t' s =>
      let r := H t' in let rs := H s in
      dflt (fun x => match x with
                     | VSet _ cap h xs => f_hs rs h + f_exact r (len xs) xs + cap * sizeof t'
                     | _ => 0 end)
  | TString | TOsString | TPathBuf => dflt (fun v => match v with VBuf cap _ => cap | _ => 0 end)   (* self.capacity() *)
  | TCString => dflt (fun v => match v with VCString l => l + 1 | _ => 0 end)                      (* as_bytes_with_nul().len() *)
  | TOption t' => let r := H t' in dflt (fun v => match v with VSome x => f_hs r x | _ => 0 end)
  | TResult t' e => let r := H t' in let re := H e in
      dflt (fun v => match v with VOk x => f_hs r x | VErr x => f_hs re x | _ => 0 end)
  | TRange s t' => let r := H t' in dflt (rng_hs s r)
  | TMutex t' | TRwLock t' =>
      let r := H t' in dflt (fun v => match v with VLock _ x => f_hs r x | _ => 0 end)  (* lock().unwrap().heap_size(); poisoned: see wt *)
  end.

Definition hs (t : ty) : value -> N := f_hs (H t).
Definition hs_sum_iter (t : ty) : list value -> N := f_sum (H t).
Definition hs_sum_exact (t : ty) : N -> list value -> N := f_exact (H t).
(* blanket MemSize: self.value_size() + self.heap_size() *)
Definition ms (t : ty) (v : value) : N := vsz t v + hs t v.

(* ------------------------------------------------------------------------------------------- *)
(* ground truth: the bytes std keeps allocated on behalf of a value                             *)
(* ------------------------------------------------------------------------------------------- *)
(* hashbrown RawTable allocation: data part rounded up to the control alignment, then buckets + Group::WIDTH control bytes *)
Definition table_bytes (entry buckets : N) : N :=
  if buckets =? 0 then 0 else round_up (buckets * entry) gw + buckets + gw.

Fixpoint sum2 (fs : list (value -> N)) (xs : list value) : N :=
  match fs, xs with f :: fs', x :: xs' => f x + sum2 fs' xs' | _, _ => 0 end.

Fixpoint AB (t : ty) : value -> N :=
  match t with
  | TLeaf _ | TStr | TCStr | TOsStr | TPath | TRef _ | TPhantom => fun _ => 0
  | TBox t' => fun v => vsz t' (unbox v) + AB t' (unbox v)
  | TSlice t' | TArray _ t' => fun v => sumN (map (AB t') (elems v))
  | TTuple ts => fun v => sum2 (map AB ts) (elems v)
  | TWrapping t' => fun v => AB t' (unwrap v)
  | TVec t' | TBinaryHeap t' =>
      fun v => match v with VVec cap xs => cap * sizeof t' + sumN (map (AB t') xs) | _ => 0 end
  | THashMap k v s =>
      fun x => match x with
               | VMap b _ h ks vs =>
                   AB s h + table_bytes (sizeof (TTuple [k; v])) b + sumN (map (AB k) ks) + sumN (map (AB v) vs)
               | _ => 0 end
  | THashSet t' s =>
      fun x => match x with
               | VSet b _ h xs => AB s h + table_bytes (sizeof t') b + sumN (map (AB t') xs)
               | _ => 0 end
  | TString | TOsString | TPathBuf => fun v => match v with VBuf cap _ => cap | _ => 0 end
  | TCString => fun v => match v with VCString l => l + 1 | _ => 0 end
  | TOption t' => fun v => match v with VSome x => AB t' x | _ => 0 end
  | TResult t' e => fun v => match v with VOk x => AB t' x | VErr x => AB e x | _ => 0 end
  | TRange s t' => fun v => sumN (map (AB t') (elems v))
  | TMutex t' | TRwLock t' => fun v => match v with VLock _ x => AB t' x | _ => 0 end
  end.
Definition alloc_bytes (t : ty) (v : value) : N := AB t v.

(* ------------------------------------------------------------------------------------------- *)
(* well-typedness: v is a possible value of type t                                              *)
(* ------------------------------------------------------------------------------------------- *)
Fixpoint all2 (fs : list (value -> bool)) (xs : list value) : bool :=
  match fs, xs with
  | [], [] => true
  | f :: fs', x :: xs' => f x && all2 fs' xs'
  | _, _ => false
  end.

Definition rshape_arity (s : rshape) : N :=
  match s with RRange | RRangeInclusive => 2 | _ => 1 end.

Fixpoint WT (t : ty) : value -> bool :=
  match t with
  | TLeaf _ | TPhantom | TRef _ => fun _ => true
  | TStr | TCStr | TOsStr | TPath => fun v => match v with VBytes _ => true | _ => false end
  | TBox t' => fun v => match v with VBox x => WT t' x | _ => false end
  | TSlice t' => fun v => match v with VSeq xs => forallb (WT t') xs | _ => false end
  | TArray n t' => fun v => match v with VSeq xs => (len xs =? n) && forallb (WT t') xs | _ => false end
  | TTuple ts => fun v => match v with VSeq xs => all2 (map WT ts) xs | _ => false end
  | TWrapping t' => fun v => match v with VWrap x => WT t' x | _ => false end
  | TVec t' | TBinaryHeap t' =>
      fun v => match v with VVec cap xs => (len xs <=? cap) && forallb (WT t') xs | _ => false end
  | THashMap k v s =>
      fun x => match x with
               | VMap b cap h ks vs =>
                   (len ks =? len vs) && (len ks <=? cap) && (cap <=? b2c b) && WT s h
                   && forallb (WT k) ks && forallb (WT v) vs
               | _ => false end
  | THashSet t' s =>
      fun x => match x with
               | VSet b cap h xs => (len xs <=? cap) && (cap <=? b2c b) && WT s h && forallb (WT t') xs
               | _ => false end
  | TString | TOsString | TPathBuf => fun v => match v with VBuf cap l => l <=? cap | _ => false end
  | TCString => fun v => match v with VCString _ => true | _ => false end
  | TOption t' => fun v => match v with VNone => true | VSome x => WT t' x | _ => false end
  | TResult t' e => fun v => match v with VOk x => WT t' x | VErr x => WT e x | _ => false end
  | TRange s t' => fun v => match v with VSeq xs => (len xs =? rshape_arity s) && forallb (WT t') xs | _ => false end
  | TMutex t' | TRwLock t' =>
      fun v => match v with VLock poisoned x => negb poisoned && WT t' x | _ => false end   (* DESIGN.md 9.4 *)
  end.
Definition wt (t : ty) (v : value) : bool := WT t v.

(* the class of C09's first sentence: every constructor except the two hash tables, at any depth *)
Fixpoint exact_class (t : ty) : bool :=
  match t with
  | THashMap _ _ _ | THashSet _ _ => false
  | TLeaf _ | TStr | TCStr | TOsStr | TPath | TPhantom | TString | TCString | TOsString | TPathBuf => true
  | TRef _ => true                               (* contributes 0 and owns nothing, whatever it points to *)
  | TBox t' | TSlice t' | TArray _ t' | TWrapping t' | TVec t' | TBinaryHeap t' | TOption t'
  | TRange _ t' | TMutex t' | TRwLock t' => exact_class t'
  | TResult t' e => exact_class t' && exact_class e
  | TTuple ts => forallb exact_class ts
  end.

End M.

(* ------------------------------------------------------------------------------------------- *)
(* evaluation support: the measured layout as a finite table (used by tools/memsize_check.py)    *)
(* ------------------------------------------------------------------------------------------- *)
Definition rshape_eqb (a b : rshape) : bool :=
  match a, b with
  | RRange, RRange | RRangeFrom, RRangeFrom | RRangeTo, RRangeTo
  | RRangeInclusive, RRangeInclusive | RRangeToInclusive, RRangeToInclusive => true
  | _, _ => false
  end.
Fixpoint ty_eqb (a b : ty) {struct a} : bool :=
  match a, b with
  | TLeaf i, TLeaf j => i =? j
  | TRef x, TRef y | TBox x, TBox y | TSlice x, TSlice y | TVec x, TVec y | TOption x, TOption y
  | TWrapping x, TWrapping y | TMutex x, TMutex y | TRwLock x, TRwLock y | TBinaryHeap x, TBinaryHeap y => ty_eqb x y
  | TStr, TStr | TCStr, TCStr | TOsStr, TOsStr | TPath, TPath | TString, TString | TCString, TCString
  | TOsString, TOsString | TPathBuf, TPathBuf | TPhantom, TPhantom => true
  | TArray n x, TArray m y => (n =? m) && ty_eqb x y
  | TTuple xs, TTuple ys =>
      (fix eql (l : list ty) (r : list ty) {struct l} : bool :=
         match l, r with
         | [], [] => true
         | x :: l', y :: r' => ty_eqb x y && eql l' r'
         | _, _ => false
         end) xs ys
  | TResult x e, TResult y f => ty_eqb x y && ty_eqb e f
  | TRange s x, TRange u y => rshape_eqb s u && ty_eqb x y
  | THashMap k v s, THashMap k' v' s' => ty_eqb k k' && ty_eqb v v' && ty_eqb s s'
  | THashSet x s, THashSet y s' => ty_eqb x y && ty_eqb s s'
  | _, _ => false
  end.
(* size_of from a measured table; a type that was not measured gets an absurd size so that it cannot go unnoticed *)
Definition unmeasured : N := 1000000007.
Fixpoint table_sizeof (tbl : list (ty * N)) (t : ty) : N :=
  match tbl with
  | [] => unmeasured
  | (u, n) :: tbl' => if ty_eqb t u then n else table_sizeof tbl' t
  end.
Definition b2n (b : bool) : N := if b then 1 else 0.

Arguments flat_next {A} impl cur rest.
