(* Layer M -- proofs about the model of mem_size.rs in MemModel.v (properties C08 and C09).
   Everything is stated for an arbitrary layout function `sizeof` and, where a hash table's allocation is
   involved, an arbitrary positive control-group width `gw`. *)
Require Import Lia.
Require Import LruV.M.MemModel.
Local Open Scope N_scope.

Arguments N.add : simpl never.
Arguments N.mul : simpl never.
Arguments N.sub : simpl never.
Arguments N.div : simpl never.
Arguments N.leb : simpl never.
Arguments N.ltb : simpl never.
Arguments N.eqb : simpl never.
Arguments N.of_nat : simpl never.

(* ------------------------------------------------------------------------------------------- *)
(* induction principle for the nested type                                                      *)
(* ------------------------------------------------------------------------------------------- *)
Lemma ty_ind' (P : ty -> Prop) :
  (forall id, P (TLeaf id)) -> (forall t, P t -> P (TRef t)) -> (forall t, P t -> P (TBox t)) ->
  (forall t, P t -> P (TSlice t)) -> P TStr -> P TCStr -> P TOsStr -> P TPath ->
  (forall n t, P t -> P (TArray n t)) -> (forall ts, Forall P ts -> P (TTuple ts)) ->
  (forall t, P t -> P (TVec t)) -> P TString -> P TCString -> P TOsString -> P TPathBuf ->
  (forall t, P t -> P (TOption t)) -> (forall t e, P t -> P e -> P (TResult t e)) ->
  (forall t, P t -> P (TWrapping t)) -> (forall s t, P t -> P (TRange s t)) ->
  (forall t, P t -> P (TMutex t)) -> (forall t, P t -> P (TRwLock t)) -> P TPhantom ->
  (forall k v s, P k -> P v -> P s -> P (THashMap k v s)) -> (forall t s, P t -> P s -> P (THashSet t s)) ->
  (forall t, P t -> P (TBinaryHeap t)) -> forall t, P t.
Proof.
  intros HLeaf HRef HBox HSlice HStr HCStr HOsStr HPath HArray HTuple HVec HString HCString HOsString HPathBuf
         HOption HResult HWrapping HRange HMutex HRwLock HPhantom HHashMap HHashSet HBinaryHeap.
  fix IH 1. intros [id|t|t|t| | | | |n t|ts|t| | | | |t|t e|t|s t|t|t| |k v s|t s|t].
  - apply HLeaf. - apply HRef, IH. - apply HBox, IH. - apply HSlice, IH.
  - exact HStr. - exact HCStr. - exact HOsStr. - exact HPath.
  - apply HArray, IH.
  - apply HTuple. induction ts as [|t ts IHts]; constructor; [apply IH|apply IHts].
  - apply HVec, IH. - exact HString. - exact HCString. - exact HOsString. - exact HPathBuf.
  - apply HOption, IH. - apply HResult; apply IH. - apply HWrapping, IH. - apply HRange, IH.
  - apply HMutex, IH. - apply HRwLock, IH. - exact HPhantom.
  - apply HHashMap; apply IH. - apply HHashSet; apply IH. - apply HBinaryHeap, IH.
Qed.

(* ------------------------------------------------------------------------------------------- *)
(* sums and lengths                                                                              *)
(* ------------------------------------------------------------------------------------------- *)
Lemma sumN_cons x l : sumN (x :: l) = x + sumN l.
Proof. reflexivity. Qed.
Lemma sumN_nil : sumN [] = 0.
Proof. reflexivity. Qed.
Lemma sumN_app a b : sumN (a ++ b) = sumN a + sumN b.
Proof. induction a as [|x a IHa]; [reflexivity|]. rewrite <- app_comm_cons, !sumN_cons, IHa. lia. Qed.
Lemma sumN_map_const {A} (c : N) (l : list A) : sumN (map (fun _ => c) l) = c * len l.
Proof.
  unfold len. induction l as [|x l IHl]; [cbn [map length]; rewrite sumN_nil; lia|].
  cbn [map length]. rewrite sumN_cons, IHl. lia.
Qed.
Lemma sumN_map_zero {A} (l : list A) : sumN (map (fun _ => 0) l) = 0.
Proof. rewrite sumN_map_const. lia. Qed.
Lemma sumN_map_add {A} (f g : A -> N) (l : list A) :
  sumN (map f l) + sumN (map g l) = sumN (map (fun x => f x + g x) l).
Proof. induction l as [|x l IHl]; [reflexivity|]. cbn [map]. rewrite !sumN_cons, <- IHl. lia. Qed.
Lemma sumN_map_ext_in {A} (f g : A -> N) (l : list A) :
  (forall x, In x l -> f x = g x) -> sumN (map f l) = sumN (map g l).
Proof. intros E. f_equal. apply map_ext_in, E. Qed.
Lemma sumN_map_le {A} (f g : A -> N) (l : list A) :
  (forall x, In x l -> f x <= g x) -> sumN (map f l) <= sumN (map g l).
Proof.
  induction l as [|x l IHl]; intros E; [cbn [map]; lia|]. cbn [map]. rewrite !sumN_cons.
  specialize (E x (or_introl eq_refl)) as E1. specialize (IHl (fun y Hy => E y (or_intror Hy))). lia.
Qed.
Lemma sumN_concat {A} (f : A -> N) (ls : list (list A)) :
  sumN (map f (concat ls)) = sumN (map (fun l => sumN (map f l)) ls).
Proof.
  induction ls as [|l ls IHl]; [reflexivity|]. cbn [concat map]. rewrite map_app, sumN_app, sumN_cons, IHl. reflexivity.
Qed.

Lemma len_nil {A} : len (@nil A) = 0.
Proof. reflexivity. Qed.
Lemma len_cons {A} (x : A) l : len (x :: l) = 1 + len l.
Proof. unfold len. cbn [length]. lia. Qed.
Lemma len_map {A B} (f : A -> B) l : len (map f l) = len l.
Proof. unfold len. rewrite map_length. reflexivity. Qed.
Lemma len_app {A} (a b : list A) : len (a ++ b) = len a + len b.
Proof. unfold len. rewrite app_length. lia. Qed.
Lemma len_concat_const {A} (n : N) (ls : list (list A)) :
  (forall l, In l ls -> len l = n) -> len (concat ls) = len ls * n.
Proof.
  induction ls as [|l ls IHl]; intros E; [unfold len; cbn [concat length]; lia|].
  cbn [concat]. rewrite len_app, len_cons, IHl, (E l (or_introl eq_refl)); [lia|].
  intros l' Hl'. apply E. right. exact Hl'.
Qed.

Lemma forallb_In {A} (p : A -> bool) l : forallb p l = true -> forall x, In x l -> p x = true.
Proof. intros E. apply forallb_forall, E. Qed.
Lemma forallb_map {A B} (p : B -> bool) (f : A -> B) l : forallb p (map f l) = forallb (fun x => p (f x)) l.
Proof. induction l as [|x l IHl]; [reflexivity|]. cbn [map forallb]. rewrite IHl. reflexivity. Qed.
Lemma forallb_impl {A} (p q : A -> bool) l :
  (forall x, p x = true -> q x = true) -> forallb p l = true -> forallb q l = true.
Proof.
  intros I. induction l as [|x l IHl]; [reflexivity|]. cbn [forallb]. rewrite !andb_true_iff. intros [a b]. auto.
Qed.
Lemma forallb_concat {A} (p : A -> bool) (ls : list (list A)) :
  forallb (forallb p) ls = true -> forallb p (concat ls) = true.
Proof.
  induction ls as [|l ls IHl]; [reflexivity|]. cbn [forallb concat]. rewrite forallb_app, !andb_true_iff. intros [a b]. auto.
Qed.

(* ------------------------------------------------------------------------------------------- *)
(* the flat iterator                                                                             *)
(* ------------------------------------------------------------------------------------------- *)
Section FlatProps.
  Context {A : Type}.
  (* what one call of next() yields is the head of the concatenation, whatever the implementation style *)
  Lemma flat_next_spec impl : forall (rest : list (list A)) (cur : list A),
    match flat_next impl cur rest with
    | (Some x, c, q, _) => cur ++ concat rest = x :: c ++ concat q
    | (None, c, q, _) => cur ++ concat rest = [] /\ c = [] /\ q = []
    end.
  Proof.
    induction rest as [|s rest IH]; intros [|x c]; cbn [flat_next concat app]; auto.
    specialize (IH s). destruct (flat_next impl s rest) as [[[r c'] q] d]. destruct r; exact IH.
  Qed.
  (* the loop: one frame, however many empty sections are skipped *)
  Lemma flat_depth_loop : forall (rest : list (list A)) (cur : list A), flat_next_depth NextLoop cur rest = 1.
  Proof.
    unfold flat_next_depth. induction rest as [|s rest IH]; intros [|x c]; cbn [flat_next snd]; auto.
    specialize (IH s). destruct (flat_next NextLoop s rest) as [[[r c'] q] d]. exact IH.
  Qed.
  (* the pre-fix recursion: one frame per consecutive empty section -- unbounded (kept as the refutation of the old code) *)
  Lemma flat_depth_recursive : forall (k : nat) (tail : list (list A)),
    flat_next_depth NextRecursive [] (repeat [] k ++ tail) = N.of_nat k + flat_next_depth NextRecursive [] tail.
  Proof.
    unfold flat_next_depth. induction k as [|k IH]; intros tail; [cbn [repeat app]; lia|].
    cbn [repeat app flat_next]. specialize (IH tail).
    destruct (flat_next NextRecursive [] (repeat [] k ++ tail)) as [[[r c'] q] d]. cbn [snd] in *. rewrite IH. lia.
  Qed.
  (* size_hint is the true number of remaining items when every section has N items *)
  Lemma flat_len_ok (n : N) (cur : list A) (rest : list (list A)) :
    (forall s, In s rest -> len s = n) -> flat_len n cur (len rest) = len (cur ++ concat rest).
  Proof. intros E. unfold flat_len. rewrite len_app, (len_concat_const n); auto. Qed.
End FlatProps.

(* ------------------------------------------------------------------------------------------- *)
Section P.
Variable sizeof : ty -> N.
Variable gw : N.

Notation Hf := (MemModel.H sizeof).
Notation hs := (hs sizeof).
Notation hs_sum_iter := (hs_sum_iter sizeof).
Notation hs_sum_exact := (hs_sum_exact sizeof).
Notation vsz := (vsz sizeof).
Notation vs_sum_iter := (vs_sum_iter sizeof).
Notation vs_sum_exact := (vs_sum_exact sizeof).
Notation ms := (ms sizeof).
Notation AB := (AB sizeof gw).
Notation alloc_bytes := (alloc_bytes sizeof gw).
Notation table_bytes := (table_bytes gw).

(* ---------------- value-size bulk helpers ---------------- *)
Lemma vs_sum_iter_ok t vs : vs_sum_iter t vs = sumN (map (vsz t) vs).
Proof.
  unfold MemModel.vs_sum_iter. destruct (sized t) eqn:S; [|reflexivity].
  rewrite <- (sumN_map_const (sizeof t) vs). apply sumN_map_ext_in. intros v _.
  destruct t; try reflexivity; discriminate S.
Qed.
Lemma vs_sum_exact_ok t vs : vs_sum_exact t (len vs) vs = sumN (map (vsz t) vs).
Proof.
  unfold MemModel.vs_sum_exact. destruct (sized t) eqn:S; [|apply vs_sum_iter_ok].
  rewrite <- vs_sum_iter_ok. unfold MemModel.vs_sum_iter. rewrite S. reflexivity.
Qed.

(* ---------------- heap-size bulk helpers ---------------- *)
Lemma tup_bulk_ok (rs : list hsf) :
  Forall (fun r => forall vs, f_sum r vs = sumN (map (f_hs r) vs)) rs ->
  forall i vs, tup_bulk i rs vs = sumN (map (tup_hs i rs) vs).
Proof.
  induction 1 as [|r rs Hr _ IH]; intros i vs; cbn [tup_bulk tup_hs]; [rewrite sumN_map_zero; reflexivity|].
  rewrite Hr, map_map, IH, sumN_map_add. reflexivity.
Qed.

Theorem bulk_sum_ok : forall t vs, hs_sum_iter t vs = sumN (map (hs t) vs).
Proof.
  unfold MemModel.hs_sum_iter, MemModel.hs.
  induction t using ty_ind'; intros vs; cbn [MemModel.H dflt zero3 f_hs f_sum]; try reflexivity;
    try (rewrite sumN_map_zero; reflexivity).
  - (* Box *) rewrite IHt, vs_sum_iter_ok, !map_map, sumN_map_add. apply sumN_map_ext_in. intros; lia.
  - (* tuple *) apply tup_bulk_ok. rewrite Forall_map. exact H.
  - (* Wrapping *) rewrite IHt, map_map. reflexivity.
Qed.

Lemma tup_bulk_exact_ok (rs : list hsf) (ws : list (value -> bool)) :
  Forall2 (fun r w => forall vs, forallb w vs = true -> f_exact r (len vs) vs = sumN (map (f_hs r) vs)) rs ws ->
  forall i vs, forallb (fun v => all2 ws (skipn i (elems v))) vs = true ->
  tup_bulk_exact i rs (len vs) vs = sumN (map (tup_hs i rs) vs).
Proof.
  induction 1 as [|r w rs ws Hr _ IH]; intros i vs W; cbn [tup_bulk_exact tup_hs]; [rewrite sumN_map_zero; reflexivity|].
  rewrite <- (len_map (tup_nth i) vs) at 1. rewrite Hr, map_map, IH, sumN_map_add; [reflexivity| |].
  - revert W. apply forallb_impl. intros v. unfold tup_nth.
    generalize (elems v). clear. intros l. revert l. induction i as [|i IHi]; intros [|x l]; cbn [skipn all2]; try discriminate.
    + rewrite andb_true_iff. intros [_ E]. destruct l; exact E.
    + intros E. specialize (IHi l E). destruct l; exact IHi.
  - rewrite forallb_map. revert W. apply forallb_impl. intros v. unfold tup_nth.
    generalize (elems v). clear. intros l. revert l. induction i as [|i IHi]; intros [|x l]; cbn [skipn all2 nth]; try discriminate.
    + rewrite andb_true_iff. intros [E _]. exact E.
    + intros E. apply IHi, E.
Qed.

Theorem bulk_exact_ok : forall t vs, forallb (wt t) vs = true -> hs_sum_exact t (len vs) vs = sumN (map (hs t) vs).
Proof.
  unfold MemModel.hs_sum_exact, MemModel.hs, wt.
  induction t using ty_ind'; intros vs W; cbn [MemModel.H dflt zero3 f_hs f_exact]; try reflexivity;
    try (rewrite sumN_map_zero; reflexivity).
  - (* Box *)
    assert (W' : forallb (WT t) (map unbox vs) = true).
    { rewrite forallb_map. revert W. apply forallb_impl. intros [] E; cbn [WT] in E; try discriminate. exact E. }
    rewrite <- (len_map unbox vs). rewrite IHt, vs_sum_exact_ok, !map_map, sumN_map_add by exact W'.
    apply sumN_map_ext_in. intros; lia.
  - (* array: the flat iterator *)
    assert (L : forall s, In s (map elems vs) -> len s = n /\ forallb (WT t) s = true).
    { intros s Hs. apply in_map_iff in Hs as [v [<- Hv]]. apply (forallb_In _ _ W) in Hv.
      destruct v; cbn [WT] in Hv; try discriminate. apply andb_true_iff in Hv as [E1 E2]. apply N.eqb_eq in E1. auto. }
    unfold flat_len. rewrite len_nil, N.add_0_l, <- (len_map elems vs), <- (len_concat_const n) by (intros s Hs; apply L, Hs).
    rewrite IHt.
    + rewrite sumN_concat, map_map. apply sumN_map_ext_in. intros v Hv. symmetry. apply IHt.
      apply (L (elems v)). apply in_map, Hv.
    + apply forallb_concat. apply forallb_forall. intros s Hs. apply L, Hs.
  - (* tuple *)
    apply (tup_bulk_exact_ok (map Hf ts) (map WT ts)).
    + clear W. induction H as [|t ts Ht _ IH]; cbn [map]; constructor; [exact Ht|exact IH].
    + revert W. apply forallb_impl. intros [] E; cbn [WT] in E; try discriminate. exact E.
  - (* Wrapping *)
    rewrite <- (len_map unwrap vs). rewrite IHt, map_map; [reflexivity|].
    rewrite forallb_map. revert W. apply forallb_impl. intros [] E; cbn [WT] in E; try discriminate. exact E.
Qed.

(* C08, bulk helpers: all four return exactly the element-wise sum *)
Theorem C08_bulk : forall t vs,
  hs_sum_iter t vs = sumN (map (hs t) vs) /\
  vs_sum_iter t vs = sumN (map (vsz t) vs) /\
  vs_sum_exact t (len vs) vs = sumN (map (vsz t) vs) /\
  (forallb (wt t) vs = true -> hs_sum_exact t (len vs) vs = sumN (map (hs t) vs)).
Proof.
  intros t vs. split; [apply bulk_sum_ok|]. split; [apply vs_sum_iter_ok|]. split; [apply vs_sum_exact_ok|apply bulk_exact_ok].
Qed.

(* C08, first sentence *)
Theorem C08_mem : forall t v, ms t v = vsz t v + hs t v.
Proof. reflexivity. Qed.

(* ---------------- container and wrapper equations (through the bulk path the code takes) ---------------- *)
Lemma slice_hs t xs : forallb (wt t) xs = true -> hs_sum_exact t (len xs) xs = sumN (map (hs t) xs).
Proof. apply bulk_exact_ok. Qed.

Theorem hs_vec t cap xs : forallb (wt t) xs = true ->
  hs (TVec t) (VVec cap xs) = cap * sizeof t + sumN (map (hs t) xs).
Proof. intros W. unfold MemModel.hs at 1. cbn [MemModel.H dflt f_hs]. fold (hs_sum_exact t). rewrite slice_hs by exact W. lia. Qed.
Theorem hs_binary_heap t cap xs : forallb (wt t) xs = true ->
  hs (TBinaryHeap t) (VVec cap xs) = cap * sizeof t + sumN (map (hs t) xs).
Proof. intros W. unfold MemModel.hs at 1. cbn [MemModel.H dflt f_hs]. fold (hs_sum_exact t). rewrite slice_hs by exact W. lia. Qed.
Theorem hs_hash_map k v s b cap h ks vs : forallb (wt k) ks = true -> forallb (wt v) vs = true ->
  hs (THashMap k v s) (VMap b cap h ks vs)
  = cap * sizeof (TTuple [k; v]) + (sumN (map (hs k) ks) + sumN (map (hs v) vs)) + hs s h.
Proof.
  intros Wk Wv. unfold MemModel.hs at 1. cbn [MemModel.H dflt f_hs]. fold (hs_sum_exact k) (hs_sum_exact v) (hs s h).
  rewrite !slice_hs by assumption. lia.
Qed.
Theorem hs_hash_set t s b cap h xs : forallb (wt t) xs = true ->
  hs (THashSet t s) (VSet b cap h xs) = cap * sizeof t + sumN (map (hs t) xs) + hs s h.
Proof.
  intros W. unfold MemModel.hs at 1. cbn [MemModel.H dflt f_hs]. fold (hs_sum_exact t) (hs s h). rewrite slice_hs by exact W. lia.
Qed.
Theorem hs_slice t xs : forallb (wt t) xs = true -> hs (TSlice t) (VSeq xs) = sumN (map (hs t) xs).
Proof. intros W. unfold MemModel.hs at 1. cbn [MemModel.H dflt f_hs elems]. apply slice_hs, W. Qed.
Theorem hs_array n t xs : forallb (wt t) xs = true -> hs (TArray n t) (VSeq xs) = sumN (map (hs t) xs).
Proof. intros W. unfold MemModel.hs at 1. cbn [MemModel.H f_hs elems]. apply slice_hs, W. Qed.
Theorem hs_box t x : hs (TBox t) (VBox x) = ms t x.
Proof. reflexivity. Qed.
Theorem hs_option t : hs (TOption t) VNone = 0 /\ forall x, hs (TOption t) (VSome x) = hs t x.
Proof. split; reflexivity. Qed.
Theorem hs_result t e x : hs (TResult t e) (VOk x) = hs t x /\ hs (TResult t e) (VErr x) = hs e x.
Proof. split; reflexivity. Qed.
Theorem hs_wrapping t x : hs (TWrapping t) (VWrap x) = hs t x.
Proof. reflexivity. Qed.
Theorem hs_mutex t p x : hs (TMutex t) (VLock p x) = hs t x /\ hs (TRwLock t) (VLock p x) = hs t x.
Proof. split; reflexivity. Qed.
Theorem hs_range2 s t a b : rshape_arity s = 2 -> hs (TRange s t) (VSeq [a; b]) = hs t a + hs t b.
Proof. destruct s; cbn [rshape_arity]; intros E; try discriminate E; reflexivity. Qed.
Theorem hs_range1 s t a : rshape_arity s = 1 -> hs (TRange s t) (VSeq [a]) = hs t a.
Proof. destruct s; cbn [rshape_arity]; intros E; try discriminate E; reflexivity. Qed.

Lemma tup_hs_shift rs : forall i x xs, tup_hs (S i) rs (VSeq (x :: xs)) = tup_hs i rs (VSeq xs).
Proof. induction rs as [|r rs IH]; intros i x xs; cbn [tup_hs]; [reflexivity|]. rewrite IH. reflexivity. Qed.
Lemma tup_hs_sum2 ts : forall xs, tup_hs 0 (map Hf ts) (VSeq xs) = sum2 (map hs ts) xs \/ length xs <> length ts.
Proof.
  induction ts as [|t ts IH]; intros [|x xs]; cbn [map tup_hs sum2 length]; auto.
  destruct (IH xs) as [E|E]; [left|right; congruence]. rewrite tup_hs_shift, E. reflexivity.
Qed.
Lemma all2_length fs : forall xs, all2 fs xs = true -> length xs = length fs.
Proof.
  induction fs as [|f fs IH]; intros [|x xs]; cbn [all2 length]; try discriminate; auto.
  rewrite andb_true_iff. intros [_ E]. f_equal. apply IH, E.
Qed.
(* a tuple's heap size is the sum of its components' *)
Theorem hs_tuple ts xs : length xs = length ts -> hs (TTuple ts) (VSeq xs) = sum2 (map hs ts) xs.
Proof. intros L. destruct (tup_hs_sum2 ts xs) as [E|E]; [exact E|contradiction]. Qed.

Theorem C08_container :
  (forall t cap xs, forallb (wt t) xs = true -> hs (TVec t) (VVec cap xs) = cap * sizeof t + sumN (map (hs t) xs)) /\
  (forall t cap xs, forallb (wt t) xs = true -> hs (TBinaryHeap t) (VVec cap xs) = cap * sizeof t + sumN (map (hs t) xs)) /\
  (forall k v s b cap h ks vs, forallb (wt k) ks = true -> forallb (wt v) vs = true ->
     hs (THashMap k v s) (VMap b cap h ks vs)
     = cap * sizeof (TTuple [k; v]) + (sumN (map (hs k) ks) + sumN (map (hs v) vs)) + hs s h) /\
  (forall t s b cap h xs, forallb (wt t) xs = true ->
     hs (THashSet t s) (VSet b cap h xs) = cap * sizeof t + sumN (map (hs t) xs) + hs s h) /\
  (forall t xs, forallb (wt t) xs = true -> hs (TSlice t) (VSeq xs) = sumN (map (hs t) xs)) /\
  (forall cap l, hs TString (VBuf cap l) = cap /\ hs TOsString (VBuf cap l) = cap /\ hs TPathBuf (VBuf cap l) = cap) /\
  (forall l, hs TCString (VCString l) = l + 1).
Proof.
  split; [exact hs_vec|]. split; [exact hs_binary_heap|]. split; [exact hs_hash_map|]. split; [exact hs_hash_set|].
  split; [exact hs_slice|]. split; [intros; repeat split|reflexivity].
Qed.

Theorem C08_wrapper :
  (forall t x, hs (TBox t) (VBox x) = vsz t x + hs t x) /\
  (forall t, hs (TOption t) VNone = 0) /\ (forall t x, hs (TOption t) (VSome x) = hs t x) /\
  (forall t e x, hs (TResult t e) (VOk x) = hs t x) /\ (forall t e x, hs (TResult t e) (VErr x) = hs e x) /\
  (forall ts xs, length xs = length ts -> hs (TTuple ts) (VSeq xs) = sum2 (map hs ts) xs) /\
  (forall n t xs, forallb (wt t) xs = true -> hs (TArray n t) (VSeq xs) = sumN (map (hs t) xs)) /\
  (forall t x, hs (TWrapping t) (VWrap x) = hs t x) /\
  (forall s t a b, rshape_arity s = 2 -> hs (TRange s t) (VSeq [a; b]) = hs t a + hs t b) /\
  (forall s t a, rshape_arity s = 1 -> hs (TRange s t) (VSeq [a]) = hs t a) /\
  (forall t p x, hs (TMutex t) (VLock p x) = hs t x) /\ (forall t p x, hs (TRwLock t) (VLock p x) = hs t x).
Proof.
  repeat split; try reflexivity.
  - exact hs_tuple. - exact hs_array. - exact hs_range2. - exact hs_range1.
Qed.

(* C08, stack clause: as written (flat_impl), one call of next() never has more than one frame of itself alive *)
Theorem C08_depth : forall (A : Type) (cur : list A) (rest : list (list A)), flat_next_depth flat_impl cur rest = 1.
Proof. intros. apply flat_depth_loop. Qed.
(* ... in particular across any number k of empty sections, where the recursive body would need k + 1 frames *)
Theorem C08_depth_empty_sections : forall (A : Type) (k : nat),
  flat_next_depth flat_impl (@nil A) (repeat [] k) = 1 /\
  flat_next_depth NextRecursive (@nil A) (repeat [] k) = N.of_nat k + 1.
Proof.
  intros A k. split; [apply flat_depth_loop|].
  rewrite <- (app_nil_r (repeat [] k)), flat_depth_recursive. reflexivity.
Qed.

(* ------------------------------------------------------------------------------------------- *)
(* C09                                                                                          *)
(* ------------------------------------------------------------------------------------------- *)
Hypothesis gw_pos : 0 < gw.

Lemma b2c_le b : b2c b <= b.
Proof.
  unfold b2c. destruct (b <? 8); [lia|].
  pose proof (N.mul_div_le b 8). lia.
Qed.
Lemma round_up_ge a : a <= round_up a gw.
Proof.
  unfold round_up. pose proof (N.div_mod (a + (gw - 1)) gw) as D. pose proof (N.mod_lt (a + (gw - 1)) gw) as M.
  assert (gw <> 0) as NZ by lia. specialize (D NZ). specialize (M NZ). nia.
Qed.
Lemma table_bytes_ge entry b cap : cap <= b2c b -> cap * entry <= table_bytes entry b.
Proof.
  intros C. pose proof (b2c_le b). unfold MemModel.table_bytes. destruct (b =? 0) eqn:E.
  - apply N.eqb_eq in E. subst b. change (b2c 0) with 0 in C. assert (cap = 0) by lia. subst. lia.
  - pose proof (round_up_ge (b * entry)). assert (cap * entry <= b * entry) by nia. lia.
Qed.

Lemma sum2_rel (P : ty -> Prop) (f g : ty -> value -> N) (w : ty -> value -> bool) (R : N -> N -> Prop) ts :
  R 0 0 -> (forall a b c d, R a b -> R c d -> R (a + c) (b + d)) ->
  Forall (fun t => forall v, w t v = true -> R (f t v) (g t v)) ts ->
  forall xs, all2 (map w ts) xs = true -> R (sum2 (map f ts) xs) (sum2 (map g ts) xs).
Proof.
  intros R0 Radd F. induction F as [|t ts Ht _ IH]; intros [|x xs]; cbn [map all2 sum2]; try discriminate; auto.
  rewrite andb_true_iff. intros [W1 W2]. apply Radd; auto.
Qed.

(* main induction: under well-typedness heap_size never exceeds the allocation, and is equal to it on the exact class *)
Lemma hs_alloc_rel : forall t v, wt t v = true ->
  hs t v <= alloc_bytes t v /\ (exact_class t = true -> hs t v = alloc_bytes t v).
Proof.
  unfold wt, MemModel.alloc_bytes.
  induction t using ty_ind'; intros x W.
  all: try (split; [apply N.le_refl|intros _; reflexivity]).   (* leaves, references, PhantomData, String, CString, OsString, PathBuf *)
  all: destruct x; cbn [WT] in W; try discriminate W.
  - (* Box *)
    destruct (IHt x W) as [L E]. rewrite hs_box. unfold MemModel.ms. cbn [MemModel.AB unbox exact_class]. split; [lia|].
    intros C. rewrite (E C). reflexivity.
  - (* slice *)
    rewrite hs_slice by exact W. cbn [MemModel.AB elems exact_class]. split.
    + apply sumN_map_le. intros y Hy. apply IHt, (forallb_In _ _ W), Hy.
    + intros C. apply sumN_map_ext_in. intros y Hy. apply IHt; [apply (forallb_In _ _ W), Hy|exact C].
  - (* array *)
    apply andb_true_iff in W as [_ W]. rewrite hs_array by exact W. cbn [MemModel.AB elems exact_class]. split.
    + apply sumN_map_le. intros y Hy. apply IHt, (forallb_In _ _ W), Hy.
    + intros C. apply sumN_map_ext_in. intros y Hy. apply IHt; [apply (forallb_In _ _ W), Hy|exact C].
  - (* tuple *)
    rewrite hs_tuple by (rewrite (all2_length _ _ W), map_length; reflexivity).
    cbn [MemModel.AB elems exact_class]. split.
    + apply (sum2_rel (fun _ => True) hs (MemModel.AB sizeof gw) WT N.le); [lia|intros; lia| |exact W].
      revert H. apply Forall_impl. intros t Ht v Wv. apply Ht, Wv.
    + intros C. apply (sum2_rel (fun _ => True) hs (MemModel.AB sizeof gw) WT eq); [reflexivity|intros; subst; reflexivity| |exact W].
      rewrite Forall_forall in H |- *. intros t Ht v Wv. apply H; [exact Ht|exact Wv|].
      apply (forallb_In _ _ C), Ht.
  - (* Vec *)
    apply andb_true_iff in W as [_ W]. rewrite hs_vec by exact W. cbn [MemModel.AB exact_class]. split.
    + apply N.add_le_mono_l, sumN_map_le. intros y Hy. apply IHt, (forallb_In _ _ W), Hy.
    + intros C. f_equal. apply sumN_map_ext_in. intros y Hy. apply IHt; [apply (forallb_In _ _ W), Hy|exact C].
  - (* Option: None *) split; [apply N.le_refl|intros _; reflexivity].
  - (* Option: Some *) exact (IHt x W).
  - (* Result: Ok *)
    destruct (IHt1 x W) as [L E]. split; [exact L|]. cbn [exact_class]. rewrite andb_true_iff. intros [C _]. exact (E C).
  - (* Result: Err *)
    destruct (IHt2 x W) as [L E]. split; [exact L|]. cbn [exact_class]. rewrite andb_true_iff. intros [_ C]. exact (E C).
  - (* Wrapping *) exact (IHt x W).
  - (* ranges *)
    apply andb_true_iff in W as [A W]. apply N.eqb_eq in A.
    assert (G : hs (TRange s t) (VSeq vs) = sumN (map (hs t) vs)).
    { destruct s; cbn [rshape_arity] in A; destruct vs as [|a [|b [|c vs]]]; unfold len in A; cbn [length] in A; try lia;
        unfold MemModel.hs; cbn [MemModel.H dflt f_hs rng_hs tup_nth elems nth map]; rewrite ?sumN_cons, ?sumN_nil; lia. }
    rewrite G. cbn [MemModel.AB elems exact_class]. split.
    + apply sumN_map_le. intros y Hy. apply IHt, (forallb_In _ _ W), Hy.
    + intros C. apply sumN_map_ext_in. intros y Hy. apply IHt; [apply (forallb_In _ _ W), Hy|exact C].
  - (* Mutex *) apply andb_true_iff in W as [_ W]. exact (IHt x W).
  - (* RwLock *) apply andb_true_iff in W as [_ W]. exact (IHt x W).
  - (* HashMap: only the upper bound, it is outside the exact class *)
    repeat (apply andb_true_iff in W as [W ?]).
    rewrite hs_hash_map by assumption. cbn [MemModel.AB exact_class]. split; [|discriminate].
    match goal with HC : (cap <=? b2c buckets) = true |- _ => apply N.leb_le in HC; pose proof (table_bytes_ge (sizeof (TTuple [t1; t2])) _ _ HC) end.
    assert (hs t3 x <= MemModel.AB sizeof gw t3 x) by (apply IHt3; assumption).
    assert (sumN (map (hs t1) ks) <= sumN (map (MemModel.AB sizeof gw t1) ks)).
    { apply sumN_map_le. intros y Hy. apply IHt1. eapply forallb_In; eassumption. }
    assert (sumN (map (hs t2) vs) <= sumN (map (MemModel.AB sizeof gw t2) vs)).
    { apply sumN_map_le. intros y Hy. apply IHt2. eapply forallb_In; eassumption. }
    lia.
  - (* HashSet *)
    repeat (apply andb_true_iff in W as [W ?]).
    rewrite hs_hash_set by assumption. cbn [MemModel.AB exact_class]. split; [|discriminate].
    match goal with HC : (cap <=? b2c buckets) = true |- _ => apply N.leb_le in HC; pose proof (table_bytes_ge (sizeof t1) _ _ HC) end.
    assert (hs t2 x <= MemModel.AB sizeof gw t2 x) by (apply IHt2; assumption).
    assert (sumN (map (hs t1) vs) <= sumN (map (MemModel.AB sizeof gw t1) vs)).
    { apply sumN_map_le. intros y Hy. apply IHt1. eapply forallb_In; eassumption. }
    lia.
  - (* BinaryHeap *)
    apply andb_true_iff in W as [_ W]. rewrite hs_binary_heap by exact W. cbn [MemModel.AB exact_class]. split.
    + apply N.add_le_mono_l, sumN_map_le. intros y Hy. apply IHt, (forallb_In _ _ W), Hy.
    + intros C. f_equal. apply sumN_map_ext_in. intros y Hy. apply IHt; [apply (forallb_In _ _ W), Hy|exact C].
Qed.

(* C09, first sentence: on the exact class heap_size IS the allocation, at every nesting, for every len <= cap *)
Theorem C09_exact : forall t v, exact_class t = true -> wt t v = true -> hs t v = alloc_bytes t v.
Proof. intros t v C W. apply (hs_alloc_rel t v W), C. Qed.

(* for every type, hash tables included: never more than the allocation *)
Theorem C09_upper : forall t v, wt t v = true -> hs t v <= alloc_bytes t v.
Proof. intros t v W. apply (hs_alloc_rel t v W). Qed.

(* C09, hash tables: at least capacity x entry size + the elements' own heap sizes, at most the allocation *)
Theorem C09_map : forall k v s b cap h ks vs, wt (THashMap k v s) (VMap b cap h ks vs) = true ->
  cap * sizeof (TTuple [k; v]) + sumN (map (hs k) ks) + sumN (map (hs v) vs) <= hs (THashMap k v s) (VMap b cap h ks vs) /\
  hs (THashMap k v s) (VMap b cap h ks vs) <= alloc_bytes (THashMap k v s) (VMap b cap h ks vs).
Proof.
  intros k v s b cap h ks vs W. split; [|apply C09_upper, W].
  unfold wt in W. cbn [WT] in W. repeat (apply andb_true_iff in W as [W ?]).
  rewrite hs_hash_map by assumption. lia.
Qed.
Theorem C09_set : forall t s b cap h xs, wt (THashSet t s) (VSet b cap h xs) = true ->
  cap * sizeof t + sumN (map (hs t) xs) <= hs (THashSet t s) (VSet b cap h xs) /\
  hs (THashSet t s) (VSet b cap h xs) <= alloc_bytes (THashSet t s) (VSet b cap h xs).
Proof.
  intros t s b cap h xs W. split; [|apply C09_upper, W].
  unfold wt in W. cbn [WT] in W. repeat (apply andb_true_iff in W as [W ?]).
  rewrite hs_hash_set by assumption. lia.
Qed.

End P.

(* C09, last clause: a borrowed reference contributes 0, alone and through every bulk helper, and owns nothing *)
Theorem C09_ref : forall sizeof gw t v vs n,
  hs sizeof (TRef t) v = 0 /\ hs_sum_iter sizeof (TRef t) vs = 0 /\ hs_sum_exact sizeof (TRef t) n vs = 0 /\
  alloc_bytes sizeof gw (TRef t) v = 0.
Proof.
  intros. unfold hs, hs_sum_iter, hs_sum_exact, alloc_bytes. cbn [H dflt f_hs f_sum f_exact AB].
  rewrite sumN_map_zero. repeat split; reflexivity.
Qed.

(* ------------------------------------------------------------------------------------------- *)
(* the evaluation support is sound: a size looked up in a measured table is the size measured for  *)
(* exactly that type                                                                             *)
(* ------------------------------------------------------------------------------------------- *)
Lemma ty_eqb_eq : forall a b, ty_eqb a b = true -> a = b.
Proof.
  induction a using ty_ind'; intros b E; destruct b; cbn [ty_eqb] in E; try discriminate E;
    repeat match goal with HH : _ && _ = true |- _ => apply andb_true_iff in HH as [? ?] end;
    repeat match goal with HH : (_ =? _) = true |- _ => apply N.eqb_eq in HH; subst end;
    try reflexivity;
    try (f_equal; auto; fail).
  - (* tuple *)
    f_equal. revert ts0 E. induction H as [|t ts Ht _ IH]; intros [|u us] E; try discriminate E; [reflexivity|].
    apply andb_true_iff in E as [E1 E2]. f_equal; [apply Ht, E1|apply IH, E2].
  - (* range *)
    f_equal; auto. destruct s, s0; try reflexivity; discriminate.
Qed.
Lemma table_sizeof_sound : forall tbl t, table_sizeof tbl t = unmeasured \/ In (t, table_sizeof tbl t) tbl.
Proof.
  induction tbl as [|[u n] tbl IH]; intros t; cbn [table_sizeof]; [left; reflexivity|].
  destruct (ty_eqb t u) eqn:E.
  - right. left. apply ty_eqb_eq in E. subst. reflexivity.
  - destruct (IH t) as [U|I]; [left; exact U|right; right; exact I].
Qed.
