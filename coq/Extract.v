(* Extraction of the executable models for the correspondence check. ExtrOcamlBasic only:
   bool, option, unit, prod, list, sumbool, sumor map to OCaml's; N, positive, nat stay inductive. *)
From Coq Require Import Extraction ExtrOcamlBasic.
Require Import LruV.A.ModelA LruV.A.MonitorsA LruV.A.PanicA LruV.B.RiCheck LruV.B.OpsB LruV.B.StepB LruV.B.CloneB LruV.B.PanicB.
Extraction Language OCaml.

Extraction "../ocaml/model.ml" stepA new_cache capacity len fullcap b2c do_clone do_drop do_into_iter pinned fixed
  c01_mon c02_mon c03_mon c04_nodup_mon c06_mon c13_mon c20_mon ri_check t_alloc panic_points clone_pts b_touch b_remove b_insert_new b_moves b_set_size b_reset b_removes b_links upd stepB absB bB_clone bB_into_iter bB_drop bpoints
  N.add N.mul N.div_eucl N.of_nat N.eqb N.testbit.
