(* C09 -- heap_size equals what the allocator holds for owned buffers; hash tables are bounded; references are 0.
   Statements only; the model is M/MemModel.v (alloc_bytes = what std keeps allocated, validated against a counting
   global allocator on every run), the proofs are in M/MemProps.v. *)
Require Import LruV.M.MemModel LruV.M.MemProps.
Local Open Scope N_scope.

(* every type built without HashMap / HashSet -- String, Vec, Box of sized / slice / str / CStr / Path, BinaryHeap,
   CString, OsString, PathBuf, nested through tuples, arrays, Option, Result, Wrapping, ranges, Mutex, RwLock --
   and every value of it, i.e. every relation length <= capacity at every level *)
Theorem C09_exact : forall (sizeof : ty -> N) (gw : N), 0 < gw -> forall (t : ty) (v : value),
  exact_class t = true -> wt t v = true -> hs sizeof t v = alloc_bytes sizeof gw t v.
Proof. exact MemProps.C09_exact. Qed.

(* never an over-estimate, for any type at all *)
Theorem C09_upper : forall (sizeof : ty -> N) (gw : N), 0 < gw -> forall (t : ty) (v : value),
  wt t v = true -> hs sizeof t v <= alloc_bytes sizeof gw t v.
Proof. exact MemProps.C09_upper. Qed.

Theorem C09_map : forall (sizeof : ty -> N) (gw : N), 0 < gw -> forall k v s b cap h ks vs,
  wt (THashMap k v s) (VMap b cap h ks vs) = true ->
  cap * sizeof (TTuple [k; v]) + sumN (map (hs sizeof k) ks) + sumN (map (hs sizeof v) vs)
    <= hs sizeof (THashMap k v s) (VMap b cap h ks vs) /\
  hs sizeof (THashMap k v s) (VMap b cap h ks vs) <= alloc_bytes sizeof gw (THashMap k v s) (VMap b cap h ks vs).
Proof. exact MemProps.C09_map. Qed.

Theorem C09_set : forall (sizeof : ty -> N) (gw : N), 0 < gw -> forall t s b cap h xs,
  wt (THashSet t s) (VSet b cap h xs) = true ->
  cap * sizeof t + sumN (map (hs sizeof t) xs) <= hs sizeof (THashSet t s) (VSet b cap h xs) /\
  hs sizeof (THashSet t s) (VSet b cap h xs) <= alloc_bytes sizeof gw (THashSet t s) (VSet b cap h xs).
Proof. exact MemProps.C09_set. Qed.

Theorem C09_ref : forall (sizeof : ty -> N) (gw : N) (t : ty) (v : value) (vs : list value) (n : N),
  hs sizeof (TRef t) v = 0 /\ hs_sum_iter sizeof (TRef t) vs = 0 /\ hs_sum_exact sizeof (TRef t) n vs = 0 /\
  alloc_bytes sizeof gw (TRef t) v = 0.
Proof. exact MemProps.C09_ref. Qed.

(* ---- non-vacuity ---- *)
Definition ex_sizeof (t : ty) : N :=
  match t with
  | TLeaf id => id
  | TTuple [TLeaf a; TLeaf b] => a + b
  | TTuple _ => 48
  | TBox (TSlice _ | TStr | TCStr | TOsStr | TPath) | TRef (TSlice _ | TStr | TCStr | TOsStr | TPath) => 16
  | TBox _ | TRef _ => 8
  | TOption _ | TMutex _ => 32
  | _ => 24
  end.
(* Vec<(PathBuf, Option<Box<[String]>>)> with spare capacity in the Vec, the PathBuf and the Strings;
   Mutex<BinaryHeap<Box<CStr>>> *)
Definition ex_t : ty := TVec (TTuple [TPathBuf; TOption (TBox (TSlice TString))]).
Definition ex_v : value :=
  VVec 8 [VSeq [VBuf 100 1; VSome (VBox (VSeq [VBuf 32 3; VBuf 0 0; VBuf 5 5]))]; VSeq [VBuf 0 0; VNone]].
Definition ex_t2 : ty := TMutex (TBinaryHeap (TBox TCStr)).
Definition ex_v2 : value := VLock false (VVec 4 [VBox (VBytes 6); VBox (VBytes 1)]).
Example C09_example_exact :
  exact_class ex_t = true /\ wt ex_t ex_v = true /\
  hs ex_sizeof ex_t ex_v = 8 * 48 + 100 + (3 * 24 + 32 + 5) /\ alloc_bytes ex_sizeof 16 ex_t ex_v = 593 /\
  exact_class ex_t2 = true /\ wt ex_t2 ex_v2 = true /\
  hs ex_sizeof ex_t2 ex_v2 = 4 * 16 + 7 /\ alloc_bytes ex_sizeof 16 ex_t2 ex_v2 = 71.
Proof. vm_compute. repeat split; reflexivity. Qed.
(* HashMap<u64, String> with 4 buckets, capacity 3, two entries: strictly between the two bounds of C09_map;
   the same PathBuf under a length-counting estimate would be 1, not 100 -- and a reference to it is 0 *)
Definition ex_tm : ty := THashMap (TLeaf 8) TString (TLeaf 16).
Definition ex_vm : value := VMap 4 3 VUnit [VUnit; VUnit] [VBuf 10 2; VBuf 0 0].
Example C09_example_map :
  exact_class ex_tm = false /\ wt ex_tm ex_vm = true /\
  hs ex_sizeof ex_tm ex_vm = 3 * 48 + 10 /\ alloc_bytes ex_sizeof 16 ex_tm ex_vm = 4 * 48 + 4 + 16 + 10 /\
  hs ex_sizeof (TRef ex_t) (VRef ex_v) = 0.
Proof. vm_compute. repeat split; reflexivity. Qed.

Print Assumptions C09_exact.
Print Assumptions C09_upper.
Print Assumptions C09_map.
Print Assumptions C09_set.
Print Assumptions C09_ref.
Print Assumptions C09_example_exact.
Print Assumptions C09_example_map.

Check C09_exact : forall (sizeof : ty -> N) (gw : N), 0 < gw -> forall (t : ty) (v : value),
  exact_class t = true -> wt t v = true -> hs sizeof t v = alloc_bytes sizeof gw t v.
Check C09_upper : forall (sizeof : ty -> N) (gw : N), 0 < gw -> forall (t : ty) (v : value),
  wt t v = true -> hs sizeof t v <= alloc_bytes sizeof gw t v.
Check C09_map : forall (sizeof : ty -> N) (gw : N), 0 < gw -> forall k v s b cap h ks vs,
  wt (THashMap k v s) (VMap b cap h ks vs) = true ->
  cap * sizeof (TTuple [k; v]) + sumN (map (hs sizeof k) ks) + sumN (map (hs sizeof v) vs)
    <= hs sizeof (THashMap k v s) (VMap b cap h ks vs) /\
  hs sizeof (THashMap k v s) (VMap b cap h ks vs) <= alloc_bytes sizeof gw (THashMap k v s) (VMap b cap h ks vs).
Check C09_ref : forall (sizeof : ty -> N) (gw : N) (t : ty) (v : value) (vs : list value) (n : N),
  hs sizeof (TRef t) v = 0 /\ hs_sum_iter sizeof (TRef t) vs = 0 /\ hs_sum_exact sizeof (TRef t) n vs = 0 /\
  alloc_bytes sizeof gw (TRef t) v = 0.
