(* C16 — a panic in user code never corrupts the cache.
   `panic_points E s p o` (A/PanicA.v) lists, in call order, every point at which operation p calls back
   into user code (Hash, Eq, size estimation, the mutate closure, the retain predicate, Clone), with the
   state an unwinder finds there and the tokens the unwinding itself drops. The correspondence check
   injects a panic at every such call of the real crate and compares what it finds with these points.
   The states are abstract (Layer A); that each of them is reached by complete pieces of list surgery —
   never in the middle of one — is the structure of panic_points itself: callbacks sit only between the
   primitives whose pointer-level correctness is C07 (B/RepB.v, B/ReallocB.v). *)
Require Import LruV.A.PanicProps LruV.B.OpsProps LruV.B.StepB LruV.B.RefineLemmas LruV.B.RefineB LruV.B.PanicB LruV.B.ReachB.

(* For every operation, every state satisfying the invariant, every oracle and EVERY callback point:
   current_size equals the sum of the recorded sizes and is within the limit, keys are distinct, every
   token still held was held before (nothing appears from nowhere), and the tokens dropped by unwinding are
   not held by the state that is left (nothing is dropped twice; what is in neither is leaked). *)
Theorem C16_all_points : forall E VS, 0 < E -> VS <= E -> forall s p o,
  Inv E s -> wf_op E s p -> toks_ok s p ->
  forall pp, In pp (panic_points E s p o) ->
    InvW (pst pp) /\
    (forall t, In t (all_toks (ents (pst pp))) -> In t (all_toks (ents s))) /\
    (forall t, In t (pdrop pp) -> ~ In t (all_toks (ents (pst pp)))).
Proof. intros E VS HE HV s p o HI Hwf Ht pp Hin. exact (panic_points_ok E VS HE HV s p o HI Hwf Ht pp Hin). Qed.

(* a panic inside the mutate closure finds the cache exactly as it was before the call *)
Theorem C16_closure : forall s q nt nh o pp, In pp (mutate_pts s q nt nh o) -> pk pp = KClosure -> pst pp = s.
Proof. exact closure_point_state. Qed.

(* a panic inside the retain predicate: the entries not yet visited are all there, of the visited ones
   exactly those the predicate rejected are gone, order unchanged *)
Theorem C16_predicate : forall s keep o pp, In pp (retain_pts s keep o [] (ents s) (cur s)) -> pk pp = KPred ->
  exists visited unvisited, ents s = visited ++ unvisited /\
    ents (pst pp) = filter (fun e => keep (ek e) (ev e)) visited ++ unvisited.
Proof. intros s keep o pp Hin Hk. destruct (pred_point_state s keep o (ents s) [] (cur s) pp Hin Hk) as (vi & un & H1 & H2). exists vi, un. auto. Qed.

(* a panic in Clone or Hash during clone(): the source is untouched *)
Theorem C16_clone : forall s pp, In pp (clone_pts s) -> pst pp = s /\ pdrop pp = [].
Proof. exact clone_points_source. Qed.

(* pointer level: the callbacks of an operation sit between complete list-surgery primitives (touch_ptr, removal,
   insertion at the head, size update); between ANY two primitives of ANY valid sequence the structure satisfies the
   representation invariant RI — so a panic in a callback never finds a half-linked list *)
Theorem C16_between_primitives : forall g l, RI (gh g) (gseal g) (glist g) -> bprims_ok g l ->
  forall pre post, l = pre ++ post -> exists gm, bprims_run g pre = Some gm /\ RI (gh gm) (gseal gm) (glist gm) /\ gseal gm = gseal g.
Proof. exact between_primitives. Qed.

(* non-vacuity: an insertion that replaces a key, evicts two entries and grows the table has 2 size points,
   1 + 2 + 1 hash points of lookups / evictions / ... and every one of them satisfies the statement *)
Example C16_example :
  let o := {| o_tomb := 0; o_reuse := false; o_alloc := true |} in
  let mk i := {| ek := {| kid := i; ktok := i; kheap := 0 |}; ev := {| vtok := 100 + i; vtag := i; vheap := 0 |}; es := 72 |} in
  let s := {| ents := [mk 1; mk 2; mk 3]; cur := 216; maxs := 216; tb := {| nb := 4; tombs := 0 |} |} in
  length (panic_points 72 s (Insert {| kid := 9; ktok := 9; kheap := 0 |} {| vtok := 109; vtag := 9; vheap := 72 |}) o) = 8%nat /\
  map (fun pp => length (ents (pst pp))) (panic_points 72 s (Insert {| kid := 9; ktok := 9; kheap := 0 |} {| vtok := 109; vtag := 9; vheap := 72 |}) o)
    = [3; 3; 3; 3; 3; 3; 2; 2]%nat.
Proof. cbv zeta. split; vm_compute; reflexivity. Qed.

(* pointer level, whole operations: the callback points of every operation listed with the heap the pointer-level
   operation (B/StepB.v) has reached when it makes the call agree point by point with the abstract list — same kind of
   callback, the heap satisfies the representation invariant, its abstraction is the abstract unwinder state. A panic at
   any callback of any operation therefore finds a coherent linked structure of which C16_all_points speaks. *)
Theorem C16_pointer_level_points : forall E b p oB, RIg (bg b) -> KU b ->
  Forall2 (fun x y => bk x = pk y /\ RIg (bg (bst x)) /\ absB (bst x) = pst y) (bpoints E b p oB) (panic_points E (absB b) p (ob oB)).
Proof. exact bpoints_match. Qed.

(* non-vacuity at pointer level: lowering the limit of a two-entry cache (144 bytes held) to 100 evicts one entry; the eviction
   looks its victim up by key: one Hash and one Eq point, both with the two nodes still linked *)
Definition C16_ex_k (i : N) : key := {| kid := i; ktok := 10 + i; kheap := 0 |}.
Definition C16_ex_v (i : N) : val := {| vtok := 20 + i; vtag := i; vheap := 0 |}.
Definition C16_ex_o (a : addr) : oracleB := {| ob := {| o_tomb := 0; o_reuse := false; o_alloc := true |}; ob_addr := a; ob_moves := [] |}.
(* an empty cache (limit 1000, seal at 100) after two insertions into the buckets 1 and 2 *)
Definition C16_ex_b2 : option bstate :=
  match new_b 72 100 1000 0 with
  | Some b0 => match stepB 72 24 b0 (Insert (C16_ex_k 1) (C16_ex_v 1)) (C16_ex_o 1) with
               | Some (b1, _, _) => match stepB 72 24 b1 (Insert (C16_ex_k 2) (C16_ex_v 2)) (C16_ex_o 2) with Some (b2, _, _) => Some b2 | None => None end
               | None => None end
  | None => None end.
Example C16_example_points_pointer_level :
  match C16_ex_b2 with
  | Some b => map (fun x => (bk x, length (glist (bg (bst x))))) (bpoints 72 b (SetMaxSize 100) (C16_ex_o 0)) = [(KHash, 2%nat); (KEq, 2%nat)]
  | None => False end.
Proof. vm_compute. reflexivity. Qed.

Print Assumptions C16_all_points.
Print Assumptions C16_closure.
Print Assumptions C16_predicate.
Print Assumptions C16_clone.
Print Assumptions C16_between_primitives.
Print Assumptions C16_pointer_level_points.
