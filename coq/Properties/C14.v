(* C14 — a clone is an equal and fully independent cache (abstract part; the shared-heap frame
   statement is Layer B, B/FrameB.v). *)
Require Import LruV.T.TableA LruV.A.InvA LruV.B.FrameB LruV.B.StepB LruV.B.RefineLemmas LruV.B.CloneB LruV.B.TotalB LruV.B.ReachB LruV.B.RefineB LruV.B.FrameOps LruV.B.FrameRun.

Definition same_modulo_tokens (a b : entry) : Prop :=
  kid (ek a) = kid (ek b) /\ kheap (ek a) = kheap (ek b) /\ vtag (ev a) = vtag (ev b) /\ vheap (ev a) = vheap (ev b) /\ es a = es b.

Theorem C14_equal : forall E s ren c evs, do_clone E s ren = Some (c, evs) ->
  Forall2 same_modulo_tokens (ents s) (ents c) /\          (* same entries, same recency order, same recorded sizes *)
  cur c = cur s /\ maxs c = maxs s /\ capacity (tb s) <= capacity (tb c) /\
  e_dropped evs = [] /\ all_toks (ents c) = map ren (all_toks (ents s)).
Proof.
  intros E s ren c evs H. unfold do_clone in H. destruct (t_alloc E (capacity (tb s)) true) as [t| |] eqn:Ha; try discriminate.
  injection H as <- <-. cbn [ents cur maxs tb e_dropped]. destruct (t_alloc_ok E _ _ _ Ha) as (Hge & _).
  repeat split; auto.
  - induction (ents s) as [|e r IH]; cbn [map]; constructor; auto. unfold same_modulo_tokens, clone_entry. cbn. auto.
  - induction (ents s) as [|e r IH]; cbn [map all_toks flat_map]; [reflexivity|]. unfold all_toks in IH. rewrite IH. reflexivity.
Qed.

(* the copies are separate objects: when the clone's tokens are fresh, no key or value object is shared *)
Theorem C14_fresh : forall E s ren c evs, do_clone E s ren = Some (c, evs) ->
  (forall t, In t (all_toks (ents s)) -> ~ In (ren t) (all_toks (ents s))) ->
  forall t, In t (all_toks (ents c)) -> ~ In t (all_toks (ents s)).
Proof.
  intros E s ren c evs H Hfresh t Hin. destruct (C14_equal E s ren c evs H) as (_ & _ & _ & _ & _ & Ht).
  rewrite Ht in Hin. apply in_map_iff in Hin as (u & <- & Hu). auto.
Qed.

(* the clone satisfies the accounting invariant, so every theorem about reachable caches applies to it,
   and (caches being values of the model) no later step on one changes the other *)
Theorem C14_inv : forall E VS, 0 < E -> VS <= E -> forall s ren c evs, Inv E s -> do_clone E s ren = Some (c, evs) -> Inv E c.
Proof.
  intros E VS HE HV s ren c evs (Hsum & Hle & Hmax & Hall & Hnd) H. unfold do_clone in H.
  destruct (t_alloc E (capacity (tb s)) true); try discriminate. injection H as <- <-. apply (Inv_intro E).
  - rewrite Hsum. unfold sum_es. rewrite map_map. reflexivity.
  - exact Hle.
  - exact Hmax.
  - apply Forall_forall. intros x Hx. apply in_map_iff in Hx as (e & <- & He). rewrite Forall_forall in Hall. specialize (Hall e He).
    unfold clone_entry, true_size in *. cbn. exact Hall.
  - unfold kids in *. rewrite map_map. cbn. exact Hnd.
Qed.

(* independence in a SHARED heap (Layer B): the list surgery of an operation on one cache writes only nodes of
   that cache (plus the bucket it inserts); hence any other cache whose nodes are disjoint — a clone and its
   source — keeps its representation invariant and its abstract content whatever is done to the first. A clone
   that kept a link into its source would break exactly the footprint statements. *)
Theorem C14_footprint_touch : forall g a g', RI (gh g) (gseal g) (glist g) -> In a (glist g) -> b_touch g a = Some g' ->
  forall b, ~ In b (gseal g :: glist g) -> gh g' b = gh g b.
Proof. exact b_touch_frame. Qed.
Theorem C14_footprint_remove : forall g a g', RI (gh g) (gseal g) (glist g) -> In a (glist g) -> b_remove g a = Some g' ->
  forall b, ~ In b (gseal g :: glist g) -> gh g' b = gh g b.
Proof. exact b_remove_frame. Qed.
Theorem C14_footprint_insert : forall g a sz p g', RI (gh g) (gseal g) (glist g) -> ~ In a (gseal g :: glist g) -> b_insert_new g a sz p = Some g' ->
  forall b, ~ In b (gseal g :: glist g) -> b <> a -> gh g' b = gh g b.
Proof. exact b_insert_new_frame. Qed.
Theorem C14_independent : forall h h' own seal2 l2, untouched_outside h h' own ->
  (forall b, In b (seal2 :: l2) -> ~ In b own) -> RI h seal2 l2 -> RI h' seal2 l2 /\ absl h' l2 = absl h l2.
Proof. exact other_cache_preserved. Qed.

Example C14_example :
  let mk i := {| ek := {| kid := i; ktok := i; kheap := 0 |}; ev := {| vtok := 100 + i; vtag := i; vheap := i |}; es := 72 + i |} in
  let s := {| ents := [mk 1; mk 2]; cur := 147; maxs := 1000; tb := {| nb := 4; tombs := 0 |} |} in
  exists c evs, do_clone 72 s (fun t => t + 1000) = Some (c, evs) /\ map (fun e => (kid (ek e), ktok (ek e), es e)) (ents c) = [(1, 1001, 73); (2, 1002, 74)].
Proof. cbv zeta. eexists _, _. split; vm_compute; reflexivity. Qed.

(* clone() at pointer level, in ONE heap shared by the source and the copy: the walk from seal.prev along the prev
   links, cloning each entry and linking it at the head of the new list at bucket addresses that are checked to be unused
   by either cache, yields a coherent copy whose abstraction is Layer A's do_clone, while the source structure is still
   coherent, still holds exactly its entries, and shares no node with the copy *)
Theorem C14_pointer_level : forall E b seal_c addrs ren bc evs, RIg (bg b) -> bB_clone E b seal_c addrs ren = Some (bc, evs) ->
  do_clone E (absB b) ren = Some (absB bc, evs) /\ RIg (bg bc) /\
  RI (gh (bg bc)) (gseal (bg b)) (glist (bg b)) /\ absl (gh (bg bc)) (glist (bg b)) = absG (bg b) /\
  (forall x, In x (gseal (bg b) :: glist (bg b)) -> ~ In x (gseal (bg bc) :: glist (bg bc))).
Proof. exact clone_refines. Qed.

(* ... and the walk never faults: given a seal address that is not in use and enough pairwise distinct bucket addresses
   outside both structures, clone() at pointer level returns a result whenever the abstract clone does *)
Theorem C14_clone_no_fault : forall E b seal_c addrs ren r, RIg (bg b) -> do_clone E (absB b) ren = Some r ->
  gh (bg b) seal_c = None -> ~ In seal_c (gseal (bg b) :: glist (bg b)) ->
  NoDup addrs -> (length (glist (bg b)) <= length addrs)%nat ->
  (forall a, In a addrs -> a <> seal_c /\ ~ In a (gseal (bg b) :: glist (bg b))) ->
  exists r', bB_clone E b seal_c addrs ren = Some r'.
Proof. exact clone_total. Qed.

(* non-vacuity: a concrete two-entry structure is cloned into the seal 200 and the buckets 201, 202 of the same heap *)
Definition C14_ex_k (i : N) : key := {| kid := i; ktok := 10 + i; kheap := 0 |}.
Definition C14_ex_v (i : N) : val := {| vtok := 20 + i; vtag := i; vheap := 0 |}.
Definition C14_ex_o (a : addr) : oracleB := {| ob := {| o_tomb := 0; o_reuse := false; o_alloc := true |}; ob_addr := a; ob_moves := [] |}.
(* an empty cache (limit 1000, seal at 100) after two insertions into the buckets 1 and 2 *)
Definition C14_ex_b2 : option bstate :=
  match new_b 72 100 1000 0 with
  | Some b0 => match stepB 72 24 b0 (Insert (C14_ex_k 1) (C14_ex_v 1)) (C14_ex_o 1) with
               | Some (b1, _, _) => match stepB 72 24 b1 (Insert (C14_ex_k 2) (C14_ex_v 2)) (C14_ex_o 2) with Some (b2, _, _) => Some b2 | None => None end
               | None => None end
  | None => None end.
Example C14_example_clone :
  match C14_ex_b2 with
  | Some b => match bB_clone 72 b 200 [201; 202] (fun t => 1000 + t) with
              | Some (bc, evs) => map (fun e => (kid (ek e), ktok (ek e), vtok (ev e))) (ents (absB bc)) = [(1, 1011, 1021); (2, 1012, 1022)] /\
                                  glist (bg bc) = [202; 201] /\ e_hashes evs = 2
              | None => False end
  | None => False end.
Proof. vm_compute. repeat split; reflexivity. Qed.

(* INDEPENDENCE FOR WHOLE PUBLIC OPERATIONS (B/FrameOps.v).  Two caches in ONE heap: any public operation of the pointer-level
   model on one of them — insertion with eviction and rebuild, mutate, retain, clear, drain, reserve, shrink, every lookup —
   writes or frees only that cache's own nodes (its seal and its listed buckets) and the buckets the oracle hands it (the
   bucket of a new entry, the targets of a rebuild): `Fr (extra oB)`.  Hence every other cache whose nodes are disjoint from
   those stays coherent and keeps exactly its content. *)
Theorem C14_frame_ops : forall E VS b p oB b' o evs, RIb b -> KU b -> stepB E VS b p oB = Some (b', o, evs) ->
  gseal (bg b') = gseal (bg b) /\
  (forall x, In x (glist (bg b')) -> In x (own (bg b)) \/ In x (extra oB)) /\
  (forall x, ~ In x (own (bg b)) -> ~ In x (extra oB) -> gh (bg b') x = gh (bg b) x).
Proof. exact stepB_frame. Qed.
Theorem C14_independent_ops : forall E VS b p oB b' o evs seal2 l2, RIb b -> KU b -> stepB E VS b p oB = Some (b', o, evs) ->
  RI (gh (bg b)) seal2 l2 -> (forall x, In x (seal2 :: l2) -> ~ In x (own (bg b)) /\ ~ In x (extra oB)) ->
  RI (gh (bg b')) seal2 l2 /\ absl (gh (bg b')) l2 = absl (gh (bg b)) l2.
Proof. exact stepB_other_cache. Qed.
Check C14_independent_ops : forall E VS b p oB b' o evs seal2 l2, RIb b -> KU b -> stepB E VS b p oB = Some (b', o, evs) ->
  RI (gh (bg b)) seal2 l2 -> (forall x, In x (seal2 :: l2) -> ~ In x (gseal (bg b) :: glist (bg b)) /\ ~ In x (ob_addr oB :: map snd (ob_moves oB))) ->
  RI (gh (bg b')) seal2 l2 /\ absl (gh (bg b')) l2 = absl (gh (bg b)) l2.
(* ... and over runs of any length from any reachable state ("afterwards no operation on either cache affects the other") *)
Theorem C14_independent_runs : forall E VS, 0 < E -> VS <= E -> forall b os b' seal2 l2, ReachB E VS b -> RunB E VS b os b' ->
  RI (gh (bg b)) seal2 l2 ->
  (forall x, In x (seal2 :: l2) -> ~ In x (own (bg b)) /\ forall oB, In oB os -> ~ In x (extra oB)) ->
  ReachB E VS b' /\ RI (gh (bg b')) seal2 l2 /\ absl (gh (bg b')) l2 = absl (gh (bg b)) l2.
Proof. exact runB_other_cache. Qed.
(* a clone and its source: whatever is then done to the clone (with buckets that are not the source's), the source structure
   stays coherent and holds exactly the entries it held *)
Theorem C14_clone_then_ops : forall E VS b seal_c addrs ren bc evs p oB bc' o evs', RIg (bg b) -> KU bc ->
  bB_clone E b seal_c addrs ren = Some (bc, evs) -> stepB E VS bc p oB = Some (bc', o, evs') ->
  (forall x, In x (gseal (bg b) :: glist (bg b)) -> ~ In x (extra oB)) ->
  RI (gh (bg bc')) (gseal (bg b)) (glist (bg b)) /\ absl (gh (bg bc')) (glist (bg b)) = absG (bg b).
Proof.
  intros E VS b seal_c addrs ren bc evs p oB bc' o evs' H Hku Hc Hs Hx.
  destruct (clone_refines E b seal_c addrs ren bc evs H Hc) as (_ & Hbc & Hsrc & Habs & Hdis).
  destruct (stepB_other_cache E VS bc p oB bc' o evs' (gseal (bg b)) (glist (bg b)) Hbc Hku Hs Hsrc) as [R1 R2].
  - intros x Hin. split; [exact (Hdis x Hin)|exact (Hx x Hin)].
  - split; [exact R1|congruence].
Qed.

(* not vacuous: the clone of the example below (seal 200, buckets 202, 201) takes an insertion into bucket 203; the source
   (seal 100, buckets 2, 1) is bit for bit what it was *)
Example C14_example_clone_then_insert :
  match C14_ex_b2 with
  | Some b => match bB_clone 72 b 200 [201; 202] (fun t => 1000 + t) with
              | Some (bc, _) => match stepB 72 24 bc (Insert (C14_ex_k 3) (C14_ex_v 3)) (C14_ex_o 203) with
                                | Some (bc', _, _) => glist (bg bc') = [203; 202; 201] /\
                                                      map (gh (bg bc')) [100; 2; 1] = map (gh (bg b)) [100; 2; 1]
                                | None => False end
              | None => False end
  | None => False end.
Proof. vm_compute. repeat split; reflexivity. Qed.

Print Assumptions C14_equal.
Print Assumptions C14_fresh.
Print Assumptions C14_inv.
Print Assumptions C14_footprint_touch.
Print Assumptions C14_footprint_remove.
Print Assumptions C14_footprint_insert.
Print Assumptions C14_independent.
Print Assumptions C14_pointer_level.
Print Assumptions C14_clone_no_fault.
Print Assumptions C14_frame_ops.
Print Assumptions C14_independent_ops.
Print Assumptions C14_independent_runs.
Print Assumptions C14_clone_then_ops.
