(* C14 — a clone is an equal and fully independent cache (abstract part; the shared-heap frame
   statement is Layer B, B/FrameB.v). *)
Require Import LruV.T.TableA LruV.A.InvA.

Definition same_modulo_tokens (a b : entry) : Prop :=
  kid (ek a) = kid (ek b) /\ kheap (ek a) = kheap (ek b) /\ vtag (ev a) = vtag (ev b) /\ vheap (ev a) = vheap (ev b) /\ es a = es b.

Theorem C14_equal : forall E s ren c evs, do_clone E s ren = Some (c, evs) ->
  Forall2 same_modulo_tokens (ents s) (ents c) /\          (* same entries, same recency order, same recorded sizes *)
  cur c = cur s /\ maxs c = maxs s /\ capacity (tb s) <= capacity (tb c) /\
  e_dropped evs = [] /\ all_toks (ents c) = map ren (all_toks (ents s)).
Proof.
  intros E s ren c evs H. unfold do_clone in H. destruct (t_alloc E (capacity (tb s)) true) as [t| |] eqn:Ha; try discriminate.
  injection H as <- <-. cbn [ents cur maxs tb e_dropped]. destruct (t_alloc_ok E _ _ _ Ha) as (Hge & _).
  repeat split; auto.
  - induction (ents s) as [|e r IH]; cbn [map]; constructor; auto. unfold same_modulo_tokens, clone_entry. cbn. auto.
  - induction (ents s) as [|e r IH]; cbn [map all_toks flat_map]; [reflexivity|]. unfold all_toks in IH. rewrite IH. reflexivity.
Qed.

(* the copies are separate objects: when the clone's tokens are fresh, no key or value object is shared *)
Theorem C14_fresh : forall E s ren c evs, do_clone E s ren = Some (c, evs) ->
  (forall t, In t (all_toks (ents s)) -> ~ In (ren t) (all_toks (ents s))) ->
  forall t, In t (all_toks (ents c)) -> ~ In t (all_toks (ents s)).
Proof.
  intros E s ren c evs H Hfresh t Hin. destruct (C14_equal E s ren c evs H) as (_ & _ & _ & _ & _ & Ht).
  rewrite Ht in Hin. apply in_map_iff in Hin as (u & <- & Hu). auto.
Qed.

(* the clone satisfies the accounting invariant, so every theorem about reachable caches applies to it,
   and (caches being values of the model) no later step on one changes the other *)
Theorem C14_inv : forall E VS, 0 < E -> VS <= E -> forall s ren c evs, Inv E s -> do_clone E s ren = Some (c, evs) -> Inv E c.
Proof.
  intros E VS HE HV s ren c evs (Hsum & Hle & Hmax & Hall & Hnd) H. unfold do_clone in H.
  destruct (t_alloc E (capacity (tb s)) true); try discriminate. injection H as <- <-. apply (Inv_intro E).
  - rewrite Hsum. unfold sum_es. rewrite map_map. reflexivity.
  - exact Hle.
  - exact Hmax.
  - apply Forall_forall. intros x Hx. apply in_map_iff in Hx as (e & <- & He). rewrite Forall_forall in Hall. specialize (Hall e He).
    unfold clone_entry, true_size in *. cbn. exact Hall.
  - unfold kids in *. rewrite map_map. cbn. exact Hnd.
Qed.

Example C14_example :
  let mk i := {| ek := {| kid := i; ktok := i; kheap := 0 |}; ev := {| vtok := 100 + i; vtag := i; vheap := i |}; es := 72 + i |} in
  let s := {| ents := [mk 1; mk 2]; cur := 147; maxs := 1000; tb := {| nb := 4; tombs := 0 |} |} in
  exists c evs, do_clone 72 s (fun t => t + 1000) = Some (c, evs) /\ map (fun e => (kid (ek e), ktok (ek e), es e)) (ents c) = [(1, 1001, 73); (2, 1002, 74)].
Proof. cbv zeta. eexists _, _. split; vm_compute; reflexivity. Qed.

Print Assumptions C14_equal.
Print Assumptions C14_fresh.
Print Assumptions C14_inv.
