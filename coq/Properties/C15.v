(* C15 — retain removes exactly the rejected entries, visiting each once in LRU order. *)
Require Import LruV.A.SpecA LruV.A.InvA LruV.B.StepB LruV.B.RefineB LruV.B.ReachB.

Theorem C15_retain : forall E VS, 0 < E -> VS <= E -> forall s keep o s' out evs,
  Inv E s -> stepA E VS fixed s (Retain keep) o = Some (s', out, evs) ->
  let kf := fun e => keep (ek e) (ev e) in
  let gone := filter (fun e => negb (kf e)) (ents s) in
  e_visits evs = map kv (ents s) /\                      (* each entry once, LRU to MRU, with its own key and value *)
  ents s' = filter kf (ents s) /\                        (* exactly the rejected ones are gone; the others keep their order *)
  cur s' = cur s - sum_es gone /\ sum_es gone <= cur s /\ maxs s' = maxs s /\
  e_dropped evs = all_toks gone /\ e_evicted evs = [] /\ Inv E s'.
Proof.
  intros E VS HE HV s keep o s' out evs HI H. cbv zeta.
  pose proof (step_inv E VS HE HV s (Retain keep) o _ HI I H) as HI'. cbn [fst] in HI'.
  pose proof HI as (Hsum & _). cbn [stepA] in H.
  pose proof (filter_split_sum (fun e => keep (ek e) (ev e)) (ents s)) as Hsplit.
  rewrite (fold_sub_spec E VS HE HV) in H by lia. cbn [bind] in H. injection H as <- <- <-. cbn [ents cur maxs set_ents e_visits e_dropped e_evicted].
  repeat (split; [first [reflexivity | lia]|]). exact HI'.
Qed.

Example C15_example :
  let o := {| o_tomb := 0; o_reuse := false; o_alloc := true |} in
  let mk i := {| ek := {| kid := i; ktok := i; kheap := 0 |}; ev := {| vtok := 100 + i; vtag := i; vheap := i |}; es := 72 + i |} in
  let s := {| ents := [mk 1; mk 2; mk 3; mk 4]; cur := 298; maxs := 1000; tb := {| nb := 8; tombs := 0 |} |} in
  exists s' evs, stepA 72 24 fixed s (Retain (fun k _ => N.even (kid k))) o = Some (s', OUnit, evs) /\
     map (fun e => kid (ek e)) (ents s') = [2; 4] /\ cur s' = 150 /\ map (fun x => kid (fst x)) (e_visits evs) = [1; 2; 3; 4].
Proof. cbv zeta. eexists _, _. split; [vm_compute; reflexivity|]. repeat split; reflexivity. Qed.

(* at pointer level: retain as the code runs it (following the prev links from the least-recently-used node, unlinking and
   freeing every rejected node on the way) visits the pair of every linked node once, oldest first, leaves exactly the nodes
   whose pair the predicate accepted, in their order, lowers the counter by the recorded sizes of the others, drops exactly
   their keys and values, and leaves the structure coherent *)
Theorem C15_pointer_level : forall E VS, 0 < E -> VS <= E -> forall b keep oB b' out evs,
  ReachB E VS b -> stepB E VS b (Retain keep) oB = Some (b', out, evs) ->
  let l := ents (absB b) in
  let kf := fun e => keep (ek e) (ev e) in
  let gone := filter (fun e => negb (kf e)) l in
  e_visits evs = map kv l /\ ents (absB b') = filter kf l /\
  bcur b' = bcur b - sum_es gone /\ sum_es gone <= bcur b /\ bmax b' = bmax b /\
  e_dropped evs = all_toks gone /\ e_evicted evs = [] /\ RIb b'.
Proof.
  intros E VS HE HV b keep oB b' out evs HR Hstep. cbv zeta.
  destruct (reachB_sound E VS HE HV b HR) as [_ HRa]. pose proof (reach_inv E VS HE HV _ HRa) as HI.
  destruct (reachB_step E VS HE HV b _ oB b' out evs HR Hstep) as (HA & HRI & _).
  pose proof (C15_retain E VS HE HV _ keep _ _ out evs HI HA) as H. cbv zeta in H.
  destruct H as (H1 & H2 & H3 & H4 & H5 & H6 & H7 & _). repeat (split; [assumption|]). exact HRI.
Qed.

Print Assumptions C15_retain.
Print Assumptions C15_pointer_level.
