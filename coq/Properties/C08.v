(* C08 -- size estimation is compositional, the bulk helpers agree with it, and it is total.
   Statements only; the model is M/MemModel.v, the proofs are in M/MemProps.v. *)
Require Import LruV.M.MemModel LruV.M.MemProps.
Local Open Scope N_scope.

(* all four bulk helpers return exactly the element-wise sum: every type shape, every list of yielded items
   (an ExactSizeIterator reports len vs; its items must be values of the type, which fixes array lengths) *)
Theorem C08_bulk : forall (sizeof : ty -> N) (t : ty) (vs : list value),
  hs_sum_iter sizeof t vs = sumN (map (hs sizeof t) vs) /\
  vs_sum_iter sizeof t vs = sumN (map (vsz sizeof t) vs) /\
  vs_sum_exact sizeof t (len vs) vs = sumN (map (vsz sizeof t) vs) /\
  (forallb (wt t) vs = true -> hs_sum_exact sizeof t (len vs) vs = sumN (map (hs sizeof t) vs)).
Proof. exact MemProps.C08_bulk. Qed.

Theorem C08_mem : forall (sizeof : ty -> N) (t : ty) (v : value), ms sizeof t v = vsz sizeof t v + hs sizeof t v.
Proof. exact MemProps.C08_mem. Qed.

(* a container's heap size = its own buffer (capacity x element size) + the heap size of each element *)
Theorem C08_container : forall (sizeof : ty -> N),
  (forall t cap xs, forallb (wt t) xs = true ->
     hs sizeof (TVec t) (VVec cap xs) = cap * sizeof t + sumN (map (hs sizeof t) xs)) /\
  (forall t cap xs, forallb (wt t) xs = true ->
     hs sizeof (TBinaryHeap t) (VVec cap xs) = cap * sizeof t + sumN (map (hs sizeof t) xs)) /\
  (forall k v s b cap h ks vs, forallb (wt k) ks = true -> forallb (wt v) vs = true ->
     hs sizeof (THashMap k v s) (VMap b cap h ks vs)
     = cap * sizeof (TTuple [k; v]) + (sumN (map (hs sizeof k) ks) + sumN (map (hs sizeof v) vs)) + hs sizeof s h) /\
  (forall t s b cap h xs, forallb (wt t) xs = true ->
     hs sizeof (THashSet t s) (VSet b cap h xs) = cap * sizeof t + sumN (map (hs sizeof t) xs) + hs sizeof s h) /\
  (forall t xs, forallb (wt t) xs = true -> hs sizeof (TSlice t) (VSeq xs) = sumN (map (hs sizeof t) xs)) /\
  (forall cap l, hs sizeof TString (VBuf cap l) = cap /\ hs sizeof TOsString (VBuf cap l) = cap /\
                 hs sizeof TPathBuf (VBuf cap l) = cap) /\
  (forall l, hs sizeof TCString (VCString l) = l + 1).
Proof. exact MemProps.C08_container. Qed.

(* wrappers add up their parts *)
Theorem C08_wrapper : forall (sizeof : ty -> N),
  (forall t x, hs sizeof (TBox t) (VBox x) = vsz sizeof t x + hs sizeof t x) /\
  (forall t, hs sizeof (TOption t) VNone = 0) /\ (forall t x, hs sizeof (TOption t) (VSome x) = hs sizeof t x) /\
  (forall t e x, hs sizeof (TResult t e) (VOk x) = hs sizeof t x) /\
  (forall t e x, hs sizeof (TResult t e) (VErr x) = hs sizeof e x) /\
  (forall ts xs, length xs = length ts -> hs sizeof (TTuple ts) (VSeq xs) = sum2 (map (hs sizeof) ts) xs) /\
  (forall n t xs, forallb (wt t) xs = true -> hs sizeof (TArray n t) (VSeq xs) = sumN (map (hs sizeof t) xs)) /\
  (forall t x, hs sizeof (TWrapping t) (VWrap x) = hs sizeof t x) /\
  (forall s t a b, rshape_arity s = 2 -> hs sizeof (TRange s t) (VSeq [a; b]) = hs sizeof t a + hs sizeof t b) /\
  (forall s t a, rshape_arity s = 1 -> hs sizeof (TRange s t) (VSeq [a]) = hs sizeof t a) /\
  (forall t p x, hs sizeof (TMutex t) (VLock p x) = hs sizeof t x) /\
  (forall t p x, hs sizeof (TRwLock t) (VLock p x) = hs sizeof t x).
Proof. exact MemProps.C08_wrapper. Qed.

(* stack clause: SizedArrayFlatIterator::next as written keeps one frame of itself, across any sections ... *)
Theorem C08_depth : forall (A : Type) (cur : list A) (rest : list (list A)), flat_next_depth flat_impl cur rest = 1.
Proof. exact MemProps.C08_depth. Qed.
(* ... in particular across k empty ones, where a self-calling body would need k + 1 *)
Theorem C08_depth_empty_sections : forall (A : Type) (k : nat),
  flat_next_depth flat_impl (@nil A) (repeat [] k) = 1 /\
  flat_next_depth NextRecursive (@nil A) (repeat [] k) = N.of_nat k + 1.
Proof. exact MemProps.C08_depth_empty_sections. Qed.
(* and the flat iterator yields the concatenation and reports its true length (what the model of [T; N] relies on) *)
Theorem C08_flat_iterator : forall (A : Type) impl (n : N) (cur : list A) (rest : list (list A)),
  match flat_next impl cur rest with
  | (Some x, c, q, _) => cur ++ concat rest = x :: c ++ concat q
  | (None, c, q, _) => cur ++ concat rest = [] /\ c = [] /\ q = []
  end /\
  ((forall s, In s rest -> len s = n) -> flat_len n cur (len rest) = len (cur ++ concat rest)).
Proof. intros A impl n cur rest. split; [apply flat_next_spec|apply flat_len_ok]. Qed.

(* ---- non-vacuity: Vec<(Box<[String; 2]>, Option<Vec<u8>>, [u64; 0])> with spare capacity at three levels ---- *)
Definition ex_sizeof (t : ty) : N :=
  match t with
  | TLeaf id => id                                   (* the example names a leaf by its size: TLeaf 1 = u8, TLeaf 8 = u64 *)
  | TArray n (TLeaf id) => n * id
  | TArray n _ => n * 24
  | TTuple _ => 8 + 24 + 0
  | TBox _ => 8
  | _ => 24
  end.
Definition ex_t_elem : ty := TTuple [TBox (TArray 2 TString); TOption (TVec (TLeaf 1)); TArray 0 (TLeaf 8)].
Definition ex_t : ty := TVec ex_t_elem.
Definition ex_e1 : value := VSeq [VBox (VSeq [VBuf 16 5; VBuf 0 0]); VSome (VVec 10 [VUnit; VUnit; VUnit]); VSeq []].
Definition ex_e2 : value := VSeq [VBox (VSeq [VBuf 7 7; VBuf 100 1]); VNone; VSeq []].
Definition ex_v : value := VVec 4 [ex_e1; ex_e2].
Example C08_example :
  wt ex_t ex_v = true /\
  hs ex_sizeof ex_t ex_v = 4 * 32 + ((48 + 16 + 0) + 10) + (48 + 7 + 100) /\
  hs_sum_exact ex_sizeof ex_t_elem 2 [ex_e1; ex_e2] = hs ex_sizeof ex_t_elem ex_e1 + hs ex_sizeof ex_t_elem ex_e2 /\
  hs_sum_iter ex_sizeof ex_t_elem [ex_e2; ex_e1; ex_e2] = 74 + 2 * 155 /\
  ms ex_sizeof ex_t ex_v = 24 + 357 /\
  hs_sum_exact ex_sizeof (TArray 0 TString) 1000 (repeat (VSeq []) 1000) = 0.
Proof. vm_compute. repeat split; reflexivity. Qed.

Print Assumptions C08_bulk.
Print Assumptions C08_mem.
Print Assumptions C08_container.
Print Assumptions C08_wrapper.
Print Assumptions C08_depth.
Print Assumptions C08_depth_empty_sections.
Print Assumptions C08_flat_iterator.
Print Assumptions C08_example.

Check C08_bulk : forall (sizeof : ty -> N) (t : ty) (vs : list value),
  hs_sum_iter sizeof t vs = sumN (map (hs sizeof t) vs) /\
  vs_sum_iter sizeof t vs = sumN (map (vsz sizeof t) vs) /\
  vs_sum_exact sizeof t (len vs) vs = sumN (map (vsz sizeof t) vs) /\
  (forallb (wt t) vs = true -> hs_sum_exact sizeof t (len vs) vs = sumN (map (hs sizeof t) vs)).
Check C08_mem : forall (sizeof : ty -> N) (t : ty) (v : value), ms sizeof t v = vsz sizeof t v + hs sizeof t v.
Check C08_depth : forall (A : Type) (cur : list A) (rest : list (list A)), flat_next_depth flat_impl cur rest = 1.
Check C08_depth_empty_sections : forall (A : Type) (k : nat),
  flat_next_depth flat_impl (@nil A) (repeat [] k) = 1 /\
  flat_next_depth NextRecursive (@nil A) (repeat [] k) = N.of_nat k + 1.
Check (fun sizeof => proj1 (C08_container sizeof)) : forall (sizeof : ty -> N) t cap xs, forallb (wt t) xs = true ->
  hs sizeof (TVec t) (VVec cap xs) = cap * sizeof t + sumN (map (hs sizeof t) xs).
Check (fun sizeof => proj1 (C08_wrapper sizeof)) : forall (sizeof : ty -> N) t x,
  hs sizeof (TBox t) (VBox x) = vsz sizeof t x + hs sizeof t x.
