(* C12 — iterators yield every entry exactly once, in order, from both ends (list-level part).
   The pointer-level cursors of src/iter.rs are related to take_ends in Layer B (B/CursorB.v). *)
Require Import LruV.A.TakeEnds LruV.A.InvA LruV.B.TakingB.
Require Import LruV.A.InvA LruV.B.StepB LruV.B.RefineB LruV.B.ReachB.

(* the list-level specification: for ANY pattern of next()/next_back() calls (any length, past exhaustion)
   on ANY list: what came from the front is a prefix in order, what came from the back is a suffix in
   reverse order, the unconsumed rest is the middle — so every entry is yielded at most once — ... *)
Theorem C12_split : forall (A : Type) (pat : list bool) (M : list A),
  let '(outs, rest) := take_ends M pat in
  M = fronts pat outs ++ rest ++ rev (backs pat outs) /\ length outs = length pat.
Proof. exact @take_ends_split. Qed.

(* ... and None appears only after everything was yielded, and then for ever (fused) *)
Theorem C12_fused : forall (A : Type) (pat : list bool) (M : list A),
  let '(outs, rest) := take_ends M pat in
  exists taken k, outs = map Some taken ++ repeat None k /\ (k <> 0%nat -> rest = []) /\ (length taken <= length M)%nat.
Proof. exact @take_ends_fused. Qed.

(* borrowing iterators (iter / keys / values) yield take_ends of the entry list and change nothing *)
Theorem C12_iter : forall E VS s pat o,
  stepA E VS fixed s (IterOp pat) o = Some (s, OItems (map (option_map kv) (fst (take_ends (ents s) pat))), ev0).
Proof. reflexivity. Qed.

(* drain: yields take_ends; afterwards the cache is empty with size 0 and satisfies the invariant (usable),
   whatever was consumed; dropping the Drain drops exactly the entries not yielded, forgetting it drops nothing *)
Theorem C12_drain : forall E VS, 0 < E -> VS <= E -> forall s pat f o s' out evs,
  Inv E s -> stepA E VS fixed s (DrainOp pat f) o = Some (s', out, evs) ->
  out = OItems (map (option_map kv) (fst (take_ends (ents s) pat))) /\
  ents s' = [] /\ cur s' = 0 /\ maxs s' = maxs s /\ Inv E s' /\
  e_dropped evs = (match f with FDrop => all_toks (snd (take_ends (ents s) pat)) | FForget => [] end).
Proof.
  intros E VS HE HV s pat f o s' out evs HI H.
  pose proof (step_inv E VS HE HV s (DrainOp pat f) o _ HI I H) as HI'. cbn [fst] in HI'.
  cbn [stepA] in H. destruct (take_ends (ents s) pat) as [outs rest]. injection H as <- <- <-. cbn [fst snd ents cur maxs set_ents e_dropped]. auto 10.
Qed.

(* owning iterators: items as take_ends; the iterator's Drop drops exactly what was not handed out *)
Theorem C12_into_iter : forall s kind pat f,
  do_into_iter s kind pat f =
  (OItems (map (option_map kv) (fst (take_ends (ents s) pat))),
   {| e_evicted := []; e_dropped := yielded_drops kind (fst (take_ends (ents s) pat)) ++
                                     (match f with FDrop => all_toks (snd (take_ends (ents s) pat)) | FForget => [] end);
      e_hashes := 0; e_rebuilt := false; e_visits := [] |}).
Proof. intros. unfold do_into_iter. destruct (take_ends (ents s) pat). reflexivity. Qed.

(* pointer level (Layer B): the cursors of Iter (and Keys / Values, which wrap it) started on a coherent
   structure yield exactly take_ends of the LRU-first list, for every pattern; they only read links *)
Theorem C12_cursor : forall h seal l pat, RI h seal l ->
  exists c, cursor_new h seal (match l with [] => true | _ => false end) = Some c /\ it_run h c pat = Some (fst (take_ends (rev l) pat)).
Proof. exact iter_on_RI. Qed.

(* pointer level: the TakingIterator behind drain / into_iter / into_keys / into_values yields take_ends and
   moves out exactly what it yielded *)
Theorem C12_taking : forall pat M h stale, NoDup M -> linked h M -> (forall a, In a M -> live h a) ->
  exists h', tk_run h (start M stale) pat = Some (h', map (fun o => match o with Some a => kv_at h a | None => None end) (fst (take_ends M pat))) /\
             moved_exactly h h' (somes (fst (take_ends M pat))) /\ (forall a, In a (snd (take_ends M pat)) -> live h' a) /\
             NoDup (somes (fst (take_ends M pat))) /\ (forall a, In a (somes (fst (take_ends M pat))) -> In a M).
Proof. exact tk_spec. Qed.

(* ... and what it hands out is exactly what the abstract model says: take_ends of the entry list *)
Theorem C12_taking_items : forall h seal l pat stale, RI h seal l ->
  exists h', tk_run h (start (rev l) stale) pat = Some (h', map (option_map kv) (fst (take_ends (absl h l) pat))) /\
             (forall a, In a (snd (take_ends (rev l) pat)) -> live h' a).
Proof. exact taking_items_abstract. Qed.

Example C12_example : take_ends [1; 2; 3; 4; 5] [true; false; false; false; true; false; true]
  = ([Some 1; Some 5; Some 4; Some 3; Some 2; None; None], []).
Proof. reflexivity. Qed.

(* at pointer level: drain as the code runs it (seal reset and counter zeroed up front, pairs moved out of the detached nodes
   from both ends, the rest dropped or leaked) from any reachable state yields take_ends of the entries, and leaves an empty,
   coherent structure with counter 0 and the same limit *)
Theorem C12_pointer_level_drain : forall E VS, 0 < E -> VS <= E -> forall b pat f oB b' out evs,
  ReachB E VS b -> stepB E VS b (DrainOp pat f) oB = Some (b', out, evs) ->
  let l := ents (absB b) in
  out = OItems (map (option_map kv) (fst (take_ends l pat))) /\
  ents (absB b') = [] /\ bcur b' = 0 /\ bmax b' = bmax b /\ RIb b' /\
  e_dropped evs = (match f with FDrop => all_toks (snd (take_ends l pat)) | FForget => [] end).
Proof.
  intros E VS HE HV b pat f oB b' out evs HR Hstep. cbv zeta.
  destruct (reachB_sound E VS HE HV b HR) as [_ HRa]. pose proof (reach_inv E VS HE HV _ HRa) as HI.
  destruct (reachB_step E VS HE HV b _ oB b' out evs HR Hstep) as (HA & HRI & _).
  destruct (C12_drain E VS HE HV _ pat f _ _ out evs HI HA) as (H1 & H2 & H3 & H4 & _ & H6).
  repeat (split; [assumption|]). assumption.
Qed.

Print Assumptions C12_split.
Print Assumptions C12_fused.
Print Assumptions C12_drain.
Print Assumptions C12_into_iter.
Print Assumptions C12_cursor.
Print Assumptions C12_taking.
Print Assumptions C12_taking_items.
Print Assumptions C12_pointer_level_drain.
