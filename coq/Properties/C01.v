(* C01 — the memory bound is never exceeded.  Statements only; proofs are in A/InvA.v. *)
Require Import LruV.A.InvA LruV.T.TableA LruV.B.StepB LruV.B.ReachB.

(* Every state reachable from any constructor configuration (any limit below 2^64, any initial
   capacity) by any sequence of well-formed operations, under every resolution of the table
   oracle, satisfies the bound — both on the counter and on the true (unbounded) sum of the
   size estimates of the entries held. *)
Theorem C01_bound : forall E VS, 0 < E -> VS <= E -> forall s, Reach E VS s ->
  cur s <= maxs s /\ sumN (map (true_size E) (ents s)) <= maxs s /\ cur s = sumN (map (true_size E) (ents s)).
Proof.
  intros E VS HE HV s HR. pose proof (reach_inv E VS HE HV s HR) as (Hsum & Hle & Hmax & Hall & Hnd).
  rewrite (sum_tsz_eq E VS HE HV _ Hall). rewrite <- Hsum. auto.
Qed.

(* No arithmetic site of the cache under/overflows and the eviction loop terminates: the only way
   a step of the model is undefined is the hash table refusing to grow (allocation limits). *)
Theorem C01_arith : forall E VS, 0 < E -> VS <= E -> forall s p o, Reach E VS s -> wf_op E s p ->
  stepA E VS fixed s p o = None ->
  (match p with Insert _ _ | TryInsert _ _ => True | _ => False end) /\ exists t n, t_insert E t n o = None.
Proof.
  intros E VS HE HV s p o HR Hwf Hnone.
  destruct (step_total_inv E VS HE HV s p o (reach_inv E VS HE HV s HR) Hwf) as [(r & Hs & _)|(_ & H)]; [congruence|exact H].
Qed.

(* ... and the table does not refuse for any realistic size: with hashbrown's own invariant (the table is never
   asked to hold more than its capacity) and tables below 2^48 entries of at most 255 inline bytes, EVERY step
   from EVERY reachable state is defined: no under/overflow anywhere, no spinning eviction loop *)
Theorem C01_total : forall E VS, 0 < E < 256 -> VS <= E -> forall s p o, Reach E VS s -> wf_op E s p ->
  (forall t n, t_insert E t n o = None -> n <= capacity t /\ capacity t < 2 ^ 48) ->
  stepA E VS fixed s p o <> None.
Proof.
  intros E VS HE HV s p o HR Hwf Htab Hnone.
  destruct (C01_arith E VS (proj1 HE) HV s p o HR Hwf Hnone) as (_ & t & n & Ht).
  destruct (Htab t n Ht) as [H1 H2]. exact (t_insert_total E HE t n o H1 H2 Ht).
Qed.

(* the Boolean monitor evaluated on the implementation's observations is implied by reachability *)
Theorem C01_monitor_sound : forall E VS, 0 < E -> VS <= E -> forall s, Reach E VS s -> c01_mon E s = true.
Proof. intros E VS HE HV s HR. apply (inv_c01_mon E VS HE HV). eapply reach_inv; eauto. Qed.

(* at pointer level: in every state of the heap-of-nodes model (Layer B) reachable from new / with_capacity by any
   sequence of public operations under any table oracle, the counter is within the limit and equals the unbounded sum of the
   size estimates of the entries owned by the nodes linked from the seal *)
Theorem C01_pointer_level : forall E VS, 0 < E -> VS <= E -> forall b, ReachB E VS b ->
  bcur b <= bmax b /\ bcur b = sumN (map (true_size E) (absl (gh (bg b)) (glist (bg b)))).
Proof.
  intros E VS HE HV b HR. destruct (reachB_sound E VS HE HV b HR) as [_ HA].
  destruct (C01_bound E VS HE HV _ HA) as (H1 & _ & H3). split; [exact H1|exact H3].
Qed.

(* The pinned tree's mutate (current_size += diff before evicting) is refuted: a reachable-shaped
   state satisfying the invariant on which it overflows.  This is the replayed finding 8.1. *)
Definition big1 : N := 2^63.
Definition big2 : N := 2^63 - 1.
Definition s_bad : cache :=
  {| ents := [ {| ek := {| kid := 1; ktok := 1; kheap := 0 |}; ev := {| vtok := 2; vtag := 2; vheap := big1 - 72 |}; es := big1 |};
               {| ek := {| kid := 2; ktok := 3; kheap := 0 |}; ev := {| vtok := 4; vtag := 4; vheap := big2 - 72 |}; es := big2 |} ];
     cur := W - 1; maxs := W - 1; tb := {| nb := 4; tombs := 0 |} |}.
Lemma s_bad_inv : Inv 72 s_bad.
Proof.
  unfold Inv. split; [|split; [|split; [|split]]].
  - vm_compute. reflexivity.
  - apply N.leb_le. vm_compute. reflexivity.
  - apply N.ltb_lt. vm_compute. reflexivity.
  - repeat constructor; vm_compute; reflexivity.
  - cbn. repeat constructor; cbn; intuition discriminate.
Qed.
Theorem C01_pinned_mutate_refuted :
  exists s q nt nh o, Inv 72 s /\ wf_op 72 s (Mutate q nt nh) /\ stepA 72 24 pinned s (Mutate q nt nh) o = None.
Proof.
  exists s_bad, 2, 5, (big2 - 72 + 10), {| o_tomb := 0; o_reuse := false; o_alloc := true |}.
  split; [exact s_bad_inv|]. split; vm_compute; reflexivity.
Qed.
(* ... while the repaired order handles the same input (non-vacuity of C01_arith's premises at that point) *)
Example C01_fixed_same_input :
  exists r, stepA 72 24 fixed s_bad (Mutate 2 5 (big2 - 72 + 10)) {| o_tomb := 0; o_reuse := false; o_alloc := true |} = Some r
            /\ cur (fst (fst r)) <= maxs (fst (fst r)).
Proof. eexists. split; [vm_compute; reflexivity|]. vm_compute. discriminate. Qed.

Print Assumptions C01_bound.
Print Assumptions C01_arith.
Print Assumptions C01_total.
Print Assumptions C01_monitor_sound.
Print Assumptions C01_pointer_level.
Print Assumptions C01_pinned_mutate_refuted.
Check C01_bound : forall E VS, 0 < E -> VS <= E -> forall s, Reach E VS s ->
  cur s <= maxs s /\ sumN (map (true_size E) (ents s)) <= maxs s /\ cur s = sumN (map (true_size E) (ents s)).
