(* C20 — hashing work per operation is bounded independently of the cache size (abstract model;
   the correspondence requires the implementation's Hash::hash count to be <= the model's). *)
Require Import LruV.A.CostA LruV.A.PanicCost.
Require Import LruV.A.MonitorsSound LruV.A.MonitorsA LruV.A.PanicProps.
Require Import LruV.A.InvA LruV.B.StepB LruV.B.RefineB LruV.B.ReachB.

(* For every operation, state and oracle: with departed = len before + (1 if a new entry was added) - len after,
     hashes <= 2 + departed + (if the table was rebuilt then the number of held entries else 0);
   traversals, clear, drain, the LRU/MRU peeks and get_lru hash nothing;
   only reserve / try_reserve / shrink_to / shrink_to_fit and a growing insertion rebuild the table. *)
Theorem C20_bound : forall E VS, 0 < E -> VS <= E -> forall s p o s' out evs,
  Inv E s -> wf_op E s p -> stepA E VS fixed s p o = Some (s', out, evs) ->
  e_hashes evs + len s' <= 2 + len s + added p out + (if e_rebuilt evs then len s' else 0) /\
  (hash_free p = true -> e_hashes evs = 0) /\
  (e_rebuilt evs = true -> may_rebuild p = true).
Proof. exact step_cost. Qed.

(* clone hashes each held entry once; dropping a cache and owning iteration hash nothing *)
Theorem C20_clone : forall E s ren c evs, do_clone E s ren = Some (c, evs) -> e_hashes evs = len s.
Proof. intros E s ren c evs H. unfold do_clone in H. destruct (t_alloc E (capacity (tb s)) true); try discriminate. now injection H as <- <-. Qed.
Theorem C20_drop_into_iter : forall s kind pat f, e_hashes (do_drop s) = 0 /\ e_hashes (snd (do_into_iter s kind pat f)) = 0.
Proof. intros. unfold do_drop, do_into_iter. destruct (take_ends (ents s) pat). auto. Qed.

(* the cost counted by the step function is the number of Hash callback points of the callback-point model of C16
   (A/PanicA.v), at which the correspondence injects its panics: both properties speak about the same artefact *)
Theorem C20_hash_points : forall E VS, 0 < E -> VS <= E -> forall s p o s' out evs, Inv E s -> wf_op E s p ->
  stepA E VS fixed s p o = Some (s', out, evs) -> nh (panic_points E s p o) = e_hashes evs.
Proof. exact hash_points_are_the_cost. Qed.

Example C20_example :
  let o := {| o_tomb := 0; o_reuse := false; o_alloc := true |} in
  let mk i := {| ek := {| kid := i; ktok := i; kheap := 0 |}; ev := {| vtok := 100 + i; vtag := i; vheap := 0 |}; es := 72 |} in
  let s := {| ents := [mk 1; mk 2; mk 3]; cur := 216; maxs := 216; tb := {| nb := 4; tombs := 0 |} |} in
  exists s' out evs, stepA 72 24 fixed s (Insert {| kid := 9; ktok := 9; kheap := 0 |} {| vtok := 109; vtag := 9; vheap := 72 |}) o = Some (s', out, evs)
     /\ e_hashes evs = 3 /\ length (e_evicted evs) = 2%nat.
Proof. cbv zeta. eexists _, _, _. split; [vm_compute; reflexivity|]. split; reflexivity. Qed.

(* the monitor evaluated on the implementation (bound from the observed hash calls, the key objects that left, and whether
   the table was rebuilt) holds for every step of the model whose tokens were distinct before it *)
Theorem C20_monitor_sound : forall E VS, 0 < E -> VS <= E -> forall s p o s' out evs, Inv E s -> wf_op E s p -> toks_ok s p ->
  stepA E VS fixed s p o = Some (s', out, evs) -> c20_mon s p (e_hashes evs) (e_rebuilt evs) s' = true.
Proof. exact c20_mon_sound. Qed.

(* at pointer level: the number of Hash calls of every step of the heap-of-nodes model from a reachable state obeys the bound,
   hash-free operations hash nothing, and only growth, reserve and shrink rebuild the table *)
Theorem C20_pointer_level : forall E VS, 0 < E -> VS <= E -> forall b p oB b' out evs,
  ReachB E VS b -> wf_op E (absB b) p -> stepB E VS b p oB = Some (b', out, evs) ->
  e_hashes evs + len (absB b') <= 2 + len (absB b) + added p out + (if e_rebuilt evs then len (absB b') else 0) /\
  (hash_free p = true -> e_hashes evs = 0) /\
  (e_rebuilt evs = true -> may_rebuild p = true).
Proof.
  intros E VS HE HV b p oB b' out evs HR Hwf Hstep.
  destruct (reachB_sound E VS HE HV b HR) as [_ HRa]. pose proof (reach_inv E VS HE HV _ HRa) as HI.
  destruct (reachB_step E VS HE HV b _ oB b' out evs HR Hstep) as (HA & HRI & _).
  exact (C20_bound E VS HE HV _ p _ _ out evs HI Hwf HA).
Qed.

Print Assumptions C20_bound.
Print Assumptions C20_clone.
Print Assumptions C20_hash_points.
Print Assumptions C20_monitor_sound.
Print Assumptions C20_pointer_level.
