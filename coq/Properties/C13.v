(* C13 — capacity management is transparent, meets its bounds, and growth is bounded. *)
Require Import LruV.T.TableA LruV.A.SpecA LruV.T.GrowthA.
Require Import LruV.T.GrowthMon.
Require Import LruV.A.InvA LruV.B.StepB LruV.B.RefineB LruV.B.ReachB.

Definition cap_op (p : op) : bool := match p with Reserve _ | TryReserve _ | ShrinkTo _ | ShrinkToFit => true | _ => false end.

(* none of the capacity operations changes contents, order, recorded sizes, current_size or max_size,
   whatever the allocator answers *)
Theorem C13_transparent : forall E VS s p o s' out evs, cap_op p = true ->
  stepA E VS fixed s p o = Some (s', out, evs) ->
  ents s' = ents s /\ cur s' = cur s /\ maxs s' = maxs s /\ e_dropped evs = [] /\ e_evicted evs = [].
Proof.
  intros E VS s p o s' out evs Hc H. destruct p; try discriminate Hc; cbn [stepA] in H.
  - destruct (add64 (len s) n); [|injection H as <- <- <-; auto].
    destruct (capacity (tb s) <? n0); [|injection H as <- <- <-; auto].
    pose proof (realloc_same E s n0 o) as (R1 & R2 & R3). destruct (do_realloc E s n0 o) as [s1 [t| |]]; injection H as <- <- <-; cbn [fst] in *; auto.
  - destruct (add64 (len s) n); [|injection H as <- <- <-; auto].
    destruct (capacity (tb s) <? n0); [|injection H as <- <- <-; auto].
    pose proof (realloc_same E s n0 o) as (R1 & R2 & R3). destruct (do_realloc E s n0 o) as [s1 [t| |]]; injection H as <- <- <-; cbn [fst] in *; auto.
  - unfold do_shrink in H. destruct (N.max (len s) n <? capacity (tb s)); [|injection H as <- <- <-; auto].
    cbn [shrink_orig fixed] in H. destruct (t_alloc E (N.max (len s) n) (o_alloc o)); try (injection H as <- <- <-; auto).
    destruct (capacity t <? capacity (tb s)); injection H as <- <- <-; auto.
  - unfold do_shrink in H. destruct (N.max (len s) 0 <? capacity (tb s)); [|injection H as <- <- <-; auto].
    cbn [shrink_orig fixed] in H. destruct (t_alloc E (N.max (len s) 0) (o_alloc o)); try (injection H as <- <- <-; auto).
    destruct (capacity t <? capacity (tb s)); injection H as <- <- <-; auto.
Qed.

(* reserve / try_reserve that return normally leave capacity >= len + additional *)
Theorem C13_reserve : forall E VS s n o s' out evs,
  (stepA E VS fixed s (Reserve n) o = Some (s', out, evs) /\ out = OUnit) \/
  (stepA E VS fixed s (TryReserve n) o = Some (s', out, evs) /\ out = OResOk) ->
  len s + n <= capacity (tb s').
Proof.
  intros E VS s n o s' out evs [[H Ho]|[H Ho]]; cbn [stepA] in H; subst out;
  (destruct (add64 (len s) n) as [w|] eqn:Ha; [|discriminate]); apply add64_inv in Ha as [-> _];
  (destruct (N.ltb_spec (capacity (tb s)) (len s + n)); [|injection H as <- _; lia]);
  unfold do_realloc in H; (destruct (t_alloc E (len s + n) (o_alloc o)) as [t| |] eqn:Hal; try discriminate);
  injection H as <- _; cbn [tb set_ents]; now destruct (t_alloc_ok E _ _ _ Hal).
Qed.

(* a failing try_reserve (overflow of len + additional, overflow of the table layout, allocator refusal)
   leaves the cache exactly as it was *)
Theorem C13_try_reserve_fail : forall E VS s n o s' out evs,
  stepA E VS fixed s (TryReserve n) o = Some (s', out, evs) -> out <> OResOk -> s' = s /\ evs = ev0.
Proof.
  intros E VS s n o s' out evs H Hne. cbn [stepA] in H. destruct (add64 (len s) n); [|injection H as <- _ <-; auto].
  destruct (capacity (tb s) <? n0); [|injection H as _ <- _; congruence].
  unfold do_realloc in H. destruct (t_alloc E n0 (o_alloc o)); injection H as <- <- <-; auto; congruence.
Qed.

(* shrink_to / shrink_to_fit (repaired) never raise the capacity and keep it >= max(len, min) unless it was already below *)
Theorem C13_shrink : forall E VS s n o s' out evs,
  stepA E VS fixed s (ShrinkTo n) o = Some (s', out, evs) -> out = OUnit ->
  capacity (tb s') <= capacity (tb s) /\ (N.max (len s) n <= capacity (tb s) -> N.max (len s) n <= capacity (tb s')).
Proof.
  intros E VS s n o s' out evs H Ho. cbn [stepA] in H. unfold do_shrink in H. subst out.
  destruct (N.ltb_spec (N.max (len s) n) (capacity (tb s))); [|injection H as <- _; lia].
  cbn [shrink_orig fixed] in H. destruct (t_alloc E (N.max (len s) n) (o_alloc o)) as [t| |] eqn:Hal; try discriminate.
  destruct (N.ltb_spec (capacity t) (capacity (tb s))); injection H as <- _; cbn [tb set_ents]; [|lia].
  destruct (t_alloc_ok E _ _ _ Hal) as (Hge & _). lia.
Qed.
Theorem C13_shrink_to_fit : forall E VS s o s' out evs,
  stepA E VS fixed s ShrinkToFit o = Some (s', out, evs) -> out = OUnit ->
  capacity (tb s') <= capacity (tb s) /\ (len s <= capacity (tb s) -> len s <= capacity (tb s')).
Proof.
  intros E VS s o s' out evs H Ho. destruct (C13_shrink E VS s 0 o s' out evs H Ho) as [H1 H2]. split; [exact H1|]. intros. lia.
Qed.

(* the pinned shrink_to is refuted: with a tombstone the capacity goes UP (finding 8.4) *)
Theorem C13_pinned_shrink_refuted :
  exists s n o s' out evs, stepA 72 24 pinned s (ShrinkTo n) o = Some (s', out, evs) /\ capacity (tb s) < capacity (tb s').
Proof.
  exists {| ents := []; cur := 0; maxs := 1000; tb := {| nb := 32; tombs := 1 |} |}, 26, {| o_tomb := 0; o_reuse := false; o_alloc := true |}.
  eexists _, _, _. split; [vm_compute; reflexivity|]. vm_compute. reflexivity.
Qed.

(* a cache created with_capacity(n) has room for n entries and no tombstones ... *)
Theorem C13_with_capacity_new : forall E mx n s, new_cache E mx n = Some s -> n <= capacity (tb s) /\ tombs (tb s) = 0 /\ ents s = [].
Proof.
  intros E mx n s H. unfold new_cache in H. destruct (t_alloc E n true) as [t| |] eqn:Ha; try discriminate. injection H as <-.
  destruct (t_alloc_ok E _ _ _ Ha) as (H1 & H2 & _). auto.
Qed.
(* ... and an insertion of a fresh key that evicts nothing into a table with room and no tombstones leaves
   the table untouched; so n such insertions after with_capacity(n) never change the capacity *)
Theorem C13_with_capacity_step : forall E VS, 0 < E -> VS <= E -> forall s k v o s' evs,
  Inv E s -> kheap k + vheap v + E < W -> find_id (kid k) (ents s) = None ->
  tombs (tb s) = 0 -> len s < capacity (tb s) -> o_tomb o = 0 ->
  stepA E VS fixed s (Insert k v) o = Some (s', OInsOk None, evs) -> e_evicted evs = [] ->
  tb s' = tb s /\ len s' = len s + 1 /\ e_rebuilt evs = false.
Proof.
  intros E VS HE HV s k v o s' evs HI Hwf Hfresh Htz Hroom Hot H Hev. cbn [stepA] in H.
  destruct (insert_spec E VS HE HV s k v o _ HI Hwf H) as [[_ Hr]|(_ & evd & rest & t2 & rb & Hmp & _ & Ht & Hr)]; [discriminate|].
  injection Hr as -> _ ->. cbn [e_evicted] in Hev. subst evd. destruct Hmp as (Hl & _). cbn [app] in Hl.
  destruct (find_id_none _ _ Hfresh) as [Er _]. rewrite Er in Hl. subst rest.
  rewrite Hot in Ht. assert (Hte : t_erase (tb s) 0 = tb s) by (unfold t_erase; destruct (tb s); cbn; f_equal; lia). rewrite Hte in Ht.
  fold (len s) in Ht. rewrite (t_insert_room E (tb s) (len s) o Htz Hroom) in Ht. injection Ht as <- <-.
  cbn [tb set_ents e_rebuilt]. repeat split. unfold len. cbn [ents set_ents]. rewrite app_length. cbn [length]. lia.
Qed.

(* THE CLAUSE IN ITS OWN WORDS, OVER RUNS OF ANY LENGTH: a run of insertions of fresh keys, none of which evicts (and, nothing
   being erased, none of which leaves a tombstone: o_tomb = 0), interleaved with any number of operations that do not touch
   the table (lookups, peeks, touches, iteration, size queries) *)
Definition table_neutral (p : op) : bool :=
  match p with
  | Get _ | GetEntry _ | Peek _ | PeekEntry _ | Contains _ | Touch _ | GetLru | PeekLru | PeekMru
  | IterOp _ | DebugFmt | Len | IsEmpty | CurrentSize | MaxSize | Capacity => true
  | _ => false
  end.
Inductive FreshRun (E VS : N) : cache -> nat -> cache -> Prop :=
| fr_nil s : FreshRun E VS s 0 s
| fr_insert s n s1 k v o s' evs : FreshRun E VS s n s1 ->
    kheap k + vheap v + E < W -> find_id (kid k) (ents s1) = None -> o_tomb o = 0 ->
    stepA E VS fixed s1 (Insert k v) o = Some (s', OInsOk None, evs) -> e_evicted evs = [] ->
    FreshRun E VS s (S n) s'
| fr_other s n s1 p o s' out evs : FreshRun E VS s n s1 -> table_neutral p = true ->
    stepA E VS fixed s1 p o = Some (s', out, evs) -> FreshRun E VS s n s'.

Lemma do_touch_keeps s q : tb (fst (do_touch s q)) = tb s /\ len (fst (do_touch s q)) = len s.
Proof.
  unfold do_touch. destruct (find_id q (ents s)) as [e|] eqn:Hf; [|split; reflexivity]. cbn [fst]. split; [reflexivity|].
  unfold len. cbn [ents set_ents]. destruct (find_id_some _ _ _ Hf) as (l1 & l2 & Hl & Hr & _). rewrite Hr, Hl, !app_length. cbn [length]. f_equal. lia.
Qed.
Lemma neutral_keeps E VS s p o s' out evs : table_neutral p = true -> stepA E VS fixed s p o = Some (s', out, evs) ->
  tb s' = tb s /\ len s' = len s /\ e_rebuilt evs = false.
Proof.
  intros Hn H. destruct p; try discriminate; cbn [stepA] in H;
    try (injection H as <- <- <-; repeat split; reflexivity);
    try (pose proof (do_touch_keeps s q) as [Ht Hl]; destruct (do_touch s q) as [s1 r]; cbn [fst] in Ht, Hl; injection H as <- <- <-; repeat split; assumption).
  (* GetLru *) destruct (ents s) as [|e r] eqn:Hl; injection H as <- <- <-; repeat split; try reflexivity.
  unfold len. cbn [ents set_ents]. rewrite Hl, app_length. cbn [length]. f_equal. lia.
Qed.

(* a cache created with_capacity(n) takes n fresh insertions — interleaved with any lookups — without its table, hence its
   capacity, ever changing and without a single rebuild *)
Theorem C13_with_capacity_run : forall E VS, 0 < E -> VS <= E -> forall mx n s0, mx < W -> new_cache E mx n = Some s0 ->
  forall m s, FreshRun E VS s0 m s -> N.of_nat m <= n ->
  tb s = tb s0 /\ capacity (tb s) = capacity (tb s0) /\ len s = N.of_nat m /\ Reach E VS s.
Proof.
  intros E VS HE HV mx n s0 Hmx Hnew m s Hrun. destruct (C13_with_capacity_new E mx n s0 Hnew) as (Hcap & Htz & Hents).
  induction Hrun as [s|s m s1 k v o s' evs Hrun IH Hwf Hfresh Hot Hstep Hev|s m s1 p o s' out evs Hrun IH Hneu Hstep]; intros Hm.
  - repeat split; [unfold len; rewrite Hents; reflexivity|exact (reach_new E VS mx n s Hmx Hnew)].
  - assert (Hm' : N.of_nat m <= n) by lia. destruct (IH Hnew Hcap Htz Hents Hm') as (Ht & _ & Hlen & HR).
    assert (HI : Inv E s1) by (apply (reach_inv E VS HE HV); exact HR).
    destruct (C13_with_capacity_step E VS HE HV s1 k v o s' evs HI Hwf Hfresh) as (Ht' & Hlen' & _); auto; try (rewrite Ht; auto; lia).
    repeat split; try congruence; [lia|]. change s' with (fst (fst (s', OInsOk None, evs))). eapply reach_step; eauto. exact Hwf.
  - destruct (IH Hnew Hcap Htz Hents Hm) as (Ht & _ & Hlen & HR). destruct (neutral_keeps E VS s1 p o s' out evs Hneu Hstep) as (Ht' & Hlen' & _).
    repeat split; try congruence. change s' with (fst (fst (s', out, evs))). eapply reach_step; eauto. destruct p; try discriminate; exact I.
Qed.

(* such runs exist: with_capacity(3), three fresh insertions with a lookup in between; the capacity (3) never moves *)
Example C13_with_capacity_run_example :
  let o := {| o_tomb := 0; o_reuse := false; o_alloc := true |} in
  exists s0 s, new_cache 72 1000 3 = Some s0 /\ FreshRun 72 24 s0 3 s /\ capacity (tb s0) = 3 /\ capacity (tb s) = 3 /\ len s = 3.
Proof.
  cbv zeta. pose (o := {| o_tomb := 0; o_reuse := false; o_alloc := true |}).
  assert (H0 : exists s0, new_cache 72 1000 3 = Some s0) by (eexists; vm_compute; reflexivity). destruct H0 as [s0 H0].
  pose proof H0 as H0'. vm_compute in H0'. injection H0' as <-.
  eexists _, _. split; [exact H0|]. split; [|split; [|split]].
  - eapply (fr_insert 72 24 _ _ _ {| kid := 3; ktok := 7; kheap := 0 |} {| vtok := 6; vtag := 3; vheap := 0 |} o).
    eapply (fr_other 72 24 _ _ _ (Get 1) o).
    eapply (fr_insert 72 24 _ _ _ {| kid := 2; ktok := 5; kheap := 0 |} {| vtok := 4; vtag := 2; vheap := 0 |} o).
    eapply (fr_insert 72 24 _ _ _ {| kid := 1; ktok := 3; kheap := 0 |} {| vtok := 2; vtag := 1; vheap := 0 |} o).
    apply fr_nil.
    all: try (vm_compute; reflexivity).
  - reflexivity.
  - reflexivity.
  - reflexivity.
Qed.

(* automatic growth: only when the table is full, to the smallest table size holding twice the entries;
   the capacity afterwards is below max(4 x entries, 16) *)
Theorem C13_auto_growth : forall E VS, 0 < E -> VS <= E -> forall s k v o s' old evs,
  Inv E s -> kheap k + vheap v + E < W ->
  stepA E VS fixed s (Insert k v) o = Some (s', OInsOk old, evs) -> e_rebuilt evs = true ->
  len s' - 1 <= capacity (t_erase (tb s) (o_tomb o)) ->          (* the table was not over-full (hashbrown's own invariant) *)
  capacity (t_erase (tb s) (o_tomb o)) = len s' - 1 /\ len s' <= capacity (tb s') /\ capacity (tb s') < N.max (4 * (len s' - 1)) 16.
Proof.
  intros E VS HE HV s k v o s' old evs HI Hwf H Hrb Hcons. cbn [stepA] in H.
  destruct (insert_spec E VS HE HV s k v o _ HI Hwf H) as [[_ Hr]|(_ & evd & rest & t2 & rb & Hmp & _ & Ht & Hr)]; [discriminate|].
  injection Hr as -> _ ->. cbn [e_rebuilt] in Hrb. subst rb. unfold len in *. cbn [ents set_ents tb] in *. rewrite app_length in *. cbn [length] in *.
  replace (N.of_nat (length rest + 1) - 1) with (N.of_nat (length rest)) in * by lia.
  destruct (t_insert_growth E _ _ o t2 Hcons Ht) as (H1 & H2 & H3 & H4). repeat split; auto; lia.
Qed.

(* over whole histories (ReachG carries two ghost variables: the peak number of entries and the largest full
   capacity granted to an explicit request): however long the cache churns, for every oracle, the table's full
   capacity (and a fortiori capacity()) stays below max(4 x peak len, 16) or within what was explicitly requested *)
Theorem C13_growth_bounded : forall E VS, 0 < E -> VS <= E -> forall s pk rq, ReachG E VS s pk rq ->
  len s <= pk /\ (fullcap (tb s) < N.max (4 * pk) 16 \/ fullcap (tb s) <= rq) /\ capacity (tb s) <= fullcap (tb s).
Proof.
  intros E VS HE HV s pk rq HR. destruct (growth_bounded E VS HE HV s pk rq HR) as [H1 H2]. repeat split; auto. unfold capacity. lia.
Qed.

(* the growth clause of the monitor evaluated on the implementation (c13_mon, arms Insert / TryInsert: when an insertion
   changes the number of buckets, the new table is the smallest one holding twice the entries the table held when it refused
   the newcomer) holds for every step of the model *)
Theorem C13_monitor_growth_insert : forall E VS, 0 < E -> VS <= E -> forall s k v o s' old evs, Inv E s -> kheap k + vheap v + E < W ->
  stepA E VS fixed s (Insert k v) o = Some (s', OInsOk old, evs) ->
  len s' - 1 <= capacity (t_erase (tb s) (o_tomb o)) ->
  c13_mon s (Insert k v) (OInsOk old) s' = true.
Proof. exact c13_mon_growth_insert. Qed.
Theorem C13_monitor_growth_try_insert : forall E VS, 0 < E -> VS <= E -> forall s k v o s' evs, Inv E s -> kheap k + vheap v + E < W ->
  stepA E VS fixed s (TryInsert k v) o = Some (s', OTryOk, evs) ->
  len s <= capacity (tb s) ->
  c13_mon s (TryInsert k v) OTryOk s' = true.
Proof. exact c13_mon_growth_try_insert. Qed.

(* ... and so does the whole monitor: every step of the model satisfies c13_mon (for insertions under hashbrown's own invariant
   that a table never holds more entries than its capacity) *)
Theorem C13_monitor_sound : forall E VS, 0 < E -> VS <= E -> forall s p o s' out evs, Inv E s -> wf_op E s p -> hb_ok s p o s' ->
  stepA E VS fixed s p o = Some (s', out, evs) -> c13_mon s p out s' = true.
Proof. exact c13_mon_sound. Qed.

Example C13_example_reserve :
  let s := {| ents := []; cur := 0; maxs := 1000; tb := {| nb := 4; tombs := 0 |} |} in
  exists s', stepA 72 24 fixed s (Reserve 28) {| o_tomb := 0; o_reuse := false; o_alloc := true |} = Some (s', OUnit, rebuilt_ev s) /\ capacity (tb s') = 28.
Proof. cbv zeta. eexists. split; vm_compute; reflexivity. Qed.

(* at pointer level: reserve, try_reserve, shrink_to and shrink_to_fit as the code runs them (every node moved to the bucket the
   new table hands out, the links of its neighbours redirected, the old buckets freed) from any reachable state keep the
   entries, their order, their recorded sizes, the counter and the limit, drop and evict nothing, leave the structure
   coherent; a successful reservation makes room for the requested number of further entries *)
Theorem C13_pointer_level : forall E VS, 0 < E -> VS <= E -> forall b p oB b' out evs,
  ReachB E VS b -> cap_op p = true -> stepB E VS b p oB = Some (b', out, evs) ->
  ents (absB b') = ents (absB b) /\ bcur b' = bcur b /\ bmax b' = bmax b /\ e_dropped evs = [] /\ e_evicted evs = [] /\ RIb b' /\
  (forall n, (p = Reserve n /\ out = OUnit) \/ (p = TryReserve n /\ out = OResOk) -> len (absB b) + n <= capacity (btb b')).
Proof.
  intros E VS HE HV b p oB b' out evs HR Hc Hstep.
  destruct (reachB_step E VS HE HV b _ oB b' out evs HR Hstep) as (HA & HRI & _).
  destruct (C13_transparent E VS _ p _ _ out evs Hc HA) as (H1 & H2 & H3 & H4 & H5).
  repeat (split; [assumption|]). intros n [[-> Ho]|[-> Ho]].
  - exact (C13_reserve E VS _ n _ _ out evs (or_introl (conj HA Ho))).
  - exact (C13_reserve E VS _ n _ _ out evs (or_intror (conj HA Ho))).
Qed.

Print Assumptions C13_transparent.
Print Assumptions C13_reserve.
Print Assumptions C13_try_reserve_fail.
Print Assumptions C13_shrink.
Print Assumptions C13_shrink_to_fit.
Print Assumptions C13_with_capacity_step.
Print Assumptions C13_auto_growth.
Print Assumptions C13_growth_bounded.
Print Assumptions C13_monitor_growth_insert.
Print Assumptions C13_monitor_growth_try_insert.
Print Assumptions C13_pinned_shrink_refuted.
Print Assumptions C13_monitor_sound.
Print Assumptions C13_pointer_level.
Print Assumptions C13_with_capacity_run.
