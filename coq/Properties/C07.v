(* C07 — the list/table structure stays coherent and memory-safe across all operations (Layer B).
   The heap model faults (returns None) on any access to an unallocated or freed node and on reading a
   payload that was moved out; every theorem below therefore includes "does not fault". The aliasing
   model of Rust is outside the model (DESIGN.md 6). *)
Require Import LruV.B.TakingB LruV.B.RiCheckSound LruV.B.RiCheck LruV.B.OpsProps LruV.B.StepB LruV.B.RefineLemmas LruV.B.RefineB LruV.B.ReachB LruV.B.TotalB LruV.A.InvA.

(* RI h seal l (B/RepB.v): seal :: l are distinct allocated nodes, following next from the seal visits l and
   returns to the seal, prev mirrors next, every listed bucket owns a live key/value, the seal owns none. *)

(* list surgery at ANY position (least-, most-recently-used, middle, only entry) keeps the structure coherent *)
Theorem C07_unhinge : forall h seal l a, RI h seal l -> In a l ->
  exists h' l1 l2, l = l1 ++ a :: l2 /\ unhinge h a = Some h' /\ RI h' seal (l1 ++ l2) /\ same_data h h' /\ h' a <> None.
Proof. exact unhinge_RI. Qed.
Theorem C07_set_head : forall h seal l a k v, RI h seal l -> ~ In a (seal :: l) -> payof h a = Some (PLive k v) ->
  exists h', set_head h seal a = Some h' /\ RI h' seal (a :: l) /\ same_data h h'.
Proof. exact set_head_RI. Qed.
Theorem C07_touch : forall h seal l a, RI h seal l -> In a l ->
  exists h' l1 l2, l = l1 ++ a :: l2 /\ touch_ptr h seal a = Some h' /\ RI h' seal (a :: l1 ++ l2) /\ same_data h h'.
Proof. exact touch_RI. Qed.

(* reallocation (automatic growth, reserve, try_reserve, shrink): for EVERY order in which the old table
   yields its entries, the loop never touches freed memory, re-links every entry, frees every old bucket
   and leaves the abstract list — order, keys, values, recorded sizes — exactly as it was *)
Theorem C07_realloc : forall todo h seal l fresh, RI h seal l -> NoDup todo -> (forall a, In a todo -> In a l) ->
  (forall b, In b (seal :: l) -> b < fresh) ->
  exists h', moves h todo fresh = Some h' /\ RI h' seal (rename_all todo fresh l) /\
             absl h' (rename_all todo fresh l) = absl h l /\ (forall a, In a todo -> h' a = None).
Proof. exact realloc_RI. Qed.

(* traversal from either end never steps onto the seal or outside the list: it yields exactly take_ends *)
Theorem C07_traversal : forall h seal l pat, RI h seal l ->
  exists c, cursor_new h seal (match l with [] => true | _ => false end) = Some c /\ it_run h c pat = Some (fst (take_ends (rev l) pat)).
Proof. exact iter_on_RI. Qed.

(* the composed operations that the correspondence RUNS on the implementation's pointer graphs (component bsim:
   the links and sizes they compute must be the ones observed after the step) preserve the invariant *)
Theorem C07_b_touch : forall g a, RI (gh g) (gseal g) (glist g) -> In a (glist g) ->
  exists g', b_touch g a = Some g' /\ RI (gh g') (gseal g') (glist g') /\ gseal g' = gseal g /\
             same_data (gh g) (gh g') /\ exists l1 l2, glist g = l1 ++ a :: l2 /\ glist g' = a :: l1 ++ l2.
Proof. exact b_touch_RI. Qed.
Theorem C07_b_remove : forall g a, RI (gh g) (gseal g) (glist g) -> In a (glist g) ->
  exists g', b_remove g a = Some g' /\ RI (gh g') (gseal g') (glist g') /\ gseal g' = gseal g /\ gh g' a = None /\
             (forall b, b <> a -> payof (gh g') b = payof (gh g) b /\ sizeof_node (gh g') b = sizeof_node (gh g) b) /\
             exists l1 l2, glist g = l1 ++ a :: l2 /\ glist g' = l1 ++ l2.
Proof. exact b_remove_RI. Qed.
Theorem C07_b_insert_new : forall g a sz k v, RI (gh g) (gseal g) (glist g) -> ~ In a (gseal g :: glist g) ->
  exists g', b_insert_new g a sz (PLive k v) = Some g' /\ RI (gh g') (gseal g') (glist g') /\ gseal g' = gseal g /\
             glist g' = a :: glist g /\ payof (gh g') a = Some (PLive k v) /\ sizeof_node (gh g') a = Some sz /\
             (forall b, b <> a -> payof (gh g') b = payof (gh g) b /\ sizeof_node (gh g') b = sizeof_node (gh g) b).
Proof. exact b_insert_new_RI. Qed.
(* reallocation with the bucket addresses the new table actually chose: any source order, any distinct targets
   outside the old structure *)
Theorem C07_b_moves : forall pairs h seal l,
  NoDup (seal :: l) -> chain h (seal :: l ++ [seal]) ->
  NoDup (map fst pairs) -> (forall a, In a (map fst pairs) -> In a l) ->
  NoDup (map snd pairs) -> (forall a', In a' (map snd pairs) -> ~ In a' (seal :: l)) ->
  exists g', b_moves {| gh := h; gseal := seal; glist := l |} pairs = Some g' /\
             glist g' = rename_pairs pairs l /\ gseal g' = seal /\
             chain (gh g') (seal :: glist g' ++ [seal]) /\ NoDup (seal :: glist g') /\
             (forall a, In a (map fst pairs) -> gh g' a = None).
Proof. exact b_moves_chain. Qed.

(* EVERY public operation, composed at pointer level as src/lib.rs composes it (B/StepB.v: lookups scan the listed
   buckets, eviction victims are read from seal.prev, retain walks the prev links, iterators run as cursors, drain
   detaches the nodes and moves the pairs out, the bucket a new entry lands in and the targets of a rebuild are
   whatever hashbrown chose — checked, not assumed): started on a coherent structure whose keys are unique it never
   faults into incoherence — it ends in a coherent structure with the same seal — and its result, its events and the
   abstraction of its final state are exactly Layer A's. `stepB = Some` excludes the faults (access to a freed or
   unallocated node, reading a moved-out payload, 64-bit overflow), which the correspondence reports separately. *)
Theorem C07_public_ops_refine : forall E VS b p oB b' o evs, RIb b -> KU b -> stepB E VS b p oB = Some (b', o, evs) ->
  stepA E VS fixed (absB b) p (ob oB) = Some (absB b', o, evs) /\ RIb b' /\ gseal (bg b') = gseal (bg b).
Proof. exact stepB_refines. Qed.
(* memory safety of the list surgery, positively: on a coherent structure with unique keys every operation whose pointer
   work does not depend on hashbrown's bucket choices (all but insert / try_insert / reserve / try_reserve / shrink_to*,
   whose new-bucket and move addresses come from the oracle and are checked) returns a result whenever the abstract
   operation does: no access to a freed or unallocated node, no read of a moved-out payload, no eviction loop running off an
   empty list. With C07_public_ops_refine that result is Layer A's. *)
Theorem C07_no_pointer_fault : forall E VS b p oB r, RIb b -> KU b -> oracle_free p = true ->
  stepA E VS fixed (absB b) p (ob oB) = Some r -> exists r', stepB E VS b p oB = Some r'.
Proof. exact stepB_total. Qed.
(* ... and for the operations that do ask hashbrown for buckets (insert, try_insert, reserve, try_reserve, shrink_to,
   shrink_to_fit): there is a coherent structure g — the one that exists when hashbrown is asked: the initial one, or for
   insert the one left by de-duplication and eviction, a sub-list of the initial one — such that if the oracle answers validly
   for g (a rebuild moves listed buckets, each once, to distinct buckets outside g; the new entry's bucket is outside g and
   not a target of the rebuild) the operation does not fault either *)
Theorem C07_no_pointer_fault_with_buckets : forall E VS b p oB r, RIb b -> KU b -> stepA E VS fixed (absB b) p (ob oB) = Some r ->
  exists g, RIg g /\ gseal g = gseal (bg b) /\ (forall x, In x (glist g) -> In x (glist (bg b))) /\
            (oracle_ok_at g oB -> exists r', stepB E VS b p oB = Some r').
Proof. exact stepB_total_oracle. Qed.
(* ... and therefore every state reachable from new / with_capacity by any sequence of operations under any oracle
   is coherent, and its abstraction is a reachable state of Layer A: all of Layer A's theorems speak about it *)
Theorem C07_reachable_coherent : forall E VS, 0 < E -> VS <= E -> forall b, ReachB E VS b -> RIb b /\ Reach E VS (absB b).
Proof. exact reachB_sound. Qed.

(* the monitor evaluated on the implementation's snapshot is sound for the structural part of RI *)
Theorem C07_monitor_sound : forall g, ri_check g = true ->
  let l := map oaddr (g_nodes g) in
  NoDup (g_seal g :: l) /\ chain (heap_of g) (g_seal g :: l ++ [g_seal g]) /\
  Permutation l (g_buckets g) /\ N.of_nat (length l) = g_len g /\ payof (heap_of g) (g_seal g) = Some PSeal.
Proof. exact ri_check_sound. Qed.

(* non-vacuity: a concrete three-entry structure satisfies RI, and touching its LRU yields the expected cycle *)
Definition ex_pay (i : N) := PLive {| kid := i; ktok := i; kheap := 0 |} {| vtok := i; vtag := i; vheap := 0 |}.
Definition ex_heap : heap := fun a =>
  if a =? 100 then Some {| nprev := 3; nnext := 1; nsize := 0; npay := PSeal |}
  else if a =? 1 then Some {| nprev := 100; nnext := 2; nsize := 72; npay := ex_pay 1 |}
  else if a =? 2 then Some {| nprev := 1; nnext := 3; nsize := 72; npay := ex_pay 2 |}
  else if a =? 3 then Some {| nprev := 2; nnext := 100; nsize := 72; npay := ex_pay 3 |}
  else None.
Example C07_example_RI : RI ex_heap 100 [1; 2; 3].
Proof.
  split; [|split; [|split]].
  - repeat constructor; cbn; intuition discriminate.
  - cbn. repeat split; reflexivity.
  - reflexivity.
  - intros a [<-|[<-|[<-|[]]]]; unfold ex_pay; eexists _, _; reflexivity.
Qed.
Example C07_example_touch : exists h', touch_ptr ex_heap 100 3 = Some h' /\ nextof h' 100 = Some 3 /\ nextof h' 3 = Some 1 /\ prevof h' 100 = Some 2.
Proof. eexists. split; [vm_compute; reflexivity|]. repeat split; vm_compute; reflexivity. Qed.

(* non-vacuity of the refinement: a concrete run of the pointer-level operations from an empty cache (two insertions with
   a table rebuild, a get that re-links, an eviction by a third insertion, a drain) succeeds and ends coherent *)
Definition ex_k (i : N) : key := {| kid := i; ktok := 10 + i; kheap := 0 |}.
Definition ex_v (i : N) : val := {| vtok := 20 + i; vtag := i; vheap := 0 |}.
Definition ex_o (a : addr) (mv : list (addr * addr)) : oracleB := {| ob := {| o_tomb := 0; o_reuse := false; o_alloc := true |}; ob_addr := a; ob_moves := mv |}.
Fixpoint ex_run (b : bstate) (l : list (op * oracleB)) : option (bstate * list out) :=
  match l with
  | [] => Some (b, [])
  | (p, o) :: r => match stepB 72 24 b p o with
                   | Some (b', out, _) => match ex_run b' r with Some (b'', outs) => Some (b'', out :: outs) | None => None end
                   | None => None
                   end
  end.
Example C07_example_run :
  exists b0 b1 outs, new_b 72 100 150 0 = Some b0 /\ ReachB 72 24 b0 /\
    ex_run b0 [(Insert (ex_k 1) (ex_v 1), ex_o 1 []); (Insert (ex_k 2) (ex_v 2), ex_o 2 []); (Get 1, ex_o 0 []);
               (Insert (ex_k 3) (ex_v 3), ex_o 3 []); (IterOp [true; false; true], ex_o 0 [])] = Some (b1, outs) /\
    map (fun e => kid (ek e)) (ents (absB b1)) = [1; 3] /\ glist (bg b1) = [3; 1] /\
    outs = [OInsOk None; OInsOk None; OVal (Some (ex_v 1)); OInsOk None; OItems [Some (ex_k 1, ex_v 1); Some (ex_k 3, ex_v 3); None]].
Proof.
  eexists _, _, _. split; [vm_compute; reflexivity|]. split; [apply (reachb_new 72 24 100 150 0); vm_compute; reflexivity|].
  split; [vm_compute; reflexivity|]. repeat split; vm_compute; reflexivity.
Qed.

Print Assumptions C07_unhinge.
Print Assumptions C07_set_head.
Print Assumptions C07_touch.
Print Assumptions C07_realloc.
Print Assumptions C07_traversal.
Print Assumptions C07_b_touch.
Print Assumptions C07_b_remove.
Print Assumptions C07_b_insert_new.
Print Assumptions C07_b_moves.
Print Assumptions C07_public_ops_refine.
Print Assumptions C07_reachable_coherent.
Print Assumptions C07_no_pointer_fault.
Print Assumptions C07_no_pointer_fault_with_buckets.
Print Assumptions C07_monitor_sound.
