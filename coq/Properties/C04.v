(* C04 — the cache is a faithful key-to-value map (abstract part: independent of hashing, which the
   model does not contain at all; "any hasher" is the assumed hashbrown contract, exercised by the
   correspondence runs under five hashers including an all-colliding one and lookups through a
   borrowed key type). *)
Require Import LruV.A.OrderA LruV.A.HistoryA.
Require Import LruV.A.MonitorsSound LruV.A.MonitorsA LruV.A.InvA LruV.B.StepB LruV.B.ReachB.

(* at most one entry per key, in every reachable state *)
Theorem C04_nodup : forall E VS, 0 < E -> VS <= E -> forall s, Reach E VS s -> NoDup (kids (ents s)).
Proof. intros E VS HE HV s HR. now destruct (reach_inv E VS HE HV s HR) as (_ & _ & _ & _ & ?). Qed.

(* every lookup, membership test, insertion and removal returns exactly what the map `lookup s` says *)
Theorem C04_outputs : forall E VS s o,
  (forall q s' out evs, stepA E VS fixed s (Get q) o = Some (s', out, evs) -> out = OVal (lookup s q)) /\
  (forall q s' out evs, stepA E VS fixed s (Peek q) o = Some (s', out, evs) -> out = OVal (lookup s q)) /\
  (forall q s' out evs, stepA E VS fixed s (GetEntry q) o = Some (s', out, evs) -> out = OKV (option_map kv (find_id q (ents s)))) /\
  (forall q s' out evs, stepA E VS fixed s (PeekEntry q) o = Some (s', out, evs) -> out = OKV (option_map kv (find_id q (ents s)))) /\
  (forall q s' out evs, stepA E VS fixed s (Contains q) o = Some (s', out, evs) -> out = OBool (match lookup s q with Some _ => true | None => false end)) /\
  (forall q s' out evs, stepA E VS fixed s (Remove q) o = Some (s', out, evs) -> out = OVal (lookup s q)) /\
  (forall q s' out evs, stepA E VS fixed s (RemoveEntry q) o = Some (s', out, evs) -> out = OKV (option_map kv (find_id q (ents s)))).
Proof.
  intros E VS s o. unfold lookup. repeat split; intros q s' out evs H; cbn [stepA] in H.
  - unfold do_touch in H. destruct (find_id q (ents s)); now injection H as _ <- _.
  - now injection H as _ <- _.
  - unfold do_touch in H. destruct (find_id q (ents s)); now injection H as _ <- _.
  - now injection H as _ <- _.
  - injection H as _ <- _. now destruct (find_id q (ents s)).
  - destruct (find_id q (ents s)); [|now injection H as _ <- _]. apply bind_some in H as ([s1 e1] & _ & H). now injection H as _ <- _.
  - destruct (find_id q (ents s)); [|now injection H as _ <- _]. apply bind_some in H as ([s1 e1] & _ & H). now injection H as _ <- _.
Qed.
Theorem C04_insert_returns_old : forall E VS, 0 < E -> VS <= E -> forall s k v o s' old evs,
  Inv E s -> kheap k + vheap v + E < W -> stepA E VS fixed s (Insert k v) o = Some (s', OInsOk old, evs) -> old = lookup s (kid k).
Proof.
  intros E VS HE HV s k v o s' old evs HI Hwf H. cbn [stepA] in H.
  destruct (insert_spec E VS HE HV s k v o _ HI Hwf H) as [[_ Hr]|(_ & evd & rest & t2 & rb & _ & _ & _ & Hr)]; [discriminate|].
  now injection Hr as _ -> _.
Qed.

(* every step, whatever it does to the table (growth, reserve, shrink: the oracle), updates the map as a
   sequential map would: the written / promoted key carries the stated value, every other key that is
   still present keeps the value it had, no other key appears *)
Theorem C04_step : forall E VS, 0 < E -> VS <= E -> forall s p o s' out evs,
  Inv E s -> wf_op E s p -> stepA E VS fixed s p o = Some (s', out, evs) ->
  forall q, lookup s' q =
    match promoted_kv s p out with
    | Some (k, w) => if q =? k then Some w else if memb q (kids (ents s')) then lookup s q else None
    | None => if memb q (kids (ents s')) then lookup s q else None
    end.
Proof. exact step_map. Qed.

Example C04_example :
  let o := {| o_tomb := 0; o_reuse := false; o_alloc := true |} in
  let mk i t := {| ek := {| kid := i; ktok := i; kheap := 0 |}; ev := {| vtok := 100 + i; vtag := t; vheap := 0 |}; es := 72 |} in
  let s := {| ents := [mk 1 11; mk 2 22]; cur := 144; maxs := 1000; tb := {| nb := 4; tombs := 0 |} |} in
  exists s' out evs, stepA 72 24 fixed s (Insert {| kid := 1; ktok := 7; kheap := 0 |} {| vtok := 8; vtag := 33; vheap := 0 |}) o = Some (s', out, evs)
    /\ option_map vtag (lookup s' 1) = Some 33 /\ option_map vtag (lookup s' 2) = Some 22 /\ lookup s' 3 = None.
Proof. cbv zeta. eexists _, _, _. split; [vm_compute; reflexivity|]. repeat split; reflexivity. Qed.

(* the monitor evaluated on the implementation after every step (one entry per key) holds in every state of the model *)
Theorem C04_monitor_sound : forall E s, Inv E s -> c04_nodup_mon s = true.
Proof. exact c04_nodup_mon_sound. Qed.

(* at pointer level: a step of the heap-of-nodes model (lookups scan the listed buckets, removals unlink nodes, insertions link a
   fresh node, rebuilds move every node) from any reachable state returns what the map of the linked nodes says and updates
   that map as the abstract step does: at most one node per key afterwards, the promoted key maps to the returned / inserted
   value, every other key that is still present keeps its value, nothing else appears *)
Theorem C04_pointer_level : forall E VS, 0 < E -> VS <= E -> forall b p oB b' out evs,
  ReachB E VS b -> wf_op E (absB b) p -> stepB E VS b p oB = Some (b', out, evs) ->
  stepA E VS fixed (absB b) p (ob oB) = Some (absB b', out, evs) /\
  NoDup (kids (ents (absB b'))) /\
  forall q, lookup (absB b') q =
    match promoted_kv (absB b) p out with
    | Some (k, w) => if q =? k then Some w else if memb q (kids (ents (absB b'))) then lookup (absB b) q else None
    | None => if memb q (kids (ents (absB b'))) then lookup (absB b) q else None
    end.
Proof.
  intros E VS HE HV b p oB b' out evs HR Hwf Hstep.
  destruct (reachB_step E VS HE HV b p oB b' out evs HR Hstep) as (HA & _ & _).
  destruct (reachB_sound E VS HE HV b HR) as [_ HRa].
  split; [exact HA|]. split.
  - apply (C04_nodup E VS HE HV). change (absB b') with (fst (fst (absB b', out, evs))). eapply reach_step; eauto.
  - exact (C04_step E VS HE HV _ _ _ _ _ _ (reach_inv E VS HE HV _ HRa) Hwf HA).
Qed.

(* THE PROPERTY IN ITS OWN WORDS, FOR EVERY HISTORY: `sm_of h` is the sequential map a client keeps from the calls it
   made and what they returned (A/HistoryA.v: `sm_step` stores on a successful insert / try_insert and on a successful
   mutate — the closure's result —, deletes the keys the call reports as leaving: evicted entries, the entry a removal
   returned, the entry a too-large mutate handed back, the entries retain's predicate rejected, everything on clear /
   drain; every other call changes nothing).  After any sequence of calls, of any length, from `new` / `with_capacity`
   and under any behaviour of the table (the oracle is arbitrary at every step: growth, tombstones, reserve, shrink),
   a lookup of any key finds exactly what that map holds: the value most recently stored for the key if it has not
   since been removed or evicted, otherwise nothing. *)
Theorem C04_last_store_wins : forall E VS, 0 < E -> VS <= E -> forall h s, Hist E VS h s ->
  forall q, lookup s q = sm_of h q.
Proof. exact lookup_is_last_store. Qed.
Check C04_last_store_wins : forall E VS, 0 < E -> VS <= E -> forall h s, Hist E VS h s -> forall q, lookup s q = sm_of h q.

(* the same about every reachable state of the heap-of-nodes model *)
Theorem C04_history_pointer_level : forall E VS, 0 < E -> VS <= E -> forall b, ReachB E VS b ->
  exists h, Hist E VS h (absB b) /\ forall q, lookup (absB b) q = sm_of h q.
Proof.
  intros E VS HE HV b HR. destruct (reachB_sound E VS HE HV b HR) as [_ HRa].
  destruct (reach_hist E VS _ HRa) as [h Hh]. exists h. split; [exact Hh|]. exact (lookup_is_last_store E VS HE HV h _ Hh).
Qed.

(* not vacuous: limit 150 (two entries of 72 fit): insert 1->11, insert 2->22, insert 1->33 (replaces), insert 3->44 (evicts
   key 2, the least recently used), remove 3: the client's map says 1 -> 33 and nothing else, and so does the cache *)
Example C04_history_example :
  let o := {| o_tomb := 0; o_reuse := false; o_alloc := true |} in
  exists h s, Hist 72 24 h s /\ length h = 5%nat /\
    option_map vtag (sm_of h 1) = Some 33 /\ sm_of h 2 = None /\ sm_of h 3 = None /\ kids (ents s) = [1].
Proof.
  cbv zeta. pose (o := {| o_tomb := 0; o_reuse := false; o_alloc := true |}).
  assert (H0 : exists s0, new_cache 72 150 4 = Some s0) by (eexists; vm_compute; reflexivity). destruct H0 as [s0 H0].
  pose proof H0 as H0'. vm_compute in H0'. injection H0' as <-.
  eexists _, _. split; [|split; [|split; [|split; [|split]]]].
  - eapply (hist_step 72 24 _ _ (Remove 3) o).
    eapply (hist_step 72 24 _ _ (Insert {| kid := 3; ktok := 9; kheap := 0 |} {| vtok := 8; vtag := 44; vheap := 0 |}) o).
    eapply (hist_step 72 24 _ _ (Insert {| kid := 1; ktok := 7; kheap := 0 |} {| vtok := 6; vtag := 33; vheap := 0 |}) o).
    eapply (hist_step 72 24 _ _ (Insert {| kid := 2; ktok := 5; kheap := 0 |} {| vtok := 4; vtag := 22; vheap := 0 |}) o).
    eapply (hist_step 72 24 _ _ (Insert {| kid := 1; ktok := 3; kheap := 0 |} {| vtok := 2; vtag := 11; vheap := 0 |}) o).
    eapply (hist_new 72 24 150 4); [reflexivity|exact H0].
    all: try (vm_compute; reflexivity). all: try exact I.
  - reflexivity.
  - reflexivity.
  - reflexivity.
  - reflexivity.
  - reflexivity.
Qed.

Print Assumptions C04_nodup.
Print Assumptions C04_outputs.
Print Assumptions C04_insert_returns_old.
Print Assumptions C04_step.
Print Assumptions C04_monitor_sound.
Print Assumptions C04_pointer_level.
Print Assumptions C04_last_store_wins.
Print Assumptions C04_history_pointer_level.
