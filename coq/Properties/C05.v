(* C05 — recency order is exact: accesses promote, observations do not. *)
Require Import LruV.A.OrderA LruV.B.OpsProps.
Require Import LruV.B.StepB LruV.B.RefineLemmas LruV.B.RefineB LruV.B.CorollariesB.

(* For EVERY operation, state and oracle: the keys after the step are the surviving old keys in their
   old relative order, followed by the promoted key, where `promoted` says exactly which operations
   promote: successful insert / try_insert, get / get_entry / touch of a present key, get_lru,
   successful mutate (both branches) — and nothing else (peek*, contains, iteration, Debug, rejected
   insertions, retain, removals, capacity operations have promoted = None). *)
Theorem C05_order : forall E VS, 0 < E -> VS <= E -> forall s p o s' out evs,
  Inv E s -> wf_op E s p -> stepA E VS fixed s p o = Some (s', out, evs) ->
  let pk := promoted s p out in
  let survivors := filter (fun x => memb x (kids (ents s')) && negb (match pk with Some q => x =? q | None => false end)) (kids (ents s)) in
  kids (ents s') = survivors ++ (match pk with Some q => [q] | None => [] end).
Proof. exact step_order_keys. Qed.

(* pure observers and rejected insertions leave the whole entry list (order, values, sizes) untouched *)
Definition observer (p : op) : bool :=
  match p with
  | Peek _ | PeekEntry _ | PeekLru | PeekMru | Contains _ | IterOp _ | DebugFmt | Len | IsEmpty | CurrentSize | MaxSize | Capacity => true
  | _ => false
  end.
Theorem C05_observers : forall E VS s p o s' out evs,
  observer p = true -> stepA E VS fixed s p o = Some (s', out, evs) -> s' = s.
Proof. intros E VS s p o s' out evs Hobs H. destruct p; try discriminate Hobs; cbn [stepA] in H; now injection H as <- _ _. Qed.

(* what the peeks and the traversals report is the list order *)
Theorem C05_peeks : forall E VS s o,
  stepA E VS fixed s PeekLru o = Some (s, OKV (option_map kv (hd_error (ents s))), ev0) /\
  stepA E VS fixed s PeekMru o = Some (s, OKV (match ents s with [] => None | e :: _ => Some (kv (last (ents s) e)) end), ev0) /\
  stepA E VS fixed s DebugFmt o = Some (s, OItems (map (fun e => Some (kv e)) (ents s)), ev0).
Proof. intros. repeat split. Qed.

(* pointer level (Layer B): the list surgery the operations are made of acts on the abstract entry list
   (absl: entries of the nodes, least-recently-used first) exactly as the list operations of the model:
   touch_ptr moves the entry to the MRU end, removal deletes it, insertion appends, reallocation — for any
   table iteration order — changes nothing *)
Theorem C05_touch_pointer : forall g a g' l1 l2 e, RI (gh g) (gseal g) (glist g) -> b_touch g a = Some g' ->
  glist g = l1 ++ a :: l2 -> ~ In a l1 -> entry_at (gh g) a = Some e ->
  absl (gh g) (glist g) = absl (gh g) l2 ++ [e] ++ absl (gh g) l1 /\
  absl (gh g') (glist g') = absl (gh g) l2 ++ absl (gh g) l1 ++ [e].
Proof. exact b_touch_abs. Qed.
Theorem C05_remove_pointer : forall g a g' l1 l2, RI (gh g) (gseal g) (glist g) -> b_remove g a = Some g' ->
  glist g = l1 ++ a :: l2 -> ~ In a l1 -> ~ In a l2 -> absl (gh g') (glist g') = absl (gh g) l2 ++ absl (gh g) l1.
Proof. exact b_remove_abs. Qed.
Theorem C05_insert_pointer : forall g a sz k v g', RI (gh g) (gseal g) (glist g) -> ~ In a (gseal g :: glist g) ->
  b_insert_new g a sz (PLive k v) = Some g' -> absl (gh g') (glist g') = absl (gh g) (glist g) ++ [{| ek := k; ev := v; es := sz |}].
Proof. exact b_insert_new_abs. Qed.
Theorem C05_realloc_pointer : forall todo h seal l fresh, RI h seal l -> NoDup todo -> (forall a, In a todo -> In a l) ->
  (forall b, In b (seal :: l) -> b < fresh) ->
  exists h', moves h todo fresh = Some h' /\ RI h' seal (rename_all todo fresh l) /\
             absl h' (rename_all todo fresh l) = absl h l /\ (forall a, In a todo -> h' a = None).
Proof. exact realloc_RI. Qed.

(* ... in the very terms of the abstract model: touch_ptr of the bucket holding key q is do_touch q, removing that
   bucket is remove_id q, and the bucket seal.prev points to holds the head (LRU) of the abstract list *)
Theorem C05_touch_refines : forall g a g' e, RI (gh g) (gseal g) (glist g) -> In a (glist g) -> entry_at (gh g) a = Some e ->
  NoDup (kids (absG g)) -> b_touch g a = Some g' ->
  absG g' = remove_id (kid (ek e)) (absG g) ++ [e] /\ find_id (kid (ek e)) (absG g) = Some e.
Proof. exact b_touch_is_do_touch. Qed.
Theorem C05_remove_refines : forall g a g' e, RI (gh g) (gseal g) (glist g) -> In a (glist g) -> entry_at (gh g) a = Some e ->
  NoDup (kids (absG g)) -> b_remove g a = Some g' -> absG g' = remove_id (kid (ek e)) (absG g).
Proof. exact b_remove_is_remove_id. Qed.
Theorem C05_lru_is_head : forall g a l0, RI (gh g) (gseal g) (glist g) -> glist g = l0 ++ [a] ->
  prevof (gh g) (gseal g) = Some a /\ exists e, entry_at (gh g) a = Some e /\ hd_error (absG g) = Some e.
Proof. exact lru_is_head. Qed.

Example C05_example :
  let o := {| o_tomb := 0; o_reuse := false; o_alloc := true |} in
  let mk i := {| ek := {| kid := i; ktok := i; kheap := 0 |}; ev := {| vtok := 100 + i; vtag := i; vheap := 0 |}; es := 72 |} in
  let s := {| ents := [mk 1; mk 2; mk 3]; cur := 216; maxs := 1000; tb := {| nb := 4; tombs := 0 |} |} in
  exists s1 s2 o1 o2 e1 e2, stepA 72 24 fixed s (Get 1) o = Some (s1, o1, e1) /\ kids (ents s1) = [2; 3; 1] /\
                            stepA 72 24 fixed s (Peek 1) o = Some (s2, o2, e2) /\ kids (ents s2) = [1; 2; 3].
Proof. cbv zeta. eexists _, _, _, _, _, _. repeat split; vm_compute; reflexivity. Qed.

(* at pointer level: following the links from the seal (Debug, a full forward iteration) on a coherent structure yields
   exactly the abstract entry list, least-recently-used first, and leaves the structure untouched *)
Theorem C05_pointer_level_iteration : forall E VS b oB, RIb b -> KU b ->
  stepB E VS b DebugFmt oB = Some (b, OItems (map (fun e => Some (kv e)) (ents (absB b))), ev0).
Proof. exact iteration_pointer_level. Qed.

Print Assumptions C05_order.
Print Assumptions C05_observers.
Print Assumptions C05_peeks.
Print Assumptions C05_touch_pointer.
Print Assumptions C05_remove_pointer.
Print Assumptions C05_insert_pointer.
Print Assumptions C05_realloc_pointer.
Print Assumptions C05_touch_refines.
Print Assumptions C05_remove_refines.
Print Assumptions C05_lru_is_head.
Print Assumptions C05_pointer_level_iteration.
