(* C05 — recency order is exact: accesses promote, observations do not. *)
Require Import LruV.A.OrderA LruV.A.HistoryA LruV.B.OpsProps LruV.B.ReachB.
Require Import Sorted.
Require Import LruV.B.StepB LruV.B.RefineLemmas LruV.B.RefineB LruV.B.CorollariesB.

(* For EVERY operation, state and oracle: the keys after the step are the surviving old keys in their
   old relative order, followed by the promoted key, where `promoted` says exactly which operations
   promote: successful insert / try_insert, get / get_entry / touch of a present key, get_lru,
   successful mutate (both branches) — and nothing else (peek*, contains, iteration, Debug, rejected
   insertions, retain, removals, capacity operations have promoted = None). *)
Theorem C05_order : forall E VS, 0 < E -> VS <= E -> forall s p o s' out evs,
  Inv E s -> wf_op E s p -> stepA E VS fixed s p o = Some (s', out, evs) ->
  let pk := promoted s p out in
  let survivors := filter (fun x => memb x (kids (ents s')) && negb (match pk with Some q => x =? q | None => false end)) (kids (ents s)) in
  kids (ents s') = survivors ++ (match pk with Some q => [q] | None => [] end).
Proof. exact step_order_keys. Qed.

(* pure observers and rejected insertions leave the whole entry list (order, values, sizes) untouched *)
Definition observer (p : op) : bool :=
  match p with
  | Peek _ | PeekEntry _ | PeekLru | PeekMru | Contains _ | IterOp _ | DebugFmt | Len | IsEmpty | CurrentSize | MaxSize | Capacity => true
  | _ => false
  end.
Theorem C05_observers : forall E VS s p o s' out evs,
  observer p = true -> stepA E VS fixed s p o = Some (s', out, evs) -> s' = s.
Proof. intros E VS s p o s' out evs Hobs H. destruct p; try discriminate Hobs; cbn [stepA] in H; now injection H as <- _ _. Qed.

(* what the peeks and the traversals report is the list order *)
Theorem C05_peeks : forall E VS s o,
  stepA E VS fixed s PeekLru o = Some (s, OKV (option_map kv (hd_error (ents s))), ev0) /\
  stepA E VS fixed s PeekMru o = Some (s, OKV (match ents s with [] => None | e :: _ => Some (kv (last (ents s) e)) end), ev0) /\
  stepA E VS fixed s DebugFmt o = Some (s, OItems (map (fun e => Some (kv e)) (ents s)), ev0).
Proof. intros. repeat split. Qed.

(* pointer level (Layer B): the list surgery the operations are made of acts on the abstract entry list
   (absl: entries of the nodes, least-recently-used first) exactly as the list operations of the model:
   touch_ptr moves the entry to the MRU end, removal deletes it, insertion appends, reallocation — for any
   table iteration order — changes nothing *)
Theorem C05_touch_pointer : forall g a g' l1 l2 e, RI (gh g) (gseal g) (glist g) -> b_touch g a = Some g' ->
  glist g = l1 ++ a :: l2 -> ~ In a l1 -> entry_at (gh g) a = Some e ->
  absl (gh g) (glist g) = absl (gh g) l2 ++ [e] ++ absl (gh g) l1 /\
  absl (gh g') (glist g') = absl (gh g) l2 ++ absl (gh g) l1 ++ [e].
Proof. exact b_touch_abs. Qed.
Theorem C05_remove_pointer : forall g a g' l1 l2, RI (gh g) (gseal g) (glist g) -> b_remove g a = Some g' ->
  glist g = l1 ++ a :: l2 -> ~ In a l1 -> ~ In a l2 -> absl (gh g') (glist g') = absl (gh g) l2 ++ absl (gh g) l1.
Proof. exact b_remove_abs. Qed.
Theorem C05_insert_pointer : forall g a sz k v g', RI (gh g) (gseal g) (glist g) -> ~ In a (gseal g :: glist g) ->
  b_insert_new g a sz (PLive k v) = Some g' -> absl (gh g') (glist g') = absl (gh g) (glist g) ++ [{| ek := k; ev := v; es := sz |}].
Proof. exact b_insert_new_abs. Qed.
Theorem C05_realloc_pointer : forall todo h seal l fresh, RI h seal l -> NoDup todo -> (forall a, In a todo -> In a l) ->
  (forall b, In b (seal :: l) -> b < fresh) ->
  exists h', moves h todo fresh = Some h' /\ RI h' seal (rename_all todo fresh l) /\
             absl h' (rename_all todo fresh l) = absl h l /\ (forall a, In a todo -> h' a = None).
Proof. exact realloc_RI. Qed.

(* ... in the very terms of the abstract model: touch_ptr of the bucket holding key q is do_touch q, removing that
   bucket is remove_id q, and the bucket seal.prev points to holds the head (LRU) of the abstract list *)
Theorem C05_touch_refines : forall g a g' e, RI (gh g) (gseal g) (glist g) -> In a (glist g) -> entry_at (gh g) a = Some e ->
  NoDup (kids (absG g)) -> b_touch g a = Some g' ->
  absG g' = remove_id (kid (ek e)) (absG g) ++ [e] /\ find_id (kid (ek e)) (absG g) = Some e.
Proof. exact b_touch_is_do_touch. Qed.
Theorem C05_remove_refines : forall g a g' e, RI (gh g) (gseal g) (glist g) -> In a (glist g) -> entry_at (gh g) a = Some e ->
  NoDup (kids (absG g)) -> b_remove g a = Some g' -> absG g' = remove_id (kid (ek e)) (absG g).
Proof. exact b_remove_is_remove_id. Qed.
Theorem C05_lru_is_head : forall g a l0, RI (gh g) (gseal g) (glist g) -> glist g = l0 ++ [a] ->
  prevof (gh g) (gseal g) = Some a /\ exists e, entry_at (gh g) a = Some e /\ hd_error (absG g) = Some e.
Proof. exact lru_is_head. Qed.

Example C05_example :
  let o := {| o_tomb := 0; o_reuse := false; o_alloc := true |} in
  let mk i := {| ek := {| kid := i; ktok := i; kheap := 0 |}; ev := {| vtok := 100 + i; vtag := i; vheap := 0 |}; es := 72 |} in
  let s := {| ents := [mk 1; mk 2; mk 3]; cur := 216; maxs := 1000; tb := {| nb := 4; tombs := 0 |} |} in
  exists s1 s2 o1 o2 e1 e2, stepA 72 24 fixed s (Get 1) o = Some (s1, o1, e1) /\ kids (ents s1) = [2; 3; 1] /\
                            stepA 72 24 fixed s (Peek 1) o = Some (s2, o2, e2) /\ kids (ents s2) = [1; 2; 3].
Proof. cbv zeta. eexists _, _, _, _, _, _. repeat split; vm_compute; reflexivity. Qed.

(* at pointer level: following the links from the seal (Debug, a full forward iteration) on a coherent structure yields
   exactly the abstract entry list, least-recently-used first, and leaves the structure untouched *)
Theorem C05_pointer_level_iteration : forall E VS b oB, RIb b -> KU b ->
  stepB E VS b DebugFmt oB = Some (b, OItems (map (fun e => Some (kv e)) (ents (absB b))), ev0).
Proof. exact iteration_pointer_level. Qed.

(* THE PROPERTY IN ITS OWN WORDS, FOR EVERY HISTORY: after any sequence of calls, of any length, from `new` /
   `with_capacity`, the order reported from least- to most-recently-used is the order of LAST ACCESS: the keys are
   strictly increasing in the time (call number) of their last access, where `accessed` reads the accessed key off
   the call and its result — successful insert / try_insert, get / get_entry finding the key, touch, get_lru, successful
   mutate; every other call (peek*, contains, iteration, Debug, rejected insertions, retain, removals, capacity
   operations, a too-large mutate) accesses nothing.  The oracle (hashbrown's tombstone and allocation behaviour) is
   arbitrary at every step. *)
Theorem C05_order_of_last_access : forall E VS, 0 < E -> VS <= E -> forall h s, Hist E VS h s ->
  StronglySorted (by_last_access h) (kids (ents s)) /\ forall q, In q (kids (ents s)) -> (0 < last_access h q)%nat.
Proof. exact order_is_last_access. Qed.
Check C05_order_of_last_access : forall E VS, 0 < E -> VS <= E -> forall h s, Hist E VS h s ->
  StronglySorted (fun a b => (last_access h a < last_access h b)%nat) (kids (ents s)) /\ forall q, In q (kids (ents s)) -> (0 < last_access h q)%nat.

(* peek_lru / peek_mru in the same terms: after any history the entry at the least-recently-used end (what peek_lru shows, what is
   evicted first) is the one whose last access is the oldest, the entry at the other end (peek_mru) the one whose last access is the newest *)
Theorem C05_lru_end_is_oldest_access : forall E VS, 0 < E -> VS <= E -> forall h s e r, Hist E VS h s -> ents s = e :: r ->
  forall q, In q (kids r) -> (last_access h (kid (ek e)) < last_access h q)%nat.
Proof. exact lru_is_least_recently_accessed. Qed.
Theorem C05_mru_end_is_newest_access : forall E VS, 0 < E -> VS <= E -> forall h s l e, Hist E VS h s -> ents s = l ++ [e] ->
  forall q, In q (kids l) -> (last_access h q < last_access h (kid (ek e)))%nat.
Proof. exact mru_is_most_recently_accessed. Qed.

(* every reachable state has a history, also at pointer level: the statement is about every state of the heap-of-nodes model *)
Theorem C05_history_pointer_level : forall E VS, 0 < E -> VS <= E -> forall b, ReachB E VS b ->
  exists h, Hist E VS h (absB b) /\ StronglySorted (by_last_access h) (kids (ents (absB b))).
Proof.
  intros E VS HE HV b HR. destruct (reachB_sound E VS HE HV b HR) as [_ HRa].
  destruct (reach_hist E VS _ HRa) as [h Hh]. exists h. split; [exact Hh|]. exact (proj1 (order_is_last_access E VS HE HV h _ Hh)).
Qed.

(* a history exists and the statement is not vacuous: insert 1, insert 2, insert 3, get 1, peek 2 -> order 2 3 1 with
   last-access times 2 < 3 < 4 (the peek, call 5, does not count) *)
Example C05_history_example :
  let o := {| o_tomb := 0; o_reuse := false; o_alloc := true |} in
  exists h s, Hist 72 24 h s /\ length h = 5%nat /\ kids (ents s) = [2; 3; 1] /\ map (last_access h) [2; 3; 1] = [2; 3; 4]%nat.
Proof.
  cbv zeta. pose (o := {| o_tomb := 0; o_reuse := false; o_alloc := true |}).
  assert (H0 : exists s0, new_cache 72 1000 4 = Some s0) by (eexists; vm_compute; reflexivity). destruct H0 as [s0 H0].
  pose proof H0 as H0'. vm_compute in H0'. injection H0' as <-.
  eexists _, _. split; [|split; [|split]].
  - eapply (hist_step 72 24 _ _ (Peek 2) o). eapply (hist_step 72 24 _ _ (Get 1) o).
    eapply (hist_step 72 24 _ _ (Insert {| kid := 3; ktok := 7; kheap := 0 |} {| vtok := 6; vtag := 3; vheap := 0 |}) o).
    eapply (hist_step 72 24 _ _ (Insert {| kid := 2; ktok := 5; kheap := 0 |} {| vtok := 4; vtag := 2; vheap := 0 |}) o).
    eapply (hist_step 72 24 _ _ (Insert {| kid := 1; ktok := 3; kheap := 0 |} {| vtok := 2; vtag := 1; vheap := 0 |}) o).
    eapply (hist_new 72 24 1000 4); [reflexivity|exact H0].
    all: try (vm_compute; reflexivity). all: try exact I.
  - reflexivity.
  - reflexivity.
  - reflexivity.
Qed.

Print Assumptions C05_order.
Print Assumptions C05_observers.
Print Assumptions C05_peeks.
Print Assumptions C05_touch_pointer.
Print Assumptions C05_remove_pointer.
Print Assumptions C05_insert_pointer.
Print Assumptions C05_realloc_pointer.
Print Assumptions C05_touch_refines.
Print Assumptions C05_remove_refines.
Print Assumptions C05_lru_is_head.
Print Assumptions C05_pointer_level_iteration.
Print Assumptions C05_order_of_last_access.
Print Assumptions C05_history_pointer_level.
Print Assumptions C05_lru_end_is_oldest_access.
Print Assumptions C05_mru_end_is_newest_access.
