(* C11 — mutate re-accounts the changed value or hands it back. *)
Require Import LruV.A.SpecA LruV.A.InvA LruV.B.StepB LruV.B.RefineB LruV.B.ReachB.

(* absent key: Ok(None), nothing changes (that the closure is not called is the harness-side
   observation `cl=0`, and the Layer B statement that no closure callback is asked) *)
Theorem C11_absent : forall E VS, 0 < E -> VS <= E -> forall s q nt nh o s' out evs,
  Inv E s -> find_id q (ents s) = None ->
  stepA E VS fixed s (Mutate q nt nh) o = Some (s', out, evs) -> out = OMutNone /\ s' = s /\ e_dropped evs = [] /\ e_evicted evs = [].
Proof.
  intros E VS HE HV s q nt nh o s' out evs HI Hf H. cbn [stepA] in H.
  assert (Hwf : wf_op E s (Mutate q nt nh)) by (cbn [wf_op]; now rewrite Hf).
  pose proof (mutate_spec E VS HE HV s q nt nh o _ HI Hwf H) as Hs. rewrite Hf in Hs. injection Hs as -> -> ->. auto.
Qed.

(* present key, the grown entry alone exceeds the limit: it is removed and handed back with the mutated
   value and the exact old and new entry sizes; every other entry, its size and the order are untouched *)
Theorem C11_too_large : forall E VS, 0 < E -> VS <= E -> forall s q nt nh o s' out evs e,
  Inv E s -> wf_op E s (Mutate q nt nh) -> find_id q (ents s) = Some e ->
  maxs s < kheap (ek e) + nh + E ->
  stepA E VS fixed s (Mutate q nt nh) o = Some (s', out, evs) ->
  out = OMutTooLarge (ek e) (mutated e nt nh) (kheap (ek e) + vheap (ev e) + E) (kheap (ek e) + nh + E) (maxs s) /\
  ents s' = remove_id q (ents s) /\ cur s' = cur s - es e /\ maxs s' = maxs s /\ e_dropped evs = [] /\ e_evicted evs = [].
Proof.
  intros E VS HE HV s q nt nh o s' out evs e HI Hwf Hf Hbig H. cbn [stepA] in H.
  pose proof (mutate_spec E VS HE HV s q nt nh o _ HI Hwf H) as Hs. rewrite Hf in Hs. cbv zeta in Hs.
  destruct Hs as (Hes & Hs0 & Hle0 & [(_ & _ & Hr)|[(Hg & Hfit & _)|(Hsh & Hr)]]).
  - injection Hr as -> -> ->. cbn [ents cur maxs set_ents e_dropped e_evicted hashed]. rewrite <- Hes. repeat split; reflexivity.
  - lia.
  - exfalso. destruct HI as (Hsum & Hle & Hmax & Hall & _). lia.
Qed.

(* present key, the new size fits: Ok(Some), the entry becomes most-recently-used with its size
   re-accounted to entry_size(key, new value), older entries are evicted only as far as needed *)
Theorem C11_ok : forall E VS, 0 < E -> VS <= E -> forall s q nt nh o s' out evs e,
  Inv E s -> wf_op E s (Mutate q nt nh) -> find_id q (ents s) = Some e ->
  kheap (ek e) + nh + E <= maxs s ->
  stepA E VS fixed s (Mutate q nt nh) o = Some (s', out, evs) ->
  let nes := kheap (ek e) + nh + E in
  out = OMutOk /\
  exists rest, minimal_prefix (remove_id q (ents s)) (e_evicted evs) rest (maxs s - nes) /\
               ents s' = rest ++ [mk_entry (ek e) (mutated e nt nh) nes] /\ cur s' = sum_es rest + nes /\
               e_dropped evs = all_toks (e_evicted evs).
Proof.
  intros E VS HE HV s q nt nh o s' out evs e HI Hwf Hf Hfit H. cbn [stepA] in H. cbv zeta.
  pose proof (mutate_spec E VS HE HV s q nt nh o _ HI Hwf H) as Hs. rewrite Hf in Hs. cbv zeta in Hs.
  destruct Hs as (Hes & Hs0 & Hle0 & [(_ & Hbig & _)|[(Hg & _ & evd & rest & Hmp & Hr)|(Hsh & Hr)]]); [lia| |].
  - injection Hr as -> -> ->. split; [reflexivity|]. exists rest. cbn [e_evicted e_dropped ents cur set_ents]. auto.
  - injection Hr as -> -> ->. split; [reflexivity|]. exists (remove_id q (ents s)). cbn [e_evicted e_dropped ents cur set_ents hashed].
    destruct HI as (Hsum & Hle & _). split; [|split; [reflexivity|split; [lia|reflexivity]]].
    unfold minimal_prefix. split; [reflexivity|]. split; [lia|]. split; [|reflexivity]. intros [|? ?] ? Hd; discriminate Hd.
Qed.

Example C11_example :
  let o := {| o_tomb := 0; o_reuse := false; o_alloc := true |} in
  let mk i h := {| ek := {| kid := i; ktok := i; kheap := 0 |}; ev := {| vtok := 100 + i; vtag := i; vheap := h |}; es := 72 + h |} in
  let s := {| ents := [mk 1 8; mk 2 8; mk 3 8]; cur := 240; maxs := 240; tb := {| nb := 4; tombs := 0 |} |} in
  exists s' evs, stepA 72 24 fixed s (Mutate 1 55 20) o = Some (s', OMutOk, evs)
     /\ map (fun e => kid (ek e)) (e_evicted evs) = [2] /\ map (fun e => (kid (ek e), es e)) (ents s') = [(3, 80); (1, 92)] /\ cur s' = 172.
Proof. cbv zeta. eexists _, _. split; [vm_compute; reflexivity|]. repeat split; reflexivity. Qed.

(* at pointer level: mutate as the code runs it on the heap of nodes (lookup by scanning the listed buckets, the recorded
   size rewritten in the node, the node moved to the head, victims read from seal.prev; on "too large" the node unlinked
   and its pair handed back) from any reachable state: the three outcomes, each with the abstraction of the new structure,
   which is coherent *)
Theorem C11_pointer_level : forall E VS, 0 < E -> VS <= E -> forall b q nt nh oB b' out evs,
  ReachB E VS b -> wf_op E (absB b) (Mutate q nt nh) -> stepB E VS b (Mutate q nt nh) oB = Some (b', out, evs) ->
  let l := ents (absB b) in
  RIb b' /\
  (find_id q l = None -> out = OMutNone /\ absB b' = absB b /\ e_dropped evs = [] /\ e_evicted evs = []) /\
  (forall e, find_id q l = Some e -> bmax b < kheap (ek e) + nh + E ->
     out = OMutTooLarge (ek e) (mutated e nt nh) (kheap (ek e) + vheap (ev e) + E) (kheap (ek e) + nh + E) (bmax b) /\
     ents (absB b') = remove_id q l /\ bcur b' = bcur b - es e /\ bmax b' = bmax b /\ e_dropped evs = [] /\ e_evicted evs = []) /\
  (forall e, find_id q l = Some e -> kheap (ek e) + nh + E <= bmax b ->
     let nes := kheap (ek e) + nh + E in
     out = OMutOk /\
     exists rest, minimal_prefix (remove_id q l) (e_evicted evs) rest (bmax b - nes) /\
                  ents (absB b') = rest ++ [mk_entry (ek e) (mutated e nt nh) nes] /\ bcur b' = sum_es rest + nes /\
                  e_dropped evs = all_toks (e_evicted evs)).
Proof.
  intros E VS HE HV b q nt nh oB b' out evs HR Hwf Hstep. cbv zeta.
  destruct (reachB_sound E VS HE HV b HR) as [_ HRa]. pose proof (reach_inv E VS HE HV _ HRa) as HI.
  destruct (reachB_step E VS HE HV b _ oB b' out evs HR Hstep) as (HA & HRI & _).
  split; [exact HRI|]. split; [|split].
  - intros Hf. exact (C11_absent E VS HE HV _ q nt nh _ _ out evs HI Hf HA).
  - intros e Hf Hbig. exact (C11_too_large E VS HE HV _ q nt nh _ _ out evs e HI Hwf Hf Hbig HA).
  - intros e Hf Hfit. exact (C11_ok E VS HE HV _ q nt nh _ _ out evs e HI Hwf Hf Hfit HA).
Qed.

Print Assumptions C11_absent.
Print Assumptions C11_too_large.
Print Assumptions C11_ok.
Print Assumptions C11_pointer_level.
