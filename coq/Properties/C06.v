(* C06 — every key and value is dropped or handed back exactly once (abstract ledger; the ptr::read
   paths of the owning iterators are Layer B). *)
Require Import LruV.A.LedgerA.
Require Import LruV.A.MonitorsSound LruV.A.MonitorsA LruV.A.PanicProps.
Require Import LruV.A.InvA LruV.B.StepB LruV.B.RefineB LruV.B.ReachB LruV.B.CloneB.

(* one step, any operation, any state, any oracle: the multiset of tokens held before plus those the
   operation brings in equals the multiset held after plus dropped plus handed back (plus what a
   forgotten Drain leaks) *)
Theorem C06_step : forall E VS, 0 < E -> VS <= E -> forall s p o s' out evs,
  Inv E s -> wf_op E s p -> stepA E VS fixed s p o = Some (s', out, evs) ->
  Permutation (all_toks (ents s) ++ op_toks p) (all_toks (ents s') ++ e_dropped evs ++ returned p out ++ leaked s p).
Proof. intros. apply bal_perm. eapply step_ledger; eauto. Qed.

(* whole life of a cache, any history: exactly once *)
Theorem C06_exactly_once : forall E VS, 0 < E -> VS <= E -> forall mx cap s0 l s' I D R L,
  mx < W -> new_cache E mx cap = Some s0 -> Run E VS s0 l s' I D R L -> NoDup I ->
  let D' := D ++ e_dropped (do_drop s') in
  Permutation I (D' ++ R ++ L) /\ NoDup (D' ++ R ++ L) /\
  (forall t, In t I -> In t D' \/ In t R \/ In t L) /\
  (forall t, In t D' -> ~ In t R /\ ~ In t L).
Proof. exact exactly_once. Qed.

Theorem C06_no_leak_without_forget : forall E VS s l s' I D R L, Run E VS s l s' I D R L ->
  Forall (fun po => match fst po with DrainOp _ FForget => False | _ => True end) l -> L = [].
Proof. exact run_no_forget_no_leak. Qed.

(* owning iterators and clone *)
Theorem C06_into_iter : forall s kind pat f x,
  let '(o, evs) := do_into_iter s kind pat f in
  match f with
  | FDrop => ctoks x (ents s) = (ctoks x (somes (fst (take_ends (ents s) pat))) + ctoks x (snd (take_ends (ents s) pat)))%nat
  | FForget => True end.
Proof. intros. unfold do_into_iter. pose proof (take_ends_count pat (ents s)) as Hc. destruct (take_ends (ents s) pat). destruct f; auto. Qed.

Example C06_example :
  let o := {| o_tomb := 0; o_reuse := false; o_alloc := true |} in
  let k i := {| kid := i; ktok := 10 + i; kheap := 0 |} in let v i := {| vtok := 20 + i; vtag := i; vheap := 0 |} in
  exists s0 s' D R L, new_cache 72 144 0 = Some s0 /\
    Run 72 24 s0 [(Insert (k 1) (v 1), o); (Insert (k 2) (v 2), o); (Insert (k 1) (v 3), o); (Remove 2, o)] s' [11; 21; 12; 22; 11; 23] D R L.
Proof.
  cbv zeta. eexists _, _, _, _, _. split; [vm_compute; reflexivity|].
  change [11; 21; 12; 22; 11; 23] with ([11; 21] ++ [12; 22] ++ [11; 23] ++ [] ++ []).
  eapply Run_cons; [vm_compute; reflexivity|vm_compute; reflexivity|].
  eapply Run_cons; [vm_compute; reflexivity|vm_compute; reflexivity|].
  eapply Run_cons; [vm_compute; reflexivity|vm_compute; reflexivity|].
  eapply Run_cons; [exact I|vm_compute; reflexivity|]. apply Run_nil.
Qed.

(* the token ledger evaluated on the implementation after every step holds for every step of the model whose tokens were
   distinct before it: what is held, dropped and handed back afterwards is duplicate-free and is exactly what was there
   before (a sub-multiset when the step forgets a Drain) *)
Theorem C06_monitor_sound : forall E VS, 0 < E -> VS <= E -> forall s p o s' out evs, Inv E s -> wf_op E s p -> toks_ok s p ->
  stepA E VS fixed s p o = Some (s', out, evs) -> c06_mon s p out (e_dropped evs) s' = true.
Proof. exact c06_mon_sound. Qed.

(* at pointer level: for every step of the heap-of-nodes model from a reachable state, the objects owned by the linked nodes
   before the step plus those the operation brings in are, as a multiset, the objects owned by the linked nodes afterwards
   plus those dropped, returned and (by a forgotten drain) leaked: nothing is duplicated, nothing is lost *)
Theorem C06_pointer_level : forall E VS, 0 < E -> VS <= E -> forall b p oB b' out evs,
  ReachB E VS b -> wf_op E (absB b) p -> stepB E VS b p oB = Some (b', out, evs) ->
  RIb b' /\
  Permutation (all_toks (ents (absB b)) ++ op_toks p) (all_toks (ents (absB b')) ++ e_dropped evs ++ returned p out ++ leaked (absB b) p).
Proof.
  intros E VS HE HV b p oB b' out evs HR Hwf Hstep.
  destruct (reachB_sound E VS HE HV b HR) as [_ HRa]. pose proof (reach_inv E VS HE HV _ HRa) as HI.
  destruct (reachB_step E VS HE HV b _ oB b' out evs HR Hstep) as (HA & HRI & _).
  split; [exact HRI|]. exact (C06_step E VS HE HV _ p _ _ out evs HI Hwf HA).
Qed.

(* FROM CREATION TO DROP, AT POINTER LEVEL: a cache built by new / with_capacity as a heap of nodes, driven by any sequence of
   pointer-level operations of any length (any oracle), then dropped by walking its buckets (`bB_drop`): every object that ever
   entered is in exactly one of dropped / handed back / leaked, exactly once, and nothing is leaked unless a drain was forgotten *)
Inductive RunBL (E VS : N) : bstate -> list (op * oracleB) -> bstate -> list N -> list N -> list N -> list N -> Prop :=
| RunBL_nil b : RunBL E VS b [] b [] [] [] []
| RunBL_cons b p oB b1 out evs l b' I D R L :
    wf_op E (absB b) p -> stepB E VS b p oB = Some (b1, out, evs) -> RunBL E VS b1 l b' I D R L ->
    RunBL E VS b ((p, oB) :: l) b' (op_toks p ++ I) (e_dropped evs ++ D) (returned p out ++ R) (leaked (absB b) p ++ L).

Lemma runBL_run E VS : 0 < E -> VS <= E -> forall b l b' I D R L, ReachB E VS b -> RunBL E VS b l b' I D R L ->
  Run E VS (absB b) (map (fun x => (fst x, ob (snd x))) l) (absB b') I D R L /\ ReachB E VS b'.
Proof.
  intros HE HV b l b' I D R L HR Hrun. induction Hrun as [b|b p oB b1 out evs l b' I D R L Hwf Hstep Hrun IH]; [split; [constructor|exact HR]|].
  destruct (reachB_step E VS HE HV b p oB b1 out evs HR Hstep) as (HA & _ & _).
  assert (HR1 : ReachB E VS b1) by (change b1 with (fst (fst (b1, out, evs))); eapply reachb_step; eauto).
  destruct (IH HR1) as [IH1 IH2]. split; [|exact IH2]. cbn [map fst snd]. econstructor; eauto.
Qed.

Theorem C06_exactly_once_pointer_level : forall E VS, 0 < E -> VS <= E -> forall seal mx cap b0 l b' I D R L,
  mx < W -> new_b E seal mx cap = Some b0 -> RunBL E VS b0 l b' I D R L -> NoDup I ->
  let D' := D ++ e_dropped (bB_drop b') in
  Permutation I (D' ++ R ++ L) /\ NoDup (D' ++ R ++ L) /\
  (forall t, In t I -> In t D' \/ In t R \/ In t L) /\
  (forall t, In t D' -> ~ In t R /\ ~ In t L).
Proof.
  intros E VS HE HV seal mx cap b0 l b' I D R L Hmx Hnew Hrun Hnd.
  assert (HR0 : ReachB E VS b0) by (eapply reachb_new; eauto).
  destruct (runBL_run E VS HE HV b0 l b' I D R L HR0 Hrun) as [HRun _].
  destruct (new_b_RI E seal mx cap b0 Hnew) as [_ Hnew'].
  rewrite (drop_refines b'). exact (exactly_once E VS HE HV mx cap (absB b0) _ (absB b') I D R L Hmx Hnew' HRun Hnd).
Qed.

Print Assumptions C06_step.
Print Assumptions C06_exactly_once.
Print Assumptions C06_no_leak_without_forget.
Print Assumptions C06_monitor_sound.
Print Assumptions C06_pointer_level.
Print Assumptions C06_exactly_once_pointer_level.
