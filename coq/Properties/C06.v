(* C06 — every key and value is dropped or handed back exactly once (abstract ledger; the ptr::read
   paths of the owning iterators are Layer B). *)
Require Import LruV.A.LedgerA.
Require Import LruV.A.MonitorsSound LruV.A.MonitorsA LruV.A.PanicProps.
Require Import LruV.A.InvA LruV.B.StepB LruV.B.RefineB LruV.B.ReachB.

(* one step, any operation, any state, any oracle: the multiset of tokens held before plus those the
   operation brings in equals the multiset held after plus dropped plus handed back (plus what a
   forgotten Drain leaks) *)
Theorem C06_step : forall E VS, 0 < E -> VS <= E -> forall s p o s' out evs,
  Inv E s -> wf_op E s p -> stepA E VS fixed s p o = Some (s', out, evs) ->
  Permutation (all_toks (ents s) ++ op_toks p) (all_toks (ents s') ++ e_dropped evs ++ returned p out ++ leaked s p).
Proof. intros. apply bal_perm. eapply step_ledger; eauto. Qed.

(* whole life of a cache, any history: exactly once *)
Theorem C06_exactly_once : forall E VS, 0 < E -> VS <= E -> forall mx cap s0 l s' I D R L,
  mx < W -> new_cache E mx cap = Some s0 -> Run E VS s0 l s' I D R L -> NoDup I ->
  let D' := D ++ e_dropped (do_drop s') in
  Permutation I (D' ++ R ++ L) /\ NoDup (D' ++ R ++ L) /\
  (forall t, In t I -> In t D' \/ In t R \/ In t L) /\
  (forall t, In t D' -> ~ In t R /\ ~ In t L).
Proof. exact exactly_once. Qed.

Theorem C06_no_leak_without_forget : forall E VS s l s' I D R L, Run E VS s l s' I D R L ->
  Forall (fun po => match fst po with DrainOp _ FForget => False | _ => True end) l -> L = [].
Proof. exact run_no_forget_no_leak. Qed.

(* owning iterators and clone *)
Theorem C06_into_iter : forall s kind pat f x,
  let '(o, evs) := do_into_iter s kind pat f in
  match f with
  | FDrop => ctoks x (ents s) = (ctoks x (somes (fst (take_ends (ents s) pat))) + ctoks x (snd (take_ends (ents s) pat)))%nat
  | FForget => True end.
Proof. intros. unfold do_into_iter. pose proof (take_ends_count pat (ents s)) as Hc. destruct (take_ends (ents s) pat). destruct f; auto. Qed.

Example C06_example :
  let o := {| o_tomb := 0; o_reuse := false; o_alloc := true |} in
  let k i := {| kid := i; ktok := 10 + i; kheap := 0 |} in let v i := {| vtok := 20 + i; vtag := i; vheap := 0 |} in
  exists s0 s' D R L, new_cache 72 144 0 = Some s0 /\
    Run 72 24 s0 [(Insert (k 1) (v 1), o); (Insert (k 2) (v 2), o); (Insert (k 1) (v 3), o); (Remove 2, o)] s' [11; 21; 12; 22; 11; 23] D R L.
Proof.
  cbv zeta. eexists _, _, _, _, _. split; [vm_compute; reflexivity|].
  change [11; 21; 12; 22; 11; 23] with ([11; 21] ++ [12; 22] ++ [11; 23] ++ [] ++ []).
  eapply Run_cons; [vm_compute; reflexivity|vm_compute; reflexivity|].
  eapply Run_cons; [vm_compute; reflexivity|vm_compute; reflexivity|].
  eapply Run_cons; [vm_compute; reflexivity|vm_compute; reflexivity|].
  eapply Run_cons; [exact I|vm_compute; reflexivity|]. apply Run_nil.
Qed.

(* the token ledger evaluated on the implementation after every step holds for every step of the model whose tokens were
   distinct before it: what is held, dropped and handed back afterwards is duplicate-free and is exactly what was there
   before (a sub-multiset when the step forgets a Drain) *)
Theorem C06_monitor_sound : forall E VS, 0 < E -> VS <= E -> forall s p o s' out evs, Inv E s -> wf_op E s p -> toks_ok s p ->
  stepA E VS fixed s p o = Some (s', out, evs) -> c06_mon s p out (e_dropped evs) s' = true.
Proof. exact c06_mon_sound. Qed.

(* at pointer level: for every step of the heap-of-nodes model from a reachable state, the objects owned by the linked nodes
   before the step plus those the operation brings in are, as a multiset, the objects owned by the linked nodes afterwards
   plus those dropped, returned and (by a forgotten drain) leaked: nothing is duplicated, nothing is lost *)
Theorem C06_pointer_level : forall E VS, 0 < E -> VS <= E -> forall b p oB b' out evs,
  ReachB E VS b -> wf_op E (absB b) p -> stepB E VS b p oB = Some (b', out, evs) ->
  RIb b' /\
  Permutation (all_toks (ents (absB b)) ++ op_toks p) (all_toks (ents (absB b')) ++ e_dropped evs ++ returned p out ++ leaked (absB b) p).
Proof.
  intros E VS HE HV b p oB b' out evs HR Hwf Hstep.
  destruct (reachB_sound E VS HE HV b HR) as [_ HRa]. pose proof (reach_inv E VS HE HV _ HRa) as HI.
  destruct (reachB_step E VS HE HV b _ oB b' out evs HR Hstep) as (HA & HRI & _).
  split; [exact HRI|]. exact (C06_step E VS HE HV _ p _ _ out evs HI Hwf HA).
Qed.

Print Assumptions C06_step.
Print Assumptions C06_exactly_once.
Print Assumptions C06_no_leak_without_forget.
Print Assumptions C06_monitor_sound.
Print Assumptions C06_pointer_level.
