(* C10 — rejected insertions are atomic, precisely classified, and return the pair. *)
Require Import LruV.A.SpecA LruV.A.InvA LruV.B.StepB LruV.B.RefineB LruV.B.ReachB.

Definition is_ins_err (o : out) : bool :=
  match o with OInsTooLarge _ _ _ _ | OTryTooLarge _ _ _ _ | OTryWouldEject _ _ _ _ | OTryOccupied _ _ => true | _ => false end.

(* insert fails with EntryTooLarge exactly when entry_size exceeds max_size; the error carries the very
   pair, the exact entry_size and max_size; the state (table included) is untouched, nothing is dropped *)
Theorem C10_insert : forall E VS, 0 < E -> VS <= E -> forall s k v o s' out evs,
  Inv E s -> kheap k + vheap v + E < W ->
  stepA E VS fixed s (Insert k v) o = Some (s', out, evs) ->
  let sz := kheap k + vheap v + E in
  (maxs s < sz -> out = OInsTooLarge k v sz (maxs s) /\ s' = s /\ evs = ev0) /\
  (sz <= maxs s -> exists old, out = OInsOk old /\ old = option_map ev (find_id (kid k) (ents s))).
Proof.
  intros E VS HE HV s k v o s' out evs HI Hwf H. cbn [stepA] in H. cbv zeta.
  destruct (insert_spec E VS HE HV s k v o _ HI Hwf H) as [[Hbig Hr]|(Hfit & evd & rest & t2 & rb & _ & _ & _ & Hr)];
    injection Hr as -> -> ->; (split; [intros Hb|intros Hb]); try lia; eauto.
Qed.

(* try_insert: four-way classification with the stated precedence; every failure is atomic *)
Theorem C10_try_insert : forall E VS, 0 < E -> VS <= E -> forall s k v o s' out evs,
  Inv E s -> kheap k + vheap v + E < W ->
  stepA E VS fixed s (TryInsert k v) o = Some (s', out, evs) ->
  let sz := kheap k + vheap v + E in
  (maxs s < sz -> out = OTryTooLarge k v sz (maxs s)) /\
  (sz <= maxs s -> maxs s - cur s < sz -> out = OTryWouldEject k v sz (maxs s - cur s)) /\
  (sz <= maxs s - cur s -> find_id (kid k) (ents s) <> None -> out = OTryOccupied k v) /\
  (sz <= maxs s - cur s -> find_id (kid k) (ents s) = None ->
     out = OTryOk /\ ents s' = ents s ++ [mk_entry k v sz] /\ cur s' = cur s + sz /\ e_evicted evs = [] /\ e_dropped evs = []) /\
  (is_ins_err out = true -> s' = s /\ e_dropped evs = [] /\ e_evicted evs = []).
Proof.
  intros E VS HE HV s k v o s' out evs HI Hwf H. cbn [stepA] in H. cbv zeta.
  pose proof HI as (Hsum & Hle & _).
  destruct (try_insert_spec E VS HE HV s k v o _ HI Hwf H) as [[Hbig Hr]|[(Hfit & Hbig & Hr)|[(Hfit & Hocc & Hr)|(Hfit & Hfree & t2 & rb & Ht & Hr)]]];
    injection Hr as -> -> ->; cbn [is_ins_err ents cur set_ents e_evicted e_dropped ev0 hashed];
    repeat split; intros; try lia; try congruence; auto.
Qed.

(* non-vacuity: a pair that is both too large for the free space and already present is WouldEjectLru *)
Example C10_precedence :
  let o := {| o_tomb := 0; o_reuse := false; o_alloc := true |} in
  let e1 := {| ek := {| kid := 1; ktok := 1; kheap := 0 |}; ev := {| vtok := 2; vtag := 2; vheap := 8 |}; es := 80 |} in
  let s := {| ents := [e1]; cur := 80; maxs := 100; tb := {| nb := 4; tombs := 0 |} |} in
  exists r, stepA 72 24 fixed s (TryInsert {| kid := 1; ktok := 7; kheap := 0 |} {| vtok := 8; vtag := 8; vheap := 0 |}) o = Some r
            /\ snd (fst r) = OTryWouldEject {| kid := 1; ktok := 7; kheap := 0 |} {| vtok := 8; vtag := 8; vheap := 0 |} 72 20.
Proof. cbv zeta. eexists. split; [vm_compute; reflexivity|reflexivity]. Qed.

(* at pointer level: a rejected insert / try_insert on any reachable state of the heap-of-nodes model leaves the abstraction
   of the structure (entries in order with their recorded sizes, counter, limit, table geometry) as it was, the structure
   coherent, drops nothing and evicts nothing *)
Theorem C10_pointer_level : forall E VS, 0 < E -> VS <= E -> forall b k v oB b' out evs,
  ReachB E VS b -> kheap k + vheap v + E < W ->
  stepB E VS b (Insert k v) oB = Some (b', out, evs) \/ stepB E VS b (TryInsert k v) oB = Some (b', out, evs) ->
  is_ins_err out = true ->
  absB b' = absB b /\ RIb b' /\ e_dropped evs = [] /\ e_evicted evs = [].
Proof.
  intros E VS HE HV b k v oB b' out evs HR Hwf Hstep Herr.
  destruct (reachB_sound E VS HE HV b HR) as [_ HRa]. pose proof (reach_inv E VS HE HV _ HRa) as HI.
  destruct Hstep as [Hstep|Hstep]; destruct (reachB_step E VS HE HV b _ oB b' out evs HR Hstep) as (HA & HRI & _).
  - pose proof (C10_insert E VS HE HV _ k v _ _ out evs HI Hwf HA) as H. cbv zeta in H. destruct H as [H1 H2].
    destruct (N.lt_ge_cases (maxs (absB b)) (kheap k + vheap v + E)) as [Hlt|Hge].
    + destruct (H1 Hlt) as (_ & Hs & ->). split; [exact Hs|]. split; [exact HRI|]. split; reflexivity.
    + destruct (H2 Hge) as (old & -> & _). discriminate Herr.
  - pose proof (C10_try_insert E VS HE HV _ k v _ _ out evs HI Hwf HA) as H. cbv zeta in H.
    destruct H as (_ & _ & _ & _ & H5). destruct (H5 Herr) as (Hs & Hd & Hev). split; [exact Hs|]. split; [exact HRI|]. split; assumption.
Qed.

Print Assumptions C10_insert.
Print Assumptions C10_try_insert.
Print Assumptions C10_pointer_level.
