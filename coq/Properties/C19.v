(* C19 — operations through a shared reference never write to the cache.
   Three parts: (1) in the model, every &self operation is the identity on the whole state (below);
   (2) static: no function reachable from a &self operation in the call graph regenerated from the
   source contains a write primitive (Gen/C19Static.v, re-exported here); (3) on the implementation the
   structural fingerprint (addresses, links, recorded sizes, scalars, table geometry) is compared
   before and after every &self call (harness flag `ro`). Thread scheduling is not modelled: the
   "every interleaving" reading follows because a constant heap gives every reader the same answers. *)
Require Import LruV.A.OrderA LruV.Gen.C19Static LruV.Gen.GenDefs.
Require Import LruV.B.StepB LruV.B.OpsProps LruV.B.RefineLemmas LruV.B.CloneB.

Definition shared_ref_op (p : op) : bool :=
  match p with
  | Peek _ | PeekEntry _ | PeekLru | PeekMru | Contains _ | IterOp _ | DebugFmt | Len | IsEmpty | CurrentSize | MaxSize | Capacity => true
  | _ => false
  end.

(* (1) model: the whole state — entries, order, recorded sizes, counters, table — is untouched, nothing is
   dropped, for present and absent keys, any traversal pattern *)
Theorem C19_model_readonly : forall E VS s p o s' out evs,
  shared_ref_op p = true -> stepA E VS fixed s p o = Some (s', out, evs) -> s' = s /\ e_dropped evs = [] /\ e_evicted evs = [].
Proof. intros E VS s p o s' out evs Hs H. destruct p; try discriminate Hs; cbn [stepA] in H; injection H as <- _ <-; auto. Qed.

(* clone reads the source and builds a separate value *)
Theorem C19_clone_source_untouched : forall E s ren c evs, do_clone E s ren = Some (c, evs) -> e_dropped evs = [] /\ e_evicted evs = [].
Proof. intros E s ren c evs H. unfold do_clone in H. destruct (t_alloc E (capacity (tb s)) true); try discriminate. injection H as <- <-. auto. Qed.

(* (1b) at pointer level: every &self operation of the heap-of-nodes model — the lookups that scan the listed buckets, the LRU/MRU
   peeks that read the seal's links, full or partial traversals in both directions running as cursors over the links, Debug — returns
   with the WHOLE pointer-level state identical: the heap (every node: both links, recorded size, ownership state of the payload),
   the seal, the list of buckets, counters and table.  No representation invariant is needed: it holds from any state in which the
   operation returns at all. *)
Theorem C19_pointer_level_readonly : forall E VS b p oB b' out evs,
  shared_ref_op p = true -> stepB E VS b p oB = Some (b', out, evs) -> b' = b /\ e_dropped evs = [] /\ e_evicted evs = [].
Proof.
  intros E VS b p oB b' out evs Hs H. destruct p; try discriminate Hs; cbn [stepB] in H;
    repeat (first [ match type of H with bind ?x _ = _ => destruct x as [?|]; cbn [bind] in H; [|discriminate] end
                  | match type of H with match ?x with _ => _ end = _ => destruct x; cbn [bind] in H; try discriminate end ]);
    injection H as <- _ <-; auto.
Qed.
(* clone at pointer level reads the source and builds the copy in buckets that are not the source's: the source structure is
   still coherent and holds exactly its entries in the heap the clone returns *)
Theorem C19_clone_pointer_level : forall E b seal_c addrs ren bc evs, RIg (bg b) -> bB_clone E b seal_c addrs ren = Some (bc, evs) ->
  RI (gh (bg bc)) (gseal (bg b)) (glist (bg b)) /\ absl (gh (bg bc)) (glist (bg b)) = absG (bg b).
Proof. intros E b seal_c addrs ren bc evs H Hc. destruct (clone_refines E b seal_c addrs ren bc evs H Hc) as (_ & _ & A & B & _). auto. Qed.

(* (2) static: for all inputs, no write primitive is reachable from any &self operation *)
Theorem C19_static_no_write : forall f, In f c19_roots -> forall g, GenDefs.Reach c19_graph f g -> has_write c19_graph g = false.
Proof. exact C19_static. Qed.

Print Assumptions C19_model_readonly.
Print Assumptions C19_static_no_write.
Print Assumptions C19_pointer_level_readonly.
Print Assumptions C19_clone_pointer_level.
