(* C17 — leaking an iterator can only leak, never double-drop.
   Pointer level (Layer B): the owning iterators move entries out of their buckets; the model tracks the
   ownership of every payload, and reading or dropping a payload that is not owned is a fault.
   Abstract level (Layer A): the repaired Drain empties the cache when it is created. *)
Require Import LruV.B.TakingB LruV.A.LedgerA LruV.B.StepB LruV.B.RefineLemmas LruV.B.CloneB LruV.B.TotalB LruV.B.RefineB LruV.B.ReachB LruV.A.InvA.

(* Any run of a taking iterator (any pattern, any prefix, from either end) never reads a moved-out or
   uninitialised payload, moves out exactly the buckets it yielded, each once, and leaves every other
   bucket live and every link untouched. So whatever happens to the iterator afterwards (dropped or
   forgotten), the only payloads that are not owned by the caller are the ones still marked live. *)
Theorem C17_taking_run : forall pat M h stale, NoDup M -> linked h M -> (forall a, In a M -> live h a) ->
  exists h', tk_run h (start M stale) pat = Some (h', map (fun o => match o with Some a => kv_at h a | None => None end) (fst (take_ends M pat))) /\
             moved_exactly h h' (somes (fst (take_ends M pat))) /\
             (forall a, In a (snd (take_ends M pat)) -> live h' a) /\
             NoDup (somes (fst (take_ends M pat))) /\ (forall a, In a (somes (fst (take_ends M pat))) -> In a M).
Proof. exact tk_spec. Qed.

(* The repaired Drain: after drain() with ANY consumption pattern the cache is empty, consistent and usable,
   whether the Drain was dropped or forgotten; forgetting drops nothing (the unconsumed entries are leaked),
   and no token is dropped that is also handed back. *)
Theorem C17_drain_forget : forall E VS, 0 < E -> VS <= E -> forall s pat o s' out evs,
  Inv E s -> stepA E VS fixed s (DrainOp pat FForget) o = Some (s', out, evs) ->
  ents s' = [] /\ cur s' = 0 /\ Inv E s' /\ e_dropped evs = [] /\
  Permutation (all_toks (ents s)) (returned (DrainOp pat FForget) out ++ leaked s (DrainOp pat FForget)).
Proof.
  intros E VS HE HV s pat o s' out evs HI H.
  pose proof (step_inv E VS HE HV s (DrainOp pat FForget) o _ HI I H) as HI'. cbn [fst] in HI'.
  pose proof (step_ledger E VS HE HV s (DrainOp pat FForget) o s' out evs HI I H) as Hb.
  cbn [stepA] in H. destruct (take_ends (ents s) pat) as [outs rest] eqn:Ht. injection H as <- <- <-.
  cbn [ents cur set_ents e_dropped] in *. split; [reflexivity|]. split; [reflexivity|]. split; [exact HI'|]. split; [reflexivity|].
  apply bal_perm. intros x. specialize (Hb x). cbn [op_toks e_dropped all_toks flat_map app] in Hb. rewrite !cnt_app in Hb. rewrite cnt_app. cbn [cnt count_occ] in Hb. lia.
Qed.

(* the owning iterators consume the cache: forgetting one drops nothing beyond what the adaptor already
   dropped of the yielded pairs (into_keys drops the yielded values, into_values the yielded keys) *)
Theorem C17_into_iter_forget : forall s kind pat,
  e_dropped (snd (do_into_iter s kind pat FForget)) = yielded_drops kind (fst (take_ends (ents s) pat)).
Proof. intros. unfold do_into_iter. destruct (take_ends (ents s) pat). cbn. now rewrite app_nil_r. Qed.

(* the owning iterators at pointer level: on a coherent structure, for every pattern of next()/next_back() calls and
   whether the iterator is then dropped or forgotten, the run never reads a moved-out payload (it does not fault), and the
   items handed out and the set of objects dropped are exactly Layer A's — a forgotten iterator drops nothing more than
   what it handed out and consumed, i.e. it only leaks *)
Theorem C17_into_iter_pointer_level : forall b kind pat f o evs, RIg (bg b) -> bB_into_iter b kind pat f = Some (o, evs) ->
  do_into_iter (absB b) kind pat f = (o, evs).
Proof. exact into_iter_refines. Qed.
Theorem C17_drop_pointer_level : forall b, bB_drop b = do_drop (absB b).
Proof. exact drop_refines. Qed.

(* ... and that run never faults: on a coherent structure the owning iterator always returns a result *)
Theorem C17_into_iter_no_fault : forall b kind pat f, RIg (bg b) -> exists r, bB_into_iter b kind pat f = Some r.
Proof. exact into_iter_total. Qed.

(* "a cache that was being drained remains a valid, usable cache", at pointer level and for every point of the drain's consumption:
   from any reachable state of the heap-of-nodes model, a drain consumed by ANY pattern of next / next_back and then leaked with
   mem::forget leaves a state that is again reachable (so every theorem about reachable states, and every further operation,
   applies to it), coherent, empty, with size 0 — and nothing was dropped by the call: the entries not yielded are leaked, never
   dropped twice *)
Theorem C17_leaked_drain_pointer_level : forall E VS, 0 < E -> VS <= E -> forall b pat oB b' out evs,
  ReachB E VS b -> stepB E VS b (DrainOp pat FForget) oB = Some (b', out, evs) ->
  ReachB E VS b' /\ RIb b' /\ ents (absB b') = [] /\ cur (absB b') = 0 /\ e_dropped evs = [].
Proof.
  intros E VS HE HV b pat oB b' out evs HR Hstep.
  assert (HR' : ReachB E VS b') by (change b' with (fst (fst (b', out, evs))); apply (reachb_step E VS b (DrainOp pat FForget) oB (b', out, evs) HR I Hstep)).
  destruct (reachB_step E VS HE HV b _ oB b' out evs HR Hstep) as (HA & HRI & _).
  split; [exact HR'|]. split; [exact HRI|]. cbn [stepA] in HA. destruct (take_ends (ents (absB b)) pat) as [outs rest].
  pose proof (f_equal (fun r => match r with Some (c, _, ev) => (ents c, cur c, e_dropped ev) | None => ([], 0, []) end) HA) as H0.
  cbn [ents cur set_ents e_dropped] in H0. injection H0 as H1 H2 H3. split; [symmetry; exact H1|]. split; [symmetry; exact H2|symmetry; exact H3].
Qed.

Print Assumptions C17_taking_run.
Print Assumptions C17_drain_forget.
Print Assumptions C17_into_iter_forget.
Print Assumptions C17_into_iter_pointer_level.
Print Assumptions C17_drop_pointer_level.
Print Assumptions C17_into_iter_no_fault.
Print Assumptions C17_leaked_drain_pointer_level.
