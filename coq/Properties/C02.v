(* C02 — size accounting is exact.  Statements only; proofs are in A/InvA.v. *)
Require Import LruV.A.InvA LruV.B.StepB LruV.B.ReachB.

Theorem C02_sum : forall E VS, 0 < E -> VS <= E -> forall s, Reach E VS s ->
  cur s = sumN (map es (ents s)) /\ Forall (fun e => es e = kheap (ek e) + vheap (ev e) + E) (ents s) /\
  (cur s = 0 <-> ents s = []) /\ NoDup (map (fun e => kid (ek e)) (ents s)).
Proof.
  intros E VS HE HV s HR. pose proof (reach_inv E VS HE HV s HR) as HI. pose proof HI as (Hsum & Hle & Hmax & Hall & Hnd).
  repeat split; auto; apply (inv_zero_iff E VS HE HV s HI).
Qed.

Theorem C02_monitor_sound : forall E VS, 0 < E -> VS <= E -> forall s, Reach E VS s -> c02_mon E s = true.
Proof. intros E VS HE HV s HR. apply (inv_c02_mon E VS HE HV). eapply reach_inv; eauto. Qed.

(* at pointer level: in every reachable state of the heap-of-nodes model the counter is the sum of the sizes recorded in the
   nodes linked from the seal, every recorded size is the estimate of the pair the node owns, the counter is zero exactly when
   no node is linked, and no two linked nodes own the same key *)
Theorem C02_pointer_level : forall E VS, 0 < E -> VS <= E -> forall b, ReachB E VS b ->
  let l := absl (gh (bg b)) (glist (bg b)) in
  bcur b = sumN (map es l) /\ Forall (fun e => es e = kheap (ek e) + vheap (ev e) + E) l /\
  (bcur b = 0 <-> l = []) /\ NoDup (map (fun e => kid (ek e)) l).
Proof.
  intros E VS HE HV b HR. destruct (reachB_sound E VS HE HV b HR) as [_ HA]. exact (C02_sum E VS HE HV _ HA).
Qed.

(* non-vacuity: a reachable state with two entries of different sizes *)
Example C02_reach_example :
  exists s, Reach 72 24 s /\ length (ents s) = 2%nat /\ cur s = 72 + 5 + 72 + 17.
Proof.
  set (o := {| o_tomb := 0; o_reuse := false; o_alloc := true |}).
  set (k1 := {| kid := 1; ktok := 1; kheap := 5 |}). set (v1 := {| vtok := 2; vtag := 2; vheap := 0 |}).
  set (k2 := {| kid := 2; ktok := 3; kheap := 0 |}). set (v2 := {| vtok := 4; vtag := 4; vheap := 17 |}).
  destruct (new_cache 72 1000 0) as [s0|] eqn:H0; [|vm_compute in H0; discriminate].
  assert (R0 : Reach 72 24 s0) by (eapply reach_new; [|exact H0]; vm_compute; reflexivity).
  destruct (stepA 72 24 fixed s0 (Insert k1 v1) o) as [r1|] eqn:H1; [|vm_compute in H0; injection H0 as <-; vm_compute in H1; discriminate].
  assert (R1 : Reach 72 24 (fst (fst r1))) by (eapply reach_step; [exact R0| |exact H1]; vm_compute; reflexivity).
  destruct (stepA 72 24 fixed (fst (fst r1)) (Insert k2 v2) o) as [r2|] eqn:H2;
    [|vm_compute in H0; injection H0 as <-; vm_compute in H1; injection H1 as <-; vm_compute in H2; discriminate].
  exists (fst (fst r2)). split; [eapply reach_step; [exact R1| |exact H2]; vm_compute; reflexivity|].
  vm_compute in H0; injection H0 as <-; vm_compute in H1; injection H1 as <-; vm_compute in H2; injection H2 as <-.
  vm_compute. auto.
Qed.

Print Assumptions C02_sum.
Print Assumptions C02_monitor_sound.
Print Assumptions C02_pointer_level.
Check C02_sum : forall E VS, 0 < E -> VS <= E -> forall s, Reach E VS s ->
  cur s = sumN (map es (ents s)) /\ Forall (fun e => es e = kheap (ek e) + vheap (ev e) + E) (ents s) /\
  (cur s = 0 <-> ents s = []) /\ NoDup (map (fun e => kid (ek e)) (ents s)).
