(* C18 - Send/Sync and borrowing contracts (compile time).

   The statements are about tables GENERATED from /repo/src on every check (Gen/Sigs.v, written by
   /verif/sigdump): the bounds written on the manual `unsafe impl Send/Sync for LruCache`, the field
   types of the structs, and the signature of every public function of LruCache, every iterator
   constructor and every Iterator/DoubleEndedIterator method of the iterator structs.  They are
   finite tables and the statements say so; rustc is the oracle that ties them to what the compiler
   accepts (tools/sig_check.py compiles probe programs and compares accept/reject with what these
   tables predict).  Claimed as translation validation, not as a proof about rustc. *)
From Coq Require Import String List Bool.
Require Import LruV.Gen.GenDefs LruV.Gen.Sigs LruV.Gen.GenProps.
Import ListNotations.
Open Scope string_scope.
Open Scope list_scope.

(* LruCache<K,V,S> is Send exactly when K, V and S are all Send (as far as the impls written in
   the source decide), for every combination of the three *)
Theorem C18_send : forall sk sv ss : bool, lru_send sk sv ss = sk && sv && ss.
Proof. exact lru_send_spec. Qed.

Theorem C18_sync : forall sk sv ss : bool, lru_sync sk sv ss = sk && sv && ss.
Proof. exact lru_sync_spec. Qed.

(* ... and Send-ness depends on nothing else (in particular not on whether a parameter is Sync),
   Sync-ness likewise; each parameter is a pair (is Send, is Sync) *)
Theorem C18_send_exact : forall k v s : bool * bool,
    lru_marker "Send" k v s = fst k && fst v && fst s.
Proof. exact lru_marker_send_exact. Qed.

Theorem C18_sync_exact : forall k v s : bool * bool,
    lru_marker "Sync" k v s = snd k && snd v && snd s.
Proof. exact lru_marker_sync_exact. Qed.

(* a raw pointer blocks the auto impls: with the manual impls removed LruCache would be neither *)
Theorem C18_not_auto :
  auto_blocked structs "LruCache" = true /\
  (forall tr vals, marker_holds [] structs tr "LruCache" vals = false).
Proof. exact lru_not_auto. Qed.

(* so the impls that decide are the manual ones: one per marker, unsafe, of a regular shape *)
Theorem C18_manual_impls : one_regular_impl "Send" = true /\ one_regular_impl "Sync" = true.
Proof. exact lru_manual_impls. Qed.

(* every reference or borrowing iterator in a return type carries the receiver's lifetime -
   elided or named - never 'static or a free parameter (over the generated signature table) *)
Theorem C18_borrow : forallb tied_to_self sigs = true.
Proof. exact sigs_tied. Qed.

(* the table does contain the reference-returning API (the statement above is not vacuous) *)
Theorem C18_borrow_nonvacuous :
  forallb borrows ["LruCache::get"; "LruCache::get_entry"; "LruCache::get_lru"; "LruCache::peek";
                   "LruCache::peek_entry"; "LruCache::peek_lru"; "LruCache::peek_mru";
                   "LruCache::hasher"; "LruCache::iter"; "LruCache::keys"; "LruCache::values";
                   "LruCache::drain"; "Iter::new"; "Keys::new"; "Values::new"; "Drain::new";
                   "Iter::next"; "Iter::next_back"; "Keys::next"; "Values::next"] = true.
Proof. exact sigs_nonvacuous. Qed.

Print Assumptions C18_send.
Print Assumptions C18_sync.
Print Assumptions C18_send_exact.
Print Assumptions C18_sync_exact.
Print Assumptions C18_not_auto.
Print Assumptions C18_manual_impls.
Print Assumptions C18_borrow.
Print Assumptions C18_borrow_nonvacuous.

Check C18_send : forall sk sv ss : bool, lru_send sk sv ss = sk && sv && ss.
Check C18_sync : forall sk sv ss : bool, lru_sync sk sv ss = sk && sv && ss.
Check C18_send_exact : forall k v s : bool * bool, lru_marker "Send" k v s = fst k && fst v && fst s.
Check C18_sync_exact : forall k v s : bool * bool, lru_marker "Sync" k v s = snd k && snd v && snd s.
Check C18_not_auto : auto_blocked structs "LruCache" = true /\
                     (forall tr vals, marker_holds [] structs tr "LruCache" vals = false).
Check C18_manual_impls : one_regular_impl "Send" = true /\ one_regular_impl "Sync" = true.
Check C18_borrow : forallb tied_to_self sigs = true.
