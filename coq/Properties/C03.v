(* C03 — eviction is least-recently-used first, minimal, and spares the new entry. *)
Require Import LruV.A.SpecA LruV.A.InvA LruV.A.MonitorsA LruV.A.MonC03 LruV.A.OrderA LruV.A.HistoryA.
Require Import LruV.B.StepB LruV.B.RefineLemmas LruV.B.OpsProps LruV.B.CorollariesB LruV.A.SpecA.

(* `minimal_prefix l evd rest target` (A/SpecA.v): l = evd ++ rest, rest fits the target, evd is the
   SHORTEST such prefix (dropping its last element would not fit), and nothing is evicted when
   everything already fits.  Lists are least-recently-used first, so a prefix is "oldest first". *)

(* insert: the old entry of the same key is credited first (l0 / the target are computed after its
   removal), then exactly the minimal LRU prefix of the others goes, and the new entry is the MRU. *)
Theorem C03_insert : forall E VS, 0 < E -> VS <= E -> forall s k v o s' old evs,
  Inv E s -> kheap k + vheap v + E < W ->
  stepA E VS fixed s (Insert k v) o = Some (s', OInsOk old, evs) ->
  let sz := kheap k + vheap v + E in
  let l0 := remove_id (kid k) (ents s) in
  exists rest, minimal_prefix l0 (e_evicted evs) rest (maxs s - sz) /\
               ents s' = rest ++ [mk_entry k v sz] /\ ~ In (kid k) (kids (e_evicted evs)).
Proof.
  intros E VS HE HV s k v o s' old evs HI Hwf H. cbn [stepA] in H.
  destruct (insert_spec E VS HE HV s k v o _ HI Hwf H) as [[_ Hr]|(Hfit & evd & rest & t2 & rb & Hmp & Hs0 & Ht & Hr)]; [discriminate|].
  injection Hr as -> _ ->. cbn [e_evicted ents set_ents]. exists rest. split; [exact Hmp|]. split; [reflexivity|].
  destruct Hmp as (Hl & _). destruct HI as (_ & _ & _ & _ & Hnd).
  intros Hin.
  assert (Hn : ~ In (kid k) (kids (remove_id (kid k) (ents s)))).
  { destruct (find_id (kid k) (ents s)) as [e|] eqn:Hf.
    - destruct (find_id_some _ _ _ Hf) as (la & lb & El & Er & Hk & Hn). rewrite Er. rewrite El, kids_app in Hnd. cbn [kids map] in Hnd.
      apply NoDup_app_remove_mid in Hnd as [_ Hnd2]. rewrite Hk in Hnd2. now rewrite kids_app.
    - destruct (find_id_none _ _ Hf) as [-> Hn]. exact Hn. }
  apply Hn. rewrite Hl, kids_app. apply in_or_app. now left.
Qed.

(* a pair that fits the free space evicts nothing (fresh key) *)
Theorem C03_exact_fit : forall E VS, 0 < E -> VS <= E -> forall s k v o s' old evs,
  Inv E s -> kheap k + vheap v + E < W -> find_id (kid k) (ents s) = None ->
  kheap k + vheap v + E <= maxs s - cur s ->
  stepA E VS fixed s (Insert k v) o = Some (s', OInsOk old, evs) -> e_evicted evs = [] /\ ents s' = ents s ++ [mk_entry k v (kheap k + vheap v + E)].
Proof.
  intros E VS HE HV s k v o s' old evs HI Hwf Hfresh Hfit H. cbn [stepA] in H.
  destruct (insert_spec E VS HE HV s k v o _ HI Hwf H) as [[_ Hr]|(_ & evd & rest & t2 & rb & Hmp & Hs0 & Ht & Hr)]; [discriminate|].
  injection Hr as -> _ ->. cbn [e_evicted ents set_ents]. destruct Hmp as (Hl & _ & _ & Hz).
  rewrite Hfresh in Hs0. destruct (find_id_none _ _ Hfresh) as [Er _]. rewrite Er in *.
  destruct HI as (Hsum & Hle & _). assert (evd = []) as -> by (apply Hz; lia). cbn [app] in Hl. now rewrite <- Hl.
Qed.

(* mutate (growth that fits): the mutated entry is moved to the MRU end first, so it is never evicted;
   exactly the minimal LRU prefix of the OTHER entries goes *)
Theorem C03_mutate : forall E VS, 0 < E -> VS <= E -> forall s q nt nh o s' evs e,
  Inv E s -> wf_op E s (Mutate q nt nh) -> find_id q (ents s) = Some e ->
  stepA E VS fixed s (Mutate q nt nh) o = Some (s', OMutOk, evs) ->
  let nes := kheap (ek e) + nh + E in
  exists rest, minimal_prefix (remove_id q (ents s)) (e_evicted evs) rest (maxs s - nes) /\
               ents s' = rest ++ [mk_entry (ek e) (mutated e nt nh) nes] /\
               (nh <= vheap (ev e) -> e_evicted evs = []).
Proof.
  intros E VS HE HV s q nt nh o s' evs e HI Hwf Hf H. cbn [stepA] in H.
  pose proof (mutate_spec E VS HE HV s q nt nh o _ HI Hwf H) as Hs. rewrite Hf in Hs. cbv zeta in Hs.
  destruct Hs as (Hes & Hs0 & Hle0 & [(_ & _ & Hr)|[(Hg & Hfit & evd & rest & Hmp & Hr)|(Hsh & Hr)]]); [discriminate| |].
  - injection Hr as -> ->. cbn [e_evicted ents set_ents]. exists rest. split; [exact Hmp|]. split; [reflexivity|]. lia.
  - injection Hr as -> ->. cbn [e_evicted ents set_ents hashed]. exists (remove_id q (ents s)). split; [|split; auto].
    destruct HI as (Hsum & Hle & _). unfold minimal_prefix. split; [reflexivity|]. split; [lia|]. split; [|reflexivity].
    intros [|? ?] ? Hd; discriminate Hd.
Qed.

(* lowering the limit: minimal LRU prefix *)
Theorem C03_set_max : forall E VS, 0 < E -> VS <= E -> forall s n o s' out evs,
  Inv E s -> stepA E VS fixed s (SetMaxSize n) o = Some (s', out, evs) ->
  minimal_prefix (ents s) (e_evicted evs) (ents s') n.
Proof.
  intros E VS HE HV s n o s' out evs HI H.
  destruct (set_max_spec E VS HE HV s n o _ HI H) as (evd & rest & Hmp & Hr). injection Hr as -> _ ->. exact Hmp.
Qed.

(* entries are evicted ONLY by a successful insertion, a successful growing mutate, or set_max_size *)
Theorem C03_only_when : forall E VS, 0 < E -> VS <= E -> forall s p o s' out evs,
  Inv E s -> wf_op E s p -> stepA E VS fixed s p o = Some (s', out, evs) -> e_evicted evs <> [] ->
  match p, out with
  | Insert _ _, OInsOk _ => True
  | Mutate _ _ _, OMutOk => True
  | SetMaxSize _, _ => True
  | _, _ => False
  end.
Proof.
  intros E VS HE HV s p o s' out evs HI Hwf H Hne.
  destruct p; cbn [stepA wf_op] in H, Hwf; try exact I;
    try (injection H as <- <- <-; now cbn in Hne);
    try (destruct (do_touch s q); injection H as <- <- <-; now cbn in Hne).
  - destruct (insert_spec E VS HE HV s k v o _ HI Hwf H) as [[_ Hr]|(_ & evd & rest & t2 & rb & _ & _ & _ & Hr)];
      injection Hr as -> -> ->; [now cbn in Hne|exact I].
  - destruct (try_insert_spec E VS HE HV s k v o _ HI Hwf H) as [[_ Hr]|[(_ & _ & Hr)|[(_ & _ & Hr)|(_ & _ & t2 & rb & _ & Hr)]]];
      injection Hr as -> -> ->; now cbn in Hne.
  - destruct (ents s); injection H as <- <- <-; now cbn in Hne.
  - destruct (find_id q (ents s)); [|injection H as <- <- <-; now cbn in Hne].
    apply bind_some in H as ([s1 e1] & _ & H). injection H as <- <- <-. now cbn in Hne.
  - destruct (find_id q (ents s)) eqn:Hf; [|injection H as <- <- <-; now cbn in Hne].
    apply bind_some in H as ([s1 e1] & H1 & H). injection H as <- <- <-. unfold removed_ev in H1.
    apply bind_some in H1 as (c & _ & H1). injection H1 as <- <-. now cbn in Hne.
  - destruct (ents s); [injection H as <- <- <-; now cbn in Hne|].
    apply bind_some in H as ([s1 e1] & H1 & H). injection H as <- <- <-. unfold removed_ev in H1.
    apply bind_some in H1 as (c & _ & H1). injection H1 as <- <-. now cbn in Hne.
  - destruct (ents s); [injection H as <- <- <-; now cbn in Hne|].
    apply bind_some in H as ([s1 e1] & H1 & H). injection H as <- <- <-. unfold removed_ev in H1.
    apply bind_some in H1 as (c & _ & H1). injection H1 as <- <-. now cbn in Hne.
  - pose proof (mutate_spec E VS HE HV s q newtag newheap o _ HI Hwf H) as Hs.
    destruct (find_id q (ents s)); [|injection Hs as -> -> ->; now cbn in Hne].
    cbv zeta in Hs. destruct Hs as (_ & _ & _ & [(_ & _ & Hr)|[(_ & _ & evd & rest & _ & Hr)|(_ & Hr)]]);
      injection Hr as -> -> ->; try exact I; now cbn in Hne.
  - apply bind_some in H as (c & _ & H). injection H as <- <- <-. now cbn in Hne.
  - destruct (take_ends (ents s) pat). injection H as <- <- <-. now cbn in Hne.
  - destruct (add64 (len s) n); [|injection H as <- <- <-; now cbn in Hne].
    destruct (capacity (tb s) <? n0); [|injection H as <- <- <-; now cbn in Hne].
    destruct (do_realloc E s n0 o) as [s1 [t| |]]; injection H as <- <- <-; now cbn in Hne.
  - destruct (add64 (len s) n); [|injection H as <- <- <-; now cbn in Hne].
    destruct (capacity (tb s) <? n0); [|injection H as <- <- <-; now cbn in Hne].
    destruct (do_realloc E s n0 o) as [s1 [t| |]]; injection H as <- <- <-; now cbn in Hne.
  - unfold do_shrink in H. destruct (N.max (len s) n <? capacity (tb s)); [|injection H as <- <- <-; now cbn in Hne].
    cbn [shrink_orig fixed] in H. destruct (t_alloc E (N.max (len s) n) (o_alloc o)); try (injection H as <- <- <-; now cbn in Hne).
    destruct (capacity t <? capacity (tb s)); injection H as <- <- <-; now cbn in Hne.
  - unfold do_shrink in H. destruct (N.max (len s) 0 <? capacity (tb s)); [|injection H as <- <- <-; now cbn in Hne].
    cbn [shrink_orig fixed] in H. destruct (t_alloc E (N.max (len s) 0) (o_alloc o)); try (injection H as <- <- <-; now cbn in Hne).
    destruct (capacity t <? capacity (tb s)); injection H as <- <- <-; now cbn in Hne.
Qed.

(* non-vacuity: an insertion into a full cache of three evicts exactly the two oldest *)
Example C03_example :
  let o := {| o_tomb := 0; o_reuse := false; o_alloc := true |} in
  let mk i h := {| ek := {| kid := i; ktok := i; kheap := 0 |}; ev := {| vtok := 100 + i; vtag := i; vheap := h |}; es := 72 + h |} in
  let s := {| ents := [mk 1 8; mk 2 8; mk 3 8]; cur := 240; maxs := 240; tb := {| nb := 4; tombs := 0 |} |} in
  exists s' evs, stepA 72 24 fixed s (Insert {| kid := 9; ktok := 9; kheap := 0 |} {| vtok := 109; vtag := 9; vheap := 20 |}) o = Some (s', OInsOk None, evs)
     /\ map (fun e => kid (ek e)) (e_evicted evs) = [1; 2] /\ map (fun e => kid (ek e)) (ents s') = [3; 9].
Proof. cbv zeta. eexists _, _. split; [vm_compute; reflexivity|]. split; reflexivity. Qed.

(* at pointer level: the eviction loop that reads its victims from seal.prev, on a coherent structure whose counter is the sum
   of the recorded sizes, never faults, removes exactly the shortest run of least-recently-used entries that brings the total
   to the target (oldest first), frees exactly their buckets and leaves every other node as it was *)
Theorem C03_pointer_level : forall g c target, RIg g -> NoDup (kids (absG g)) -> c = sum_es (absG g) ->
  exists g' evd, b_eject (length (glist g)) g c target = Some (g', sum_es (absG g'), evd) /\
    minimal_prefix (absG g) evd (absG g') target /\ RIg g' /\ gseal g' = gseal g /\
    (exists gone, glist g = glist g' ++ gone /\ forall x, In x gone -> gh g' x = None) /\
    (forall b, In b (glist g') -> entry_at (gh g') b = entry_at (gh g) b).
Proof. exact eject_pointer_level. Qed.

(* the monitor evaluated on the implementation after every step — minimality of the eviction in the TRUE sizes of the
   entries (A/MonitorsA.v c03_mon: when an insertion, a mutate that keeps its entry or a lowered limit made entries
   leave, the last of them to leave could not have stayed: with it, the true sizes of what is held afterwards exceed the
   limit) — holds for every step of the model from every state satisfying the invariant, whatever the oracle *)
Theorem C03_monitor_sound : forall E VS, 0 < E -> VS <= E -> forall s p o s' out evs,
  Inv E s -> wf_op E s p -> stepA E VS fixed s p o = Some (s', out, evs) -> c03_mon E s p s' = true.
Proof. exact c03_mon_sound. Qed.
Check C03_monitor_sound : forall E VS, 0 < E -> VS <= E -> forall s p o s' out evs,
  Inv E s -> wf_op E s p -> stepA E VS fixed s p o = Some (s', out, evs) -> c03_mon E s p s' = true.

(* the monitor is not trivially true: with limit 150, entries 1 and 2 of true size 72, an insertion of a 72-byte entry that
   leaves only the newcomer behind (both old entries gone although evicting entry 1 alone would have made room) is rejected *)
Example C03_monitor_rejects_over_eviction :
  let mk i := {| ek := {| kid := i; ktok := i; kheap := 0 |}; ev := {| vtok := 100 + i; vtag := i; vheap := 0 |}; es := 72 |} in
  let pre := {| ents := [mk 1; mk 2]; cur := 144; maxs := 150; tb := {| nb := 4; tombs := 0 |} |} in
  c03_mon 72 pre (Insert {| kid := 3; ktok := 3; kheap := 0 |} {| vtok := 103; vtag := 3; vheap := 0 |})
          {| ents := [mk 3]; cur := 72; maxs := 150; tb := {| nb := 4; tombs := 0 |} |} = false /\
  c03_mon 72 pre (Insert {| kid := 3; ktok := 3; kheap := 0 |} {| vtok := 103; vtag := 3; vheap := 0 |})
          {| ents := [mk 2; mk 3]; cur := 144; maxs := 150; tb := {| nb := 4; tombs := 0 |} |} = true.
Proof. split; vm_compute; reflexivity. Qed.

(* "LEAST-RECENTLY-USED FIRST" IN TERMS OF THE HISTORY: after any history, whatever an insertion evicts was last accessed before
   every old entry that stays (`last_access` = the number of the last call that accessed the key; only the seven promoting
   operations count).  General form (any minimal prefix of a sublist of the order: insertions, growing mutates, set_max_size):
   A/HistoryA.v `evicted_are_least_recently_accessed`. *)
Theorem C03_evicts_least_recently_accessed : forall E VS, 0 < E -> VS <= E -> forall h s k v o s' old evs,
  Hist E VS h s -> kheap k + vheap v + E < W -> stepA E VS fixed s (Insert k v) o = Some (s', OInsOk old, evs) ->
  forall a b, In a (kids (e_evicted evs)) -> In b (kids (ents s')) -> b <> kid k -> (last_access h a < last_access h b)%nat.
Proof.
  intros E VS HE HV h s k v o s' old evs HH Hwf Hstep a b Ha Hb Hbk.
  pose proof (reach_inv E VS HE HV s (hist_reach E VS h s HH)) as HI.
  destruct (C03_insert E VS HE HV s k v o s' old evs HI Hwf Hstep) as (rest & Hmp & Hents & _).
  apply (evicted_are_least_recently_accessed E VS HE HV h s _ _ rest _ HH (remove_id_subl _ _) Hmp a b Ha).
  rewrite Hents, kids_app in Hb. apply in_app_or in Hb as [Hb|[Hb|[]]]; [exact Hb|]. cbn [mk_entry ek] in Hb. congruence.
Qed.
(* and the entry peek_lru shows is the one whose last access is the oldest *)
Theorem C03_lru_is_least_recently_accessed : forall E VS, 0 < E -> VS <= E -> forall h s e r, Hist E VS h s -> ents s = e :: r ->
  forall q, In q (kids r) -> (last_access h (kid (ek e)) < last_access h q)%nat.
Proof. exact lru_is_least_recently_accessed. Qed.

Print Assumptions C03_insert.
Print Assumptions C03_exact_fit.
Print Assumptions C03_mutate.
Print Assumptions C03_set_max.
Print Assumptions C03_only_when.
Print Assumptions C03_pointer_level.
Print Assumptions C03_monitor_sound.
Print Assumptions C03_evicts_least_recently_accessed.
Print Assumptions C03_lru_is_least_recently_accessed.
