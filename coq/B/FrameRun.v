(* Independence over RUNS (C14 "afterwards no operation on either cache affects the other"): two caches in one heap; any
   sequence of public operations of any length on the first, from any reachable state, with any oracle whose buckets are
   not nodes of the second, leaves the second cache coherent and with exactly the content it had. *)
Require Import LruV.B.StepB LruV.B.RefineLemmas LruV.B.RefineB LruV.B.FrameB LruV.B.FrameOps LruV.B.ReachB LruV.A.InvA.

Section Params.
Variables (E VS : N).
Hypothesis E_pos : 0 < E.
Hypothesis VS_le_E : VS <= E.

Inductive RunB : bstate -> list oracleB -> bstate -> Prop :=
| runb_nil b : RunB b [] b
| runb_step b p oB b1 o evs os b' : wf_op E (absB b) p -> stepB E VS b p oB = Some (b1, o, evs) -> RunB b1 os b' -> RunB b (oB :: os) b'.

Theorem runB_other_cache b os b' seal2 l2 : ReachB E VS b -> RunB b os b' -> RI (gh (bg b)) seal2 l2 ->
  (forall x, In x (seal2 :: l2) -> ~ In x (own (bg b)) /\ forall oB, In oB os -> ~ In x (extra oB)) ->
  ReachB E VS b' /\ RI (gh (bg b')) seal2 l2 /\ absl (gh (bg b')) l2 = absl (gh (bg b)) l2.
Proof.
  intros HR Hrun. revert HR. induction Hrun as [b|b p oB b1 o evs os b' Hwf Hstep Hrun IH]; intros HR H2 Hdis; [auto|].
  destruct (reachB_sound E VS E_pos VS_le_E b HR) as [H1 HRa].
  assert (Hku : KU b) by (destruct (reach_inv E VS E_pos VS_le_E _ HRa) as (_ & _ & _ & _ & Hnd); exact Hnd).
  assert (HR1 : ReachB E VS b1) by (change b1 with (fst (fst (b1, o, evs))); eapply reachb_step; eauto).
  destruct (stepB_other_cache E VS b p oB b1 o evs seal2 l2 H1 Hku Hstep H2) as [H2' Hab].
  { intros x Hx. destruct (Hdis x Hx) as [A B]. split; [exact A|apply B; now left]. }
  destruct (stepB_frame E VS b p oB b1 o evs H1 Hku Hstep) as (Hs & Hl & _).
  destruct (IH HR1 H2') as (R1 & R2 & R3).
  { intros x Hx. destruct (Hdis x Hx) as [A B]. split; [|intros oB' Hi; apply B; now right].
    intros [Hi|Hi]; [apply A; left; congruence|]. destruct (Hl x Hi) as [?|?]; [tauto|]. exact (B oB (or_introl eq_refl) H). }
  split; [exact R1|]. split; [exact R2|congruence].
Qed.
End Params.
