(* Layer B refines Layer A, part 1: what each pointer-level building block of B/StepB.v does to the abstract entry
   list absG (least-recently-used first), under the representation invariant RI. *)
Require Import LruV.B.StepB LruV.B.OpsProps LruV.A.OrderA LruV.A.ListLemmas.

Definition RIg (g : gstate) : Prop := RI (gh g) (gseal g) (glist g).

(* ---------- every listed bucket holds an entry ---------- *)
Lemma RI_entry g a : RIg g -> In a (glist g) -> exists e, entry_at (gh g) a = Some e.
Proof.
  intros (_ & _ & _ & Hlive) Hin. destruct (Hlive a Hin) as (k & v & Hp).
  unfold entry_at, payof in *. destruct (gh g a) as [n|]; [|discriminate]. injection Hp as ->. eauto.
Qed.
Lemma RI_full g : RIg g -> forall a, In a (rev (glist g)) -> entry_at (gh g) a <> None.
Proof. intros H a Ha. apply in_rev in Ha. destruct (RI_entry g a H Ha) as [e ->]. discriminate. Qed.
Lemma absG_length g : RIg g -> length (absG g) = length (glist g).
Proof. intros H. unfold absG, absl. rewrite <- (rev_length (glist g)). apply entries_full. apply RI_full, H. Qed.
Lemma live_entries_eq h l : live_entries h l = entries_of h l.
Proof. induction l as [|a r IH]; cbn [live_entries entries_of]; [reflexivity|]. unfold entry_at. destruct (h a) as [n|]; [|exact IH]. destruct (npay n); now rewrite IH. Qed.

(* ---------- lookup by key ---------- *)
Lemma find_in_spec h q M : (forall a, In a M -> entry_at h a <> None) ->
  match find_in h q M with
  | Some (a, e) => In a M /\ entry_at h a = Some e /\ kid (ek e) = q /\ find_id q (entries_of h M) = Some e
  | None => find_id q (entries_of h M) = None
  end.
Proof.
  induction M as [|a M IH]; intros Hf; cbn [find_in entries_of find_id]; [reflexivity|].
  assert (Hf' : forall b, In b M -> entry_at h b <> None) by (intros b Hb; apply Hf; now right).
  destruct (entry_at h a) as [e|] eqn:Ea; [|exfalso; apply (Hf a); [now left|exact Ea]].
  cbn [find_id]. destruct (N.eqb_spec (kid (ek e)) q) as [Eq|Nq].
  - split; [now left|]. auto.
  - specialize (IH Hf'). destruct (find_in h q M) as [[b eb]|]; [|exact IH]. destruct IH as (H1 & H2 & H3 & H4). split; [now right|]. auto.
Qed.
Lemma b_find_some g q a e : RIg g -> b_find g q = Some (a, e) ->
  In a (glist g) /\ entry_at (gh g) a = Some e /\ kid (ek e) = q /\ find_id q (absG g) = Some e.
Proof.
  intros H Hf. pose proof (find_in_spec (gh g) q (rev (glist g)) (RI_full g H)) as S. unfold b_find in Hf. rewrite Hf in S.
  destruct S as (H1 & H2 & H3 & H4). split; [now apply in_rev|]. auto.
Qed.
Lemma b_find_none g q : RIg g -> b_find g q = None -> find_id q (absG g) = None.
Proof. intros H Hf. pose proof (find_in_spec (gh g) q (rev (glist g)) (RI_full g H)) as S. unfold b_find in Hf. now rewrite Hf in S. Qed.

(* ---------- the two ends ---------- *)
Lemma nil_or_last {A} (l : list A) : l = [] \/ exists l0 z, l = l0 ++ [z].
Proof. destruct l as [|a l]; [now left|right]. destruct (@exists_last _ (a :: l)) as (l0 & z & E); [discriminate|eauto]. Qed.

Lemma b_lru_spec g : RIg g ->
  b_lru g = Some (match rev (glist g) with [] => None | a :: _ => Some a end).
Proof.
  intros H. unfold b_lru. destruct (nil_or_last (glist g)) as [E|(l0 & z & E)].
  - rewrite E. cbn [rev]. destruct H as (_ & Hc & _). rewrite E in Hc. cbn [app chain] in Hc. destruct Hc as (_ & Hp & _).
    rewrite Hp. cbn [bind]. now rewrite N.eqb_refl.
  - destruct (lru_is_head g z l0 H E) as [Hp _]. rewrite Hp. cbn [bind]. rewrite E, rev_app_distr. cbn [rev app].
    destruct H as (Hnd & _). apply NoDup_cons_iff in Hnd as [Hs _]. destruct (N.eqb_spec z (gseal g)) as [->|]; [|reflexivity].
    exfalso. apply Hs. rewrite E. apply in_or_app. right. now left.
Qed.
Lemma b_mru_spec g : RIg g ->
  b_mru g = Some (match glist g with [] => None | a :: _ => Some a end).
Proof.
  intros (Hnd & Hc & _). unfold b_mru. destruct (glist g) as [|m l'] eqn:E; cbn [app chain] in Hc; destruct Hc as (Hn & _); rewrite Hn; cbn [bind].
  - now rewrite N.eqb_refl.
  - apply NoDup_cons_iff in Hnd as [Hs _]. destruct (N.eqb_spec m (gseal g)) as [->|]; [|reflexivity]. exfalso. apply Hs. now left.
Qed.

(* the LRU bucket holds the first abstract entry; the MRU bucket the last *)
Lemma absG_lru g a r : RIg g -> rev (glist g) = a :: r ->
  exists e, entry_at (gh g) a = Some e /\ absG g = e :: entries_of (gh g) r.
Proof.
  intros H E. destruct (RI_entry g a H) as [e He]; [apply in_rev; rewrite E; now left|]. exists e. split; [exact He|].
  unfold absG, absl. rewrite E. cbn [entries_of]. now rewrite He.
Qed.
Lemma absG_mru g a r : RIg g -> glist g = a :: r ->
  exists e, entry_at (gh g) a = Some e /\ absG g = absl (gh g) r ++ [e].
Proof.
  intros H E. destruct (RI_entry g a H) as [e He]; [rewrite E; now left|]. exists e. split; [exact He|].
  unfold absG. rewrite E, absl_cons. now rewrite (absl_single _ _ _ He).
Qed.

(* ---------- removal and touch, in Layer A's terms, with the frame ---------- *)
Lemma entry_at_frame h h' b : payof h' b = payof h b -> sizeof_node h' b = sizeof_node h b -> entry_at h' b = entry_at h b.
Proof. intros. now apply entry_at_data. Qed.

Lemma remove_addr_in a b l : In b (remove_addr a l) -> In b l.
Proof. induction l as [|c l IH]; cbn [remove_addr]; [tauto|]. destruct (N.eqb c a); [now right|]. intros [<-|Hb]; [now left|right; auto]. Qed.

Lemma kids_remove_id_nodup q l : NoDup (kids l) -> NoDup (kids (remove_id q l)).
Proof.
  induction l as [|x l IH]; cbn [remove_id kids map]; [auto|]. intros Hnd. apply NoDup_cons_iff in Hnd as [Hx Hl].
  destruct (kid (ek x) =? q); [exact Hl|]. cbn [kids map]. constructor; [|now apply IH].
  intros Hin. apply Hx. clear - Hin. induction l as [|y l IH]; cbn [remove_id kids map] in *; [tauto|].
  destruct (kid (ek y) =? q); [now right|]. destruct Hin as [E|Hin]; [now left|right; auto].
Qed.

Lemma P_remove g a e g' : RIg g -> NoDup (kids (absG g)) -> In a (glist g) -> entry_at (gh g) a = Some e -> b_remove g a = Some g' ->
  RIg g' /\ gseal g' = gseal g /\ absG g' = remove_id (kid (ek e)) (absG g) /\ NoDup (kids (absG g')) /\
  glist g' = remove_addr a (glist g) /\ gh g' a = None /\
  (forall b, b <> a -> entry_at (gh g') b = entry_at (gh g) b) /\ (forall b, gh g b = None -> gh g' b = None).
Proof.
  intros H Hnd Hin He Hb. destruct (b_remove_RI g a H Hin) as (g2 & Hb2 & HRI & Hs & Hfree & Hd & _). rewrite Hb in Hb2. injection Hb2 as <-.
  pose proof (b_remove_is_remove_id g a g' e H Hin He Hnd Hb) as Habs.
  split; [exact HRI|]. split; [exact Hs|]. split; [exact Habs|]. split; [rewrite Habs; now apply kids_remove_id_nodup|].
  split; [|split; [exact Hfree|split]].
  - unfold b_remove in Hb. destruct (unhinge (gh g) a); [|discriminate]. now injection Hb as <-.
  - intros b Hne. destruct (Hd b Hne). now apply entry_at_frame.
  - intros b Hb0. destruct (N.eq_dec b a) as [->|Hne]; [exact Hfree|]. destruct (Hd b Hne) as [Hp _]. unfold payof in Hp. rewrite Hb0 in Hp. destruct (gh g' b); [discriminate|reflexivity].
Qed.

Lemma P_touch g a e g' : RIg g -> NoDup (kids (absG g)) -> In a (glist g) -> entry_at (gh g) a = Some e -> b_touch g a = Some g' ->
  RIg g' /\ gseal g' = gseal g /\ absG g' = remove_id (kid (ek e)) (absG g) ++ [e] /\ find_id (kid (ek e)) (absG g) = Some e /\
  glist g' = a :: remove_addr a (glist g) /\ (forall b, entry_at (gh g') b = entry_at (gh g) b) /\ (forall b, gh g b = None -> gh g' b = None).
Proof.
  intros H Hnd Hin He Hb. destruct (b_touch_RI g a H Hin) as (g2 & Hb2 & HRI & Hs & Hd & _). rewrite Hb in Hb2. injection Hb2 as <-.
  destruct (b_touch_is_do_touch g a g' e H Hin He Hnd Hb) as [Habs Hfind].
  split; [exact HRI|]. split; [exact Hs|]. split; [exact Habs|]. split; [exact Hfind|]. split; [|split].
  - unfold b_touch in Hb. destruct (touch_ptr (gh g) (gseal g) a); [|discriminate]. now injection Hb as <-.
  - intros b. now apply entry_at_same.
  - intros b Hb0. destruct (Hd b) as [Hp _]. unfold payof in Hp. rewrite Hb0 in Hp. destruct (gh g' b); [discriminate|reflexivity].
Qed.

(* ---------- the eviction loop ---------- *)
Lemma eject_done l c t : (c <=? t) = true -> eject l c t = Some (l, c, []).
Proof. intros H. destruct l; cbn [eject]; now rewrite H. Qed.

Lemma b_eject_refines : forall fuel g c t g' c' evd, RIg g -> NoDup (kids (absG g)) -> b_eject fuel g c t = Some (g', c', evd) ->
  eject (absG g) c t = Some (absG g', c', evd) /\ RIg g' /\ gseal g' = gseal g /\ NoDup (kids (absG g')) /\
  (exists gone, glist g = glist g' ++ gone /\ forall x, In x gone -> gh g' x = None) /\
  (forall b, In b (glist g') -> entry_at (gh g') b = entry_at (gh g) b) /\ (forall b, gh g b = None -> gh g' b = None).
Proof.
  induction fuel as [|f IH]; intros g c t g' c' evd H Hnd Hb; cbn [b_eject] in Hb; destruct (c <=? t) eqn:Ect.
  - injection Hb as <- <- <-. rewrite (eject_done _ _ _ Ect). split; [reflexivity|]. split; [exact H|]. split; [reflexivity|]. split; [exact Hnd|]. split; [exists []; split; [now rewrite app_nil_r|intros ? []]|]. split; auto.
  - discriminate.
  - injection Hb as <- <- <-. rewrite (eject_done _ _ _ Ect). split; [reflexivity|]. split; [exact H|]. split; [reflexivity|]. split; [exact Hnd|]. split; [exists []; split; [now rewrite app_nil_r|intros ? []]|]. split; auto.
  - rewrite (b_lru_spec g H) in Hb. cbn [bind] in Hb. destruct (rev (glist g)) as [|p r] eqn:Er; [discriminate|].
    destruct (absG_lru g p r H Er) as (e & He & Habs). rewrite He in Hb. cbn [bind] in Hb.
    destruct (b_remove g p) as [g1|] eqn:Erm; [|discriminate]. cbn [bind] in Hb.
    destruct (sub64 c (es e)) as [c1|] eqn:Es; [|discriminate]. cbn [bind] in Hb.
    destruct (b_eject f g1 c1 t) as [[[g2 c2] evd2]|] eqn:Erec; [|discriminate]. cbn [bind] in Hb. injection Hb as <- <- <-.
    assert (Hin : In p (glist g)) by (apply in_rev; rewrite Er; now left).
    destruct (P_remove g p e g1 H Hnd Hin He Erm) as (H1 & Hs1 & Ha1 & Hnd1 & Hl1 & Hf1 & Hfr1 & Hn1).
    destruct (IH g1 c1 t g2 c2 evd2 H1 Hnd1 Erec) as (I1 & I2 & I3 & I4 & (gone & I5 & I5') & I6 & I7).
    assert (Hgl : glist g = rev r ++ [p]) by (rewrite <- (rev_involutive (glist g)), Er; reflexivity).
    assert (Hpn : ~ In p (rev r)).
    { destruct H as (Hndl & _). apply NoDup_cons_iff in Hndl as [_ Hndl]. rewrite Hgl in Hndl. apply NoDup_remove_2 in Hndl. now rewrite app_nil_r in Hndl. }
    assert (Hl1' : glist g1 = rev r) by (rewrite Hl1, Hgl; rewrite (remove_addr_split (rev r) p [] Hpn); now rewrite app_nil_r).
    split; [|split; [exact I2|split; [congruence|split; [exact I4|split; [|split]]]]].
    + rewrite Habs. cbn [eject]. rewrite Ect, Es. cbn [bind]. rewrite Habs in Ha1. cbn [remove_id] in Ha1. rewrite N.eqb_refl in Ha1. rewrite <- Ha1, I1. reflexivity.
    + exists (gone ++ [p]). split; [rewrite Hgl, <- Hl1', I5; now rewrite app_assoc|].
      intros x Hx. apply in_app_or in Hx as [Hx|[<-|[]]]; [now apply I5'|now apply I7].
    + intros b Hb. rewrite (I6 b Hb). apply Hfr1. intros ->. apply Hpn. rewrite <- Hl1', I5. apply in_or_app. now left.
    + intros b Hb. apply I7, Hn1, Hb.
Qed.

(* ---------- reallocation: one move, then any checked sequence of moves ---------- *)
Lemma mem_addr_spec a l : mem_addr a l = true <-> In a l.
Proof.
  unfold mem_addr. rewrite existsb_exists. split.
  - intros (x & Hx & E). apply N.eqb_eq in E. now subst.
  - intros H. exists a. split; [exact H|apply N.eqb_refl].
Qed.
Lemma subst_rev a a' l : subst a a' (rev l) = rev (subst a a' l).
Proof. unfold subst. now rewrite map_rev. Qed.

Lemma P_move g a a' g' : RIg g -> In a (glist g) -> ~ In a' (gseal g :: glist g) -> b_move g a a' = Some g' ->
  RIg g' /\ gseal g' = gseal g /\ absG g' = absG g /\ length (glist g') = length (glist g).
Proof.
  destruct g as [h seal l]. unfold RIg, absG. cbn [gh gseal glist]. intros (Hnd & Hc & Hps & Hlive) Hin Hfresh Hb.
  destruct (b_moves_chain [(a, a')] h seal l Hnd Hc) as (g2 & Hm & Hl & Hs & Hc' & Hnd' & _); cbn [map fst snd].
  - constructor; [intros []|constructor].
  - intros x [<-|[]]. exact Hin.
  - constructor; [intros []|constructor].
  - intros x [<-|[]]. exact Hfresh.
  - cbn [b_moves] in Hm. rewrite Hb in Hm. cbn [bind] in Hm. injection Hm as <-. cbn [rename_pairs] in Hl.
    destruct (b_move_list _ _ _ _ Hb) as (_ & _ & Hmv). cbn [gh] in Hmv.
    assert (Hne : a' <> a) by (intros ->; apply Hfresh; now right).
    destruct (move_data h a a' (gh g') Hmv Hne) as (D1 & D2 & D3).
    assert (Hsa : seal <> a) by (intros ->; apply NoDup_cons_iff in Hnd as [Hs' _]; tauto).
    assert (Hsa' : seal <> a') by (intros ->; apply Hfresh; now left).
    split; [|split; [exact Hs|split]].
    + rewrite Hs. split; [exact Hnd'|]. split; [exact Hc'|]. split.
      * destruct (D1 seal Hsa Hsa') as [-> _]. exact Hps.
      * intros x Hx. rewrite Hl in Hx. apply in_subst in Hx as [[-> _]|[Hxa Hx]].
        -- rewrite D2. now apply Hlive.
        -- destruct (D1 x Hxa) as [-> _]; [intros ->; apply Hfresh; now right|now apply Hlive].
    + rewrite Hl. unfold absl. rewrite <- subst_rev. apply (move_entries h a a' (gh g')); auto.
      intros b Hb' ->. apply in_rev in Hb'. apply Hfresh. now right.
    + rewrite Hl. unfold subst. apply map_length.
Qed.

Lemma P_moves : forall pairs g g', RIg g -> b_moves_chk g pairs = Some g' ->
  RIg g' /\ gseal g' = gseal g /\ absG g' = absG g /\ length (glist g') = length (glist g).
Proof.
  induction pairs as [|[a a'] pairs IH]; intros g g' H Hm; cbn [b_moves_chk] in Hm.
  - injection Hm as <-. auto.
  - destruct (mem_addr a (glist g)) eqn:E1; cbn [negb] in Hm; [|discriminate].
    destruct (mem_addr a' (gseal g :: glist g)) eqn:E2; [discriminate|].
    destruct (b_move g a a') as [g1|] eqn:Em; [|discriminate]. cbn [bind] in Hm.
    apply mem_addr_spec in E1. assert (Hf : ~ In a' (gseal g :: glist g)) by (intros Hi; apply mem_addr_spec in Hi; congruence).
    destruct (P_move g a a' g1 H E1 Hf Em) as (H1 & Hs1 & Ha1 & Hl1).
    destruct (IH g1 g' H1 Hm) as (H2 & Hs2 & Ha2 & Hl2). split; [exact H2|]. split; [congruence|]. split; congruence.
Qed.

(* ---------- insert_unchecked ---------- *)
Section Params.
Variables (E VS : N).

Lemma b_insert_unchecked_refines g t1 k v sz oB g2 t2 rebuilt : RIg g ->
  b_insert_unchecked E g t1 k v sz oB = Some (g2, t2, rebuilt) ->
  t_insert E t1 (N.of_nat (length (absG g))) (ob oB) = Some (t2, rebuilt) /\
  RIg g2 /\ gseal g2 = gseal g /\ absG g2 = absG g ++ [{| ek := k; ev := v; es := sz |}].
Proof.
  intros H Hb. unfold b_insert_unchecked in Hb. rewrite (absG_length g H).
  destruct (t_insert E t1 (N.of_nat (length (glist g))) (ob oB)) as [[t2' rb]|]; [|discriminate]. cbn [bind] in Hb.
  assert (Hg1 : exists g1, (if rb then b_moves_chk g (ob_moves oB) else Some g) = Some g1 /\ RIg g1 /\ gseal g1 = gseal g /\ absG g1 = absG g).
  { destruct rb.
    - destruct (b_moves_chk g (ob_moves oB)) as [g1|] eqn:Em; [|discriminate]. destruct (P_moves _ _ _ H Em) as (A1 & A2 & A3 & _). eauto.
    - eauto. }
  destruct Hg1 as (g1 & Eg1 & H1 & Hs1 & Ha1). rewrite Eg1 in Hb. cbn [bind] in Hb.
  destruct (mem_addr (ob_addr oB) (gseal g1 :: glist g1)) eqn:Em; [discriminate|].
  destruct (b_insert_new g1 (ob_addr oB) sz (PLive k v)) as [g2'|] eqn:Ei; [|discriminate]. cbn [bind] in Hb. injection Hb as <- <- <-.
  assert (Hf : ~ In (ob_addr oB) (gseal g1 :: glist g1)) by (intros Hi; apply mem_addr_spec in Hi; congruence).
  destruct (b_insert_new_RI g1 (ob_addr oB) sz k v H1 Hf) as (g3 & Ei' & H3 & Hs3 & _). rewrite Ei in Ei'. injection Ei' as <-.
  split; [reflexivity|]. split; [exact H3|]. split; [congruence|].
  unfold absG. rewrite (b_insert_new_abs g1 (ob_addr oB) sz k v g2' H1 Hf Ei). fold (absG g1). now rewrite Ha1.
Qed.
End Params.

(* ---------- writes in place: the closure's write of the value, the write of Entry.size ---------- *)
Lemma absl_frame h h' l : (forall b, In b l -> entry_at h' b = entry_at h b) -> absl h' l = absl h l.
Proof.
  intros Hf. unfold absl. assert (G : forall M, (forall b, In b M -> entry_at h' b = entry_at h b) -> entries_of h' M = entries_of h M).
  { induction M as [|x M IH]; intros HM; [reflexivity|]. cbn [entries_of]. rewrite (HM x (or_introl eq_refl)), IH; [reflexivity|]. intros b Hb. apply HM. now right. }
  apply G. intros b Hb. apply Hf. now apply in_rev.
Qed.
Lemma glist_split g a : RIg g -> In a (glist g) -> exists l1 l2, glist g = l1 ++ a :: l2 /\ ~ In a l1 /\ ~ In a l2.
Proof.
  intros (Hnd & _) Hin. apply in_split in Hin as (l1 & l2 & El). exists l1, l2. split; [exact El|].
  rewrite El in Hnd. destruct (nodup_split_notin _ _ _ _ Hnd) as (H1 & H2 & _). auto.
Qed.
Lemma absG_at g l1 a l2 e : glist g = l1 ++ a :: l2 -> entry_at (gh g) a = Some e -> absG g = absl (gh g) l2 ++ e :: absl (gh g) l1.
Proof. intros El He. unfold absG. rewrite El, absl_app, absl_cons, (absl_single _ _ _ He). now rewrite <- app_assoc. Qed.

Lemma P_inplace g a n k' v' sz' : RIg g -> In a (glist g) -> gh g a = Some n -> (exists k v, npay n = PLive k v) ->
  let g' := {| gh := upd (gh g) a {| nprev := nprev n; nnext := nnext n; nsize := sz'; npay := PLive k' v' |}; gseal := gseal g; glist := glist g |} in
  RIg g' /\ entry_at (gh g') a = Some {| ek := k'; ev := v'; es := sz' |} /\
  (forall b, b <> a -> entry_at (gh g') b = entry_at (gh g) b) /\ (forall b, gh g b = None -> gh g' b = None).
Proof.
  intros (Hnd & Hc & Hps & Hlive) Hin Ha _ g'. subst g'. unfold RIg. cbn [gh gseal glist].
  assert (Hns : a <> gseal g) by (intros ->; apply NoDup_cons_iff in Hnd as [Hs _]; tauto).
  split; [split; [exact Hnd|split; [|split]]|split; [|split]].
  - eapply chain_frame; [| |exact Hc]; intros b _; unfold agree_next, agree_prev, nextof, prevof, upd; destruct (N.eqb_spec b a) as [->|]; rewrite ?Ha; reflexivity.
  - unfold payof, upd. destruct (N.eqb_spec (gseal g) a); [congruence|exact Hps].
  - intros b Hb. unfold payof, upd. destruct (N.eqb_spec b a) as [->|]; [cbn [npay]; eauto|]. apply (Hlive b Hb).
  - unfold entry_at. now rewrite upd_same.
  - intros b Hne. unfold entry_at. now rewrite upd_other.
  - intros b Hb. unfold upd. destruct (N.eqb_spec b a) as [->|]; [congruence|exact Hb].
Qed.

Lemma entry_at_node h a e : entry_at h a = Some e -> exists n, h a = Some n /\ npay n = PLive (ek e) (ev e) /\ nsize n = es e.
Proof. unfold entry_at. destruct (h a) as [n|]; [|discriminate]. destruct (npay n) eqn:Ep; try discriminate. intros [= <-]. eauto. Qed.

Lemma P_set_val g a e k' v' g' : RIg g -> In a (glist g) -> entry_at (gh g) a = Some e -> b_set_val g a k' v' = Some g' ->
  RIg g' /\ gseal g' = gseal g /\ glist g' = glist g /\ entry_at (gh g') a = Some {| ek := k'; ev := v'; es := es e |} /\
  (forall b, b <> a -> entry_at (gh g') b = entry_at (gh g) b) /\ (forall b, gh g b = None -> gh g' b = None).
Proof.
  intros H Hin He Hb. destruct (entry_at_node _ _ _ He) as (n & Hn & Hp & Hs).
  unfold b_set_val, set_pay in Hb. rewrite Hn in Hb. cbn [bind] in Hb. injection Hb as <-.
  destruct (P_inplace g a n k' v' (nsize n) H Hin Hn (ex_intro _ _ (ex_intro _ _ Hp))) as (A1 & A2 & A3 & A4).
  rewrite <- Hs. cbn [gseal glist]. split; [exact A1|]. split; [reflexivity|]. split; [reflexivity|]. split; [exact A2|]. split; [exact A3|exact A4].
Qed.
Lemma P_set_size g a e sz g' : RIg g -> In a (glist g) -> entry_at (gh g) a = Some e -> b_set_size g a sz = Some g' ->
  RIg g' /\ gseal g' = gseal g /\ glist g' = glist g /\ entry_at (gh g') a = Some {| ek := ek e; ev := ev e; es := sz |} /\
  (forall b, b <> a -> entry_at (gh g') b = entry_at (gh g) b) /\ (forall b, gh g b = None -> gh g' b = None).
Proof.
  intros H Hin He Hb. destruct (entry_at_node _ _ _ He) as (n & Hn & Hp & Hs).
  unfold b_set_size, set_size in Hb. rewrite Hn in Hb. cbn [bind] in Hb. injection Hb as <-.
  destruct (P_inplace g a n (ek e) (ev e) sz H Hin Hn (ex_intro _ _ (ex_intro _ _ Hp))) as (A1 & A2 & A3 & A4).
  rewrite Hp. cbn [gseal glist]. split; [exact A1|]. split; [reflexivity|]. split; [reflexivity|]. split; [exact A2|]. split; [exact A3|exact A4].
Qed.

(* ---------- the retain walk: from seal.prev along the prev links ---------- *)
Definition subs (gone : list entry) (c : N) : option N := fold_left (fun c e => c0 <- c ;; sub64 c0 (es e)) gone (Some c).
Lemma subs_cons e gone c : subs (e :: gone) c = c1 <- sub64 c (es e) ;; subs gone c1.
Proof.
  unfold subs. cbn [fold_left bind]. destruct (sub64 c (es e)) as [c1|]; [reflexivity|]. cbn [bind].
  induction gone as [|x gone IH]; [reflexivity|]. cbn [fold_left bind]. exact IH.
Qed.

Lemma prev_in_walk g DA t TA : RIg g -> rev (glist g) = DA ++ t :: TA ->
  prevof (gh g) t = Some (match TA with [] => gseal g | u :: _ => u end).
Proof.
  intros (Hnd & Hc & _) Er. destruct TA as [|u TA].
  - assert (El : glist g = t :: rev DA) by (rewrite <- (rev_involutive (glist g)), Er, rev_app_distr; reflexivity).
    rewrite El in Hc. cbn [app] in Hc. apply chain_cons2 in Hc as (_ & Hp & _). exact Hp.
  - pose proof (chain_linked (gh g) (gseal g) (glist g) Hnd Hc) as Hl. rewrite Er in Hl. now destruct (Hl DA t u TA eq_refl).
Qed.

Lemma b_retain_refines keep : forall TA fuel g DA c g' c' gone vis,
  RIg g -> NoDup (kids (absG g)) -> rev (glist g) = DA ++ TA -> (length TA <= fuel)%nat ->
  b_retain fuel g keep (match TA with [] => gseal g | t :: _ => t end) c = Some (g', c', gone, vis) ->
  RIg g' /\ gseal g' = gseal g /\
  absG g' = entries_of (gh g) DA ++ filter (fun e => keep (ek e) (ev e)) (entries_of (gh g) TA) /\
  gone = filter (fun e => negb (keep (ek e) (ev e))) (entries_of (gh g) TA) /\
  vis = map kv (entries_of (gh g) TA) /\ subs gone c = Some c'.
Proof.
  induction TA as [|t TA IH]; intros fuel g DA c g' c' gone vis H Hnd Er Hfuel Hb.
  - destruct fuel; cbn [b_retain] in Hb; rewrite N.eqb_refl in Hb; injection Hb as <- <- <- <-;
      (split; [exact H|]; split; [reflexivity|]; cbn [entries_of filter map]; rewrite app_nil_r in *; unfold absG, absl; rewrite Er; auto).
  - assert (Hin : In t (glist g)) by (apply in_rev; rewrite Er; apply in_or_app; right; now left).
    assert (Hts : t <> gseal g) by (intros ->; destruct H as (Hn & _); apply NoDup_cons_iff in Hn as [Hs _]; tauto).
    destruct fuel as [|f]; [cbn in Hfuel; lia|]. cbn [b_retain] in Hb. destruct (N.eqb_spec t (gseal g)) as [|_]; [tauto|].
    destruct (RI_entry g t H Hin) as [e He]. rewrite He in Hb. cbn [bind] in Hb.
    rewrite (prev_in_walk g DA t TA H Er) in Hb. cbn [bind] in Hb.
    cbn [entries_of]. rewrite He. cbn [filter map].
    destruct (keep (ek e) (ev e)) eqn:Ek; cbn [negb].
    + destruct (b_retain f g keep _ c) as [[[[g2 c2] gone2] vis2]|] eqn:Erec; [|discriminate]. cbn [bind] in Hb. injection Hb as <- <- <- <-.
      assert (Er' : rev (glist g) = (DA ++ [t]) ++ TA) by (rewrite <- app_assoc; exact Er).
      destruct (IH f g (DA ++ [t]) c g2 c2 gone2 vis2 H Hnd Er') as (I1 & I2 & I3 & I4 & I5 & I6); [cbn in Hfuel; lia|exact Erec|].
      split; [exact I1|]. split; [exact I2|]. split; [|split; [exact I4|split; [now rewrite I5|exact I6]]].
      rewrite I3, entries_of_app. cbn [entries_of]. rewrite He. now rewrite <- app_assoc.
    + destruct (b_remove g t) as [g1|] eqn:Erm; [|discriminate]. cbn [bind] in Hb.
      destruct (sub64 c (es e)) as [c1|] eqn:Es; [|discriminate]. cbn [bind] in Hb.
      destruct (P_remove g t e g1 H Hnd Hin He Erm) as (H1 & Hs1 & Ha1 & Hnd1 & Hl1 & _ & Hfr1 & _).
      rewrite <- Hs1 in Hb.
      assert (Hgl : glist g = rev TA ++ t :: rev DA).
      { rewrite <- (rev_involutive (glist g)), Er, rev_app_distr. cbn [rev]. now rewrite <- app_assoc. }
      assert (Hndl : NoDup (glist g)) by (destruct H as (Hn & _); now apply NoDup_cons_iff in Hn as [_ ?]).
      assert (Ht1 : ~ In t (rev TA) /\ ~ In t (rev DA)).
      { rewrite Hgl in Hndl. apply NoDup_remove_2 in Hndl. split; intros Hi; apply Hndl; apply in_or_app; [now left|now right]. }
      destruct Ht1 as [HtT HtD].
      assert (Er1 : rev (glist g1) = DA ++ TA).
      { rewrite Hl1, Hgl, (remove_addr_split (rev TA) t (rev DA) HtT), rev_app_distr, !rev_involutive. reflexivity. }
      destruct (b_retain f g1 keep _ c1) as [[[[g2 c2] gone2] vis2]|] eqn:Erec; [|discriminate]. cbn [bind] in Hb. injection Hb as <- <- <- <-.
      assert (Htail : match TA with [] => gseal g1 | u :: _ => u end = match TA with [] => gseal g1 | u :: _ => u end) by reflexivity.
      destruct (IH f g1 DA c1 g2 c2 gone2 vis2 H1 Hnd1 Er1) as (I1 & I2 & I3 & I4 & I5 & I6); [cbn in Hfuel; lia|exact Erec|].
      assert (FD : entries_of (gh g1) DA = entries_of (gh g) DA).
      { clear - Hfr1 HtD. induction DA as [|x DA IHD]; [reflexivity|]. cbn [entries_of]. rewrite Hfr1, IHD; [reflexivity| |].
        - intros Hi. apply HtD. cbn [rev]. apply in_or_app. now left.
        - intros ->. apply HtD. cbn [rev]. apply in_or_app. right. now left. }
      assert (FT : entries_of (gh g1) TA = entries_of (gh g) TA).
      { clear - Hfr1 HtT. induction TA as [|x TA IHT]; [reflexivity|]. cbn [entries_of]. rewrite Hfr1, IHT; [reflexivity| |].
        - intros Hi. apply HtT. cbn [rev]. apply in_or_app. now left.
        - intros ->. apply HtT. cbn [rev]. apply in_or_app. right. now left. }
      rewrite FD, FT in *. split; [exact I1|]. split; [congruence|]. split; [exact I3|]. split; [now rewrite I4|]. split; [now rewrite I5|].
      rewrite subs_cons, Es. cbn [bind]. exact I6.
Qed.
