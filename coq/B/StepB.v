(* Layer B, the public operations: every method of LruCache that Layer A's `stepA` models, written once more as
   src/lib.rs writes it — a composition of the pointer primitives of Heap.v / OpsB.v (unhinge, set_head, touch_ptr,
   move, the writes of `size`, of the value and of the seal's links) on the heap of nodes, with the victim of every
   eviction read from `seal.prev`, the retain walk following `prev` links and the iterators running as cursors.
   What hashbrown decides (which bucket a new entry lands in, where a rebuild moves each bucket) comes from the
   oracle and is CHECKED here (a bucket that is already in use, or a move of a bucket that is not in the list, is a
   fault), so the refinement theorem (B/RefineB.v) needs no assumption about the oracle.
   The table is the set of listed buckets: a lookup by key scans them (hashing only narrows that scan); the
   capacity accounting is Layer T's, shared with Layer A.
   Definitions only; extracted and run on the hook's pointer graph for every observed step. *)
Require Export LruV.A.ModelA LruV.B.OpsB LruV.B.RepB LruV.B.TakingB.

Record bstate := { bg : gstate; bcur : N; bmax : N; btb : tbl }.
Record oracleB := { ob : oracle;                       (* Layer A's oracle: tombstones, reuse, allocator *)
                    ob_addr : addr;                    (* the bucket try_insert_no_grow / insert picked for the new entry *)
                    ob_moves : list (addr * addr) }.   (* move_to_table: old bucket -> new bucket, in the old table's iteration order *)

Definition set_b (b : bstate) (g : gstate) (c : N) (t : tbl) : bstate := {| bg := g; bcur := c; bmax := bmax b; btb := t |}.

(* RawTable::find / get / get_mut / remove_entry with equivalent_key: the listed bucket whose key has this id *)
Fixpoint find_in (h : heap) (q : N) (l : list addr) : option (addr * entry) :=
  match l with
  | [] => None
  | a :: r => match entry_at h a with
              | Some e => if kid (ek e) =? q then Some (a, e) else find_in h q r
              | None => find_in h q r
              end
  end.
Definition b_find (g : gstate) (q : N) : option (addr * entry) := find_in (gh g) q (rev (glist g)).

(* lru_ptr / mru_ptr: seal.prev / seal.next, None when it is the seal itself *)
Definition b_lru (g : gstate) : option (option addr) :=
  p <- prevof (gh g) (gseal g) ;; Some (if p =? gseal g then None else Some p).
Definition b_mru (g : gstate) : option (option addr) :=
  x <- nextof (gh g) (gseal g) ;; Some (if x =? gseal g then None else Some x).

(* eject_to_target: while current_size > target { remove_lru() }. remove_lru on an empty list returns None and the
   loop spins for ever: a fault here. fuel = number of listed buckets *)
Fixpoint b_eject (fuel : nat) (g : gstate) (c target : N) : option (gstate * N * list entry) :=
  if c <=? target then Some (g, c, []) else
  match fuel with
  | O => None
  | S f =>
    lp <- b_lru g ;;
    match lp with
    | None => None
    | Some p =>
      e <- entry_at (gh g) p ;;
      g' <- b_remove g p ;;
      c' <- sub64 c (es e) ;;
      x <- b_eject f g' c' target ;;
      let '(g'', c'', evd) := x in Some (g'', c'', e :: evd)
    end
  end.

(* move_to_table's loop with the bucket addresses the new table chose; every source must be listed and every
   target unused at the time of the move *)
Definition mem_addr (a : addr) (l : list addr) : bool := existsb (N.eqb a) l.
Fixpoint b_moves_chk (g : gstate) (pairs : list (addr * addr)) : option gstate :=
  match pairs with
  | [] => Some g
  | (a, a') :: r =>
    if negb (mem_addr a (glist g)) then None else
    if mem_addr a' (gseal g :: glist g) then None else
    g' <- b_move g a a' ;; b_moves_chk g' r
  end.

Section Params.
Variables (E VS : N).

(* insert_unchecked: try_insert_no_grow, on failure reallocate(max(2*capacity,1)) and retry; then set_head *)
Definition b_insert_unchecked (g : gstate) (t1 : tbl) (k : key) (v : val) (sz : N) (oB : oracleB) : option (gstate * tbl * bool) :=
  ti <- t_insert E t1 (N.of_nat (length (glist g))) (ob oB) ;;
  let '(t2, rebuilt) := ti in
  g1 <- (if rebuilt : bool then b_moves_chk g (ob_moves oB) else Some g) ;;
  if mem_addr (ob_addr oB) (gseal g1 :: glist g1) then None else
  g2 <- b_insert_new g1 (ob_addr oB) sz (PLive k v) ;;
  Some (g2, t2, rebuilt).

Definition bB_insert (b : bstate) (k : key) (v : val) (oB : oracleB) : option (bstate * out * events) :=
  sz <- esz E k v ;;
  if bmax b <? sz then Some (b, OInsTooLarge k v sz (bmax b), ev0) else
  let old := b_find (bg b) (kid k) in
  g0 <- match old with Some (a, _) => b_remove (bg b) a | None => Some (bg b) end ;;
  c0 <- match old with Some (_, e) => sub64 (bcur b) (es e) | None => Some (bcur b) end ;;
  tgt <- sub64 (bmax b) sz ;;
  x <- b_eject (length (glist g0)) g0 c0 tgt ;;
  let '(g1, c1, evd) := x in
  let t1 := t_erase (btb b) (o_tomb (ob oB)) in
  y <- b_insert_unchecked g1 t1 k v sz oB ;;
  let '(g2, t2, rebuilt) := y in
  c2 <- add64 c1 sz ;;
  Some (set_b b g2 c2 t2,
        OInsOk (option_map (fun ae => ev (snd ae)) old),
        {| e_evicted := evd;
           e_dropped := (match old with Some (_, e) => [ktok (ek e)] | None => [] end) ++ all_toks evd;
           e_hashes := 1 + N.of_nat (length evd) + (if rebuilt : bool then N.of_nat (length (glist g1)) else 0);
           e_rebuilt := rebuilt; e_visits := [] |}).

Definition bB_try_insert (b : bstate) (k : key) (v : val) (oB : oracleB) : option (bstate * out * events) :=
  sz <- esz E k v ;;
  if bmax b <? sz then Some (b, OTryTooLarge k v sz (bmax b), ev0) else
  free <- sub64 (bmax b) (bcur b) ;;
  if free <? sz then Some (b, OTryWouldEject k v sz free, ev0) else
  match b_find (bg b) (kid k) with
  | Some _ => Some (b, OTryOccupied k v, hashed 1)
  | None =>
    let n := N.of_nat (length (glist (bg b))) in
    y <- b_insert_unchecked (bg b) (btb b) k v sz oB ;;
    let '(g2, t2, rebuilt) := y in
    c2 <- add64 (bcur b) sz ;;
    Some (set_b b g2 c2 t2, OTryOk,
          {| e_evicted := []; e_dropped := []; e_hashes := 1 + (if rebuilt : bool then n else 0);
             e_rebuilt := rebuilt; e_visits := [] |})
  end.

(* get / get_entry / touch: get_mut_from_table, then touch_ptr *)
Definition bB_touch (b : bstate) (q : N) : option (bstate * option entry) :=
  match b_find (bg b) q with
  | Some (a, e) => g' <- b_touch (bg b) a ;; Some (set_b b g' (bcur b) (btb b), Some e)
  | None => Some (b, None)
  end.

(* remove_ptr / remove_entry: remove_from_table, unhinge, current_size -= size *)
Definition bB_remove_at (b : bstate) (a : addr) (e : entry) (oB : oracleB) : option bstate :=
  g' <- b_remove (bg b) a ;;
  c <- sub64 (bcur b) (es e) ;;
  Some (set_b b g' c (t_erase (btb b) (o_tomb (ob oB)))).

(* the in-place write of the value by the closure, and of Entry.size *)
Definition b_set_val (g : gstate) (a : addr) (k : key) (v : val) : option gstate :=
  h' <- set_pay (gh g) a (PLive k v) ;; Some {| gh := h'; gseal := gseal g; glist := glist g |}.

Definition bB_mutate (b : bstate) (q newtag newheap : N) (oB : oracleB) : option (bstate * out * events) :=
  match b_find (bg b) q with
  | None => Some (b, OMutNone, hashed 1)
  | Some (a, e) =>
    let v' := {| vtok := vtok (ev e); vtag := newtag; vheap := newheap |} in
    oldv <- msz VS (ev e) ;; newv <- msz VS v' ;;
    gm <- b_set_val (bg b) a (ek e) v' ;;                                  (* op(entry.value_mut()) *)
    if oldv <? newv then
      diff <- sub64 newv oldv ;;
      nes <- add64 (es e) diff ;;
      if bmax b <? nes then
        g' <- b_remove gm a ;;
        c <- sub64 (bcur b) (es e) ;;
        Some (set_b b g' c (t_erase (btb b) (o_tomb (ob oB))), OMutTooLarge (ek e) v' (es e) nes (bmax b), hashed 2)
      else
        gt <- b_touch gm a ;;
        tgt <- sub64 (bmax b) diff ;;
        x <- b_eject (length (glist gt)) gt (bcur b) tgt ;;
        let '(g1, c1, evd) := x in
        g2 <- b_set_size g1 a nes ;;                                       (* faults if the entry itself was evicted *)
        c2 <- add64 c1 diff ;;
        Some (set_b b g2 c2 (t_erase (btb b) (o_tomb (ob oB))), OMutOk,
              {| e_evicted := evd; e_dropped := all_toks evd; e_hashes := 1 + N.of_nat (length evd); e_rebuilt := false; e_visits := [] |})
    else
      diff <- sub64 oldv newv ;;
      nes <- sub64 (es e) diff ;;
      g1 <- b_set_size gm a nes ;;
      c <- sub64 (bcur b) diff ;;
      g2 <- b_touch g1 a ;;
      Some (set_b b g2 c (btb b), OMutOk, hashed 1)
  end.

(* retain: tail = seal.prev; while tail != seal { if !pred { remove_entry(key) }; tail = entry.prev }.
   The `prev` link of the visited entry is read before the removal here; the code reads it afterwards through a
   reference into the erased bucket, whose bytes hashbrown leaves in place (erase only rewrites control bytes) and
   which unhinge does not write to, so the value read is the same. *)
Fixpoint b_retain (fuel : nat) (g : gstate) (keep : key -> val -> bool) (tail : addr) (c : N)
    : option (gstate * N * list entry * list (key * val)) :=
  if tail =? gseal g then Some (g, c, [], []) else
  match fuel with
  | O => None
  | S f =>
    e <- entry_at (gh g) tail ;;
    p <- prevof (gh g) tail ;;
    if keep (ek e) (ev e) then
      x <- b_retain f g keep p c ;;
      let '(g', c', gone, vis) := x in Some (g', c', gone, kv e :: vis)
    else
      g1 <- b_remove g tail ;;
      c1 <- sub64 c (es e) ;;
      x <- b_retain f g1 keep p c1 ;;
      let '(g', c', gone, vis) := x in Some (g', c', e :: gone, kv e :: vis)
  end.

(* try_reallocate / move_to_table *)
Definition bB_realloc (b : bstate) (n : N) (oB : oracleB) : option (bstate * alloc_res) :=
  match t_alloc E n (o_alloc (ob oB)) with
  | AOk t' => g' <- b_moves_chk (bg b) (ob_moves oB) ;; Some (set_b b g' (bcur b) t', AOk t')
  | r => Some (b, r)
  end.
Definition b_rebuilt_ev (b : bstate) : events :=
  {| e_evicted := []; e_dropped := []; e_hashes := N.of_nat (length (glist (bg b))); e_rebuilt := true; e_visits := [] |}.

Definition bB_shrink (b : bstate) (n : N) (oB : oracleB) : option (bstate * out * events) :=
  let want := N.max (N.of_nat (length (glist (bg b)))) n in
  if want <? capacity (btb b) then
    match t_alloc E want (o_alloc (ob oB)) with
    | AOk t' => if capacity t' <? capacity (btb b) then
                  g' <- b_moves_chk (bg b) (ob_moves oB) ;; Some (set_b b g' (bcur b) t', OUnit, b_rebuilt_ev b)
                else Some (b, OUnit, ev0)
    | _ => Some (b, OPanic, ev0)
    end
  else Some (b, OUnit, ev0).

(* the entries of a list of buckets, for the results of the iterators *)
Definition kv_of (h : heap) (o : option addr) : option (option (key * val)) :=
  match o with None => Some None | Some a => e <- entry_at h a ;; Some (Some (kv e)) end.
Fixpoint kvs_of (h : heap) (l : list (option addr)) : option (list (option (key * val))) :=
  match l with [] => Some [] | o :: r => x <- kv_of h o ;; y <- kvs_of h r ;; Some (x :: y) end.
Fixpoint live_entries (h : heap) (l : list addr) : list entry :=
  match l with
  | [] => []
  | a :: r => match h a with
              | Some n => match npay n with PLive k v => {| ek := k; ev := v; es := nsize n |} :: live_entries h r | _ => live_entries h r end
              | None => live_entries h r
              end
  end.

(* the public operations on the repaired code (variant `fixed` of Layer A) *)
Definition stepB (b : bstate) (p : op) (oB : oracleB) : option (bstate * out * events) :=
  let g := bg b in
  let nlen := N.of_nat (length (glist g)) in
  match p with
  | Insert k v => bB_insert b k v oB
  | TryInsert k v => bB_try_insert b k v oB
  | Get q => x <- bB_touch b q ;; let '(b', r) := x in Some (b', OVal (option_map ev r), hashed 1)
  | GetEntry q => x <- bB_touch b q ;; let '(b', r) := x in Some (b', OKV (option_map kv r), hashed 1)
  | Touch q => x <- bB_touch b q ;; let '(b', _) := x in Some (b', OUnit, hashed 1)
  | Peek q => Some (b, OVal (option_map (fun ae => ev (snd ae)) (b_find g q)), hashed 1)
  | PeekEntry q => Some (b, OKV (option_map (fun ae => kv (snd ae)) (b_find g q)), hashed 1)
  | Contains q => Some (b, OBool (match b_find g q with Some _ => true | None => false end), hashed 1)
  | GetLru =>
      lp <- b_lru g ;;
      match lp with
      | None => Some (b, OKV None, ev0)
      | Some a => e <- entry_at (gh g) a ;; g' <- b_touch g a ;; Some (set_b b g' (bcur b) (btb b), OKV (Some (kv e)), ev0)
      end
  | PeekLru =>
      lp <- b_lru g ;;
      match lp with None => Some (b, OKV None, ev0) | Some a => e <- entry_at (gh g) a ;; Some (b, OKV (Some (kv e)), ev0) end
  | PeekMru =>
      mp <- b_mru g ;;
      match mp with None => Some (b, OKV None, ev0) | Some a => e <- entry_at (gh g) a ;; Some (b, OKV (Some (kv e)), ev0) end
  | Remove q =>
      match b_find g q with
      | None => Some (b, OVal None, hashed 1)
      | Some (a, e) => b' <- bB_remove_at b a e oB ;;
                       Some (b', OVal (Some (ev e)),
                             {| e_evicted := []; e_dropped := [ktok (ek e)]; e_hashes := 1; e_rebuilt := false; e_visits := [] |})
      end
  | RemoveEntry q =>
      match b_find g q with
      | None => Some (b, OKV None, hashed 1)
      | Some (a, e) => b' <- bB_remove_at b a e oB ;; Some (b', OKV (Some (kv e)), hashed 1)
      end
  | RemoveLru =>
      lp <- b_lru g ;;
      match lp with
      | None => Some (b, OKV None, ev0)
      | Some a => e <- entry_at (gh g) a ;; b' <- bB_remove_at b a e oB ;; Some (b', OKV (Some (kv e)), hashed 1)
      end
  | RemoveMru =>
      mp <- b_mru g ;;
      match mp with
      | None => Some (b, OKV None, ev0)
      | Some a => e <- entry_at (gh g) a ;; b' <- bB_remove_at b a e oB ;; Some (b', OKV (Some (kv e)), hashed 1)
      end
  | Mutate q nt nh => bB_mutate b q nt nh oB
  | SetMaxSize n =>
      x <- b_eject (length (glist g)) g (bcur b) n ;;
      let '(g1, c1, evd) := x in
      Some ({| bg := g1; bcur := c1; bmax := n; btb := t_erase (btb b) (o_tomb (ob oB)) |}, OUnit,
            {| e_evicted := evd; e_dropped := all_toks evd; e_hashes := N.of_nat (length evd); e_rebuilt := false; e_visits := [] |})
  | Retain keep =>
      t0 <- prevof (gh g) (gseal g) ;;
      x <- b_retain (length (glist g)) g keep t0 (bcur b) ;;
      let '(g1, c1, gone, vis) := x in
      Some (set_b b g1 c1 (t_erase (btb b) (o_tomb (ob oB))), OUnit,
            {| e_evicted := []; e_dropped := all_toks gone; e_hashes := N.of_nat (length gone); e_rebuilt := false; e_visits := vis |})
  | Clear =>
      let dropped := all_toks (live_entries (gh g) (rev (glist g))) in
      g' <- b_reset g ;;
      Some (set_b b g' 0 (t_clear (btb b)), OUnit,
            {| e_evicted := []; e_dropped := dropped; e_hashes := 0; e_rebuilt := false; e_visits := [] |})
  | IterOp pat =>
      cu <- cursor_new (gh g) (gseal g) (match glist g with [] => true | _ => false end) ;;
      ys <- it_run (gh g) cu pat ;;
      items <- kvs_of (gh g) ys ;;
      Some (b, OItems items, ev0)
  | DebugFmt =>
      cu <- cursor_new (gh g) (gseal g) (match glist g with [] => true | _ => false end) ;;
      ys <- it_run (gh g) cu (repeat true (length (glist g))) ;;
      items <- kvs_of (gh g) ys ;;
      Some (b, OItems items, ev0)
  | DrainOp pat f =>
      (* TakingIterator::new reads the seal's links; Drain::new then resets them and forgets the buckets
         (clear_no_drop); the iterator runs on the detached nodes; its Drop takes what is left *)
      cu <- cursor_new (gh g) (gseal g) (match glist g with [] => true | _ => false end) ;;
      h1 <- set_next (gh g) (gseal g) (gseal g) ;;
      h2 <- set_prev h1 (gseal g) (gseal g) ;;
      x <- tk_run h2 cu pat ;;
      let '(h3, items) := x in
      let rest := live_entries h3 (rev (glist g)) in
      Some (set_b b {| gh := fold_left free (glist g) h3; gseal := gseal g; glist := [] |} 0 (t_clear (btb b)), OItems items,
            {| e_evicted := []; e_dropped := (match f with FDrop => all_toks rest | FForget => [] end);
               e_hashes := 0; e_rebuilt := false; e_visits := [] |})
  | Reserve n =>
      match add64 nlen n with
      | None => Some (b, OPanic, ev0)
      | Some want => if capacity (btb b) <? want then
                       x <- bB_realloc b want oB ;;
                       match x with
                       | (b', AOk _) => Some (b', OUnit, b_rebuilt_ev b)
                       | (b', _) => Some (b', OPanic, ev0)
                       end
                     else Some (b, OUnit, ev0)
      end
  | TryReserve n =>
      match add64 nlen n with
      | None => Some (b, OResOverflow, ev0)
      | Some want => if capacity (btb b) <? want then
                       x <- bB_realloc b want oB ;;
                       match x with
                       | (b', AOk _) => Some (b', OResOk, b_rebuilt_ev b)
                       | (b', AOverflow) => Some (b', OResOverflow, ev0)
                       | (b', ARefused) => Some (b', OResRefused, ev0)
                       end
                     else Some (b, OResOk, ev0)
      end
  | ShrinkTo n => bB_shrink b n oB
  | ShrinkToFit => bB_shrink b 0 oB
  | Len => Some (b, ONum nlen, ev0)
  | IsEmpty => Some (b, OBool (match glist g with [] => true | _ => false end), ev0)
  | CurrentSize => Some (b, ONum (bcur b), ev0)
  | MaxSize => Some (b, ONum (bmax b), ev0)
  | Capacity => Some (b, ONum (capacity (btb b)), ev0)
  end.

(* the abstraction: Layer A's cache *)
Definition absB (b : bstate) : cache :=
  {| ents := absl (gh (bg b)) (glist (bg b)); cur := bcur b; maxs := bmax b; tb := btb b |}.
End Params.
