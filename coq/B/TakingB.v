(* Layer B: the TakingIterator of src/iter.rs (drain / into_iter / into_keys / into_values). It moves each
   entry out of its bucket with ptr::read while the bucket stays where it is. Modelled with payload
   ownership: reading a bucket whose payload is not PLive (already moved out, or the seal) is a FAULT.
   Theorem: for every pattern of next()/next_back() calls the run never faults, yields exactly take_ends of
   the list, moves out exactly the yielded buckets and leaves all others live — so no key or value is read
   after being moved out, or moved out twice.  C06, C12, C17 at pointer level. *)
Require Export LruV.B.ReallocB LruV.A.TakeEnds.

(* EntryPtr::read + Entry::into_key_value: the pair is moved out, the bucket's bytes (links, size) stay *)
Definition take_at (h : heap) (a : addr) : option (heap * (key * val)) :=
  match h a with
  | Some n => match npay n with
              | PLive k v => Some (upd h a {| nprev := nprev n; nnext := nnext n; nsize := nsize n; npay := PMoved k v |}, (k, v))
              | _ => None
              end
  | None => None
  end.

Definition tk_next (h : heap) (s : cursor) : option (heap * option (key * val) * cursor) :=
  match c_next s with
  | None => Some (h, None, s)
  | Some a =>
      r <- take_at h a ;;                               (* let entry = self.next.read() *)
      if N.eqb a (c_back s) then Some (fst r, Some (snd r), {| c_next := None; c_back := c_back s |})
      else p <- prevof h a ;; Some (fst r, Some (snd r), {| c_next := Some p; c_back := c_back s |})    (* self.next = entry.prev *)
  end.
Definition tk_next_back (h : heap) (s : cursor) : option (heap * option (key * val) * cursor) :=
  match c_next s with
  | None => Some (h, None, s)
  | Some a =>
      r <- take_at h (c_back s) ;;
      if N.eqb (c_back s) a then Some (fst r, Some (snd r), {| c_next := None; c_back := c_back s |})
      else q <- nextof h (c_back s) ;; Some (fst r, Some (snd r), {| c_next := Some a; c_back := q |})
  end.
Fixpoint tk_run (h : heap) (s : cursor) (pat : list bool) : option (heap * list (option (key * val))) :=
  match pat with
  | [] => Some (h, [])
  | f :: r => st <- (if f then tk_next h s else tk_next_back h s) ;;
              let '(h1, o, s1) := st in
              rest <- tk_run h1 s1 r ;; Some (fst rest, o :: snd rest)
  end.

Definition live (h : heap) (a : addr) : Prop := exists k v, payof h a = Some (PLive k v).
Definition kv_at (h : heap) (a : addr) : option (key * val) :=
  match payof h a with Some (PLive k v) => Some (k, v) | _ => None end.

Lemma take_at_links h a h' r b : take_at h a = Some (h', r) -> nextof h' b = nextof h b /\ prevof h' b = prevof h b.
Proof.
  unfold take_at. destruct (h a) as [n|] eqn:Ea; [|discriminate]. destruct (npay n); try discriminate. intros [= <- _].
  unfold nextof, prevof, upd. destruct (N.eqb_spec b a) as [->|]; [rewrite Ea; auto|auto].
Qed.
Lemma take_at_other h a h' r b : take_at h a = Some (h', r) -> b <> a -> payof h' b = payof h b.
Proof.
  unfold take_at. destruct (h a) as [n|] eqn:Ea; [|discriminate]. destruct (npay n); try discriminate. intros [= <- _] Hne.
  unfold payof, upd. destruct (N.eqb_spec b a); [congruence|reflexivity].
Qed.
Lemma take_at_live h a : live h a -> exists h' k v, take_at h a = Some (h', (k, v)) /\ kv_at h a = Some (k, v) /\ payof h' a = Some (PMoved k v).
Proof.
  intros (k & v & Hp). unfold take_at, kv_at, payof in *. destruct (h a) as [n|]; [|discriminate]. injection Hp as Hp. rewrite Hp.
  eexists _, k, v. repeat split. unfold upd. now rewrite N.eqb_refl.
Qed.
Lemma linked_take h a h' r M : take_at h a = Some (h', r) -> linked h M -> linked h' M.
Proof. intros Ht Hl L1 x y L2 E. destruct (Hl L1 x y L2 E) as [H1 H2]. destruct (take_at_links h a h' r x Ht) as [_ ->], (take_at_links h a h' r y Ht) as [-> _]. auto. Qed.

(* what a run leaves behind *)
Definition moved_exactly (h h' : heap) (taken : list addr) : Prop :=
  (forall b, In b taken -> exists k v, kv_at h b = Some (k, v) /\ payof h' b = Some (PMoved k v)) /\
  (forall b, ~ In b taken -> payof h' b = payof h b) /\
  (forall b, nextof h' b = nextof h b /\ prevof h' b = prevof h b).

Lemma moved_nil h : moved_exactly h h [].
Proof. repeat split; auto. intros b []. Qed.
Lemma kv_at_other h a h' r b : take_at h a = Some (h', r) -> b <> a -> kv_at h' b = kv_at h b.
Proof. intros Ht Hne. unfold kv_at. now rewrite (take_at_other h a h' r b Ht Hne). Qed.

Lemma moved_step h a h1 r h' taken : take_at h a = Some (h1, r) -> live h a -> ~ In a taken -> moved_exactly h1 h' taken -> moved_exactly h h' (a :: taken).
Proof.
  intros Ht Hlive Hnin (M1 & M2 & M3). destruct (take_at_live h a Hlive) as (h1' & k & v & Ht' & Hkv & Hmv). rewrite Ht in Ht'. injection Ht' as <- ->.
  repeat split.
  - intros b [<-|Hb]; [exists k, v; split; [exact Hkv|]; rewrite (M2 a Hnin); exact Hmv|].
    destruct (M1 b Hb) as (k' & v' & Hk' & Hp'). exists k', v'. split; [|exact Hp'].
    rewrite <- Hk'. symmetry. apply (kv_at_other h a h1 (k, v) b Ht). intros ->. tauto.
  - intros b Hb. rewrite M2 by (intros Hin; apply Hb; now right). apply (take_at_other h a h1 (k, v) b Ht). intros ->. apply Hb. now left.
  - destruct (M3 b) as [-> _]. now destruct (take_at_links h a h1 (k, v) b Ht).
  - destruct (M3 b) as [_ ->]. now destruct (take_at_links h a h1 (k, v) b Ht).
Qed.

Theorem tk_spec : forall pat M h stale, NoDup M -> linked h M -> (forall a, In a M -> live h a) ->
  exists h', tk_run h (start M stale) pat = Some (h', map (fun o => match o with Some a => kv_at h a | None => None end) (fst (take_ends M pat))) /\
             moved_exactly h h' (somes (fst (take_ends M pat))) /\
             (forall a, In a (snd (take_ends M pat)) -> live h' a) /\
             NoDup (somes (fst (take_ends M pat))) /\ (forall a, In a (somes (fst (take_ends M pat))) -> In a M).
Proof.
  induction pat as [|f pat IH]; intros M h stale Hnd Hl Hlive.
  - exists h. cbn. repeat split; auto using moved_nil; try constructor; intros ? [].
  - destruct M as [|a M].
    + (* exhausted *)
      destruct (IH [] h stale Hnd Hl Hlive) as (h' & Hr & Hm & Hrest & Hnd' & Hin). exists h'. cbn [start] in Hr.
      assert (Hte : take_ends (@nil addr) (f :: pat) = (None :: fst (take_ends [] pat), snd (take_ends [] pat))).
      { destruct f; cbn [take_ends]; destruct (take_ends (@nil addr) pat); reflexivity. }
      rewrite Hte. cbn [fst snd map somes flat_map app]. fold (somes (fst (take_ends (@nil addr) pat))).
      split; [destruct f; cbn [tk_run start tk_next tk_next_back c_next bind]; rewrite Hr; reflexivity|].
      split; [exact Hm|split; [exact Hrest|split; [exact Hnd'|exact Hin]]].
    + destruct f.
      * (* front: takes a *)
        cbn [tk_run start tk_next c_next c_back take_ends].
        destruct (take_at_live h a (Hlive a (or_introl eq_refl))) as (h1 & k & v & Ht & Hkv & Hmv). rewrite Ht. cbn [bind fst snd].
        assert (HndM : NoDup M) by now apply NoDup_cons_iff in Hnd as [_ ?].
        assert (Hna : ~ In a M) by now apply NoDup_cons_iff in Hnd as [? _].
        assert (Hl1 : linked h1 M) by (eapply linked_take; [exact Ht|eapply linked_tail; eauto]).
        assert (Hlive1 : forall b, In b M -> live h1 b).
        { intros b Hb. destruct (Hlive b (or_intror Hb)) as (k' & v' & Hp). exists k', v'. rewrite (take_at_other h a h1 (k, v) b Ht); [exact Hp|]. intros ->. tauto. }
        destruct M as [|b M'].
        -- cbn [last]. rewrite N.eqb_refl. cbn [bind fst snd]. destruct (IH [] h1 a (NoDup_nil _) Hl1 Hlive1) as (h' & Hr & Hm & Hrest & Hnd' & Hin).
           cbn [start] in Hr. rewrite Hr. cbn [bind fst snd]. exists h'. destruct (take_ends [] pat) as [o m] eqn:Et. cbn [fst snd map] in *.
           rewrite take_ends_nil in Et. injection Et as <- <-.
           pose proof (@somes_none addr (length pat)) as Hs.
           cbn [somes flat_map app]. fold (somes (repeat (@None addr) (length pat))). rewrite Hs in *. rewrite Hkv.
           split; [f_equal; f_equal; clear; induction (length pat); cbn; congruence|].
           split; [eapply (moved_step h a h1 (k, v) h' []); [exact Ht|apply Hlive; now left|intros []|exact Hm]|].
           split; [intros ? []|]. split; [constructor; [intros []|constructor]|]. intros ? [<-|[]]. now left.
        -- assert (Hne : a <> last (a :: b :: M') a).
           { rewrite (last_cons_ne a (b :: M') a b) by discriminate. intros E. apply Hna. rewrite E.
             assert (Hx : b :: M' <> []) by discriminate. destruct (exists_last Hx) as (x & y & Ex). rewrite Ex, last_last. apply in_or_app. right. now left. }
           destruct (N.eqb_spec a (last (a :: b :: M') a)); [tauto|].
           destruct (Hl [] a b M' eq_refl) as [Hp _]. rewrite Hp. cbn [bind fst snd].
           rewrite (last_cons_ne a (b :: M') a b) by discriminate.
           destruct (IH (b :: M') h1 0 HndM Hl1 Hlive1) as (h' & Hr & Hm & Hrest & Hnd' & Hin). cbn [start] in Hr. rewrite Hr. cbn [bind fst snd].
           exists h'. destruct (take_ends (b :: M') pat) as [o m]. cbn [fst snd map somes flat_map app] in *. fold (somes o) in *. rewrite Hkv.
           assert (Hao : ~ In a (somes o)) by (intros Hi; apply Hna; now apply Hin).
           split; [f_equal; f_equal; f_equal; apply map_ext_in; intros [x|] Hx; [|reflexivity]|].
           { apply (kv_at_other h a h1 (k, v) x Ht). intros ->. apply Hao. unfold somes. apply in_flat_map. exists (Some a). split; [exact Hx|now left]. }
           split; [eapply moved_step; eauto; apply Hlive; now left|]. split; [exact Hrest|]. split; [constructor; auto|].
           intros x [<-|Hx]; [now left|right; now apply Hin].
      * (* back: takes the last element z *)
        cbn [tk_run start tk_next_back c_next c_back take_ends].
        assert (HM : a :: M <> []) by discriminate. destruct (exists_last HM) as (R & z & ER).
        assert (Elast : last (a :: M) a = z) by (rewrite ER; apply last_last). rewrite Elast.
        assert (Erl : removelast (a :: M) = R) by (rewrite ER; apply removelast_last). rewrite Erl.
        assert (Hzin : In z (a :: M)) by (rewrite ER; apply in_or_app; right; now left).
        destruct (take_at_live h z (Hlive z Hzin)) as (h1 & k & v & Ht & Hkv & Hmv). rewrite Ht. cbn [bind fst snd].
        assert (HndR : NoDup R /\ ~ In z R).
        { rewrite ER in Hnd. split; [apply NoDup_remove_1 in Hnd; now rewrite app_nil_r in Hnd|apply NoDup_remove_2 in Hnd; now rewrite app_nil_r in Hnd]. }
        destruct HndR as [HndR Hnz].
        assert (HlR : linked h1 R).
        { eapply linked_take; [exact Ht|]. rewrite ER in Hl. apply linked_removelast in Hl. now rewrite removelast_last in Hl. }
        assert (HliveR : forall b, In b R -> live h1 b).
        { intros b Hb. assert (Hb' : In b (a :: M)) by (rewrite ER; apply in_or_app; now left).
          destruct (Hlive b Hb') as (k' & v' & Hp). exists k', v'. rewrite (take_at_other h z h1 (k, v) b Ht); [exact Hp|]. intros ->. tauto. }
        destruct R as [|r R'].
        -- (* single element: z = a *)
           cbn [app] in ER. injection ER as <- ->. rewrite N.eqb_refl. cbn [bind fst snd].
           destruct (IH [] h1 a (NoDup_nil _) HlR HliveR) as (h' & Hr & Hm & Hrest & Hnd' & Hin).
           cbn [start] in Hr. rewrite Hr. cbn [bind fst snd]. exists h'. destruct (take_ends [] pat) as [o m] eqn:Et. cbn [fst snd map] in *.
           rewrite take_ends_nil in Et. injection Et as <- <-.
           pose proof (@somes_none addr (length pat)) as Hs.
           cbn [somes flat_map app]. fold (somes (repeat (@None addr) (length pat))). rewrite Hs in *. rewrite Hkv.
           split; [f_equal; f_equal; clear; induction (length pat); cbn; congruence|].
           split; [eapply (moved_step h a h1 (k, v) h' []); [exact Ht|apply Hlive; now left|intros []|exact Hm]|].
           split; [intros ? []|]. split; [constructor; [intros []|constructor]|]. intros ? [<-|[]]. now left.
        -- cbn [app] in ER. injection ER as <- ER.
           assert (Hza : z <> a) by (intros ->; apply Hnz; now left).
           destruct (N.eqb_spec z a); [tauto|].
           (* predecessor of z in the list *)
           assert (HR : a :: R' <> []) by discriminate. destruct (exists_last HR) as (R0 & y & ER0).
           assert (Hlz : nextof h z = Some y).
           { rewrite ER, app_comm_cons, ER0, <- app_assoc in Hl. cbn [app] in Hl. destruct (Hl R0 y z [] eq_refl) as [_ Hq]. exact Hq. }
           rewrite Hlz. cbn [bind fst snd].
           destruct (IH (a :: R') h1 0 HndR HlR HliveR) as (h' & Hr & Hm & Hrest & Hnd' & Hin). cbn [start] in Hr.
           assert (El2 : last (a :: R') a = y) by (rewrite ER0; apply last_last). rewrite El2 in Hr. rewrite Hr. cbn [bind fst snd].
           exists h'. destruct (take_ends (a :: R') pat) as [o m]. cbn [fst snd map somes flat_map app] in *. fold (somes o) in *. rewrite Hkv.
           assert (Hzo : ~ In z (somes o)) by (intros Hi; apply Hnz; now apply Hin).
           split; [f_equal; f_equal; f_equal; apply map_ext_in; intros [x|] Hx; [|reflexivity]|].
           { apply (kv_at_other h z h1 (k, v) x Ht). intros ->. apply Hzo. unfold somes. apply in_flat_map. exists (Some z). split; [exact Hx|now left]. }
           split; [eapply moved_step; eauto|]. split; [exact Hrest|]. split; [constructor; auto|].
           intros x [<-|Hx]; [rewrite ER; right; apply in_or_app; right; now left|]. specialize (Hin x Hx). rewrite ER. destruct Hin as [<-|Hin]; [now left|right; apply in_or_app; now left].
Qed.

(* ---------- the items an owning iterator hands out are Layer A's: take_ends of the abstract entry list ---------- *)
Definition dummy_entry : entry := {| ek := {| kid := 0; ktok := 0; kheap := 0 |}; ev := {| vtok := 0; vtag := 0; vheap := 0 |}; es := 0 |}.
Definition entry_or_dummy (h : heap) (a : addr) : entry := match entry_at h a with Some e => e | None => dummy_entry end.

Lemma live_entry h a : live h a -> entry_at h a = Some (entry_or_dummy h a) /\ kv_at h a = Some (kv (entry_or_dummy h a)).
Proof.
  intros (k & v & Hp). unfold entry_or_dummy, entry_at, kv_at, payof in *. destruct (h a) as [n|]; [|discriminate].
  injection Hp as Hp. rewrite Hp. split; reflexivity.
Qed.
Lemma entries_of_live h M : (forall a, In a M -> live h a) -> entries_of h M = map (entry_or_dummy h) M.
Proof.
  induction M as [|a M IH]; intros Hl; [reflexivity|]. cbn [entries_of map].
  destruct (live_entry h a (Hl a (or_introl eq_refl))) as [-> _]. rewrite IH; [reflexivity|]. intros b Hb. apply Hl. now right.
Qed.

Theorem taking_items_abstract h seal l pat stale : RI h seal l ->
  exists h', tk_run h (start (rev l) stale) pat = Some (h', map (option_map kv) (fst (take_ends (absl h l) pat))) /\
             (forall a, In a (snd (take_ends (rev l) pat)) -> live h' a).
Proof.
  intros (Hnd & Hc & _ & Hlive).
  assert (HndL : NoDup (rev l)) by (apply NoDup_rev; now apply NoDup_cons_iff in Hnd as [_ ?]).
  assert (HliveL : forall a, In a (rev l) -> live h a) by (intros a Ha; apply Hlive; now apply in_rev).
  destruct (tk_spec pat (rev l) h stale HndL (chain_linked h seal l Hnd Hc) HliveL) as (h' & Hr & _ & Hrest & _ & Hin).
  exists h'. split; [|exact Hrest]. rewrite Hr. f_equal. f_equal.
  unfold absl. rewrite (entries_of_live h (rev l) HliveL), take_ends_map. cbn [fst]. rewrite map_map.
  apply map_ext_in. intros [a|] Ha; [|reflexivity]. cbn [option_map].
  assert (Hina : In a (rev l)).
  { apply Hin. unfold somes. apply in_flat_map. exists (Some a). split; [exact Ha|now left]. }
  now destruct (live_entry h a (HliveL a Hina)) as [_ ->].
Qed.
