(* Corollaries across the layers: Layer A's characterisations read at pointer level. *)
Require Import LruV.B.StepB LruV.B.OpsProps LruV.B.RefineLemmas LruV.B.RefineIter LruV.B.RefineB LruV.B.PanicB LruV.B.TotalB LruV.A.SpecA LruV.A.EvictA LruV.A.TakeEnds.

(* C03 at pointer level: the eviction loop that reads its victims from seal.prev, run on a coherent structure whose counter is
   the sum of the recorded sizes, never faults, removes exactly the shortest prefix of the least-recently-used entries that
   brings the total to the target — oldest first —, frees exactly their buckets and leaves every other node as it was *)
Theorem eject_pointer_level g c target : RIg g -> NoDup (kids (absG g)) -> c = sum_es (absG g) ->
  exists g' evd, b_eject (length (glist g)) g c target = Some (g', sum_es (absG g'), evd) /\
    minimal_prefix (absG g) evd (absG g') target /\ RIg g' /\ gseal g' = gseal g /\
    (exists gone, glist g = glist g' ++ gone /\ forall x, In x gone -> gh g' x = None) /\
    (forall b, In b (glist g') -> entry_at (gh g') b = entry_at (gh g) b).
Proof.
  intros H Hku Hc. destruct (eject_minimal 1 1 ltac:(lia) ltac:(lia) (absG g) c target Hc) as (evd & rest & He & Hmp).
  pose proof (b_eject_total (length (glist g)) g c target H Hku (le_n _)) as Ht. rewrite He in Ht. destruct Ht as (g' & Eg & Ea).
  destruct (b_eject_refines _ _ _ _ _ _ _ H Hku Eg) as (_ & J2 & J3 & _ & J5 & J6 & _).
  exists g', evd. rewrite Ea. split; [exact Eg|]. split; [exact Hmp|]. auto.
Qed.

Section Params.
Variables (E VS : N).

(* C05 / C12 at pointer level: following the links from the seal (Debug, i.e. a full forward iteration) yields exactly the
   abstract entry list, least-recently-used first, and leaves the structure untouched *)
Theorem iteration_pointer_level b oB : RIb b -> KU b ->
  stepB E VS b DebugFmt oB = Some (b, OItems (map (fun e => Some (kv e)) (ents (absB b))), ev0).
Proof.
  intros H _. cbn [stepB].
  destruct (iter_items (bg b) (repeat true (length (glist (bg b)))) H) as (cu & ys & items & I1 & I2 & I3 & I4).
  rewrite I1. cbn [bind]. rewrite I2. cbn [bind]. rewrite I3. cbn [bind]. rewrite I4.
  rewrite <- (absG_length _ H), take_ends_all_front. cbn [fst ents absB]. fold (absG (bg b)). now rewrite map_map.
Qed.
End Params.
