(* Layer B: the pointer structure of src/entry.rs and src/lib.rs as a heap of nodes.
   A node is a hashbrown bucket (or the boxed seal): the two intrusive links, the recorded size and
   the ownership state of the key/value payload. Definitions only. *)
Require Export LruV.Base.

Definition addr := N.

(* ownership state of the MaybeUninit<K>/MaybeUninit<V> slots of an Entry *)
Inductive payload :=
| PSeal                               (* the dummy entry: key and value never initialised *)
| PLive (k : key) (v : val)           (* initialised and owned by this bucket *)
| PMoved (k : key) (v : val).         (* moved out with ptr::read / remove_entry: the bytes are still there, the ownership is not *)

Record node := { nprev : addr; nnext : addr; nsize : N; npay : payload }.
Definition heap := addr -> option node.      (* None: never allocated, or freed *)

Definition upd (h : heap) (a : addr) (n : node) : heap := fun b => if N.eqb b a then Some n else h b.
Definition free (h : heap) (a : addr) : heap := fun b => if N.eqb b a then None else h b.

(* writes through an EntryPtr: fault (None) when the target is not allocated *)
Definition set_next (h : heap) (a x : addr) : option heap :=
  match h a with Some n => Some (upd h a {| nprev := nprev n; nnext := x; nsize := nsize n; npay := npay n |}) | None => None end.
Definition set_prev (h : heap) (a x : addr) : option heap :=
  match h a with Some n => Some (upd h a {| nprev := x; nnext := nnext n; nsize := nsize n; npay := npay n |}) | None => None end.
Definition set_size (h : heap) (a : addr) (sz : N) : option heap :=
  match h a with Some n => Some (upd h a {| nprev := nprev n; nnext := nnext n; nsize := sz; npay := npay n |}) | None => None end.
Definition set_pay (h : heap) (a : addr) (p : payload) : option heap :=
  match h a with Some n => Some (upd h a {| nprev := nprev n; nnext := nnext n; nsize := nsize n; npay := p |}) | None => None end.

Definition nextof (h : heap) a := match h a with Some n => Some (nnext n) | None => None end.
Definition prevof (h : heap) a := match h a with Some n => Some (nprev n) | None => None end.
Definition sizeof_node (h : heap) a := match h a with Some n => Some (nsize n) | None => None end.
Definition payof (h : heap) a := match h a with Some n => Some (npay n) | None => None end.

(* EntryPtr::unhinge(self): prev.next = next; next.prev = prev *)
Definition unhinge (h : heap) (a : addr) : option heap :=
  n <- h a ;;
  h1 <- set_next h (nprev n) (nnext n) ;;
  set_prev h1 (nnext n) (nprev n).

(* EntryPtr::insert(&mut self, prev, next): prev.next = self; next.prev = self; self.next = next; self.prev = prev *)
Definition link_between (h : heap) (a p x : addr) : option heap :=
  _ <- h a ;;
  h1 <- set_next h p a ;;
  h2 <- set_prev h1 x a ;;
  h3 <- set_next h2 a x ;;
  set_prev h3 a p.

(* LruCache::set_head: entry.insert(self.seal, self.seal.get().next) *)
Definition set_head (h : heap) (seal a : addr) : option heap :=
  x <- nextof h seal ;; link_between h a seal x.

(* LruCache::touch_ptr *)
Definition touch_ptr (h : heap) (seal a : addr) : option heap :=
  h1 <- unhinge h a ;; set_head h1 seal a.

(* one iteration of move_to_table's loop: the entry is read out of its old bucket a, written to the fresh
   bucket a', and both neighbours are re-pointed. The old bucket is modelled as gone at once (stricter
   than reality, where the old allocation lives until the loop ends: any later touch of it would fault) *)
Definition move (h : heap) (a a' : addr) : option heap :=
  n <- h a ;;
  let h0 := upd (free h a) a' n in
  h1 <- set_next h0 (nprev n) a' ;;
  set_prev h1 (nnext n) a'.

(* the whole loop: todo is processed in the (arbitrary) order the old table's iterator yields it;
   new buckets get addresses fresh, fresh+1, ... *)
Fixpoint moves (h : heap) (todo : list addr) (fresh : addr) : option heap :=
  match todo with [] => Some h | a :: r => h' <- move h a fresh ;; moves h' r (fresh + 1) end.

(* the cycle seal -> MRU -> ... -> LRU -> seal, as a list of consecutive addresses *)
Fixpoint chain (h : heap) (c : list addr) : Prop :=
  match c with
  | x :: ((y :: _) as r) => nextof h x = Some y /\ prevof h y = Some x /\ chain h r
  | _ => True
  end.

(* ---------- iterator cursors (src/iter.rs): next = None models the null pointer ---------- *)
Record cursor := { c_next : option addr; c_back : addr }.
(* Iter::new / TakingIterator::new *)
Definition cursor_new (h : heap) (seal : addr) (is_empty : bool) : option cursor :=
  if is_empty then Some {| c_next := None; c_back := 0 |}
  else lru <- prevof h seal ;; mru <- nextof h seal ;; Some {| c_next := Some lru; c_back := mru |}.
(* Iter::next: yields the address read; stepping follows prev *)
Definition it_next (h : heap) (s : cursor) : option (option addr * cursor) :=
  match c_next s with
  | None => Some (None, s)
  | Some a => if N.eqb a (c_back s) then Some (Some a, {| c_next := None; c_back := c_back s |})
              else p <- prevof h a ;; Some (Some a, {| c_next := Some p; c_back := c_back s |})
  end.
Definition it_next_back (h : heap) (s : cursor) : option (option addr * cursor) :=
  match c_next s with
  | None => Some (None, s)
  | Some a => if N.eqb (c_back s) a then Some (Some (c_back s), {| c_next := None; c_back := c_back s |})
              else q <- nextof h (c_back s) ;; Some (Some (c_back s), {| c_next := Some a; c_back := q |})
  end.
Fixpoint it_run (h : heap) (s : cursor) (pat : list bool) : option (list (option addr)) :=
  match pat with
  | [] => Some []
  | f :: r => st <- (if f then it_next h s else it_next_back h s) ;;
              os <- it_run h (snd st) r ;; Some (fst st :: os)
  end.
