(* Layer B never faults where Layer A does not: on a coherent structure with unique keys, every operation whose pointer work
   does not depend on bucket choices of hashbrown (all but insert / try_insert / reserve / try_reserve / shrink_to*, whose
   new-bucket and move addresses come from the oracle and are checked) returns a result whenever the abstract operation does.
   A pointer-level fault is an access to a freed or unallocated node, a read of a moved-out payload, or the eviction loop
   running off an empty list: none of them can happen. (With B/RefineB.v: the result is then Layer A's.) *)
Require Import LruV.B.StepB LruV.B.OpsProps LruV.B.RefineLemmas LruV.B.RefineIter LruV.B.RefineB LruV.B.PanicB LruV.B.CloneB LruV.B.FrameB LruV.A.OrderA LruV.A.ListLemmas.

Section Params.
Variables (E VS : N).

Definition oracle_free (p : op) : bool :=
  match p with Insert _ _ | TryInsert _ _ | Reserve _ | TryReserve _ | ShrinkTo _ | ShrinkToFit => false | _ => true end.

Lemma touch_total b q : RIb b -> exists r, bB_touch b q = Some r.
Proof.
  intros H. unfold bB_touch. destruct (b_find (bg b) q) as [[a e]|] eqn:Ef; [|eauto].
  destruct (b_find_some _ _ _ _ H Ef) as (F1 & _). destruct (b_touch_RI _ a H F1) as (g' & -> & _). cbn [bind]. eauto.
Qed.

Lemma remove_at_total b a e oB : RIb b -> In a (glist (bg b)) -> sub64 (bcur b) (es e) <> None -> exists b', bB_remove_at b a e oB = Some b'.
Proof.
  intros H Hin Hs. unfold bB_remove_at. destruct (b_remove_RI _ a H Hin) as (g' & -> & _). cbn [bind].
  destruct (sub64 (bcur b) (es e)); [cbn [bind]; eauto|congruence].
Qed.

Lemma retain_total keep : forall TA fuel g DA c, RIg g -> NoDup (kids (absG g)) -> rev (glist g) = DA ++ TA -> (length TA <= fuel)%nat ->
  subs (filter (fun e => negb (keep (ek e) (ev e))) (entries_of (gh g) TA)) c <> None ->
  exists r, b_retain fuel g keep (match TA with [] => gseal g | t :: _ => t end) c = Some r.
Proof.
  induction TA as [|t TA IH]; intros fuel g DA c H Hnd Er Hfuel Hsub.
  - destruct fuel; cbn [b_retain]; rewrite N.eqb_refl; eauto.
  - assert (Hin : In t (glist g)) by (apply in_rev; rewrite Er; apply in_or_app; right; now left).
    assert (Hts : t <> gseal g) by (intros ->; destruct H as (Hn & _); apply NoDup_cons_iff in Hn as [Hs _]; tauto).
    destruct fuel as [|f]; [cbn in Hfuel; lia|]. cbn [b_retain]. destruct (N.eqb_spec t (gseal g)) as [|_]; [tauto|].
    destruct (RI_entry g t H Hin) as [e He]. rewrite He. cbn [bind]. rewrite (prev_in_walk g DA t TA H Er). cbn [bind].
    cbn [entries_of] in Hsub. rewrite He in Hsub. cbn [filter] in Hsub.
    destruct (keep (ek e) (ev e)) eqn:Ek; cbn [negb] in Hsub.
    + assert (Er' : rev (glist g) = (DA ++ [t]) ++ TA) by (rewrite <- app_assoc; exact Er).
      destruct (IH f g (DA ++ [t]) c H Hnd Er') as [[[[g2 c2] gone2] vis2] ->]; [cbn in Hfuel; lia|exact Hsub|]. cbn [bind]. eauto.
    + destruct (b_remove_RI g t H Hin) as (g1 & Erm & _). rewrite Erm. cbn [bind].
      destruct (P_remove g t e g1 H Hnd Hin He Erm) as (H1 & Hs1 & Ha1 & Hnd1 & Hl1 & _ & Hfr1 & _).
      rewrite subs_cons in Hsub. destruct (sub64 c (es e)) as [c1|]; [|exfalso; apply Hsub; reflexivity]. cbn [bind] in Hsub |- *.
      assert (Hgl : glist g = rev TA ++ t :: rev DA).
      { rewrite <- (rev_involutive (glist g)), Er, rev_app_distr. cbn [rev]. now rewrite <- app_assoc. }
      assert (Hndl : NoDup (glist g)) by (destruct H as (Hn & _); now apply NoDup_cons_iff in Hn as [_ ?]).
      assert (HtT : ~ In t (rev TA)). { rewrite Hgl in Hndl. apply NoDup_remove_2 in Hndl. intros Hi. apply Hndl. apply in_or_app. now left. }
      assert (Er1 : rev (glist g1) = DA ++ TA).
      { rewrite Hl1, Hgl, (remove_addr_split (rev TA) t (rev DA) HtT), rev_app_distr, !rev_involutive. reflexivity. }
      assert (FT : entries_of (gh g1) TA = entries_of (gh g) TA).
      { clear - Hfr1 HtT. induction TA as [|x TA IHT]; [reflexivity|]. cbn [entries_of]. rewrite Hfr1, IHT; [reflexivity| |].
        - intros Hi. apply HtT. cbn [rev]. apply in_or_app. now left.
        - intros ->. apply HtT. cbn [rev]. apply in_or_app. right. now left. }
      rewrite <- Hs1. destruct (IH f g1 DA c1 H1 Hnd1 Er1) as [[[[g2 c2] gone2] vis2] ->]; [cbn in Hfuel; lia|now rewrite FT|]. cbn [bind]. eauto.
Qed.

Theorem stepB_total b p oB r : RIb b -> KU b -> oracle_free p = true ->
  stepA E VS fixed (absB b) p (ob oB) = Some r -> exists r', stepB E VS b p oB = Some r'.
Proof.
  intros H Hku Hof HA. destruct p; try discriminate Hof; cbn [stepB stepA] in *.
  - (* get *) destruct (touch_total b q H) as [[b1 x] ->]. cbn [bind]. eauto.
  - destruct (touch_total b q H) as [[b1 x] ->]. cbn [bind]. eauto.
  - eauto. - eauto. - eauto.
  - destruct (touch_total b q H) as [[b1 x] ->]. cbn [bind]. eauto.
  - (* get_lru *) rewrite (b_lru_spec _ H). cbn [bind]. destruct (rev (glist (bg b))) as [|p r0] eqn:Er; [eauto|].
    destruct (absG_lru _ p r0 H Er) as (e & He & _). rewrite He. cbn [bind].
    assert (Hin : In p (glist (bg b))) by (apply in_rev; rewrite Er; now left).
    destruct (b_touch_RI _ p H Hin) as (g' & -> & _). cbn [bind]. eauto.
  - (* peek_lru *) rewrite (b_lru_spec _ H). cbn [bind]. destruct (rev (glist (bg b))) as [|p r0] eqn:Er; [eauto|].
    destruct (absG_lru _ p r0 H Er) as (e & He & _). rewrite He. cbn [bind]. eauto.
  - (* peek_mru *) rewrite (b_mru_spec _ H). cbn [bind]. destruct (glist (bg b)) as [|m r0] eqn:El; [eauto|].
    destruct (absG_mru _ m r0 H El) as (e & He & _). rewrite He. cbn [bind]. eauto.
  - (* remove *) cbn [ents absB] in HA. fold (absG (bg b)) in HA. rewrite (b_find_rel _ q H) in HA.
    destruct (b_find (bg b) q) as [[a e]|] eqn:Ef; cbn [option_map snd] in HA; [|eauto].
    destruct (b_find_some _ _ _ _ H Ef) as (F1 & _). unfold removed_ev in HA. cbn [cur absB] in HA.
    destruct (remove_at_total b a e oB H F1) as [b' ->]; [destruct (sub64 (bcur b) (es e)); [discriminate|discriminate HA]|]. cbn [bind]. eauto.
  - cbn [ents absB] in HA. fold (absG (bg b)) in HA. rewrite (b_find_rel _ q H) in HA.
    destruct (b_find (bg b) q) as [[a e]|] eqn:Ef; cbn [option_map snd] in HA; [|eauto].
    destruct (b_find_some _ _ _ _ H Ef) as (F1 & _). unfold removed_ev in HA. cbn [cur absB] in HA.
    destruct (remove_at_total b a e oB H F1) as [b' ->]; [destruct (sub64 (bcur b) (es e)); [discriminate|discriminate HA]|]. cbn [bind]. eauto.
  - (* remove_lru *) rewrite (b_lru_spec _ H). cbn [bind]. cbn [ents absB] in HA. fold (absG (bg b)) in HA.
    destruct (rev (glist (bg b))) as [|p r0] eqn:Er; [eauto|].
    destruct (absG_lru _ p r0 H Er) as (e & He & Ab). rewrite He. cbn [bind]. rewrite Ab in HA. unfold removed_ev in HA. cbn [cur absB] in HA.
    assert (Hin : In p (glist (bg b))) by (apply in_rev; rewrite Er; now left).
    destruct (remove_at_total b p e oB H Hin) as [b' ->]; [destruct (sub64 (bcur b) (es e)); [discriminate|discriminate HA]|]. cbn [bind]. eauto.
  - (* remove_mru *) rewrite (b_mru_spec _ H). cbn [bind]. cbn [ents absB] in HA. fold (absG (bg b)) in HA.
    destruct (glist (bg b)) as [|m r0] eqn:El; [eauto|].
    destruct (absG_mru _ m r0 H El) as (e & He & Ab). rewrite He. cbn [bind]. rewrite Ab in HA.
    destruct (absl (gh (bg b)) r0 ++ [e]) as [|x0 xs] eqn:Eapp; [destruct (absl (gh (bg b)) r0); discriminate|]. rewrite <- Eapp, last_last in HA.
    unfold removed_ev in HA. cbn [cur absB] in HA.
    assert (Hin : In m (m :: r0)) by now left. rewrite <- El in Hin.
    destruct (remove_at_total b m e oB H Hin) as [b' ->]; [destruct (sub64 (bcur b) (es e)); [discriminate|discriminate HA]|]. cbn [bind]. eauto.
  - (* mutate *) unfold do_mutate in HA. unfold bB_mutate. cbn [maxs cur tb ents absB mut_orig fixed] in HA. fold (absG (bg b)) in HA.
    rewrite (b_find_rel _ q H) in HA. destruct (b_find (bg b) q) as [[a e]|] eqn:Ef; cbn [option_map snd] in HA; [|eauto].
    destruct (b_find_some _ _ _ _ H Ef) as (F1 & F2 & F3 & F4).
    set (v' := {| vtok := vtok (ev e); vtag := newtag; vheap := newheap |}) in *.
    destruct (msz VS (ev e)) as [oldv|]; [|discriminate]. cbn [bind] in *.
    destruct (msz VS v') as [newv|]; [|discriminate]. cbn [bind] in *.
    destruct (entry_at_node _ _ _ F2) as (n & Hn & Hp & Hs).
    assert (Esv : exists gm, b_set_val (bg b) a (ek e) v' = Some gm) by (unfold b_set_val, set_pay; rewrite Hn; cbn [bind]; eauto).
    destruct Esv as [gm Esv]. rewrite Esv. cbn [bind].
    destruct (P_set_val _ _ _ _ _ _ H F1 F2 Esv) as (M1 & M2 & M3 & M4 & M5 & M6).
    set (e1 := {| ek := ek e; ev := v'; es := es e |}) in *.
    destruct (inplace_abs (bg b) gm a e e1 H Hku F1 F2 M3 M4 M5 eq_refl) as [Hkum Hrm]. rewrite F3 in Hrm.
    assert (F1m : In a (glist gm)) by (rewrite M3; exact F1).
    destruct (oldv <? newv).
    + destruct (sub64 newv oldv) as [diff|]; [|discriminate]. cbn [bind] in *.
      destruct (add64 (es e) diff) as [nes|]; [|discriminate]. cbn [bind] in *.
      destruct (bmax b <? nes).
      * destruct (b_remove_RI gm a M1 F1m) as (g' & -> & _). cbn [bind]. destruct (sub64 (bcur b) (es e)); [cbn [bind]; eauto|discriminate].
      * destruct (b_touch_RI gm a M1 F1m) as (gt & Et & _). rewrite Et. cbn [bind].
        destruct (P_touch _ _ _ _ M1 Hkum F1m M4 Et) as (T1 & T2 & T3 & T4 & T5 & T6 & T7). cbn [ek e1] in T3, T4. rewrite F3 in T3, T4. rewrite Hrm in T3.
        assert (Hkut : NoDup (kids (absG gt))) by (rewrite T3; apply (kids_touch_nodup q _ e e1 Hku F4); exact F3).
        destruct (sub64 (bmax b) diff) as [tgt|]; [|discriminate]. cbn [bind] in *.
        pose proof (b_eject_total (length (glist gt)) gt (bcur b) tgt T1 Hkut (le_n _)) as Ht. rewrite T3 in Ht.
        destruct (eject (remove_id q (absG (bg b)) ++ [e1]) (bcur b) tgt) as [[[l1 c1] evd]|]; [|discriminate]. cbn [bind] in HA.
        destruct Ht as (g1 & Eg1 & A1). rewrite Eg1. cbn [bind].
        destruct (add64 c1 diff) as [c2|]; [|discriminate]. cbn [bind] in HA.
        destruct l1 as [|x0 xs]; [discriminate|].
        destruct (b_eject_refines _ _ _ _ _ _ _ T1 Hkut Eg1) as (_ & J2 & _ & _ & (gone & J5 & _) & _).
        assert (Hne : glist g1 <> []). { intros E0. pose proof (absG_length g1 J2) as Hl. rewrite A1, E0 in Hl. discriminate. }
        assert (Hin1 : In a (glist g1)).
        { destruct (glist g1) as [|a0 rest1]; [congruence|]. rewrite T5 in J5. cbn [app] in J5. injection J5 as <- _. now left. }
        destruct (RI_entry g1 a J2 Hin1) as [ex Hex].
        destruct (set_size_RI _ _ _ a nes J2 Hin1) as (h' & Ess & _). unfold b_set_size. rewrite Ess. cbn [bind]. eauto.
    + destruct (sub64 oldv newv) as [diff|]; [|discriminate]. cbn [bind] in *.
      destruct (sub64 (es e) diff) as [nes|]; [|discriminate]. cbn [bind] in *.
      destruct (set_size_RI _ _ _ a nes M1 F1m) as (h' & Ess & Hri'). unfold b_set_size at 1. rewrite Ess. cbn [bind].
      destruct (sub64 (bcur b) diff) as [c|]; [|discriminate]. cbn [bind] in *.
      set (g1 := {| gh := h'; gseal := gseal gm; glist := glist gm |}).
      destruct (b_touch_RI g1 a Hri' F1m) as (g2 & -> & _). cbn [bind]. eauto.
  - (* set_max_size *) cbn [ents cur tb absB] in HA. fold (absG (bg b)) in HA.
    pose proof (b_eject_total (length (glist (bg b))) (bg b) (bcur b) n H Hku (le_n _)) as Ht.
    destruct (eject (absG (bg b)) (bcur b) n) as [[[l1 c1] evd]|]; [|discriminate]. destruct Ht as (g1 & -> & _). cbn [bind]. eauto.
  - (* retain *) cbn [ents cur tb absB] in HA. fold (absG (bg b)) in HA.
    pose proof (b_lru_spec _ H) as Hl. unfold b_lru in Hl.
    destruct (prevof (gh (bg b)) (gseal (bg b))) as [t0|]; [|discriminate]. cbn [bind] in *.
    assert (Ht0 : t0 = match rev (glist (bg b)) with [] => gseal (bg b) | t :: _ => t end).
    { destruct (rev (glist (bg b))); destruct (N.eqb_spec t0 (gseal (bg b))); congruence. }
    rewrite Ht0.
    destruct (retain_total keep (rev (glist (bg b))) (length (glist (bg b))) (bg b) [] (bcur b) H Hku eq_refl) as [[[[g1 c1] gone] vis] ->]; [rewrite rev_length; lia| |cbn [bind]; eauto].
    fold (absl (gh (bg b)) (glist (bg b))). fold (absG (bg b)). unfold subs.
    destruct (fold_left _ _ (Some (bcur b))); [discriminate|discriminate HA].
  - (* clear *) destruct (P_reset _ H) as (g' & -> & _). cbn [bind]. eauto.
  - (* iter *) destruct (iter_items (bg b) pat H) as (cu & ys & items & -> & I2 & I3 & _). cbn [bind]. rewrite I2. cbn [bind]. rewrite I3. cbn [bind]. eauto.
  - (* drain *) destruct (P_drain (bg b) pat H) as (cu & h1 & h2 & h3 & items & -> & D2 & D3 & D4 & _). cbn [bind]. rewrite D2. cbn [bind]. rewrite D3. cbn [bind]. rewrite D4. cbn [bind]. eauto.
  - (* debug *) destruct (iter_items (bg b) (repeat true (length (glist (bg b)))) H) as (cu & ys & items & -> & I2 & I3 & _). cbn [bind]. rewrite I2. cbn [bind]. rewrite I3. cbn [bind]. eauto.
  - eauto. - eauto. - eauto. - eauto. - eauto.
Qed.
End Params.

(* ---------- the operations that ask hashbrown for buckets ----------
   What the oracle must satisfy at the moment it is asked, in terms of the structure g that exists then: a rebuild moves
   listed buckets, each once, to distinct buckets outside the structure; the bucket of a new entry is outside the structure
   and not among the targets of the rebuild. Under that, no fault. *)
Definition moves_valid (g : gstate) (pairs : list (addr * addr)) : Prop :=
  NoDup (map fst pairs) /\ (forall a, In a (map fst pairs) -> In a (glist g)) /\
  NoDup (map snd pairs) /\ (forall a', In a' (map snd pairs) -> ~ In a' (gseal g :: glist g)).
Definition oracle_ok_at (g : gstate) (oB : oracleB) : Prop :=
  moves_valid g (ob_moves oB) /\ ~ In (ob_addr oB) (gseal g :: glist g) /\ ~ In (ob_addr oB) (map snd (ob_moves oB)).

Lemma mem_addr_false a l : ~ In a l -> mem_addr a l = false.
Proof. intros H. destruct (mem_addr a l) eqn:E; [apply mem_addr_spec in E; tauto|reflexivity]. Qed.
Lemma mem_addr_true a l : In a l -> mem_addr a l = true.
Proof. apply mem_addr_spec. Qed.

Lemma moves_chk_total : forall pairs g, RIg g -> moves_valid g pairs ->
  exists g', b_moves_chk g pairs = Some g' /\ RIg g' /\ gseal g' = gseal g /\
             (forall x, In x (glist g') -> In x (glist g) \/ In x (map snd pairs)).
Proof.
  induction pairs as [|[a a'] pairs IH]; intros g H (Hns & Hsub & Hnt & Hfr); cbn [b_moves_chk map fst snd] in *.
  - exists g. split; [reflexivity|]. split; [exact H|]. split; [reflexivity|]. intros x Hx. now left.
  - assert (Hin : In a (glist g)) by (apply Hsub; now left).
    assert (Hf : ~ In a' (gseal g :: glist g)) by (apply Hfr; now left).
    rewrite (mem_addr_true _ _ Hin), (mem_addr_false _ _ Hf). cbn [negb].
    destruct g as [h seal l]. cbn [gh gseal glist] in *.
    destruct H as (Hnd & Hc & Hps & Hlive).
    destruct (b_moves_chain [(a, a')] h seal l Hnd Hc) as (g1 & Em & Hl1 & Hs1 & _); cbn [map fst snd].
    + constructor; [intros []|constructor].
    + intros x [<-|[]]. exact Hin.
    + constructor; [intros []|constructor].
    + intros x [<-|[]]. exact Hf.
    + cbn [b_moves] in Em. destruct (b_move {| gh := h; gseal := seal; glist := l |} a a') as [g1'|] eqn:Emv; [|discriminate]. cbn [bind] in Em |- *. injection Em as ->.
      assert (H0 : RIg {| gh := h; gseal := seal; glist := l |}) by exact (conj Hnd (conj Hc (conj Hps Hlive))).
      destruct (P_move _ a a' g1 H0 Hin Hf Emv) as (H1 & Hs1' & _). cbn [rename_pairs] in Hl1.
      apply NoDup_cons_iff in Hns as [Ha Hns']. apply NoDup_cons_iff in Hnt as [Ha' Hnt'].
      destruct (IH g1 H1) as (g2 & E2 & H2 & Hs2 & Hin2).
      { split; [exact Hns'|]. split; [|split; [exact Hnt'|]].
        - intros x Hx. rewrite Hl1. unfold subst. apply in_map_iff. exists x. split; [|apply Hsub; now right].
          destruct (N.eqb_spec x a) as [->|]; [tauto|reflexivity].
        - intros x Hx Hi. rewrite Hs1' in Hi. cbn [gseal] in Hi. destruct Hi as [E0|Hi].
          + apply (Hfr x); [now right|now left].
          + rewrite Hl1 in Hi. apply in_subst in Hi as [[-> _]|[_ Hi]]; [tauto|]. apply (Hfr x); [now right|now right]. }
      exists g2. split; [exact E2|]. split; [exact H2|]. split; [congruence|].
      intros x Hx. destruct (Hin2 x Hx) as [Hx1|Hx1]; [|right; now right].
      rewrite Hl1 in Hx1. apply in_subst in Hx1 as [[-> _]|[_ Hx1]]; [right; now left|now left].
Qed.

Section ParamsO.
Variables (E VS : N).

Lemma insert_unchecked_total g t1 k v sz oB r : RIg g -> oracle_ok_at g oB ->
  t_insert E t1 (N.of_nat (length (absG g))) (ob oB) = Some r -> exists r', b_insert_unchecked E g t1 k v sz oB = Some r'.
Proof.
  intros H (Hmv & Hfa & Hft) Ht. unfold b_insert_unchecked. rewrite (absG_length g H) in Ht. rewrite Ht. cbn [bind]. destruct r as [t2 rb].
  assert (Hg1 : exists g1, (if rb then b_moves_chk g (ob_moves oB) else Some g) = Some g1 /\ RIg g1 /\ ~ In (ob_addr oB) (gseal g1 :: glist g1)).
  { destruct rb; [|eauto]. destruct (moves_chk_total _ g H Hmv) as (g1 & E1 & H1 & Hs1 & Hin1). exists g1. split; [exact E1|]. split; [exact H1|].
    rewrite Hs1. intros [E0|Hi]; [apply Hfa; now left|]. destruct (Hin1 _ Hi) as [Hx|Hx]; [apply Hfa; now right|tauto]. }
  destruct Hg1 as (g1 & -> & H1 & Hf1). cbn [bind]. rewrite (mem_addr_false _ _ Hf1).
  destruct (b_insert_new_RI g1 (ob_addr oB) sz k v H1 Hf1) as (g2 & -> & _). cbn [bind]. eauto.
Qed.

(* the structure hashbrown is asked about: the initial one for try_insert / reserve / try_reserve / shrink_to*, the one left by
   de-duplication and eviction for insert *)
Theorem stepB_total_oracle b p oB r : RIb b -> KU b -> stepA E VS fixed (absB b) p (ob oB) = Some r ->
  exists g, RIg g /\ gseal g = gseal (bg b) /\ (forall x, In x (glist g) -> In x (glist (bg b))) /\
            (oracle_ok_at g oB -> exists r', stepB E VS b p oB = Some r').
Proof.
  intros H Hku HA. destruct (oracle_free p) eqn:Hof.
  - exists (bg b). split; [exact H|]. split; [reflexivity|]. split; [auto|]. intros _. now apply (stepB_total E VS b p oB r).
  - destruct p; try discriminate Hof; cbn [stepB stepA] in *.
    + (* insert *) unfold do_insert in HA. unfold bB_insert. cbn [maxs cur tb ents absB] in HA. fold (absG (bg b)) in HA.
      destruct (esz E k v) as [sz|]; [|discriminate]. cbn [bind] in *.
      destruct (bmax b <? sz); [exists (bg b); split; [exact H|]; split; [reflexivity|]; split; [auto|]; eauto|].
      rewrite (b_find_rel _ (kid k) H) in HA.
      assert (Hold : exists g0 c0, match b_find (bg b) (kid k) with Some (a, _) => b_remove (bg b) a | None => Some (bg b) end = Some g0 /\
                match b_find (bg b) (kid k) with Some (_, e) => sub64 (bcur b) (es e) | None => Some (bcur b) end = Some c0 /\
                RIg g0 /\ gseal g0 = gseal (bg b) /\ NoDup (kids (absG g0)) /\ absG g0 = remove_id (kid k) (absG (bg b)) /\
                (forall x, In x (glist g0) -> In x (glist (bg b))) /\
                match option_map snd (b_find (bg b) (kid k)) with Some e => sub64 (bcur b) (es e) | None => Some (bcur b) end = Some c0).
      { destruct (b_find (bg b) (kid k)) as [[a e]|] eqn:Ef; cbn [option_map snd] in HA |- *.
        - destruct (b_find_some _ _ _ _ H Ef) as (F1 & F2 & F3 & F4).
          destruct (b_remove_RI _ a H F1) as (g0 & Er & _). destruct (P_remove _ _ _ _ H Hku F1 F2 Er) as (R1 & R2 & R3 & R4 & R5 & _). rewrite F3 in R3.
          destruct (sub64 (bcur b) (es e)) as [c0|]; [|discriminate]. exists g0, c0. split; [exact Er|]. split; [reflexivity|]. split; [exact R1|]. split; [exact R2|]. split; [exact R4|]. split; [exact R3|]. split; [|reflexivity]. intros x Hx. rewrite R5 in Hx. now apply remove_addr_in in Hx.
        - pose proof (b_find_none _ _ H Ef) as Fn. destruct (find_id_none _ _ Fn) as [Rm _]. exists (bg b), (bcur b). rewrite Rm. split; [reflexivity|]. split; [reflexivity|]. split; [exact H|]. split; [reflexivity|]. split; [exact Hku|]. split; [reflexivity|]. split; [auto|reflexivity]. }
      destruct Hold as (g0 & c0 & Eg0 & Ec0 & H0 & Hs0 & Hku0 & Ha0 & Hsub0 & Ec0'). rewrite Eg0, Ec0. cbn [bind]. rewrite Ec0' in HA. cbn [bind] in HA.
      destruct (sub64 (bmax b) sz) as [tgt|]; [|discriminate]. cbn [bind] in *.
      pose proof (b_eject_total (length (glist g0)) g0 c0 tgt H0 Hku0 (le_n _)) as Ht. rewrite Ha0 in Ht.
      destruct (eject (remove_id (kid k) (absG (bg b))) c0 tgt) as [[[l1 c1] evd]|]; [|discriminate]. cbn [bind] in HA.
      destruct Ht as (g1 & Eg1 & A1). rewrite Eg1. cbn [bind].
      destruct (b_eject_refines _ _ _ _ _ _ _ H0 Hku0 Eg1) as (_ & J2 & J3 & _ & (gone & J5 & _) & _).
      exists g1. split; [exact J2|]. split; [congruence|]. split.
      * intros x Hx. apply Hsub0. rewrite J5. apply in_or_app. now left.
      * intros Hok. destruct (t_insert E _ (N.of_nat (length l1)) (ob oB)) as [[t2 rb]|] eqn:Eti; [|discriminate]. cbn [bind] in HA.
        rewrite <- A1 in Eti. destruct (insert_unchecked_total g1 _ k v sz oB _ J2 Hok Eti) as [[[g2 t2'] rb'] ->]. cbn [bind].
        destruct (add64 c1 sz); [cbn [bind]; eauto|discriminate].
    + (* try_insert *) exists (bg b). split; [exact H|]. split; [reflexivity|]. split; [auto|]. intros Hok.
      unfold do_try_insert in HA. unfold bB_try_insert. cbn [maxs cur tb ents absB] in HA. fold (absG (bg b)) in HA.
      destruct (esz E k v) as [sz|]; [|discriminate]. cbn [bind] in *.
      destruct (bmax b <? sz); [eauto|]. destruct (sub64 (bmax b) (bcur b)) as [free|]; [|discriminate]. cbn [bind] in *.
      destruct (free <? sz); [eauto|]. rewrite (b_find_rel _ (kid k) H) in HA.
      destruct (b_find (bg b) (kid k)) as [[a e]|]; cbn [option_map snd] in HA; [eauto|].
      unfold len in HA. cbn [ents absB] in HA. fold (absG (bg b)) in HA.
      destruct (t_insert E (btb b) (N.of_nat (length (absG (bg b)))) (ob oB)) as [[t2 rb]|] eqn:Eti; [|discriminate]. cbn [bind] in HA.
      destruct (insert_unchecked_total (bg b) _ k v sz oB _ H Hok Eti) as [[[g2 t2'] rb'] ->]. cbn [bind].
      destruct (add64 (bcur b) sz); [cbn [bind]; eauto|discriminate].
    + (* reserve *) exists (bg b). split; [exact H|]. split; [reflexivity|]. split; [auto|]. intros (Hmv & _ & _).
      destruct (moves_chk_total _ (bg b) H Hmv) as (g' & Em & _).
      destruct (add64 (N.of_nat (length (glist (bg b)))) n) as [want|]; [|eauto]. destruct (capacity (btb b) <? want); [|eauto].
      unfold bB_realloc. destruct (t_alloc E want (o_alloc (ob oB))); cbn [bind]; [rewrite Em; cbn [bind]; eauto|eauto|eauto].
    + (* try_reserve *) exists (bg b). split; [exact H|]. split; [reflexivity|]. split; [auto|]. intros (Hmv & _ & _).
      destruct (moves_chk_total _ (bg b) H Hmv) as (g' & Em & _).
      destruct (add64 (N.of_nat (length (glist (bg b)))) n) as [want|]; [|eauto]. destruct (capacity (btb b) <? want); [|eauto].
      unfold bB_realloc. destruct (t_alloc E want (o_alloc (ob oB))); cbn [bind]; [rewrite Em; cbn [bind]; eauto|eauto|eauto].
    + (* shrink_to *) exists (bg b). split; [exact H|]. split; [reflexivity|]. split; [auto|]. intros (Hmv & _ & _).
      destruct (moves_chk_total _ (bg b) H Hmv) as (g' & Em & _). unfold bB_shrink.
      destruct (_ <? capacity (btb b)); [|eauto]. destruct (t_alloc E _ (o_alloc (ob oB))) as [t'| |]; [|eauto|eauto].
      destruct (capacity t' <? capacity (btb b)); [rewrite Em; cbn [bind]; eauto|eauto].
    + exists (bg b). split; [exact H|]. split; [reflexivity|]. split; [auto|]. intros (Hmv & _ & _).
      destruct (moves_chk_total _ (bg b) H Hmv) as (g' & Em & _). unfold bB_shrink.
      destruct (_ <? capacity (btb b)); [|eauto]. destruct (t_alloc E _ (o_alloc (ob oB))) as [t'| |]; [|eauto|eauto].
      destruct (capacity t' <? capacity (btb b)); [rewrite Em; cbn [bind]; eauto|eauto].
Qed.
End ParamsO.

(* ---------- the consuming and copying operations ---------- *)
Theorem into_iter_total b kind pat f : RIg (bg b) -> exists r, bB_into_iter b kind pat f = Some r.
Proof.
  intros H. unfold bB_into_iter. rewrite (cursor_new_start _ H). cbn [bind].
  pose proof H as (Hnd & Hc & _ & _).
  destruct (tk_spec pat (rev (glist (bg b))) (gh (bg b)) 0 (RI_nodup_rev _ H) (chain_linked _ _ _ Hnd Hc) (RI_live _ H)) as (h3 & -> & _).
  cbn [bind]. eauto.
Qed.

(* clone: given a new seal address that is not in use and enough pairwise distinct bucket addresses outside both structures,
   the walk over the source never faults *)
Lemma clone_walk_total ren seal_s ls : forall TA fuel DA gc addrs,
  RI (gh gc) seal_s ls -> RIg gc -> (forall x, In x (seal_s :: ls) -> ~ In x (gseal gc :: glist gc)) ->
  rev ls = DA ++ TA -> (length TA <= fuel)%nat -> (length TA <= length addrs)%nat -> NoDup addrs ->
  (forall a, In a addrs -> ~ In a (seal_s :: ls) /\ ~ In a (gseal gc :: glist gc)) ->
  exists gc', b_clone_walk fuel (seal_s :: ls) (match TA with [] => seal_s | t :: _ => t end) gc addrs ren = Some gc'.
Proof.
  induction TA as [|t TA IH]; intros fuel DA gc addrs Hsrc Hc Hdis Er Hfuel Hlen Hnda Hfresh.
  - destruct fuel; cbn [b_clone_walk hd]; rewrite N.eqb_refl; eauto.
  - set (gs := {| gh := gh gc; gseal := seal_s; glist := ls |}).
    assert (Hgs : RIg gs) by exact Hsrc.
    assert (Hin : In t ls) by (apply in_rev; rewrite Er; apply in_or_app; right; now left).
    assert (Hts : t <> seal_s) by (intros ->; destruct Hsrc as (Hn & _); apply NoDup_cons_iff in Hn as [Hs _]; tauto).
    destruct fuel as [|f]; [cbn in Hfuel; lia|]. cbn [b_clone_walk hd]. destruct (N.eqb_spec t seal_s) as [|_]; [tauto|].
    destruct (RI_entry gs t Hgs Hin) as [e He]. cbn [gh gs] in He. rewrite He. cbn [bind].
    pose proof (prev_in_walk gs DA t TA Hgs Er) as Hp. cbn [gh gseal gs] in Hp. rewrite Hp. cbn [bind].
    destruct addrs as [|a ar]; [cbn in Hlen; lia|].
    destruct (Hfresh a (or_introl eq_refl)) as [Hf1 Hf2].
    rewrite (mem_addr_false _ _ Hf1), (mem_addr_false _ _ Hf2). cbn [orb].
    set (e' := clone_entry ren e).
    destruct (b_insert_new_RI gc a (es e') (ek e') (ev e') Hc Hf2) as (gc1 & Ei & H1 & Hs1 & Hl1 & _). rewrite Ei. cbn [bind].
    pose proof (b_insert_new_frame gc a _ _ gc1 Hc Hf2 Ei) as Hfr.
    assert (Hsame : forall x, In x (seal_s :: ls) -> gh gc1 x = gh gc x).
    { intros x Hx. apply Hfr; [now apply Hdis|]. intros ->. tauto. }
    assert (Hsrc1 : RI (gh gc1) seal_s ls) by (apply (RI_frame (gh gc)); [exact Hsame|exact Hsrc]).
    apply NoDup_cons_iff in Hnda as [Hna Hnda'].
    assert (Er' : rev ls = (DA ++ [t]) ++ TA) by (rewrite <- app_assoc; exact Er).
    apply (IH f (DA ++ [t]) gc1 ar Hsrc1 H1); auto.
    + intros x Hx Hi. rewrite Hs1, Hl1 in Hi. destruct Hi as [E0|[E0|Hi]]; [apply (Hdis x Hx); now left|subst x; tauto|apply (Hdis x Hx); now right].
    + cbn in Hfuel. lia.
    + cbn in Hlen. lia.
    + intros x Hx. destruct (Hfresh x (or_intror Hx)) as [G1 G2]. split; [exact G1|]. rewrite Hs1, Hl1. intros [E0|[E0|Hi]]; [apply G2; now left|subst x; tauto|apply G2; now right].
Qed.

Section ParamsC.
Variables (E : N).
Theorem clone_total b seal_c addrs ren r : RIg (bg b) -> do_clone E (absB b) ren = Some r ->
  gh (bg b) seal_c = None -> ~ In seal_c (gseal (bg b) :: glist (bg b)) ->
  NoDup addrs -> (length (glist (bg b)) <= length addrs)%nat ->
  (forall a, In a addrs -> a <> seal_c /\ ~ In a (gseal (bg b) :: glist (bg b))) ->
  exists r', bB_clone E b seal_c addrs ren = Some r'.
Proof.
  intros H HA Hsc Hfs Hnda Hlen Hfresh. unfold bB_clone. unfold do_clone in HA. cbn [tb absB] in HA.
  destruct (t_alloc E (capacity (btb b)) true) as [t| |]; try discriminate.
  rewrite (mem_addr_false _ _ Hfs), Hsc.
  set (h0 := upd (gh (bg b)) seal_c {| nprev := seal_c; nnext := seal_c; nsize := 0; npay := PSeal |}).
  assert (Hsame : forall x, In x (gseal (bg b) :: glist (bg b)) -> h0 x = gh (bg b) x) by (intros x Hx; apply upd_other; intros ->; tauto).
  assert (Hsrc0 : RI h0 (gseal (bg b)) (glist (bg b))) by (apply (RI_frame (gh (bg b))); [exact Hsame|exact H]).
  set (gs := {| gh := h0; gseal := gseal (bg b); glist := glist (bg b) |}).
  pose proof (b_lru_spec gs Hsrc0) as Hl. unfold b_lru in Hl. cbn [gh gseal glist gs] in Hl.
  destruct (prevof h0 (gseal (bg b))) as [t0|]; [|discriminate]. cbn [bind] in *.
  assert (Ht0 : t0 = match rev (glist (bg b)) with [] => gseal (bg b) | t :: _ => t end).
  { destruct (rev (glist (bg b))); destruct (N.eqb_spec t0 (gseal (bg b))); congruence. }
  rewrite Ht0.
  set (gc0 := {| gh := h0; gseal := seal_c; glist := [] |}).
  assert (Hc0 : RIg gc0).
  { unfold RIg, gc0. cbn [gh gseal glist]. split; [constructor; [intros []|constructor]|]. split; [|split; [|intros ? []]].
    - cbn [app chain]. unfold nextof, prevof, h0. rewrite upd_same. auto.
    - unfold payof, h0. now rewrite upd_same. }
  destruct (clone_walk_total ren (gseal (bg b)) (glist (bg b)) (rev (glist (bg b))) (length (glist (bg b))) [] gc0 addrs) as [gc ->]; auto.
  - intros x Hx [E0|[]]. cbn [gseal gc0] in E0. subst x. tauto.
  - rewrite rev_length. lia.
  - rewrite rev_length. exact Hlen.
  - intros a Ha. destruct (Hfresh a Ha) as [G1 G2]. split; [exact G2|]. intros [E0|[]]. cbn [gseal gc0] in E0. congruence.
  - cbn [bind]. eauto.
Qed.
End ParamsC.
