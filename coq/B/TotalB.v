(* Layer B never faults where Layer A does not: on a coherent structure with unique keys, every operation whose pointer work
   does not depend on bucket choices of hashbrown (all but insert / try_insert / reserve / try_reserve / shrink_to*, whose
   new-bucket and move addresses come from the oracle and are checked) returns a result whenever the abstract operation does.
   A pointer-level fault is an access to a freed or unallocated node, a read of a moved-out payload, or the eviction loop
   running off an empty list: none of them can happen. (With B/RefineB.v: the result is then Layer A's.) *)
Require Import LruV.B.StepB LruV.B.OpsProps LruV.B.RefineLemmas LruV.B.RefineIter LruV.B.RefineB LruV.B.PanicB LruV.A.OrderA LruV.A.ListLemmas.

Section Params.
Variables (E VS : N).

Definition oracle_free (p : op) : bool :=
  match p with Insert _ _ | TryInsert _ _ | Reserve _ | TryReserve _ | ShrinkTo _ | ShrinkToFit => false | _ => true end.

Lemma touch_total b q : RIb b -> exists r, bB_touch b q = Some r.
Proof.
  intros H. unfold bB_touch. destruct (b_find (bg b) q) as [[a e]|] eqn:Ef; [|eauto].
  destruct (b_find_some _ _ _ _ H Ef) as (F1 & _). destruct (b_touch_RI _ a H F1) as (g' & -> & _). cbn [bind]. eauto.
Qed.

Lemma remove_at_total b a e oB : RIb b -> In a (glist (bg b)) -> sub64 (bcur b) (es e) <> None -> exists b', bB_remove_at b a e oB = Some b'.
Proof.
  intros H Hin Hs. unfold bB_remove_at. destruct (b_remove_RI _ a H Hin) as (g' & -> & _). cbn [bind].
  destruct (sub64 (bcur b) (es e)); [cbn [bind]; eauto|congruence].
Qed.

Lemma retain_total keep : forall TA fuel g DA c, RIg g -> NoDup (kids (absG g)) -> rev (glist g) = DA ++ TA -> (length TA <= fuel)%nat ->
  subs (filter (fun e => negb (keep (ek e) (ev e))) (entries_of (gh g) TA)) c <> None ->
  exists r, b_retain fuel g keep (match TA with [] => gseal g | t :: _ => t end) c = Some r.
Proof.
  induction TA as [|t TA IH]; intros fuel g DA c H Hnd Er Hfuel Hsub.
  - destruct fuel; cbn [b_retain]; rewrite N.eqb_refl; eauto.
  - assert (Hin : In t (glist g)) by (apply in_rev; rewrite Er; apply in_or_app; right; now left).
    assert (Hts : t <> gseal g) by (intros ->; destruct H as (Hn & _); apply NoDup_cons_iff in Hn as [Hs _]; tauto).
    destruct fuel as [|f]; [cbn in Hfuel; lia|]. cbn [b_retain]. destruct (N.eqb_spec t (gseal g)) as [|_]; [tauto|].
    destruct (RI_entry g t H Hin) as [e He]. rewrite He. cbn [bind]. rewrite (prev_in_walk g DA t TA H Er). cbn [bind].
    cbn [entries_of] in Hsub. rewrite He in Hsub. cbn [filter] in Hsub.
    destruct (keep (ek e) (ev e)) eqn:Ek; cbn [negb] in Hsub.
    + assert (Er' : rev (glist g) = (DA ++ [t]) ++ TA) by (rewrite <- app_assoc; exact Er).
      destruct (IH f g (DA ++ [t]) c H Hnd Er') as [[[[g2 c2] gone2] vis2] ->]; [cbn in Hfuel; lia|exact Hsub|]. cbn [bind]. eauto.
    + destruct (b_remove_RI g t H Hin) as (g1 & Erm & _). rewrite Erm. cbn [bind].
      destruct (P_remove g t e g1 H Hnd Hin He Erm) as (H1 & Hs1 & Ha1 & Hnd1 & Hl1 & _ & Hfr1 & _).
      rewrite subs_cons in Hsub. destruct (sub64 c (es e)) as [c1|]; [|exfalso; apply Hsub; reflexivity]. cbn [bind] in Hsub |- *.
      assert (Hgl : glist g = rev TA ++ t :: rev DA).
      { rewrite <- (rev_involutive (glist g)), Er, rev_app_distr. cbn [rev]. now rewrite <- app_assoc. }
      assert (Hndl : NoDup (glist g)) by (destruct H as (Hn & _); now apply NoDup_cons_iff in Hn as [_ ?]).
      assert (HtT : ~ In t (rev TA)). { rewrite Hgl in Hndl. apply NoDup_remove_2 in Hndl. intros Hi. apply Hndl. apply in_or_app. now left. }
      assert (Er1 : rev (glist g1) = DA ++ TA).
      { rewrite Hl1, Hgl, (remove_addr_split (rev TA) t (rev DA) HtT), rev_app_distr, !rev_involutive. reflexivity. }
      assert (FT : entries_of (gh g1) TA = entries_of (gh g) TA).
      { clear - Hfr1 HtT. induction TA as [|x TA IHT]; [reflexivity|]. cbn [entries_of]. rewrite Hfr1, IHT; [reflexivity| |].
        - intros Hi. apply HtT. cbn [rev]. apply in_or_app. now left.
        - intros ->. apply HtT. cbn [rev]. apply in_or_app. right. now left. }
      rewrite <- Hs1. destruct (IH f g1 DA c1 H1 Hnd1 Er1) as [[[[g2 c2] gone2] vis2] ->]; [cbn in Hfuel; lia|now rewrite FT|]. cbn [bind]. eauto.
Qed.

Theorem stepB_total b p oB r : RIb b -> KU b -> oracle_free p = true ->
  stepA E VS fixed (absB b) p (ob oB) = Some r -> exists r', stepB E VS b p oB = Some r'.
Proof.
  intros H Hku Hof HA. destruct p; try discriminate Hof; cbn [stepB stepA] in *.
  - (* get *) destruct (touch_total b q H) as [[b1 x] ->]. cbn [bind]. eauto.
  - destruct (touch_total b q H) as [[b1 x] ->]. cbn [bind]. eauto.
  - eauto. - eauto. - eauto.
  - destruct (touch_total b q H) as [[b1 x] ->]. cbn [bind]. eauto.
  - (* get_lru *) rewrite (b_lru_spec _ H). cbn [bind]. destruct (rev (glist (bg b))) as [|p r0] eqn:Er; [eauto|].
    destruct (absG_lru _ p r0 H Er) as (e & He & _). rewrite He. cbn [bind].
    assert (Hin : In p (glist (bg b))) by (apply in_rev; rewrite Er; now left).
    destruct (b_touch_RI _ p H Hin) as (g' & -> & _). cbn [bind]. eauto.
  - (* peek_lru *) rewrite (b_lru_spec _ H). cbn [bind]. destruct (rev (glist (bg b))) as [|p r0] eqn:Er; [eauto|].
    destruct (absG_lru _ p r0 H Er) as (e & He & _). rewrite He. cbn [bind]. eauto.
  - (* peek_mru *) rewrite (b_mru_spec _ H). cbn [bind]. destruct (glist (bg b)) as [|m r0] eqn:El; [eauto|].
    destruct (absG_mru _ m r0 H El) as (e & He & _). rewrite He. cbn [bind]. eauto.
  - (* remove *) cbn [ents absB] in HA. fold (absG (bg b)) in HA. rewrite (b_find_rel _ q H) in HA.
    destruct (b_find (bg b) q) as [[a e]|] eqn:Ef; cbn [option_map snd] in HA; [|eauto].
    destruct (b_find_some _ _ _ _ H Ef) as (F1 & _). unfold removed_ev in HA. cbn [cur absB] in HA.
    destruct (remove_at_total b a e oB H F1) as [b' ->]; [destruct (sub64 (bcur b) (es e)); [discriminate|discriminate HA]|]. cbn [bind]. eauto.
  - cbn [ents absB] in HA. fold (absG (bg b)) in HA. rewrite (b_find_rel _ q H) in HA.
    destruct (b_find (bg b) q) as [[a e]|] eqn:Ef; cbn [option_map snd] in HA; [|eauto].
    destruct (b_find_some _ _ _ _ H Ef) as (F1 & _). unfold removed_ev in HA. cbn [cur absB] in HA.
    destruct (remove_at_total b a e oB H F1) as [b' ->]; [destruct (sub64 (bcur b) (es e)); [discriminate|discriminate HA]|]. cbn [bind]. eauto.
  - (* remove_lru *) rewrite (b_lru_spec _ H). cbn [bind]. cbn [ents absB] in HA. fold (absG (bg b)) in HA.
    destruct (rev (glist (bg b))) as [|p r0] eqn:Er; [eauto|].
    destruct (absG_lru _ p r0 H Er) as (e & He & Ab). rewrite He. cbn [bind]. rewrite Ab in HA. unfold removed_ev in HA. cbn [cur absB] in HA.
    assert (Hin : In p (glist (bg b))) by (apply in_rev; rewrite Er; now left).
    destruct (remove_at_total b p e oB H Hin) as [b' ->]; [destruct (sub64 (bcur b) (es e)); [discriminate|discriminate HA]|]. cbn [bind]. eauto.
  - (* remove_mru *) rewrite (b_mru_spec _ H). cbn [bind]. cbn [ents absB] in HA. fold (absG (bg b)) in HA.
    destruct (glist (bg b)) as [|m r0] eqn:El; [eauto|].
    destruct (absG_mru _ m r0 H El) as (e & He & Ab). rewrite He. cbn [bind]. rewrite Ab in HA.
    destruct (absl (gh (bg b)) r0 ++ [e]) as [|x0 xs] eqn:Eapp; [destruct (absl (gh (bg b)) r0); discriminate|]. rewrite <- Eapp, last_last in HA.
    unfold removed_ev in HA. cbn [cur absB] in HA.
    assert (Hin : In m (m :: r0)) by now left. rewrite <- El in Hin.
    destruct (remove_at_total b m e oB H Hin) as [b' ->]; [destruct (sub64 (bcur b) (es e)); [discriminate|discriminate HA]|]. cbn [bind]. eauto.
  - (* mutate *) unfold do_mutate in HA. unfold bB_mutate. cbn [maxs cur tb ents absB mut_orig fixed] in HA. fold (absG (bg b)) in HA.
    rewrite (b_find_rel _ q H) in HA. destruct (b_find (bg b) q) as [[a e]|] eqn:Ef; cbn [option_map snd] in HA; [|eauto].
    destruct (b_find_some _ _ _ _ H Ef) as (F1 & F2 & F3 & F4).
    set (v' := {| vtok := vtok (ev e); vtag := newtag; vheap := newheap |}) in *.
    destruct (msz VS (ev e)) as [oldv|]; [|discriminate]. cbn [bind] in *.
    destruct (msz VS v') as [newv|]; [|discriminate]. cbn [bind] in *.
    destruct (entry_at_node _ _ _ F2) as (n & Hn & Hp & Hs).
    assert (Esv : exists gm, b_set_val (bg b) a (ek e) v' = Some gm) by (unfold b_set_val, set_pay; rewrite Hn; cbn [bind]; eauto).
    destruct Esv as [gm Esv]. rewrite Esv. cbn [bind].
    destruct (P_set_val _ _ _ _ _ _ H F1 F2 Esv) as (M1 & M2 & M3 & M4 & M5 & M6).
    set (e1 := {| ek := ek e; ev := v'; es := es e |}) in *.
    destruct (inplace_abs (bg b) gm a e e1 H Hku F1 F2 M3 M4 M5 eq_refl) as [Hkum Hrm]. rewrite F3 in Hrm.
    assert (F1m : In a (glist gm)) by (rewrite M3; exact F1).
    destruct (oldv <? newv).
    + destruct (sub64 newv oldv) as [diff|]; [|discriminate]. cbn [bind] in *.
      destruct (add64 (es e) diff) as [nes|]; [|discriminate]. cbn [bind] in *.
      destruct (bmax b <? nes).
      * destruct (b_remove_RI gm a M1 F1m) as (g' & -> & _). cbn [bind]. destruct (sub64 (bcur b) (es e)); [cbn [bind]; eauto|discriminate].
      * destruct (b_touch_RI gm a M1 F1m) as (gt & Et & _). rewrite Et. cbn [bind].
        destruct (P_touch _ _ _ _ M1 Hkum F1m M4 Et) as (T1 & T2 & T3 & T4 & T5 & T6 & T7). cbn [ek e1] in T3, T4. rewrite F3 in T3, T4. rewrite Hrm in T3.
        assert (Hkut : NoDup (kids (absG gt))) by (rewrite T3; apply (kids_touch_nodup q _ e e1 Hku F4); exact F3).
        destruct (sub64 (bmax b) diff) as [tgt|]; [|discriminate]. cbn [bind] in *.
        pose proof (b_eject_total (length (glist gt)) gt (bcur b) tgt T1 Hkut (le_n _)) as Ht. rewrite T3 in Ht.
        destruct (eject (remove_id q (absG (bg b)) ++ [e1]) (bcur b) tgt) as [[[l1 c1] evd]|]; [|discriminate]. cbn [bind] in HA.
        destruct Ht as (g1 & Eg1 & A1). rewrite Eg1. cbn [bind].
        destruct (add64 c1 diff) as [c2|]; [|discriminate]. cbn [bind] in HA.
        destruct l1 as [|x0 xs]; [discriminate|].
        destruct (b_eject_refines _ _ _ _ _ _ _ T1 Hkut Eg1) as (_ & J2 & _ & _ & (gone & J5 & _) & _).
        assert (Hne : glist g1 <> []). { intros E0. pose proof (absG_length g1 J2) as Hl. rewrite A1, E0 in Hl. discriminate. }
        assert (Hin1 : In a (glist g1)).
        { destruct (glist g1) as [|a0 rest1]; [congruence|]. rewrite T5 in J5. cbn [app] in J5. injection J5 as <- _. now left. }
        destruct (RI_entry g1 a J2 Hin1) as [ex Hex].
        destruct (set_size_RI _ _ _ a nes J2 Hin1) as (h' & Ess & _). unfold b_set_size. rewrite Ess. cbn [bind]. eauto.
    + destruct (sub64 oldv newv) as [diff|]; [|discriminate]. cbn [bind] in *.
      destruct (sub64 (es e) diff) as [nes|]; [|discriminate]. cbn [bind] in *.
      destruct (set_size_RI _ _ _ a nes M1 F1m) as (h' & Ess & Hri'). unfold b_set_size at 1. rewrite Ess. cbn [bind].
      destruct (sub64 (bcur b) diff) as [c|]; [|discriminate]. cbn [bind] in *.
      set (g1 := {| gh := h'; gseal := gseal gm; glist := glist gm |}).
      destruct (b_touch_RI g1 a Hri' F1m) as (g2 & -> & _). cbn [bind]. eauto.
  - (* set_max_size *) cbn [ents cur tb absB] in HA. fold (absG (bg b)) in HA.
    pose proof (b_eject_total (length (glist (bg b))) (bg b) (bcur b) n H Hku (le_n _)) as Ht.
    destruct (eject (absG (bg b)) (bcur b) n) as [[[l1 c1] evd]|]; [|discriminate]. destruct Ht as (g1 & -> & _). cbn [bind]. eauto.
  - (* retain *) cbn [ents cur tb absB] in HA. fold (absG (bg b)) in HA.
    pose proof (b_lru_spec _ H) as Hl. unfold b_lru in Hl.
    destruct (prevof (gh (bg b)) (gseal (bg b))) as [t0|]; [|discriminate]. cbn [bind] in *.
    assert (Ht0 : t0 = match rev (glist (bg b)) with [] => gseal (bg b) | t :: _ => t end).
    { destruct (rev (glist (bg b))); destruct (N.eqb_spec t0 (gseal (bg b))); congruence. }
    rewrite Ht0.
    destruct (retain_total keep (rev (glist (bg b))) (length (glist (bg b))) (bg b) [] (bcur b) H Hku eq_refl) as [[[[g1 c1] gone] vis] ->]; [rewrite rev_length; lia| |cbn [bind]; eauto].
    fold (absl (gh (bg b)) (glist (bg b))). fold (absG (bg b)). unfold subs.
    destruct (fold_left _ _ (Some (bcur b))); [discriminate|discriminate HA].
  - (* clear *) destruct (P_reset _ H) as (g' & -> & _). cbn [bind]. eauto.
  - (* iter *) destruct (iter_items (bg b) pat H) as (cu & ys & items & -> & I2 & I3 & _). cbn [bind]. rewrite I2. cbn [bind]. rewrite I3. cbn [bind]. eauto.
  - (* drain *) destruct (P_drain (bg b) pat H) as (cu & h1 & h2 & h3 & items & -> & D2 & D3 & D4 & _). cbn [bind]. rewrite D2. cbn [bind]. rewrite D3. cbn [bind]. rewrite D4. cbn [bind]. eauto.
  - (* debug *) destruct (iter_items (bg b) (repeat true (length (glist (bg b)))) H) as (cu & ys & items & -> & I2 & I3 & _). cbn [bind]. rewrite I2. cbn [bind]. rewrite I3. cbn [bind]. eauto.
  - eauto. - eauto. - eauto. - eauto. - eauto.
Qed.
End Params.
