(* The representation invariant of the pointer structure as a Boolean function of what the
   snapshot hook reports (C07 monitor). RiCheckSound.v relates it to the invariant RI of Layer B. *)
Require Export LruV.Base.
Require Import LruV.A.MonitorsA.

Record onode := { oaddr : N; oprev : N; onext : N }.
Record ograph := { g_seal : N; g_seal_prev : N; g_seal_next : N;
                   g_nodes : list onode;       (* as walked from seal.next: MRU first *)
                   g_buckets : list N;         (* addresses of the FULL buckets of the table *)
                   g_len : N;                  (* table.len() *)
                   g_dangling : bool; g_overlong : bool }.

(* seal :: nodes ++ [seal] is a chain: next of each element is its successor, prev of the successor is it *)
Fixpoint chain_b (prev_addr : N) (prev_next : N) (l : list onode) (seal seal_prev : N) : bool :=
  match l with
  | [] => (prev_next =? seal) && (seal_prev =? prev_addr)
  | n :: r => (prev_next =? oaddr n) && (oprev n =? prev_addr) && chain_b (oaddr n) (onext n) r seal seal_prev
  end.

Definition ri_check (g : ograph) : bool :=
  negb (g_dangling g) && negb (g_overlong g) &&
  (N.of_nat (length (g_nodes g)) =? g_len g) &&
  chain_b (g_seal g) (g_seal_next g) (g_nodes g) (g_seal g) (g_seal_prev g) &&
  nodup_b (g_seal g :: map oaddr (g_nodes g)) &&
  perm_eqb (map oaddr (g_nodes g)) (g_buckets g).
