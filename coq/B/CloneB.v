(* Layer B: Clone, Drop and the owning iterators at pointer level.
   clone(): a new seal and table; the source list is walked from seal.prev along the prev links and every entry
   is cloned and linked at the head of the new list (insert_untracked) — in the SAME heap as the source, at bucket
   addresses the oracle supplies and the model checks to be unused by either cache.
   Theorem: the walk never faults on a coherent source, the source structure and content are untouched, the copy is
   coherent and its abstraction is Layer A's do_clone. *)
Require Import LruV.B.StepB LruV.B.OpsProps LruV.B.RefineLemmas LruV.B.RefineIter LruV.B.FrameB.

Fixpoint b_clone_walk (fuel : nat) (src : list addr) (nxt : addr) (gc : gstate) (addrs : list addr) (ren : N -> N) : option gstate :=
  if nxt =? hd 0 src then Some gc else
  match fuel with
  | O => None
  | S f =>
    e <- entry_at (gh gc) nxt ;;
    p <- prevof (gh gc) nxt ;;
    match addrs with
    | [] => None
    | a :: ar =>
      if mem_addr a src || mem_addr a (gseal gc :: glist gc) then None else
      let e' := clone_entry ren e in
      gc' <- b_insert_new gc a (es e') (PLive (ek e') (ev e')) ;;
      b_clone_walk f src p gc' ar ren
    end
  end.

Lemma clone_walk_spec ren seal_s ls : forall TA fuel DA gc addrs gc',
  RI (gh gc) seal_s ls -> RIg gc -> (forall x, In x (seal_s :: ls) -> ~ In x (gseal gc :: glist gc)) ->
  rev ls = DA ++ TA -> absG gc = map (clone_entry ren) (entries_of (gh gc) DA) -> (length TA <= fuel)%nat ->
  b_clone_walk fuel (seal_s :: ls) (match TA with [] => seal_s | t :: _ => t end) gc addrs ren = Some gc' ->
  RI (gh gc') seal_s ls /\ absl (gh gc') ls = absl (gh gc) ls /\ RIg gc' /\ gseal gc' = gseal gc /\
  absG gc' = map (clone_entry ren) (entries_of (gh gc) (DA ++ TA)) /\
  (forall x, In x (seal_s :: ls) -> ~ In x (gseal gc' :: glist gc')).
Proof.
  induction TA as [|t TA IH]; intros fuel DA gc addrs gc' Hsrc Hc Hdis Er Habs Hfuel Hb.
  - destruct fuel; cbn [b_clone_walk hd] in Hb; rewrite N.eqb_refl in Hb; injection Hb as <-; rewrite app_nil_r; auto 10.
  - set (gs := {| gh := gh gc; gseal := seal_s; glist := ls |}).
    assert (Hgs : RIg gs) by exact Hsrc.
    assert (Hin : In t ls) by (apply in_rev; rewrite Er; apply in_or_app; right; now left).
    assert (Hts : t <> seal_s) by (intros ->; destruct Hsrc as (Hn & _); apply NoDup_cons_iff in Hn as [Hs _]; tauto).
    destruct fuel as [|f]; [cbn in Hfuel; lia|]. cbn [b_clone_walk hd] in Hb. destruct (N.eqb_spec t seal_s) as [|_]; [tauto|].
    destruct (RI_entry gs t Hgs Hin) as [e He]. cbn [gh gs] in He. rewrite He in Hb. cbn [bind] in Hb.
    pose proof (prev_in_walk gs DA t TA Hgs Er) as Hp. cbn [gh gseal gs] in Hp. rewrite Hp in Hb. cbn [bind] in Hb.
    destruct addrs as [|a ar]; [discriminate|].
    destruct (mem_addr a (seal_s :: ls)) eqn:M1; [discriminate|]. destruct (mem_addr a (gseal gc :: glist gc)) eqn:M2; [discriminate|]. cbn [orb] in Hb.
    assert (Hf1 : ~ In a (seal_s :: ls)) by (intros Hi; apply mem_addr_spec in Hi; congruence).
    assert (Hf2 : ~ In a (gseal gc :: glist gc)) by (intros Hi; apply mem_addr_spec in Hi; congruence).
    set (e' := clone_entry ren e) in *.
    destruct (b_insert_new gc a (es e') (PLive (ek e') (ev e'))) as [gc1|] eqn:Ei; [|discriminate]. cbn [bind] in Hb.
    destruct (b_insert_new_RI gc a (es e') (ek e') (ev e') Hc Hf2) as (g2 & Ei' & H1 & Hs1 & Hl1 & _). rewrite Ei in Ei'. injection Ei' as <-.
    pose proof (b_insert_new_frame gc a _ _ gc1 Hc Hf2 Ei) as Hfr.
    pose proof (b_insert_new_abs gc a (es e') (ek e') (ev e') gc1 Hc Hf2 Ei) as Hab. fold (absG gc1) in Hab. fold (absG gc) in Hab.
    assert (Hsame : forall x, In x (seal_s :: ls) -> gh gc1 x = gh gc x).
    { intros x Hx. apply Hfr; [now apply Hdis|]. intros ->. tauto. }
    assert (Hsrc1 : RI (gh gc1) seal_s ls) by (apply (RI_frame (gh gc)); [exact Hsame|exact Hsrc]).
    assert (Hent : forall M, (forall x, In x M -> In x ls) -> entries_of (gh gc1) M = entries_of (gh gc) M).
    { induction M as [|x M IHM]; intros HM; [reflexivity|]. cbn [entries_of]. assert (Ex : entry_at (gh gc1) x = entry_at (gh gc) x) by (unfold entry_at; rewrite (Hsame x) by (right; apply HM; now left); reflexivity).
      rewrite Ex, IHM; [reflexivity|]. intros y Hy. apply HM. now right. }
    assert (Hdis1 : forall x, In x (seal_s :: ls) -> ~ In x (gseal gc1 :: glist gc1)).
    { intros x Hx Hi. rewrite Hs1, Hl1 in Hi. destruct Hi as [E0|[E0|Hi]].
      - apply (Hdis x Hx). now left.
      - subst x. tauto.
      - apply (Hdis x Hx). now right. }
    assert (Er' : rev ls = (DA ++ [t]) ++ TA) by (rewrite <- app_assoc; exact Er).
    assert (HDA : forall x, In x (DA ++ [t]) -> In x ls).
    { intros x Hx. apply in_rev. rewrite Er. apply in_app_or in Hx as [Hx|[<-|[]]]; apply in_or_app; [now left|right; now left]. }
    assert (Habs1 : absG gc1 = map (clone_entry ren) (entries_of (gh gc1) (DA ++ [t]))).
    { rewrite Hab, Habs, (Hent _ HDA), entries_of_app, map_app. cbn [entries_of]. rewrite He. cbn [map]. subst e'. reflexivity. }
    destruct (IH f (DA ++ [t]) gc1 ar gc' Hsrc1 H1 Hdis1 Er' Habs1) as (I1 & I2 & I3 & I4 & I5 & I6); [cbn in Hfuel; lia|exact Hb|].
    split; [exact I1|]. split; [|split; [exact I3|split; [congruence|split; [|exact I6]]]].
    + rewrite I2. unfold absl. apply Hent. intros x Hx. now apply in_rev.
    + rewrite I5, <- app_assoc. cbn [app]. apply f_equal. apply Hent. intros x Hx. apply in_rev. rewrite Er. exact Hx.
Qed.

Section Params.
Variables (E VS : N).

(* the new cache's seal: boxed, linked to itself; must be an unused address *)
Definition bB_clone (b : bstate) (seal_c : addr) (addrs : list addr) (ren : N -> N) : option (bstate * events) :=
  let g := bg b in
  match t_alloc E (capacity (btb b)) true with
  | AOk t =>
    if mem_addr seal_c (gseal g :: glist g) then None else
    match gh g seal_c with Some _ => None | None =>
    let h0 := upd (gh g) seal_c {| nprev := seal_c; nnext := seal_c; nsize := 0; npay := PSeal |} in
    t0 <- prevof h0 (gseal g) ;;
    gc <- b_clone_walk (length (glist g)) (gseal g :: glist g) t0 {| gh := h0; gseal := seal_c; glist := [] |} addrs ren ;;
    Some ({| bg := gc; bcur := bcur b; bmax := bmax b; btb := t |},
          {| e_evicted := []; e_dropped := []; e_hashes := N.of_nat (length (glist g)); e_rebuilt := false; e_visits := [] |})
    end
  | _ => None
  end.

Theorem clone_refines b seal_c addrs ren bc evs : RIg (bg b) -> bB_clone b seal_c addrs ren = Some (bc, evs) ->
  do_clone E (absB b) ren = Some (absB bc, evs) /\ RIg (bg bc) /\
  (* the source, read in the heap the copy lives in, is coherent and holds what it held *)
  RI (gh (bg bc)) (gseal (bg b)) (glist (bg b)) /\ absl (gh (bg bc)) (glist (bg b)) = absG (bg b) /\
  (forall x, In x (gseal (bg b) :: glist (bg b)) -> ~ In x (gseal (bg bc) :: glist (bg bc))).
Proof.
  intros H Hb. unfold bB_clone in Hb. unfold do_clone. cbn [tb absB].
  destruct (t_alloc E (capacity (btb b)) true) as [t| |]; try discriminate.
  destruct (mem_addr seal_c (gseal (bg b) :: glist (bg b))) eqn:Ms; [discriminate|].
  destruct (gh (bg b) seal_c) eqn:Hsc; [discriminate|].
  assert (Hfs : ~ In seal_c (gseal (bg b) :: glist (bg b))) by (intros Hi; apply mem_addr_spec in Hi; congruence).
  set (h0 := upd (gh (bg b)) seal_c {| nprev := seal_c; nnext := seal_c; nsize := 0; npay := PSeal |}) in *.
  assert (Hsame : forall x, In x (gseal (bg b) :: glist (bg b)) -> h0 x = gh (bg b) x) by (intros x Hx; apply upd_other; intros ->; tauto).
  assert (Hsrc0 : RI h0 (gseal (bg b)) (glist (bg b))) by (apply (RI_frame (gh (bg b))); [exact Hsame|exact H]).
  set (gs := {| gh := h0; gseal := gseal (bg b); glist := glist (bg b) |}).
  pose proof (b_lru_spec gs Hsrc0) as Hl. unfold b_lru in Hl. cbn [gh gseal glist gs] in Hl.
  destruct (prevof h0 (gseal (bg b))) as [t0|]; [|discriminate]. cbn [bind] in *.
  destruct (b_clone_walk _ _ t0 _ addrs ren) as [gc|] eqn:Ew; [|discriminate]. cbn [bind] in Hb. injection Hb as <- <-.
  assert (Ht0 : t0 = match rev (glist (bg b)) with [] => gseal (bg b) | t :: _ => t end).
  { destruct (rev (glist (bg b))); destruct (N.eqb_spec t0 (gseal (bg b))); congruence. }
  rewrite Ht0 in Ew.
  set (gc0 := {| gh := h0; gseal := seal_c; glist := [] |}) in *.
  assert (Hc0 : RIg gc0).
  { unfold RIg, gc0. cbn [gh gseal glist]. split; [constructor; [intros []|constructor]|]. split; [|split; [|intros ? []]].
    - cbn [app chain]. unfold nextof, prevof, h0. rewrite upd_same. auto.
    - unfold payof, h0. now rewrite upd_same. }
  destruct (clone_walk_spec ren (gseal (bg b)) (glist (bg b)) (rev (glist (bg b))) (length (glist (bg b))) [] gc0 addrs gc) as (C1 & C2 & C3 & C4 & C5 & C6); auto.
  - intros x Hx [E0|[]]. cbn [gseal gc0] in E0. subst x. tauto.
  - rewrite rev_length. lia.
  - cbn [app gh gc0] in C5, C2.
    assert (Hent : entries_of h0 (rev (glist (bg b))) = absG (bg b)).
    { unfold absG, absl. apply entries_of_same_on. intros x Hx. apply in_rev in Hx. unfold payof, sizeof_node. now rewrite (Hsame x (or_intror Hx)). }
    cbn [bg]. split; [|split; [exact C3|split; [exact C1|split; [|exact C6]]]].
    + unfold absB, len. cbn [bg bcur bmax btb ents cur maxs]. fold (absG gc). fold (absG (bg b)). rewrite C5, Hent, (absG_length _ H). reflexivity.
    + rewrite C2. exact Hent.
Qed.
End Params.

(* ---------- into_iter / into_keys / into_values, and Drop ---------- *)
(* the owning iterator: a TakingIterator over the cache it owns. Dropping it takes (and so drops) what is left, then
   forgets the buckets (clear_no_drop) so that the cache's own Drop finds nothing; forgetting it leaks the rest. *)
Definition kv_drops (kind : N) (items : list (option (key * val))) : list N :=
  flat_map (fun o => match o with None => [] | Some (k, v) =>
     if kind =? 1 then [vtok v] else if kind =? 2 then [ktok k] else [] end) items.

Definition bB_into_iter (b : bstate) (kind : N) (pat : list bool) (f : fin) : option (out * events) :=
  let g := bg b in
  cu <- cursor_new (gh g) (gseal g) (match glist g with [] => true | _ => false end) ;;
  x <- tk_run (gh g) cu pat ;;
  let '(h3, items) := x in
  let rest := live_entries h3 (rev (glist g)) in
  Some (OItems items,
        {| e_evicted := []; e_dropped := kv_drops kind items ++ (match f with FDrop => all_toks rest | FForget => [] end);
           e_hashes := 0; e_rebuilt := false; e_visits := [] |}).

(* Drop for LruCache: every listed bucket's pair is dropped (table.drain()), then the seal is freed *)
Definition bB_drop (b : bstate) : events :=
  {| e_evicted := []; e_dropped := all_toks (live_entries (gh (bg b)) (rev (glist (bg b)))); e_hashes := 0; e_rebuilt := false; e_visits := [] |}.

Lemma kv_drops_map kind outs : kv_drops kind (map (option_map kv) outs) = yielded_drops kind outs.
Proof.
  induction outs as [|o outs IH]; [reflexivity|]. unfold kv_drops, yielded_drops in *. cbn [map flat_map]. rewrite IH. f_equal.
  destruct o as [e|]; reflexivity.
Qed.

Theorem into_iter_refines b kind pat f o evs : RIg (bg b) -> bB_into_iter b kind pat f = Some (o, evs) ->
  do_into_iter (absB b) kind pat f = (o, evs).
Proof.
  intros H Hb. unfold bB_into_iter in Hb. unfold do_into_iter. cbn [ents absB]. fold (absG (bg b)).
  rewrite (cursor_new_start _ H) in Hb. cbn [bind] in Hb.
  pose proof H as (Hnd & Hc & _ & _).
  set (M := rev (glist (bg b))) in *.
  assert (HndM : NoDup M) by apply (RI_nodup_rev _ H).
  destruct (tk_spec pat M (gh (bg b)) 0 HndM (chain_linked _ _ _ Hnd Hc) (RI_live _ H)) as (h3 & Hr & (M1 & M2 & M3) & _ & _ & _).
  rewrite Hr in Hb. cbn [bind] in Hb. injection Hb as <- <-.
  rewrite (absG_map _ H), take_ends_map. fold M.
  assert (Hitems : map (fun o => match o with Some a => kv_at (gh (bg b)) a | None => None end) (fst (take_ends M pat))
                   = map (option_map kv) (map (option_map (entry_or_dummy (gh (bg b)))) (fst (take_ends M pat)))).
  { rewrite map_map. apply map_ext_in. intros [a|] Ha; [|reflexivity]. cbn [option_map].
    now destruct (live_entry _ a (RI_live _ H a (take_ends_in pat M a Ha))) as [_ ->]. }
  rewrite Hitems, kv_drops_map. f_equal. f_equal. f_equal.
  destruct f; [|reflexivity]. f_equal.
  rewrite (live_entries_after (gh (bg b)) h3 (somes (fst (take_ends M pat))) M).
  - rewrite <- (take_ends_rest_filter pat M HndM). symmetry. apply entries_of_live.
    intros a Ha. apply (RI_live _ H). rewrite (take_ends_rest_filter pat M HndM) in Ha. now apply filter_In in Ha as [? _].
  - intros x Hx. destruct (M1 x Hx) as (k & v & _ & Hp). eauto.
  - exact M2.
  - intros x. apply (tk_run_size pat _ _ h3 _ x Hr).
Qed.

Theorem drop_refines b : bB_drop b = do_drop (absB b).
Proof. unfold bB_drop, do_drop. now rewrite live_entries_eq. Qed.
