(* Layer B refines Layer A, part 2: the iterators (Iter, Debug, Drain) and clear. *)
Require Import LruV.B.StepB LruV.B.OpsProps LruV.B.RefineLemmas LruV.B.CursorB.

(* ---------- the cursor an iterator starts with ---------- *)
Lemma cursor_new_start g : RIg g ->
  cursor_new (gh g) (gseal g) (match glist g with [] => true | _ => false end) = Some (start (rev (glist g)) 0).
Proof.
  intros H. pose proof (b_lru_spec g H) as Hl. pose proof (b_mru_spec g H) as Hm. unfold b_lru, b_mru in *.
  destruct (glist g) as [|m l'] eqn:El; [reflexivity|]. unfold cursor_new.
  destruct (prevof (gh g) (gseal g)) as [p|]; [|discriminate]. destruct (nextof (gh g) (gseal g)) as [x|]; [|discriminate]. cbn [bind] in *.
  destruct (rev (m :: l')) as [|z r] eqn:Er; [apply (f_equal (@length _)) in Er; rewrite rev_length in Er; discriminate|].
  destruct (N.eqb_spec p (gseal g)); [discriminate|]. destruct (N.eqb_spec x (gseal g)); [discriminate|].
  injection Hl as ->. injection Hm as ->. cbn [start]. f_equal. f_equal.
  rewrite <- Er. cbn [rev]. now rewrite last_last.
Qed.

(* ---------- reading the entries of the addresses an iterator yields ---------- *)
Lemma take_ends_in {A} (pat : list bool) : forall (M : list A) a, In (Some a) (fst (take_ends M pat)) -> In a M.
Proof.
  induction pat as [|f p IH]; intros M a Hin; cbn [take_ends] in Hin; [destruct Hin|].
  destruct M as [|x M'].
  - destruct f; rewrite take_ends_nil in Hin; cbn [fst] in Hin; destruct Hin as [Hin|Hin]; try discriminate; apply repeat_spec in Hin; discriminate.
  - destruct f.
    + specialize (IH M' a). destruct (take_ends M' p) as [o m]. cbn [fst] in *. destruct Hin as [[= ->]|Hin]; [now left|right; auto].
    + specialize (IH (removelast (x :: M')) a). destruct (take_ends (removelast (x :: M')) p) as [o m]. cbn [fst] in *.
      assert (Hne : x :: M' <> []) by discriminate. rewrite (app_removelast_last x Hne).
      destruct Hin as [[= <-]|Hin]; [apply in_or_app; right; now left|apply in_or_app; left; auto].
Qed.

Lemma kvs_of_spec h outs : (forall a, In (Some a) outs -> live h a) ->
  kvs_of h outs = Some (map (option_map (fun a => kv (entry_or_dummy h a))) outs).
Proof.
  induction outs as [|o outs IH]; intros Hl; [reflexivity|]. cbn [kvs_of map].
  assert (Ho : kv_of h o = Some (option_map (fun a => kv (entry_or_dummy h a)) o)).
  { destruct o as [a|]; [|reflexivity]. cbn [kv_of option_map]. destruct (live_entry h a (Hl a (or_introl eq_refl))) as [-> _]. reflexivity. }
  rewrite Ho. cbn [bind]. rewrite IH; [reflexivity|]. intros a Ha. apply Hl. now right.
Qed.

Lemma RI_live g : RIg g -> forall a, In a (rev (glist g)) -> live (gh g) a.
Proof. intros (_ & _ & _ & Hl) a Ha. apply Hl. now apply in_rev. Qed.
Lemma RI_nodup_rev g : RIg g -> NoDup (rev (glist g)).
Proof. intros (Hnd & _). apply NoDup_rev. now apply NoDup_cons_iff in Hnd as [_ ?]. Qed.
Lemma absG_map g : RIg g -> absG g = map (entry_or_dummy (gh g)) (rev (glist g)).
Proof. intros H. unfold absG, absl. apply entries_of_live, RI_live, H. Qed.

(* iter(): the items are Layer A's *)
Lemma iter_items g pat : RIg g ->
  exists cu ys items, cursor_new (gh g) (gseal g) (match glist g with [] => true | _ => false end) = Some cu /\
    it_run (gh g) cu pat = Some ys /\ kvs_of (gh g) ys = Some items /\
    items = map (option_map kv) (fst (take_ends (absG g) pat)).
Proof.
  intros H. pose proof H as (Hnd & Hc & _). exists (start (rev (glist g)) 0), (fst (take_ends (rev (glist g)) pat)).
  eexists. split; [apply cursor_new_start, H|]. split; [apply iter_spec; [apply RI_nodup_rev, H|apply (chain_linked _ _ _ Hnd Hc)]|].
  split.
  - apply kvs_of_spec. intros a Ha. apply (RI_live g H). now apply (take_ends_in pat).
  - rewrite (absG_map g H), take_ends_map. cbn [fst]. rewrite map_map. apply map_ext. intros [a|]; reflexivity.
Qed.

(* ---------- clear / Drain::new: the seal linked to itself, every bucket released ---------- *)
Lemma fold_free_other l : forall h b, ~ In b l -> fold_left free l h b = h b.
Proof. induction l as [|a l IH]; intros h b Hn; cbn [fold_left]; [reflexivity|]. rewrite IH by (intros Hi; apply Hn; now right). apply free_other. intros ->. apply Hn. now left. Qed.
Lemma fold_free_none l : forall h b, h b = None -> fold_left free l h b = None.
Proof. induction l as [|a l IH]; intros h b Hb; cbn [fold_left]; [exact Hb|]. apply IH. unfold free. destruct (N.eqb b a); [reflexivity|exact Hb]. Qed.

Lemma reset_RI h seal l : payof h seal = Some PSeal -> nextof h seal = Some seal -> prevof h seal = Some seal -> ~ In seal l ->
  RI (fold_left free l h) seal [].
Proof.
  intros Hp Hn Hv Hs. split; [constructor; [intros []|constructor]|]. split; [|split; [|intros ? []]].
  - cbn [app chain]. unfold nextof, prevof in *. rewrite !(fold_free_other l h seal Hs). auto.
  - unfold payof in *. now rewrite (fold_free_other l h seal Hs).
Qed.

Lemma seal_self h seal : payof h seal = Some PSeal ->
  exists h1 h2, set_next h seal seal = Some h1 /\ set_prev h1 seal seal = Some h2 /\
    payof h2 seal = Some PSeal /\ nextof h2 seal = Some seal /\ prevof h2 seal = Some seal /\
    (forall b, b <> seal -> h2 b = h b).
Proof.
  intros Hp. unfold payof in Hp. destruct (h seal) as [n|] eqn:En; [|discriminate]. injection Hp as Hp.
  unfold set_next. rewrite En. eexists. unfold set_prev. rewrite upd_same. eexists. split; [reflexivity|]. split; [reflexivity|].
  unfold payof, nextof, prevof. rewrite !upd_same. cbn [npay nnext nprev]. rewrite Hp. repeat split; auto.
  intros b Hb. now rewrite !upd_other.
Qed.

Lemma P_reset g : RIg g -> exists g', b_reset g = Some g' /\ RIg g' /\ gseal g' = gseal g /\ glist g' = [].
Proof.
  intros (Hnd & _ & Hps & _). destruct (seal_self (gh g) (gseal g) Hps) as (h1 & h2 & E1 & E2 & A1 & A2 & A3 & _).
  unfold b_reset. rewrite E1. cbn [bind]. rewrite E2. cbn [bind]. eexists. split; [reflexivity|]. unfold RIg. cbn [gh gseal glist].
  split; [|auto]. apply reset_RI; auto. now apply NoDup_cons_iff in Hnd as [? _].
Qed.

(* ---------- drain ---------- *)
Lemma take_ends_rest_nil {A} pat : snd (take_ends (@nil A) pat) = [].
Proof. now rewrite take_ends_nil. Qed.

Lemma filter_notin_all (taken : list addr) M : (forall x, In x M -> ~ In x taken) -> filter (fun x => negb (mem_addr x taken)) M = M.
Proof.
  induction M as [|x M IH]; intros Hn; [reflexivity|]. cbn [filter].
  destruct (mem_addr x taken) eqn:Em; [apply mem_addr_spec in Em; exfalso; apply (Hn x); [now left|exact Em]|].
  cbn [negb]. rewrite IH; [reflexivity|]. intros y Hy. apply Hn. now right.
Qed.

Lemma take_ends_rest_filter pat : forall M : list addr, NoDup M ->
  snd (take_ends M pat) = filter (fun x => negb (mem_addr x (somes (fst (take_ends M pat))))) M.
Proof.
  induction pat as [|f p IH]; intros M Hnd.
  - cbn [take_ends fst snd]. unfold somes. cbn [flat_map]. symmetry. apply filter_notin_all. intros x _ [].
  - destruct M as [|a M']; [rewrite take_ends_rest_nil; reflexivity|]. destruct f; cbn [take_ends].
    + apply NoDup_cons_iff in Hnd as [Ha Hnd']. specialize (IH M' Hnd'). destruct (take_ends M' p) as [o m]. cbn [fst snd] in *.
      unfold somes. cbn [flat_map app]. fold (somes o). cbn [filter]. unfold mem_addr at 1. cbn [existsb]. rewrite N.eqb_refl. cbn [orb negb].
      rewrite IH. apply filter_ext_in. intros x Hx. unfold mem_addr. cbn [existsb].
      destruct (N.eqb_spec x a) as [->|]; [tauto|reflexivity].
    + assert (Hne : a :: M' <> []) by discriminate. pose proof (app_removelast_last a Hne) as Esplit.
      set (R := removelast (a :: M')) in *. set (z := last (a :: M') a) in *.
      assert (HndR : NoDup R /\ ~ In z R). { rewrite Esplit in Hnd. apply NoDup_remove in Hnd. now rewrite app_nil_r in Hnd. }
      destruct HndR as [HndR Hz]. specialize (IH R HndR). destruct (take_ends R p) as [o m]. cbn [fst snd] in *.
      rewrite Esplit. rewrite filter_app. cbn [filter].
      unfold somes. cbn [flat_map app]. fold (somes o). unfold mem_addr at 2. cbn [existsb]. rewrite N.eqb_refl. cbn [orb negb]. rewrite app_nil_r.
      rewrite IH. apply filter_ext_in. intros x Hx. unfold mem_addr. cbn [existsb].
      destruct (N.eqb_spec x z) as [->|]; [tauto|reflexivity].
Qed.

Lemma take_at_size h a h' r b : take_at h a = Some (h', r) -> sizeof_node h' b = sizeof_node h b.
Proof.
  unfold take_at. destruct (h a) as [n|] eqn:Ea; [|discriminate]. destruct (npay n); try discriminate. intros [= <- _].
  unfold sizeof_node, upd. destruct (N.eqb_spec b a) as [->|]; [now rewrite Ea|reflexivity].
Qed.
Lemma tk_run_size : forall pat h s h' items b, tk_run h s pat = Some (h', items) -> sizeof_node h' b = sizeof_node h b.
Proof.
  induction pat as [|f p IH]; intros h s h' items b Hr; cbn [tk_run] in Hr; [now injection Hr as <- _|].
  assert (Hstep : forall st, (if f then tk_next h s else tk_next_back h s) = Some st -> sizeof_node (fst (fst st)) b = sizeof_node h b).
  { intros [[h1 o] s1] Hs. cbn [fst]. destruct f; unfold tk_next, tk_next_back in Hs; destruct (c_next s) as [x|]; try (now injection Hs as <- _ _).
    - destruct (take_at h x) as [[h2 r]|] eqn:Et; [|discriminate]. cbn [bind fst snd] in Hs.
      destruct (N.eqb x (c_back s)); [|destruct (prevof h x); [|discriminate]]; cbn [bind] in Hs; injection Hs as <- _ _; apply (take_at_size _ _ _ _ _ Et).
    - destruct (take_at h (c_back s)) as [[h2 r]|] eqn:Et; [|discriminate]. cbn [bind fst snd] in Hs.
      destruct (N.eqb (c_back s) x); [|destruct (nextof h (c_back s)); [|discriminate]]; cbn [bind] in Hs; injection Hs as <- _ _; apply (take_at_size _ _ _ _ _ Et). }
  destruct (if f then tk_next h s else tk_next_back h s) as [[[h1 o] s1]|] eqn:Es; [|discriminate]. cbn [bind] in Hr.
  destruct (tk_run h1 s1 p) as [[h2 it]|] eqn:Er; [|discriminate]. cbn [bind fst snd] in Hr. injection Hr as <- _.
  rewrite (IH h1 s1 h2 it b Er). apply (Hstep _ eq_refl).
Qed.

(* what the run leaves in the buckets: exactly the entries not handed out, as they were *)
Lemma live_entries_after h h' taken M :
  (forall b, In b taken -> exists k v, payof h' b = Some (PMoved k v)) ->
  (forall b, ~ In b taken -> payof h' b = payof h b) ->
  (forall b, sizeof_node h' b = sizeof_node h b) ->
  live_entries h' M = entries_of h (filter (fun x => negb (mem_addr x taken)) M).
Proof.
  intros H1 H2 H3. induction M as [|x M IH]; [reflexivity|]. cbn [live_entries filter].
  destruct (mem_addr x taken) eqn:Em; cbn [negb].
  - apply mem_addr_spec in Em. destruct (H1 x Em) as (k & v & Hp). unfold payof in Hp. destruct (h' x) as [n|]; [|discriminate]. injection Hp as ->. exact IH.
  - assert (Hn : ~ In x taken) by (intros Hi; apply mem_addr_spec in Hi; congruence).
    cbn [entries_of]. rewrite <- (entry_at_frame h h' x (H2 x Hn) (H3 x)). rewrite <- IH. unfold entry_at.
    destruct (h' x) as [n|]; [|reflexivity]. destruct (npay n); reflexivity.
Qed.

Lemma P_drain g pat : RIg g ->
  exists cu h1 h2 h3 items,
    cursor_new (gh g) (gseal g) (match glist g with [] => true | _ => false end) = Some cu /\
    set_next (gh g) (gseal g) (gseal g) = Some h1 /\ set_prev h1 (gseal g) (gseal g) = Some h2 /\
    tk_run h2 cu pat = Some (h3, items) /\
    items = map (option_map kv) (fst (take_ends (absG g) pat)) /\
    live_entries h3 (rev (glist g)) = snd (take_ends (absG g) pat) /\
    RI (fold_left free (glist g) h3) (gseal g) [].
Proof.
  intros H. pose proof H as (Hnd & Hc & Hps & Hlive).
  destruct (seal_self (gh g) (gseal g) Hps) as (h1 & h2 & E1 & E2 & A1 & A2 & A3 & A4).
  set (M := rev (glist g)).
  assert (Hs : ~ In (gseal g) (glist g)) by now apply NoDup_cons_iff in Hnd as [? _].
  assert (HsM : forall a, In a M -> a <> gseal g) by (intros a Ha ->; apply Hs; now apply in_rev).
  assert (HndM : NoDup M) by apply (RI_nodup_rev g H).
  assert (Hlk : linked h2 M).
  { pose proof (chain_linked _ _ _ Hnd Hc) as Hl. intros L1 a b L2 EL. destruct (Hl L1 a b L2 EL) as [P1 P2].
    assert (Ia : In a M) by (rewrite EL; apply in_or_app; right; now left).
    assert (Ib : In b M) by (rewrite EL; apply in_or_app; right; right; now left).
    unfold prevof, nextof in *. rewrite (A4 a (HsM a Ia)), (A4 b (HsM b Ib)). auto. }
  assert (HliveM : forall a, In a M -> live h2 a).
  { intros a Ha. destruct (RI_live g H a Ha) as (k & v & Hp). exists k, v. unfold payof in *. now rewrite (A4 a (HsM a Ha)). }
  destruct (tk_spec pat M h2 0 HndM Hlk HliveM) as (h3 & Hr & (M1 & M2 & M3) & _ & _ & _).
  exists (start M 0), h1, h2, h3. eexists. split; [apply cursor_new_start, H|]. split; [exact E1|]. split; [exact E2|]. split; [exact Hr|].
  assert (Hf : forall a, In a M -> entry_or_dummy h2 a = entry_or_dummy (gh g) a /\ kv_at h2 a = kv_at (gh g) a).
  { intros a Ha. unfold entry_or_dummy, entry_at, kv_at, payof. now rewrite (A4 a (HsM a Ha)). }
  split; [|split].
  - rewrite (absG_map g H), take_ends_map. cbn [fst]. rewrite map_map. apply map_ext_in. intros [a|] Ha; [|reflexivity]. cbn [option_map].
    assert (Ia : In a M) by now apply (take_ends_in pat).
    destruct (Hf a Ia) as [_ ->]. now destruct (live_entry (gh g) a (RI_live g H a Ia)) as [_ ->].
  - rewrite (live_entries_after h2 h3 (somes (fst (take_ends M pat))) M).
    + rewrite <- (take_ends_rest_filter pat M HndM). rewrite (absG_map g H), take_ends_map. cbn [snd].
      assert (Hsub : forall a, In a (snd (take_ends M pat)) -> In a M).
      { intros a Ha. rewrite (take_ends_rest_filter pat M HndM) in Ha. now apply filter_In in Ha as [? _]. }
      rewrite (entries_of_live h2); [|intros a Ha; apply HliveM, Hsub, Ha].
      apply map_ext_in. intros a Ha. now destruct (Hf a (Hsub a Ha)) as [-> _].
    + intros b Hb. destruct (M1 b Hb) as (k & v & _ & Hp). eauto.
    + exact M2.
    + intros b. apply (tk_run_size pat h2 _ h3 _ b Hr).
  - apply reset_RI; auto.
    + rewrite M2; [exact A1|]. intros Hi. destruct (M1 _ Hi) as (k & v & Hk & _). unfold kv_at in Hk. rewrite A1 in Hk. discriminate.
    + destruct (M3 (gseal g)) as [-> _]. exact A2.
    + destruct (M3 (gseal g)) as [_ ->]. exact A3.
Qed.
