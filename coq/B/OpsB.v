(* Layer B, executable pointer-level operations composed from the primitives of Heap.v exactly as
   src/lib.rs composes them. They are extracted and run on the pointer graph the hook reports: for every
   observed step, the links and recorded sizes the implementation left behind must be the ones these
   definitions produce from the graph before the step (B-level step-wise simulation, component `bsim`).
   Definitions only. *)
Require Export LruV.B.Heap.

Record gstate := { gh : heap; gseal : addr; glist : list addr (* most-recently-used first *) }.

Fixpoint remove_addr (a : addr) (l : list addr) : list addr :=
  match l with [] => [] | b :: r => if N.eqb b a then r else b :: remove_addr a r end.

(* touch_ptr: get / get_entry / touch / get_lru / mutate *)
Definition b_touch (g : gstate) (a : addr) : option gstate :=
  h' <- touch_ptr (gh g) (gseal g) a ;;
  Some {| gh := h'; gseal := gseal g; glist := a :: remove_addr a (glist g) |}.

(* remove_from_table + Entry::unhinge: the entry leaves the list; its bucket is no longer FULL *)
Definition b_remove (g : gstate) (a : addr) : option gstate :=
  h' <- unhinge (gh g) a ;;
  Some {| gh := free h' a; gseal := gseal g; glist := remove_addr a (glist g) |}.

(* insert_into_table + set_head: Entry::new(entry, seal, seal.next) written to bucket a, then linked at the head *)
Definition b_insert_new (g : gstate) (a : addr) (sz : N) (p : payload) : option gstate :=
  x <- nextof (gh g) (gseal g) ;;
  let h0 := upd (gh g) a {| nprev := gseal g; nnext := x; nsize := sz; npay := p |} in
  h' <- set_head h0 (gseal g) a ;;
  Some {| gh := h'; gseal := gseal g; glist := a :: glist g |}.

(* one step of move_to_table with the bucket address the new table chose *)
Definition b_move (g : gstate) (a a' : addr) : option gstate :=
  h' <- move (gh g) a a' ;;
  Some {| gh := h'; gseal := gseal g; glist := map (fun b => if N.eqb b a then a' else b) (glist g) |}.
Fixpoint b_moves (g : gstate) (pairs : list (addr * addr)) : option gstate :=
  match pairs with [] => Some g | (a, a') :: r => g' <- b_move g a a' ;; b_moves g' r end.

Definition b_set_size (g : gstate) (a : addr) (sz : N) : option gstate :=
  h' <- set_size (gh g) a sz ;; Some {| gh := h'; gseal := gseal g; glist := glist g |}.

(* clear / Drain::new: seal.next = seal.prev = seal; every bucket released *)
Definition b_reset (g : gstate) : option gstate :=
  h1 <- set_next (gh g) (gseal g) (gseal g) ;;
  h2 <- set_prev h1 (gseal g) (gseal g) ;;
  Some {| gh := fold_left free (glist g) h2; gseal := gseal g; glist := [] |}.

Fixpoint b_removes (g : gstate) (l : list addr) : option gstate :=
  match l with [] => Some g | a :: r => g' <- b_remove g a ;; b_removes g' r end.

(* reading the result back: (addr, prev, next, size) of every listed node, MRU first, plus the seal's links *)
Definition b_links (g : gstate) : list (addr * option addr * option addr * option N) :=
  (gseal g, prevof (gh g) (gseal g), nextof (gh g) (gseal g), Some 0) ::
  map (fun a => (a, prevof (gh g) a, nextof (gh g) a, sizeof_node (gh g) a)) (glist g).
