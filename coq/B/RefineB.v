(* Layer B refines Layer A: every public operation of B/StepB.v (the pointer-level composition src/lib.rs performs),
   started in a state whose heap satisfies the representation invariant, ends in such a state, and its result, its
   events and the abstraction of its final state are exactly what Layer A's stepA computes from the abstraction of
   the initial state — for every oracle (bucket choices included) and with no bound on the size of the cache. *)
Require Import LruV.B.StepB LruV.B.OpsProps LruV.B.RefineLemmas LruV.B.RefineIter LruV.A.OrderA LruV.A.ListLemmas.

Section Params.
Variables (E VS : N).

Definition RIb (b : bstate) : Prop := RIg (bg b).
Definition KU (b : bstate) : Prop := NoDup (kids (absG (bg b))).     (* keys unique: part of Layer A's invariant *)

Lemma absB_ents b : ents (absB b) = absG (bg b). Proof. reflexivity. Qed.
Lemma absB_set b g c t : absB (set_b b g c t) = set_ents (absB b) (absG g) c t. Proof. reflexivity. Qed.

Lemma insert_refines b k v oB b' o evs : RIb b -> KU b -> bB_insert E b k v oB = Some (b', o, evs) ->
  do_insert E (absB b) k v (ob oB) = Some (absB b', o, evs) /\ RIb b' /\ gseal (bg b') = gseal (bg b).
Proof.
  intros H Hku Hb. unfold bB_insert in Hb. unfold do_insert. cbn [maxs cur tb ents absB].
  destruct (esz E k v) as [sz|]; [|discriminate]. cbn [bind] in *.
  destruct (bmax b <? sz); [injection Hb as <- <- <-; auto|].
  fold (absG (bg b)).
  assert (Hold : exists g0, match b_find (bg b) (kid k) with Some (a, _) => b_remove (bg b) a | None => Some (bg b) end = Some g0 /\
            RIg g0 /\ gseal g0 = gseal (bg b) /\ NoDup (kids (absG g0)) /\ absG g0 = remove_id (kid k) (absG (bg b)) /\
            find_id (kid k) (absG (bg b)) = option_map snd (b_find (bg b) (kid k))).
  { destruct (b_find (bg b) (kid k)) as [[a e]|] eqn:Ef.
    - destruct (b_find_some _ _ _ _ H Ef) as (F1 & F2 & F3 & F4).
      destruct (b_remove (bg b) a) as [g0|] eqn:Er; [|discriminate].
      destruct (P_remove _ _ _ _ H Hku F1 F2 Er) as (R1 & R2 & R3 & R4 & _). rewrite F3 in R3. exists g0. auto 10.
    - pose proof (b_find_none _ _ H Ef) as Fn. destruct (find_id_none _ _ Fn) as [Rm _]. exists (bg b). rewrite Rm. auto 10. }
  destruct Hold as (g0 & Eg0 & H0 & Hs0 & Hku0 & Ha0 & Hfind). rewrite Eg0 in Hb. cbn [bind] in Hb. rewrite Hfind.
  assert (Tail : forall c0 old (dropped : list N),
     (tgt <- sub64 (bmax b) sz ;; x <- b_eject (length (glist g0)) g0 c0 tgt ;;
      let '(g1, c1, evd) := x in
      y <- b_insert_unchecked E g1 (t_erase (btb b) (o_tomb (ob oB))) k v sz oB ;;
      let '(g2, t2, rebuilt) := y in
      c2 <- add64 c1 sz ;;
      Some (set_b b g2 c2 t2, OInsOk old,
            {| e_evicted := evd; e_dropped := dropped ++ all_toks evd;
               e_hashes := 1 + N.of_nat (length evd) + (if rebuilt : bool then N.of_nat (length (glist g1)) else 0);
               e_rebuilt := rebuilt; e_visits := [] |})) = Some (b', o, evs) ->
     (tgt <- sub64 (bmax b) sz ;; x <- eject (absG g0) c0 tgt ;;
      let '(l1, c1, evd) := x in
      ti <- t_insert E (t_erase (btb b) (o_tomb (ob oB))) (N.of_nat (length l1)) (ob oB) ;;
      let '(t2, rebuilt) := ti in
      c2 <- add64 c1 sz ;;
      Some (set_ents (absB b) (l1 ++ [{| ek := k; ev := v; es := sz |}]) c2 t2, OInsOk old,
            {| e_evicted := evd; e_dropped := dropped ++ all_toks evd;
               e_hashes := 1 + N.of_nat (length evd) + (if rebuilt : bool then N.of_nat (length l1) else 0);
               e_rebuilt := rebuilt; e_visits := [] |})) = Some (absB b', o, evs) /\ RIb b' /\ gseal (bg b') = gseal (bg b)).
  { intros c0 old dropped Hb'. destruct (sub64 (bmax b) sz) as [tgt|]; [|discriminate]. cbn [bind] in *.
    destruct (b_eject (length (glist g0)) g0 c0 tgt) as [[[g1 c1] evd]|] eqn:Eej; [|discriminate]. cbn [bind] in Hb'.
    destruct (b_eject_refines _ _ _ _ _ _ _ H0 Hku0 Eej) as (J1 & J2 & J3 & J4 & _). rewrite J1. cbn [bind].
    destruct (b_insert_unchecked E g1 _ k v sz oB) as [[[g2 t2] rebuilt]|] eqn:Eiu; [|discriminate]. cbn [bind] in Hb'.
    destruct (b_insert_unchecked_refines E _ _ _ _ _ _ _ _ _ J2 Eiu) as (K1 & K2 & K3 & K4). rewrite K1. cbn [bind].
    destruct (add64 c1 sz) as [c2|]; [|discriminate]. cbn [bind] in *. injection Hb' as <- <- <-.
    rewrite (absG_length g1 J2), absB_set, K4. split; [reflexivity|split; [exact K2|]]. change (gseal g2 = gseal (bg b)). congruence. }
  rewrite <- Ha0.
  destruct (b_find (bg b) (kid k)) as [[a e]|]; cbn [option_map snd fst] in *.
  - destruct (sub64 (bcur b) (es e)) as [c0|]; [|discriminate]. cbn [bind] in *. apply (Tail c0 (Some (ev e)) [ktok (ek e)] Hb).
  - apply (Tail (bcur b) None [] Hb).
Qed.

Lemma try_insert_refines b k v oB b' o evs : RIb b -> KU b -> bB_try_insert E b k v oB = Some (b', o, evs) ->
  do_try_insert E (absB b) k v (ob oB) = Some (absB b', o, evs) /\ RIb b' /\ gseal (bg b') = gseal (bg b).
Proof.
  intros H Hku Hb. unfold bB_try_insert in Hb. unfold do_try_insert. cbn [maxs cur tb ents absB].
  destruct (esz E k v) as [sz|]; [|discriminate]. cbn [bind] in *.
  destruct (bmax b <? sz); [injection Hb as <- <- <-; auto|].
  destruct (sub64 (bmax b) (bcur b)) as [free|]; [|discriminate]. cbn [bind] in *.
  destruct (free <? sz); [injection Hb as <- <- <-; auto|].
  fold (absG (bg b)).
  destruct (b_find (bg b) (kid k)) as [[a e]|] eqn:Ef.
  - destruct (b_find_some _ _ _ _ H Ef) as (_ & _ & _ & F4). rewrite F4. injection Hb as <- <- <-. auto.
  - rewrite (b_find_none _ _ H Ef).
    destruct (b_insert_unchecked E (bg b) (btb b) k v sz oB) as [[[g2 t2] rebuilt]|] eqn:Eiu; [|discriminate]. cbn [bind] in Hb.
    destruct (b_insert_unchecked_refines E _ _ _ _ _ _ _ _ _ H Eiu) as (K1 & K2 & K3 & K4).
    unfold len. cbn [ents absB]. fold (absG (bg b)). rewrite K1. cbn [bind].
    destruct (add64 (bcur b) sz) as [c2|]; [|discriminate]. cbn [bind] in *. injection Hb as <- <- <-.
    rewrite (absG_length (bg b) H), absB_set, K4. split; [reflexivity|split; [exact K2|exact K3]].
Qed.

Lemma touch_refines b q b' r : RIb b -> KU b -> bB_touch b q = Some (b', r) ->
  do_touch (absB b) q = (absB b', r) /\ RIb b' /\ gseal (bg b') = gseal (bg b).
Proof.
  intros H Hku Hb. unfold bB_touch in Hb. unfold do_touch. cbn [ents absB]. fold (absG (bg b)).
  destruct (b_find (bg b) q) as [[a e]|] eqn:Ef.
  - destruct (b_find_some _ _ _ _ H Ef) as (F1 & F2 & F3 & F4). rewrite F4.
    destruct (b_touch (bg b) a) as [g'|] eqn:Et; [|discriminate]. cbn [bind] in Hb. injection Hb as <- <-.
    destruct (P_touch _ _ _ _ H Hku F1 F2 Et) as (T1 & T2 & T3 & _). rewrite F3 in T3.
    rewrite absB_set, T3. auto.
  - rewrite (b_find_none _ _ H Ef). injection Hb as <- <-. auto.
Qed.

Lemma remove_at_refines b a e oB b' la : RIb b -> KU b -> In a (glist (bg b)) -> entry_at (gh (bg b)) a = Some e ->
  la = remove_id (kid (ek e)) (absG (bg b)) ->
  bB_remove_at b a e oB = Some b' ->
  removed_ev e (ob oB) (absB b) la = Some (absB b', hashed 1) /\ RIb b' /\ gseal (bg b') = gseal (bg b).
Proof.
  intros H Hku Hin He -> Hb. unfold bB_remove_at in Hb. unfold removed_ev. cbn [cur tb absB].
  destruct (b_remove (bg b) a) as [g'|] eqn:Er; [|discriminate]. cbn [bind] in Hb.
  destruct (sub64 (bcur b) (es e)) as [c|]; [|discriminate]. cbn [bind] in *. injection Hb as <-.
  destruct (P_remove _ _ _ _ H Hku Hin He Er) as (R1 & R2 & R3 & _). rewrite absB_set, R3. auto.
Qed.

(* ---------- mutate ---------- *)
Lemma kids_touch_nodup q l e e1 : NoDup (kids l) -> find_id q l = Some e -> kid (ek e1) = q -> NoDup (kids (remove_id q l ++ [e1])).
Proof.
  intros Hnd Hf Hk. destruct (find_id_some _ _ _ Hf) as (la & lb & El & Er & Hke & _). rewrite Er. rewrite El in Hnd.
  rewrite kids_app in Hnd. cbn [kids map] in Hnd. apply NoDup_app_remove_mid in Hnd as [Hnd1 Hnd2].
  rewrite kids_app. cbn [kids map]. rewrite Hk, <- Hke. apply NoDup_snoc; rewrite kids_app; auto.
Qed.

Lemma inplace_abs g g' a e e1 : RIg g -> NoDup (kids (absG g)) -> In a (glist g) -> entry_at (gh g) a = Some e ->
  glist g' = glist g -> entry_at (gh g') a = Some e1 -> (forall b, b <> a -> entry_at (gh g') b = entry_at (gh g) b) ->
  kid (ek e1) = kid (ek e) ->
  NoDup (kids (absG g')) /\ remove_id (kid (ek e)) (absG g') = remove_id (kid (ek e)) (absG g).
Proof.
  intros H Hku Hin He Hl He1 Hfr Hk. destruct (glist_split g a H Hin) as (l1 & l2 & El & Hn1 & Hn2).
  pose proof (absG_at g l1 a l2 e El He) as A0. assert (El' : glist g' = l1 ++ a :: l2) by congruence.
  pose proof (absG_at g' l1 a l2 e1 El' He1) as A1.
  rewrite (absl_frame (gh g) (gh g') l1), (absl_frame (gh g) (gh g') l2) in A1 by (intros b Hb; apply Hfr; intros ->; tauto).
  rewrite A0 in Hku |- *. rewrite A1. split.
  - rewrite kids_app in Hku |- *. cbn [kids map] in Hku |- *. now rewrite Hk.
  - rewrite kids_app in Hku. cbn [kids map] in Hku. apply NoDup_app_remove_mid in Hku as [_ Hnq].
    assert (Hq2 : ~ In (kid (ek e)) (kids (absl (gh g) l2))) by (intros Hi; apply Hnq; apply in_or_app; now left).
    rewrite (remove_id_mid _ _ _ e1 Hk Hq2), (remove_id_mid _ _ _ e eq_refl Hq2). reflexivity.
Qed.

Lemma mutate_refines b q nt nh oB b' o evs : RIb b -> KU b -> bB_mutate VS b q nt nh oB = Some (b', o, evs) ->
  do_mutate VS fixed (absB b) q nt nh (ob oB) = Some (absB b', o, evs) /\ RIb b' /\ gseal (bg b') = gseal (bg b).
Proof.
  intros H Hku Hb. unfold bB_mutate in Hb. unfold do_mutate. cbn [maxs cur tb ents absB mut_orig fixed]. fold (absG (bg b)).
  destruct (b_find (bg b) q) as [[a e]|] eqn:Ef; [|rewrite (b_find_none _ _ H Ef); injection Hb as <- <- <-; auto].
  destruct (b_find_some _ _ _ _ H Ef) as (F1 & F2 & F3 & F4). rewrite F4.
  set (v' := {| vtok := vtok (ev e); vtag := nt; vheap := nh |}) in *.
  destruct (msz VS (ev e)) as [oldv|]; [|discriminate]. cbn [bind] in *.
  destruct (msz VS v') as [newv|]; [|discriminate]. cbn [bind] in *.
  destruct (b_set_val (bg b) a (ek e) v') as [gm|] eqn:Esv; [|discriminate]. cbn [bind] in Hb.
  destruct (P_set_val _ _ _ _ _ _ H F1 F2 Esv) as (M1 & M2 & M3 & M4 & M5 & M6).
  set (e1 := {| ek := ek e; ev := v'; es := es e |}) in *.
  destruct (inplace_abs (bg b) gm a e e1 H Hku F1 F2 M3 M4 M5 eq_refl) as [Hkum Hrm]. rewrite F3 in Hrm.
  assert (F1m : In a (glist gm)) by (rewrite M3; exact F1).
  destruct (oldv <? newv).
  - destruct (sub64 newv oldv) as [diff|]; [|discriminate]. cbn [bind] in *.
    destruct (add64 (es e) diff) as [nes|]; [|discriminate]. cbn [bind] in *.
    destruct (bmax b <? nes).
    + destruct (b_remove gm a) as [g'|] eqn:Er; [|discriminate]. cbn [bind] in Hb.
      destruct (sub64 (bcur b) (es e)) as [c|]; [|discriminate]. cbn [bind] in *. injection Hb as <- <- <-.
      destruct (P_remove _ _ _ _ M1 Hkum F1m M4 Er) as (R1 & R2 & R3 & _). cbn [ek e1] in R3. rewrite F3, Hrm in R3.
      rewrite absB_set, R3. split; [reflexivity|split; [exact R1|]]. change (gseal g' = gseal (bg b)). congruence.
    + destruct (b_touch gm a) as [gt|] eqn:Et; [|discriminate]. cbn [bind] in Hb.
      destruct (P_touch _ _ _ _ M1 Hkum F1m M4 Et) as (T1 & T2 & T3 & T4 & T5 & T6 & T7). cbn [ek e1] in T3, T4. rewrite F3 in T3, T4. rewrite Hrm in T3.
      assert (Hkut : NoDup (kids (absG gt))) by (rewrite T3; apply (kids_touch_nodup q _ e e1 Hku F4); exact F3).
      destruct (sub64 (bmax b) diff) as [tgt|]; [|discriminate]. cbn [bind] in *.
      destruct (b_eject (length (glist gt)) gt (bcur b) tgt) as [[[g1 c1] evd]|] eqn:Eej; [|discriminate]. cbn [bind] in Hb.
      destruct (b_eject_refines _ _ _ _ _ _ _ T1 Hkut Eej) as (J1 & J2 & J3 & J4 & (gone & J5 & J5') & J6 & J7).
      rewrite <- T3, J1. cbn [bind].
      destruct (b_set_size g1 a nes) as [g2|] eqn:Ess; [|discriminate]. cbn [bind] in Hb.
      destruct (add64 c1 diff) as [c2|]; [|discriminate]. cbn [bind] in *. injection Hb as <- <- <-.
      (* the mutated entry is still listed: its bucket is allocated, and evicted buckets are not *)
      assert (Ha1 : gh g1 a <> None) by (unfold b_set_size, set_size in Ess; destruct (gh g1 a); [discriminate|discriminate]).
      destruct (glist g1) as [|a0 rest1] eqn:El1.
      { exfalso. apply Ha1, J5'. cbn [app] in J5. rewrite <- J5, T5. now left. }
      assert (Ea0 : a0 = a) by (rewrite T5 in J5; cbn [app] in J5; now injection J5).
      subst a0. assert (Hin1 : In a (glist g1)) by (rewrite El1; now left).
      assert (He1 : entry_at (gh g1) a = Some e1) by (rewrite (J6 a (or_introl eq_refl)), T6; exact M4).
      destruct (P_set_size _ _ _ _ _ J2 Hin1 He1 Ess) as (S1 & S2 & S3 & S4 & S5 & _). cbn [ek ev e1] in S4.
      destruct (absG_mru g1 a rest1 J2 El1) as (e1' & He1' & Ab1). rewrite He1 in He1'. injection He1' as <-.
      assert (El2 : glist g2 = a :: rest1) by congruence.
      destruct (absG_mru g2 a rest1 S1 El2) as (e2 & He2 & Ab2). rewrite S4 in He2. injection He2 as <-.
      assert (Hnr : ~ In a rest1). { destruct J2 as (Hnd & _). rewrite El1 in Hnd. apply NoDup_cons_iff in Hnd as [_ Hnd]. now apply NoDup_cons_iff in Hnd as [? _]. }
      rewrite (absl_frame (gh g1) (gh g2) rest1) in Ab2 by (intros x Hx; apply S5; intros ->; tauto).
      rewrite Ab1. destruct (absl (gh g1) rest1 ++ [e1]) as [|x0 xs] eqn:Eapp; [destruct (absl (gh g1) rest1); discriminate|].
      rewrite <- Eapp, removelast_last, absB_set, Ab2.
      split; [reflexivity|split; [exact S1|]]. change (gseal g2 = gseal (bg b)). congruence.
  - destruct (sub64 oldv newv) as [diff|]; [|discriminate]. cbn [bind] in *.
    destruct (sub64 (es e) diff) as [nes|]; [|discriminate]. cbn [bind] in *.
    destruct (b_set_size gm a nes) as [g1|] eqn:Ess; [|discriminate]. cbn [bind] in Hb.
    destruct (sub64 (bcur b) diff) as [c|]; [|discriminate]. cbn [bind] in *.
    destruct (b_touch g1 a) as [g2|] eqn:Et; [|discriminate]. cbn [bind] in Hb. injection Hb as <- <- <-.
    destruct (P_set_size _ _ _ _ _ M1 F1m M4 Ess) as (S1 & S2 & S3 & S4 & S5 & _). cbn [ek ev e1] in S4.
    set (e2 := {| ek := ek e; ev := v'; es := nes |}) in *.
    destruct (inplace_abs gm g1 a e1 e2 M1 Hkum F1m M4 S3 S4 S5 eq_refl) as [Hku1 Hrm1]. cbn [ek e1] in Hrm1. rewrite F3, Hrm in Hrm1.
    assert (F11 : In a (glist g1)) by (rewrite S3; exact F1m).
    destruct (P_touch _ _ _ _ S1 Hku1 F11 S4 Et) as (T1 & T2 & T3 & _). cbn [ek e2] in T3. rewrite F3, Hrm1 in T3.
    rewrite absB_set, T3. split; [reflexivity|split; [exact T1|]]. change (gseal g2 = gseal (bg b)). congruence.
Qed.

(* ---------- the remaining operations, and the theorem ---------- *)
Lemma b_find_rel g q : RIg g -> find_id q (absG g) = option_map snd (b_find g q).
Proof.
  intros H. destruct (b_find g q) as [[a e]|] eqn:Ef; cbn [option_map snd].
  - now destruct (b_find_some _ _ _ _ H Ef) as (_ & _ & _ & ?).
  - now apply b_find_none.
Qed.

Lemma absG_nil g : rev (glist g) = [] -> absG g = [].
Proof. intros E0. unfold absG, absl. now rewrite E0. Qed.

Lemma realloc_refines b n oB b' r : RIb b -> bB_realloc E b n oB = Some (b', r) ->
  do_realloc E (absB b) n (ob oB) = (absB b', r) /\ RIb b' /\ gseal (bg b') = gseal (bg b).
Proof.
  intros H Hb. unfold bB_realloc in Hb. unfold do_realloc.
  destruct (t_alloc E n (o_alloc (ob oB))) as [t'| |]; try (injection Hb as <- <-; auto).
  destruct (b_moves_chk (bg b) (ob_moves oB)) as [g'|] eqn:Em; [|discriminate]. cbn [bind] in Hb. injection Hb as <- <-.
  destruct (P_moves _ _ _ H Em) as (A1 & A2 & A3 & _). rewrite absB_set, A3. auto.
Qed.

Lemma shrink_refines b n oB b' o evs : RIb b -> bB_shrink E b n oB = Some (b', o, evs) ->
  do_shrink E fixed (absB b) n (ob oB) = Some (absB b', o, evs) /\ RIb b' /\ gseal (bg b') = gseal (bg b).
Proof.
  intros H Hb. unfold bB_shrink in Hb. unfold do_shrink, len. cbn [shrink_orig fixed ents tb absB]. fold (absG (bg b)). rewrite (absG_length _ H).
  destruct (N.max (N.of_nat (length (glist (bg b)))) n <? capacity (btb b)); [|injection Hb as <- <- <-; auto].
  destruct (t_alloc E _ (o_alloc (ob oB))) as [t'| |]; try (injection Hb as <- <- <-; auto).
  destruct (capacity t' <? capacity (btb b)); [|injection Hb as <- <- <-; auto].
  destruct (b_moves_chk (bg b) (ob_moves oB)) as [g'|] eqn:Em; [|discriminate]. cbn [bind] in Hb. injection Hb as <- <- <-.
  destruct (P_moves _ _ _ H Em) as (A1 & A2 & A3 & _). rewrite absB_set, A3.
  unfold rebuilt_ev, b_rebuilt_ev, len. cbn [ents absB]. fold (absG (bg b)). rewrite (absG_length _ H). auto.
Qed.

Theorem stepB_refines b p oB b' o evs : RIb b -> KU b -> stepB E VS b p oB = Some (b', o, evs) ->
  stepA E VS fixed (absB b) p (ob oB) = Some (absB b', o, evs) /\ RIb b' /\ gseal (bg b') = gseal (bg b).
Proof.
  intros H Hku Hb. destruct p; cbn [stepB stepA] in *.
  - (* insert *) now apply insert_refines.
  - (* try_insert *) now apply try_insert_refines.
  - (* get *) destruct (bB_touch b q) as [[b1 r]|] eqn:Et; [|discriminate]. cbn [bind] in Hb. injection Hb as <- <- <-.
    destruct (touch_refines _ _ _ _ H Hku Et) as (-> & A2 & A3). auto.
  - destruct (bB_touch b q) as [[b1 r]|] eqn:Et; [|discriminate]. cbn [bind] in Hb. injection Hb as <- <- <-.
    destruct (touch_refines _ _ _ _ H Hku Et) as (-> & A2 & A3). auto.
  - (* peek *) injection Hb as <- <- <-. cbn [ents absB]. fold (absG (bg b)). rewrite (b_find_rel _ q H). destruct (b_find (bg b) q) as [[a e]|]; auto.
  - injection Hb as <- <- <-. cbn [ents absB]. fold (absG (bg b)). rewrite (b_find_rel _ q H). destruct (b_find (bg b) q) as [[a e]|]; auto.
  - injection Hb as <- <- <-. cbn [ents absB]. fold (absG (bg b)). rewrite (b_find_rel _ q H). destruct (b_find (bg b) q) as [[a e]|]; auto.
  - (* touch *) destruct (bB_touch b q) as [[b1 r]|] eqn:Et; [|discriminate]. cbn [bind] in Hb. injection Hb as <- <- <-.
    destruct (touch_refines _ _ _ _ H Hku Et) as (-> & A2 & A3). auto.
  - (* get_lru *) rewrite (b_lru_spec _ H) in Hb. cbn [bind] in Hb. cbn [ents absB]. fold (absG (bg b)).
    destruct (rev (glist (bg b))) as [|p r] eqn:Er.
    + injection Hb as <- <- <-. rewrite (absG_nil _ Er). auto.
    + destruct (absG_lru _ p r H Er) as (e & He & Ab). rewrite He in Hb. cbn [bind] in Hb.
      destruct (b_touch (bg b) p) as [g'|] eqn:Et; [|discriminate]. cbn [bind] in Hb. injection Hb as <- <- <-.
      assert (Hin : In p (glist (bg b))) by (apply in_rev; rewrite Er; now left).
      destruct (P_touch _ _ _ _ H Hku Hin He Et) as (T1 & T2 & T3 & _).
      rewrite Ab in T3 |- *. cbn [remove_id] in T3. rewrite N.eqb_refl in T3. rewrite absB_set, T3. auto.
  - (* peek_lru *) rewrite (b_lru_spec _ H) in Hb. cbn [bind] in Hb. cbn [ents absB]. fold (absG (bg b)).
    destruct (rev (glist (bg b))) as [|p r] eqn:Er.
    + injection Hb as <- <- <-. rewrite (absG_nil _ Er). auto.
    + destruct (absG_lru _ p r H Er) as (e & He & Ab). rewrite He in Hb. cbn [bind] in Hb. injection Hb as <- <- <-. rewrite Ab. auto.
  - (* peek_mru *) rewrite (b_mru_spec _ H) in Hb. cbn [bind] in Hb. cbn [ents absB]. fold (absG (bg b)).
    destruct (glist (bg b)) as [|m r] eqn:El.
    + injection Hb as <- <- <-. unfold absG. rewrite El. auto.
    + destruct (absG_mru _ m r H El) as (e & He & Ab). rewrite He in Hb. cbn [bind] in Hb. injection Hb as <- <- <-. rewrite Ab.
      destruct (absl (gh (bg b)) r ++ [e]) as [|x0 xs] eqn:Eapp; [destruct (absl (gh (bg b)) r); discriminate|]. rewrite <- Eapp, last_last. auto.
  - (* remove *) cbn [ents absB]. fold (absG (bg b)). rewrite (b_find_rel _ q H).
    destruct (b_find (bg b) q) as [[a e]|] eqn:Ef; cbn [option_map snd]; [|injection Hb as <- <- <-; auto].
    destruct (b_find_some _ _ _ _ H Ef) as (F1 & F2 & F3 & F4).
    destruct (bB_remove_at b a e oB) as [b1|] eqn:Er; [|discriminate]. cbn [bind] in Hb. injection Hb as <- <- <-.
    destruct (remove_at_refines b a e oB b1 (remove_id q (absG (bg b))) H Hku F1 F2) as (R1 & R2 & R3); [now rewrite F3|exact Er|].
    rewrite R1. cbn [bind]. auto.
  - (* remove_entry *) cbn [ents absB]. fold (absG (bg b)). rewrite (b_find_rel _ q H).
    destruct (b_find (bg b) q) as [[a e]|] eqn:Ef; cbn [option_map snd]; [|injection Hb as <- <- <-; auto].
    destruct (b_find_some _ _ _ _ H Ef) as (F1 & F2 & F3 & F4).
    destruct (bB_remove_at b a e oB) as [b1|] eqn:Er; [|discriminate]. cbn [bind] in Hb. injection Hb as <- <- <-.
    destruct (remove_at_refines b a e oB b1 (remove_id q (absG (bg b))) H Hku F1 F2) as (R1 & R2 & R3); [now rewrite F3|exact Er|].
    rewrite R1. cbn [bind]. auto.
  - (* remove_lru *) rewrite (b_lru_spec _ H) in Hb. cbn [bind] in Hb. cbn [ents absB]. fold (absG (bg b)).
    destruct (rev (glist (bg b))) as [|p r] eqn:Er.
    + injection Hb as <- <- <-. rewrite (absG_nil _ Er). auto.
    + destruct (absG_lru _ p r H Er) as (e & He & Ab). rewrite He in Hb. cbn [bind] in Hb.
      destruct (bB_remove_at b p e oB) as [b1|] eqn:Erm; [|discriminate]. cbn [bind] in Hb. injection Hb as <- <- <-.
      assert (Hin : In p (glist (bg b))) by (apply in_rev; rewrite Er; now left).
      destruct (remove_at_refines b p e oB b1 (entries_of (gh (bg b)) r) H Hku Hin He) as (R1 & R2 & R3); [rewrite Ab; cbn [remove_id]; now rewrite N.eqb_refl|exact Erm|].
      rewrite Ab, R1. cbn [bind]. auto.
  - (* remove_mru *) rewrite (b_mru_spec _ H) in Hb. cbn [bind] in Hb. cbn [ents absB]. fold (absG (bg b)).
    destruct (glist (bg b)) as [|m r] eqn:El.
    + injection Hb as <- <- <-. unfold absG. rewrite El. auto.
    + destruct (absG_mru _ m r H El) as (e & He & Ab). rewrite He in Hb. cbn [bind] in Hb.
      destruct (bB_remove_at b m e oB) as [b1|] eqn:Erm; [|discriminate]. cbn [bind] in Hb. injection Hb as <- <- <-.
      assert (Hin : In m (glist (bg b))) by (rewrite El; now left).
      assert (Hrm : absl (gh (bg b)) r = remove_id (kid (ek e)) (absG (bg b))).
      { rewrite Ab. unfold KU in Hku. rewrite Ab, kids_app in Hku. cbn [kids map] in Hku. apply NoDup_remove_2 in Hku. rewrite app_nil_r in Hku.
        rewrite (remove_id_mid _ _ _ e eq_refl Hku). now rewrite app_nil_r. }
      destruct (remove_at_refines b m e oB b1 _ H Hku Hin He Hrm Erm) as (R1 & R2 & R3).
      rewrite Ab. destruct (absl (gh (bg b)) r ++ [e]) as [|x0 xs] eqn:Eapp; [destruct (absl (gh (bg b)) r); discriminate|].
      rewrite <- Eapp, last_last, removelast_last, R1. cbn [bind]. auto.
  - (* mutate *) now apply mutate_refines.
  - (* set_max_size *) cbn [ents cur tb absB]. fold (absG (bg b)).
    destruct (b_eject (length (glist (bg b))) (bg b) (bcur b) n) as [[[g1 c1] evd]|] eqn:Eej; [|discriminate]. cbn [bind] in Hb. injection Hb as <- <- <-.
    destruct (b_eject_refines _ _ _ _ _ _ _ H Hku Eej) as (J1 & J2 & J3 & _). rewrite J1. cbn [bind]. auto.
  - (* retain *) cbn [ents cur tb absB]. fold (absG (bg b)).
    pose proof (b_lru_spec _ H) as Hl. unfold b_lru in Hl.
    destruct (prevof (gh (bg b)) (gseal (bg b))) as [t0|]; [|discriminate]. cbn [bind] in *.
    destruct (b_retain (length (glist (bg b))) (bg b) keep t0 (bcur b)) as [[[[g1 c1] gone] vis]|] eqn:Ert; [|discriminate]. cbn [bind] in Hb. injection Hb as <- <- <-.
    assert (Ht0 : t0 = match rev (glist (bg b)) with [] => gseal (bg b) | t :: _ => t end).
    { destruct (rev (glist (bg b))); destruct (N.eqb_spec t0 (gseal (bg b))); congruence. }
    rewrite Ht0 in Ert.
    destruct (b_retain_refines keep (rev (glist (bg b))) (length (glist (bg b))) (bg b) [] (bcur b) g1 c1 gone vis H Hku eq_refl) as (R1 & R2 & R3 & R4 & R5 & R6); [rewrite rev_length; lia|exact Ert|].
    cbn [entries_of app] in R3. fold (absl (gh (bg b)) (glist (bg b))) in R3, R4, R5. fold (absG (bg b)) in R3, R4, R5.
    rewrite <- R4. unfold subs in R6. rewrite R6. cbn [bind]. rewrite absB_set, R3, R5. auto.
  - (* clear *) destruct (P_reset _ H) as (g' & Er & R1 & R2 & R3). rewrite Er in Hb. cbn [bind] in Hb. injection Hb as <- <- <-.
    rewrite live_entries_eq. cbn [ents tb absB]. fold (absl (gh (bg b)) (glist (bg b))). rewrite absB_set. unfold absG at 1. rewrite R3. auto.
  - (* iter *) destruct (iter_items (bg b) pat H) as (cu & ys & items & I1 & I2 & I3 & I4). rewrite I1 in Hb. cbn [bind] in Hb. rewrite I2 in Hb. cbn [bind] in Hb.
    rewrite I3 in Hb. cbn [bind] in Hb. injection Hb as <- <- <-. rewrite I4. auto.
  - (* drain *) destruct (P_drain (bg b) pat H) as (cu & h1 & h2 & h3 & items & D1 & D2 & D3 & D4 & D5 & D6 & D7).
    rewrite D1 in Hb. cbn [bind] in Hb. rewrite D2 in Hb. cbn [bind] in Hb. rewrite D3 in Hb. cbn [bind] in Hb. rewrite D4 in Hb. cbn [bind] in Hb.
    injection Hb as <- <- <-. cbn [ents tb absB]. fold (absG (bg b)).
    destruct (take_ends (absG (bg b)) pat) as [outs rest] eqn:Ete. cbn [fst snd] in D5, D6. rewrite D5, D6. rewrite absB_set. auto.
  - (* reserve *) unfold len. cbn [ents tb absB]. fold (absG (bg b)). rewrite (absG_length _ H).
    destruct (add64 (N.of_nat (length (glist (bg b)))) n) as [want|]; [|injection Hb as <- <- <-; auto].
    destruct (capacity (btb b) <? want); [|injection Hb as <- <- <-; auto].
    destruct (bB_realloc E b want oB) as [[b1 r]|] eqn:Era; [|discriminate]. cbn [bind] in Hb.
    destruct (realloc_refines _ _ _ _ _ H Era) as (R1 & R2 & R3). rewrite R1.
    destruct r; injection Hb as <- <- <-; auto.
    unfold rebuilt_ev, b_rebuilt_ev, len. cbn [ents absB]. fold (absG (bg b)). rewrite (absG_length _ H). auto.
  - (* try_reserve *) unfold len. cbn [ents tb absB]. fold (absG (bg b)). rewrite (absG_length _ H).
    destruct (add64 (N.of_nat (length (glist (bg b)))) n) as [want|]; [|injection Hb as <- <- <-; auto].
    destruct (capacity (btb b) <? want); [|injection Hb as <- <- <-; auto].
    destruct (bB_realloc E b want oB) as [[b1 r]|] eqn:Era; [|discriminate]. cbn [bind] in Hb.
    destruct (realloc_refines _ _ _ _ _ H Era) as (R1 & R2 & R3). rewrite R1.
    destruct r; injection Hb as <- <- <-; auto.
    unfold rebuilt_ev, b_rebuilt_ev, len. cbn [ents absB]. fold (absG (bg b)). rewrite (absG_length _ H). auto.
  - (* shrink_to *) now apply shrink_refines.
  - now apply shrink_refines.
  - (* debug *) destruct (iter_items (bg b) (repeat true (length (glist (bg b)))) H) as (cu & ys & items & I1 & I2 & I3 & I4). rewrite I1 in Hb. cbn [bind] in Hb. rewrite I2 in Hb. cbn [bind] in Hb.
    rewrite I3 in Hb. cbn [bind] in Hb. injection Hb as <- <- <-. rewrite I4. rewrite <- (absG_length _ H), take_ends_all_front. cbn [fst ents absB]. fold (absG (bg b)). rewrite map_map. auto.
  - (* len *) injection Hb as <- <- <-. unfold len. cbn [ents absB]. fold (absG (bg b)). rewrite (absG_length _ H). auto.
  - (* is_empty *) injection Hb as <- <- <-. cbn [ents absB]. fold (absG (bg b)). pose proof (absG_length _ H) as Hl.
    destruct (glist (bg b)), (absG (bg b)); try discriminate; auto.
  - injection Hb as <- <- <-. auto.
  - injection Hb as <- <- <-. auto.
  - injection Hb as <- <- <-. auto.
Qed.
End Params.
