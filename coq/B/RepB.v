(* Layer B: the representation invariant RI of the pointer structure, the abstraction to the entry
   list of Layer A, and the theorems that every piece of list surgery used by src/lib.rs preserves RI
   and acts on the abstract list as Layer A says (touch = move to the MRU end, unhinge = remove,
   set_head = append, reallocation = identity), for every position and every table iteration order,
   leaving payloads and recorded sizes of all nodes untouched.  C05, C07, C14/C19 (frame). *)
Require Export LruV.B.CursorB.

(* ---------- links are the only thing list surgery writes ---------- *)
Lemma payof_set_next h a x h' b : set_next h a x = Some h' -> payof h' b = payof h b /\ sizeof_node h' b = sizeof_node h b.
Proof.
  unfold set_next, payof, sizeof_node. destruct (h a) as [n|] eqn:E; [|discriminate]. intros [= <-]. unfold upd.
  destruct (N.eqb_spec b a) as [->|]; [rewrite E; auto|auto].
Qed.
Lemma payof_set_prev h a x h' b : set_prev h a x = Some h' -> payof h' b = payof h b /\ sizeof_node h' b = sizeof_node h b.
Proof.
  unfold set_prev, payof, sizeof_node. destruct (h a) as [n|] eqn:E; [|discriminate]. intros [= <-]. unfold upd.
  destruct (N.eqb_spec b a) as [->|]; [rewrite E; auto|auto].
Qed.

Definition same_data (h h' : heap) : Prop := forall b, payof h' b = payof h b /\ sizeof_node h' b = sizeof_node h b.
Lemma same_data_refl h : same_data h h.
Proof. intros b; auto. Qed.
Lemma same_data_trans h1 h2 h3 : same_data h1 h2 -> same_data h2 h3 -> same_data h1 h3.
Proof. intros H1 H2 b. destruct (H1 b), (H2 b). split; congruence. Qed.

Lemma unhinge_data h a h' : unhinge h a = Some h' -> same_data h h'.
Proof.
  unfold unhinge. destruct (h a) as [n|]; [|discriminate]. cbn [bind]. destruct (set_next h (nprev n) (nnext n)) as [h1|] eqn:E1; [|discriminate].
  cbn [bind]. intros E2 b. destruct (payof_set_next _ _ _ _ b E1), (payof_set_prev _ _ _ _ b E2). split; congruence.
Qed.
Lemma link_data h a p x h' : link_between h a p x = Some h' -> same_data h h'.
Proof.
  unfold link_between. destruct (h a); [|discriminate]. cbn [bind].
  destruct (set_next h p a) as [h1|] eqn:E1; [|discriminate]. cbn [bind].
  destruct (set_prev h1 x a) as [h2|] eqn:E2; [|discriminate]. cbn [bind].
  destruct (set_next h2 a x) as [h3|] eqn:E3; [|discriminate]. cbn [bind]. intros E4 b.
  destruct (payof_set_next _ _ _ _ b E1), (payof_set_prev _ _ _ _ b E2), (payof_set_next _ _ _ _ b E3), (payof_set_prev _ _ _ _ b E4). split; congruence.
Qed.

(* ---------- linking a detached node between two neighbours (EntryPtr::insert) ---------- *)
Lemma cycle_facts2 (pre post : list addr) p x :
  let c := pre ++ p :: x :: post in
  NoDup (removelast c) -> NoDup (tl c) ->
  (forall b, In b pre -> b <> p) /\ (forall b, In b (removelast (x :: post)) -> b <> p) /\
  (forall b, In b (tl (pre ++ [p])) -> b <> x) /\ (forall b, In b post -> b <> x).
Proof.
  intros c H1 H2. subst c.
  assert (E1 : removelast (pre ++ p :: x :: post) = pre ++ p :: removelast (x :: post)).
  { rewrite removelast_app by discriminate. change (p :: x :: post) with ([p] ++ x :: post). rewrite removelast_app by discriminate. reflexivity. }
  assert (E2 : tl (pre ++ p :: x :: post) = tl (pre ++ [p]) ++ x :: post).
  { destruct pre; cbn [app tl]; [reflexivity|]. rewrite <- app_assoc. reflexivity. }
  rewrite E1 in H1. rewrite E2 in H2.
  destruct (nodup_mid pre (removelast (x :: post)) p H1) as [A1 A2].
  destruct (nodup_mid (tl (pre ++ [p])) post x H2) as [B1 B2]. auto.
Qed.

Lemma link_chain h pre p x post a :
  let c := pre ++ p :: x :: post in
  chain h c -> NoDup (removelast c) -> NoDup (tl c) -> ~ In a c -> h a <> None ->
  exists h', link_between h a p x = Some h' /\ chain h' (pre ++ p :: a :: x :: post) /\ (forall b, h' b <> None <-> h b <> None).
Proof.
  intros c Hc Hnd1 Hnd2 Hfresh Ha. subst c.
  destruct (cycle_facts2 pre post p x Hnd1 Hnd2) as (F1 & F2 & F3 & F4).
  assert (Hpa : p <> a) by (intros ->; apply Hfresh; apply in_or_app; right; now left).
  assert (Hxa : x <> a) by (intros ->; apply Hfresh; apply in_or_app; right; right; now left).
  apply chain_app in Hc as [Hpre Hrest]. apply chain_cons2 in Hrest as (Hpx & Hxp & Hpost).
  assert (Hpd : h p <> None) by (unfold nextof in Hpx; destruct (h p); congruence).
  assert (Hxd : h x <> None) by (unfold prevof in Hxp; destruct (h x); congruence).
  unfold link_between. destruct (h a) as [na|] eqn:Ea; [|congruence]. cbn [bind].
  destruct (set_next_ok h p a Hpd) as [h1 E1]. rewrite E1. cbn [bind].
  assert (Hxd1 : h1 x <> None) by (apply (set_next_dom _ _ _ _ x E1); exact Hxd).
  destruct (set_prev_ok h1 x a Hxd1) as [h2 E2]. rewrite E2. cbn [bind].
  assert (Had2 : h2 a <> None) by (apply (set_prev_dom _ _ _ _ a E2), (set_next_dom _ _ _ _ a E1); congruence).
  destruct (set_next_ok h2 a x Had2) as [h3 E3]. rewrite E3. cbn [bind].
  assert (Had3 : h3 a <> None) by (apply (set_next_dom _ _ _ _ a E3); exact Had2).
  destruct (set_prev_ok h3 a p Had3) as [h4 E4]. rewrite E4. exists h4. split; [reflexivity|].
  assert (NX : forall b, nextof h4 b = if N.eqb b a then Some x else if N.eqb b p then Some a else nextof h b).
  { intros b. rewrite (nextof_set_prev _ _ _ _ b E4), (nextof_set_next _ _ _ _ b E3). destruct (N.eqb_spec b a); [reflexivity|].
    rewrite (nextof_set_prev _ _ _ _ b E2), (nextof_set_next _ _ _ _ b E1). reflexivity. }
  assert (PV : forall b, prevof h4 b = if N.eqb b a then Some p else if N.eqb b x then Some a else prevof h b).
  { intros b. rewrite (prevof_set_prev _ _ _ _ b E4). destruct (N.eqb_spec b a); [reflexivity|].
    rewrite (prevof_set_next _ _ _ _ b E3), (prevof_set_prev _ _ _ _ b E2). destruct (N.eqb_spec b x); [reflexivity|].
    apply (prevof_set_next _ _ _ _ b E1). }
  split.
  - apply (proj2 (chain_app h4 pre p (a :: x :: post))). split.
    + eapply chain_frame; [| |exact Hpre].
      * intros b Hb. rewrite removelast_app in Hb by discriminate. cbn in Hb. rewrite app_nil_r in Hb. unfold agree_next. rewrite NX.
        destruct (N.eqb_spec b a) as [->|]; [exfalso; apply Hfresh; apply in_or_app; now left|].
        destruct (N.eqb_spec b p) as [->|]; [exfalso; now apply (F1 p)|reflexivity].
      * intros b Hb. unfold agree_prev. rewrite PV.
        destruct (N.eqb_spec b a) as [->|].
        { exfalso. apply Hfresh. destruct pre as [|q pre]; [cbn in Hb; tauto|]. cbn [app tl] in Hb. cbn [app]. right.
          apply in_app_or in Hb as [?|[<-|[]]]; apply in_or_app; [now left|right; now left]. }
        destruct (N.eqb_spec b x) as [->|]; [exfalso; now apply (F3 x)|reflexivity].
    + apply chain_cons2. split; [|split].
      * rewrite NX. destruct (N.eqb_spec p a); [congruence|]. now rewrite N.eqb_refl.
      * rewrite PV. now rewrite N.eqb_refl.
      * apply chain_cons2. split; [|split].
        -- rewrite NX. now rewrite N.eqb_refl.
        -- rewrite PV. destruct (N.eqb_spec x a); [congruence|]. now rewrite N.eqb_refl.
        -- eapply chain_frame; [| |exact Hpost].
           ++ intros b Hb. unfold agree_next. rewrite NX.
              destruct (N.eqb_spec b a) as [->|]; [exfalso; apply Hfresh; apply in_or_app; right; right; apply (in_removelast_tl_nodup (x :: post)); now left|].
              destruct (N.eqb_spec b p) as [->|]; [exfalso; now apply (F2 p)|reflexivity].
           ++ intros b Hb. cbn [tl] in Hb. unfold agree_prev. rewrite PV.
              destruct (N.eqb_spec b a) as [->|]; [exfalso; apply Hfresh; apply in_or_app; right; right; now right|].
              destruct (N.eqb_spec b x) as [->|]; [exfalso; now apply (F4 x)|reflexivity].
  - intros b. rewrite (set_prev_dom _ _ _ _ b E4), (set_next_dom _ _ _ _ b E3), (set_prev_dom _ _ _ _ b E2). apply (set_next_dom _ _ _ _ b E1).
Qed.

(* ---------- the representation invariant ---------- *)
(* l: the addresses of the entries, most-recently-used first (the order of following `next` from the seal) *)
Definition RI (h : heap) (seal : addr) (l : list addr) : Prop :=
  NoDup (seal :: l) /\ chain h (seal :: l ++ [seal]) /\ payof h seal = Some PSeal /\
  (forall a, In a l -> exists k v, payof h a = Some (PLive k v)).

Definition entry_at (h : heap) (a : addr) : option entry :=
  match h a with
  | Some n => match npay n with PLive k v => Some {| ek := k; ev := v; es := nsize n |} | _ => None end
  | None => None
  end.
(* the abstract entry list, least-recently-used first (Layer A's `ents`) *)
Fixpoint entries_of (h : heap) (l : list addr) : list entry :=
  match l with [] => [] | a :: r => match entry_at h a with Some e => e :: entries_of h r | None => entries_of h r end end.
Definition absl (h : heap) (l : list addr) : list entry := entries_of h (rev l).

Lemma entry_at_same h h' a : same_data h h' -> entry_at h' a = entry_at h a.
Proof.
  intros H. destruct (H a) as [Hp Hs]. unfold entry_at, payof, sizeof_node in *.
  destruct (h' a) as [n'|], (h a) as [n|]; try congruence. injection Hp as Hp. injection Hs as Hs. rewrite Hp, Hs. reflexivity.
Qed.
Lemma entries_of_same h h' l : same_data h h' -> entries_of h' l = entries_of h l.
Proof. intros H. induction l as [|a r IH]; cbn [entries_of]; [reflexivity|]. now rewrite (entry_at_same h h' a H), IH. Qed.
Lemma entries_of_app h a b : entries_of h (a ++ b) = entries_of h a ++ entries_of h b.
Proof. induction a as [|x a IH]; cbn [app entries_of]; [reflexivity|]. destruct (entry_at h x); cbn [app]; now rewrite IH. Qed.

(* decomposition of the cycle around a member a *)
Lemma decompose_rm (seal : addr) l a : NoDup (seal :: l) -> In a l ->
  exists l1 l2 pre p x post, l = l1 ++ a :: l2 /\ ~ In a l1 /\ ~ In a l2 /\
    seal :: l ++ [seal] = pre ++ p :: a :: x :: post /\
    seal :: (l1 ++ l2) ++ [seal] = pre ++ p :: x :: post.
Proof.
  intros Hnd Hin. apply in_split in Hin as (l1 & l2 & ->).
  apply NoDup_cons_iff in Hnd as [Hs Hl]. destruct (nodup_mid _ _ _ Hl) as [N1 N2].
  destruct (exists_last (l := seal :: l1) ltac:(discriminate)) as (pre & p & Hp).
  destruct (l2 ++ [seal]) as [|x post] eqn:E2; [destruct l2; discriminate|].
  exists l1, l2, pre, p, x, post. split; [reflexivity|]. split; [intros H; now apply (N1 a)|]. split; [intros H; now apply (N2 a)|]. split.
  - replace (seal :: (l1 ++ a :: l2) ++ [seal]) with ((seal :: l1) ++ a :: (l2 ++ [seal])) by (cbn; rewrite <- app_assoc; reflexivity).
    rewrite Hp, E2, <- app_assoc. reflexivity.
  - replace (seal :: (l1 ++ l2) ++ [seal]) with ((seal :: l1) ++ (l2 ++ [seal])) by (cbn; rewrite <- app_assoc; reflexivity).
    rewrite Hp, E2, <- app_assoc. reflexivity.
Qed.

Lemma nodup_remove_mid_cons (seal : addr) l1 a l2 : NoDup (seal :: l1 ++ a :: l2) -> NoDup (seal :: l1 ++ l2) /\ a <> seal.
Proof.
  intros H. apply NoDup_cons_iff in H as [Hs Hl]. split.
  - constructor; [intros Hin; apply Hs; apply in_app_or in Hin as [?|?]; apply in_or_app; [now left|right; now right]|eapply NoDup_remove_1; eauto].
  - intros ->. apply Hs. apply in_or_app. right. now left.
Qed.

(* EntryPtr::unhinge of a member: the list without it is again a cycle; the node stays allocated with its
   payload and size; no payload or size anywhere changes *)
Theorem unhinge_RI h seal l a : RI h seal l -> In a l ->
  exists h' l1 l2, l = l1 ++ a :: l2 /\ unhinge h a = Some h' /\ RI h' seal (l1 ++ l2) /\ same_data h h' /\ h' a <> None.
Proof.
  intros (Hnd & Hc & Hps & Hlive) Hin.
  destruct (decompose_rm seal l a Hnd Hin) as (l1 & l2 & pre & p & x & post & El & Hn1 & Hn2 & Ec & Ec').
  destruct (cyc_nodup seal l Hnd) as [Hnd1 Hnd2]. rewrite Ec in Hc, Hnd1, Hnd2.
  destruct (unhinge_chain h pre p a x post Hc Hnd1 Hnd2) as (h' & Hu & Hc' & Hdom).
  pose proof (unhinge_data h a h' Hu) as Hd.
  exists h', l1, l2. split; [exact El|]. split; [exact Hu|]. split; [|split; [exact Hd|]].
  - rewrite El in Hnd. destruct (nodup_remove_mid_cons seal l1 a l2 Hnd) as [Hnd' _]. split; [exact Hnd'|]. split; [now rewrite Ec'|]. split.
    + destruct (Hd seal) as [-> _]. exact Hps.
    + intros b Hb. destruct (Hd b) as [-> _]. apply Hlive. rewrite El. apply in_app_or in Hb as [?|?]; apply in_or_app; [now left|right; now right].
  - apply Hdom. destruct (Hlive a Hin) as (k & v & Hp). unfold payof in Hp. destruct (h a); congruence.
Qed.

(* LruCache::set_head of a detached, allocated node carrying a live payload: it becomes the MRU *)
Theorem set_head_RI h seal l a k v : RI h seal l -> ~ In a (seal :: l) -> payof h a = Some (PLive k v) ->
  exists h', set_head h seal a = Some h' /\ RI h' seal (a :: l) /\ same_data h h'.
Proof.
  intros (Hnd & Hc & Hps & Hlive) Hfresh Hpa.
  destruct (cyc_nodup seal l Hnd) as [Hnd1 Hnd2].
  destruct (l ++ [seal]) as [|x post] eqn:El; [destruct l; discriminate|].
  assert (Hnx : nextof h seal = Some x) by (cbn [chain] in Hc; tauto).
  unfold set_head. rewrite Hnx. cbn [bind].
  assert (Hf : ~ In a ([] ++ seal :: x :: post)).
  { cbn [app]. intros [->|Hin]; [apply Hfresh; now left|]. rewrite <- El in Hin. apply in_app_or in Hin as [Hin|[<-|[]]]; apply Hfresh; [now right|now left]. }
  assert (Had : h a <> None) by (unfold payof in Hpa; destruct (h a); congruence).
  destruct (link_chain h [] seal x post a Hc Hnd1 Hnd2 Hf Had) as (h' & Hl & Hc' & Hdom).
  pose proof (link_data h a seal x h' Hl) as Hd.
  exists h'. split; [exact Hl|]. split; [|exact Hd]. split; [|split; [|split]].
  - constructor; [|constructor; [intros Hin; apply Hfresh; now right|now apply NoDup_cons_iff in Hnd as [_ ?]]].
    intros [->|Hin]; [apply Hfresh; now left|]. now apply NoDup_cons_iff in Hnd as [? _].
  - cbn [app] in Hc'. cbn [app]. rewrite El. exact Hc'.
  - destruct (Hd seal) as [-> _]. exact Hps.
  - intros b [<-|Hb]; [destruct (Hd a) as [-> _]; eauto|]. destruct (Hd b) as [-> _]. now apply Hlive.
Qed.

(* LruCache::touch_ptr = unhinge + set_head: the entry moves to the MRU end, nothing else changes *)
Theorem touch_RI h seal l a : RI h seal l -> In a l ->
  exists h' l1 l2, l = l1 ++ a :: l2 /\ touch_ptr h seal a = Some h' /\ RI h' seal (a :: l1 ++ l2) /\ same_data h h'.
Proof.
  intros HRI Hin. pose proof HRI as (Hnd & _ & _ & Hlive).
  destruct (unhinge_RI h seal l a HRI Hin) as (h1 & l1 & l2 & El & Hu & HRI1 & Hd1 & Ha1).
  destruct (Hlive a Hin) as (k & v & Hp).
  assert (Hp1 : payof h1 a = Some (PLive k v)) by (destruct (Hd1 a) as [-> _]; exact Hp).
  assert (Hfresh : ~ In a (seal :: l1 ++ l2)).
  { rewrite El in Hnd. intros [->|Hin']. { apply NoDup_cons_iff in Hnd as [Hs _]. apply Hs. apply in_or_app. right. now left. }
    apply NoDup_cons_iff in Hnd as [_ Hl]. apply NoDup_remove_2 in Hl. tauto. }
  destruct (set_head_RI h1 seal (l1 ++ l2) a k v HRI1 Hfresh Hp1) as (h2 & Hs & HRI2 & Hd2).
  exists h2, l1, l2. split; [exact El|]. split; [unfold touch_ptr; rewrite Hu; exact Hs|]. split; [exact HRI2|]. eapply same_data_trans; eauto.
Qed.

(* on the abstract list: touch moves the entry to the end (LRU-first order), as Layer A's do_touch *)
Theorem touch_abs h seal l a h' l1 l2 : RI h seal l -> l = l1 ++ a :: l2 -> same_data h h' ->
  exists e, entry_at h a = Some e /\
            absl h' (a :: l1 ++ l2) = entries_of h (rev l2) ++ entries_of h (rev l1) ++ [e] /\
            absl h l = entries_of h (rev l2) ++ [e] ++ entries_of h (rev l1).
Proof.
  intros (_ & _ & _ & Hlive) El Hd. subst l.
  destruct (Hlive a ltac:(apply in_or_app; right; now left)) as (k & v & Hp).
  assert (He : exists e, entry_at h a = Some e).
  { unfold entry_at, payof in *. destruct (h a) as [n|]; [|discriminate]. injection Hp as ->. eauto. }
  destruct He as [e He]. exists e. split; [exact He|]. unfold absl. split.
  - rewrite (entries_of_same h h' _ Hd). cbn [rev]. rewrite rev_app_distr, !entries_of_app. cbn [entries_of]. rewrite He. now rewrite <- app_assoc.
  - rewrite rev_app_distr. cbn [rev]. rewrite <- app_assoc, !entries_of_app. cbn [entries_of app]. now rewrite He.
Qed.
