(* The composed pointer-level operations of B/OpsB.v (the ones the correspondence runs on observed pointer
   graphs) preserve the representation invariant and act on the address list as stated. *)
Require Export LruV.B.RepB LruV.B.ReallocB LruV.B.OpsB LruV.A.OrderA.

Lemma in_removelast_in {A} (c : list A) x : In x (removelast c) -> In x c.
Proof. intros H. apply in_removelast_tl_nodup. now left. Qed.

(* RI depends only on the nodes of the cycle *)
Lemma RI_frame h h' seal l : (forall b, In b (seal :: l) -> h' b = h b) -> RI h seal l -> RI h' seal l.
Proof.
  intros Hsame (Hnd & Hc & Hps & Hlive). split; [exact Hnd|]. split; [|split].
  - eapply chain_frame; [| |exact Hc].
    + intros b Hb. unfold agree_next, nextof. rewrite Hsame; [reflexivity|].
      apply in_removelast_in in Hb. change (seal :: l ++ [seal]) with ((seal :: l) ++ [seal]) in Hb.
      apply in_app_or in Hb as [Hb|[<-|[]]]; [exact Hb|now left].
    + intros b Hb. unfold agree_prev, prevof. rewrite Hsame; [reflexivity|]. cbn [tl] in Hb.
      apply in_app_or in Hb as [Hb|[<-|[]]]; [now right|now left].
  - unfold payof. rewrite Hsame; [exact Hps|now left].
  - intros a Ha. unfold payof. rewrite Hsame; [now apply Hlive|now right].
Qed.

Lemma remove_addr_split l1 a l2 : ~ In a l1 -> remove_addr a (l1 ++ a :: l2) = l1 ++ l2.
Proof.
  induction l1 as [|b l1 IH]; cbn [app remove_addr]; intros Hn; [now rewrite N.eqb_refl|].
  destruct (N.eqb_spec b a) as [->|]; [exfalso; apply Hn; now left|]. rewrite IH; [reflexivity|]. intros H. apply Hn. now right.
Qed.

Lemma nodup_split_notin (seal : addr) l1 a l2 : NoDup (seal :: l1 ++ a :: l2) -> ~ In a l1 /\ ~ In a l2 /\ a <> seal.
Proof.
  intros H. apply NoDup_cons_iff in H as [Hs Hl]. destruct (nodup_mid _ _ _ Hl) as [N1 N2]. repeat split.
  - intros Hi. now apply (N1 a).
  - intros Hi. now apply (N2 a).
  - intros ->. apply Hs. apply in_or_app. right. now left.
Qed.

Theorem b_touch_RI g a : RI (gh g) (gseal g) (glist g) -> In a (glist g) ->
  exists g', b_touch g a = Some g' /\ RI (gh g') (gseal g') (glist g') /\ gseal g' = gseal g /\
             same_data (gh g) (gh g') /\ exists l1 l2, glist g = l1 ++ a :: l2 /\ glist g' = a :: l1 ++ l2.
Proof.
  intros HRI Hin. destruct (touch_RI _ _ _ a HRI Hin) as (h' & l1 & l2 & El & Ht & HRI' & Hd).
  unfold b_touch. rewrite Ht. cbn [bind]. eexists. split; [reflexivity|]. cbn [gh gseal glist].
  pose proof HRI as (Hnd & _). rewrite El in Hnd. destruct (nodup_split_notin _ _ _ _ Hnd) as (Hn1 & _ & _).
  rewrite El, (remove_addr_split l1 a l2 Hn1). split; [exact HRI'|]. split; [reflexivity|]. split; [exact Hd|]. eauto.
Qed.

Theorem b_remove_RI g a : RI (gh g) (gseal g) (glist g) -> In a (glist g) ->
  exists g', b_remove g a = Some g' /\ RI (gh g') (gseal g') (glist g') /\ gseal g' = gseal g /\ gh g' a = None /\
             (forall b, b <> a -> payof (gh g') b = payof (gh g) b /\ sizeof_node (gh g') b = sizeof_node (gh g) b) /\
             exists l1 l2, glist g = l1 ++ a :: l2 /\ glist g' = l1 ++ l2.
Proof.
  intros HRI Hin. destruct (unhinge_RI _ _ _ a HRI Hin) as (h' & l1 & l2 & El & Hu & HRI' & Hd & Ha).
  unfold b_remove. rewrite Hu. cbn [bind]. eexists. split; [reflexivity|]. cbn [gh gseal glist].
  pose proof HRI as (Hnd & _). rewrite El in Hnd. destruct (nodup_split_notin _ _ _ _ Hnd) as (Hn1 & Hn2 & Hns).
  rewrite El, (remove_addr_split l1 a l2 Hn1). split; [|split; [reflexivity|split; [apply free_same|split]]].
  - apply (RI_frame h'); [|exact HRI']. intros b Hb. apply free_other. intros ->. destruct Hb as [Hb|Hb]; [congruence|].
    apply in_app_or in Hb as [?|?]; tauto.
  - intros b Hb. unfold payof, sizeof_node. rewrite free_other by exact Hb. apply Hd.
  - eauto.
Qed.

Theorem b_insert_new_RI g a sz k v : RI (gh g) (gseal g) (glist g) -> ~ In a (gseal g :: glist g) ->
  exists g', b_insert_new g a sz (PLive k v) = Some g' /\ RI (gh g') (gseal g') (glist g') /\ gseal g' = gseal g /\
             glist g' = a :: glist g /\ payof (gh g') a = Some (PLive k v) /\ sizeof_node (gh g') a = Some sz /\
             (forall b, b <> a -> payof (gh g') b = payof (gh g) b /\ sizeof_node (gh g') b = sizeof_node (gh g) b).
Proof.
  intros HRI Hfresh. pose proof HRI as (Hnd & Hc & _).
  destruct (glist g ++ [gseal g]) as [|x post] eqn:El; [destruct (glist g); discriminate|].
  assert (Hnx : nextof (gh g) (gseal g) = Some x) by (cbn [chain] in Hc; tauto).
  unfold b_insert_new. rewrite Hnx. cbn [bind].
  set (n0 := {| nprev := gseal g; nnext := x; nsize := sz; npay := PLive k v |}).
  assert (HRI0 : RI (upd (gh g) a n0) (gseal g) (glist g)).
  { apply (RI_frame (gh g)); [|exact HRI]. intros b Hb. apply upd_other. intros ->. tauto. }
  assert (Hp0 : payof (upd (gh g) a n0) a = Some (PLive k v)) by (unfold payof; now rewrite upd_same).
  destruct (set_head_RI _ _ _ a k v HRI0 Hfresh Hp0) as (h' & Hs & HRI' & Hd).
  rewrite Hs. cbn [bind]. eexists. split; [reflexivity|]. cbn [gh gseal glist].
  split; [exact HRI'|]. split; [reflexivity|]. split; [reflexivity|].
  destruct (Hd a) as [Hpa Hsa]. split; [rewrite Hpa; exact Hp0|]. split; [rewrite Hsa; unfold sizeof_node; now rewrite upd_same|].
  intros b Hb. destruct (Hd b) as [-> ->]. unfold payof, sizeof_node. now rewrite upd_other.
Qed.

(* ---------- reallocation with the bucket addresses the new table actually chose ---------- *)
Fixpoint rename_pairs (pairs : list (addr * addr)) (l : list addr) : list addr :=
  match pairs with [] => l | (a, a') :: r => rename_pairs r (subst a a' l) end.

Lemma b_move_list g a a' g' : b_move g a a' = Some g' -> glist g' = subst a a' (glist g) /\ gseal g' = gseal g /\ move (gh g) a a' = Some (gh g').
Proof. unfold b_move. destruct (move (gh g) a a') as [h'|]; [|discriminate]. cbn [bind]. intros [= <-]. auto. Qed.

Lemma move_keeps_none h a a' h' b : move h a a' = Some h' -> h b = None -> b <> a' -> h' b = None.
Proof.
  unfold move. destruct (h a) as [n|] eqn:Ea; [|discriminate]. cbn [bind].
  destruct (set_next _ _ _) as [h1|] eqn:E1; [|discriminate]. cbn [bind]. intros E2 Hb Hne.
  destruct (h' b) eqn:Eb; [|reflexivity]. exfalso. assert (Hn : h' b <> None) by congruence.
  apply (set_prev_dom _ _ _ _ b E2), (set_next_dom _ _ _ _ b E1) in Hn. apply Hn. rewrite upd_other by exact Hne.
  unfold free. destruct (N.eqb b a); [reflexivity|exact Hb].
Qed.

(* For ANY order of the sources and ANY distinct target addresses outside the old structure, the loop never
   faults, re-links the cycle over the new addresses and frees every old bucket. *)
Theorem b_moves_chain : forall pairs h seal l,
  NoDup (seal :: l) -> chain h (seal :: l ++ [seal]) ->
  NoDup (map fst pairs) -> (forall a, In a (map fst pairs) -> In a l) ->
  NoDup (map snd pairs) -> (forall a', In a' (map snd pairs) -> ~ In a' (seal :: l)) ->
  exists g', b_moves {| gh := h; gseal := seal; glist := l |} pairs = Some g' /\
             glist g' = rename_pairs pairs l /\ gseal g' = seal /\
             chain (gh g') (seal :: glist g' ++ [seal]) /\ NoDup (seal :: glist g') /\
             (forall a, In a (map fst pairs) -> gh g' a = None).
Proof.
  induction pairs as [|[a a'] pairs IH]; intros h seal l Hnd Hc Hns Hsub Hnt Hdis; cbn [b_moves rename_pairs map fst snd] in *.
  - eexists. split; [reflexivity|]. cbn. repeat split; auto. intros ? [].
  - assert (Hin : In a l) by (apply Hsub; now left).
    assert (Hfresh : ~ In a' (seal :: l)) by (apply Hdis; now left).
    destruct (decompose seal l a a' Hnd Hin) as (pre & p & x & post & Ec & Ec').
    destruct (cyc_nodup seal l Hnd) as [Hn1 Hn2]. rewrite Ec in Hc, Hn1, Hn2.
    assert (Hf2 : ~ In a' (pre ++ p :: a :: x :: post)).
    { rewrite <- Ec. intros H. change (seal :: l ++ [seal]) with ((seal :: l) ++ [seal]) in H.
      apply in_app_or in H as [H|[<-|[]]]; [tauto|]. apply Hfresh. now left. }
    assert (Hne : a' <> a) by (intros ->; apply Hfresh; now right).
    destruct (move_chain h pre p a x post a' Hc Hn1 Hn2 Hf2 Hne) as (h1 & Em & Hc1 & Hfree & Hnew & Hdom).
    unfold b_move. cbn [gh gseal glist]. rewrite Em. cbn [bind]. rewrite <- Ec' in Hc1.
    apply NoDup_cons_iff in Hns as [Has Hns]. apply NoDup_cons_iff in Hnt as [Hat Hnt].
    assert (Hnd' : NoDup (seal :: subst a a' l)).
    { apply NoDup_cons_iff in Hnd as [Hs Hl]. constructor.
      - intros H. apply in_subst in H as [[E _]|[_ H]]; [|tauto]. apply Hfresh. left. congruence.
      - apply nodup_subst; [exact Hl|]. intros H. apply Hfresh. now right. }
    destruct (IH h1 seal (subst a a' l) Hnd' Hc1 Hns) as (g' & Em' & Hl' & Hs' & Hc' & Hnd'' & Hfreed); auto.
    + intros b Hb. unfold subst. apply in_map_iff. exists b. split; [|apply Hsub; now right].
      destruct (N.eqb_spec b a) as [->|]; [tauto|reflexivity].
    + intros b Hb Hi. destruct Hi as [E|Hi]; [subst b; apply (Hdis seal); [now right|now left]|].
      apply in_subst in Hi as [[E _]|[_ Hi]]; [subst b; tauto|]. apply (Hdis b); [now right|now right].
    + exists g'. split; [exact Em'|]. split; [exact Hl'|]. split; [exact Hs'|]. split; [exact Hc'|]. split; [exact Hnd''|].
      intros b [<-|Hb]; [|now apply Hfreed].
      (* the freed bucket stays freed: later moves write only to their own (distinct, new) target addresses *)
      clear - Em' Hfree Hat Hdis Hin Hne.
      assert (G : forall pairs g1, b_moves g1 pairs = Some g' -> gh g1 a = None -> ~ In a (map snd pairs) -> gh g' a = None).
      { clear. induction pairs as [|[c c'] pairs IHp]; intros g1 Hm H0 Hni; cbn [b_moves] in Hm; [now injection Hm as <-|].
        destruct (b_move g1 c c') as [g2|] eqn:E; [|discriminate]. cbn [bind] in Hm. apply (IHp g2 Hm).
        - destruct (b_move_list _ _ _ _ E) as (_ & _ & Hmv). eapply move_keeps_none; eauto. intros ->. apply Hni. now left.
        - intros Hi. apply Hni. now right. }
      apply (G pairs _ Em'); [exact Hfree|]. intros Hi. apply (Hdis a); [now right|now right].
Qed.

(* ---------- the composed operations act on the abstract entry list exactly as Layer A's list operations ----------
   absl h l = the entries (key, value, recorded size) of the nodes of l, least-recently-used first *)
Lemma entries_of_same_on h h' l : (forall b, In b l -> payof h' b = payof h b /\ sizeof_node h' b = sizeof_node h b) -> entries_of h' l = entries_of h l.
Proof.
  induction l as [|a r IH]; intros H; cbn [entries_of]; [reflexivity|].
  destruct (H a (or_introl eq_refl)) as [Hp Hs]. rewrite (entry_at_data h h' a a Hp Hs), IH; [reflexivity|]. intros b Hb. apply H. now right.
Qed.

Lemma absl_app h a b : absl h (a ++ b) = absl h b ++ absl h a.
Proof. unfold absl. now rewrite rev_app_distr, entries_of_app. Qed.
Lemma absl_cons h a l : absl h (a :: l) = absl h l ++ absl h [a].
Proof. change (a :: l) with ([a] ++ l). apply absl_app. Qed.
Lemma absl_single h a e : entry_at h a = Some e -> absl h [a] = [e].
Proof. unfold absl. cbn [rev app entries_of]. now intros ->. Qed.

(* touch: the touched entry moves to the most-recently-used end, everything else keeps its place *)
Theorem b_touch_abs g a g' l1 l2 e : RI (gh g) (gseal g) (glist g) -> b_touch g a = Some g' -> glist g = l1 ++ a :: l2 -> ~ In a l1 ->
  entry_at (gh g) a = Some e ->
  absl (gh g) (glist g) = absl (gh g) l2 ++ [e] ++ absl (gh g) l1 /\
  absl (gh g') (glist g') = absl (gh g) l2 ++ absl (gh g) l1 ++ [e].
Proof.
  intros HRI Hb El Hn1 He. assert (Hin : In a (glist g)) by (rewrite El; apply in_or_app; right; now left).
  destruct (b_touch_RI g a HRI Hin) as (g2 & Hb2 & _ & _ & Hd & _). rewrite Hb in Hb2. injection Hb2 as <-.
  unfold b_touch in Hb. destruct (touch_ptr (gh g) (gseal g) a) as [h'|]; [|discriminate]. injection Hb as <-. cbn [gh glist] in *.
  rewrite El, (remove_addr_split l1 a l2 Hn1). split.
  - rewrite absl_app, absl_cons, (absl_single _ _ _ He). now rewrite <- app_assoc.
  - rewrite absl_cons, absl_app. unfold absl. rewrite !(entries_of_same (gh g) h' _ Hd). cbn [rev app entries_of]. rewrite He. now rewrite <- app_assoc.
Qed.

(* removal: exactly that entry disappears *)
Theorem b_remove_abs g a g' l1 l2 : RI (gh g) (gseal g) (glist g) -> b_remove g a = Some g' -> glist g = l1 ++ a :: l2 -> ~ In a l1 -> ~ In a l2 ->
  absl (gh g') (glist g') = absl (gh g) l2 ++ absl (gh g) l1.
Proof.
  intros HRI Hb El Hn1 Hn2. assert (Hin : In a (glist g)) by (rewrite El; apply in_or_app; right; now left).
  destruct (b_remove_RI g a HRI Hin) as (g2 & Hb2 & _ & _ & _ & Hd & _). rewrite Hb in Hb2. injection Hb2 as <-.
  assert (Hl : glist g' = l1 ++ l2).
  { unfold b_remove in Hb. destruct (unhinge (gh g) a); [|discriminate]. injection Hb as <-. cbn [glist]. rewrite El. now apply remove_addr_split. }
  rewrite Hl, absl_app. unfold absl. f_equal; apply entries_of_same_on; intros b Hb'; apply Hd; intros ->; apply in_rev in Hb'; tauto.
Qed.

(* insertion of a new bucket at the head: one entry is appended at the most-recently-used end *)
Theorem b_insert_new_abs g a sz k v g' : RI (gh g) (gseal g) (glist g) -> ~ In a (gseal g :: glist g) ->
  b_insert_new g a sz (PLive k v) = Some g' ->
  absl (gh g') (glist g') = absl (gh g) (glist g) ++ [{| ek := k; ev := v; es := sz |}].
Proof.
  intros HRI Hfresh Hb. destruct (b_insert_new_RI g a sz k v HRI Hfresh) as (g2 & Hb2 & _ & _ & Hl & Hp & Hs & Hd). rewrite Hb in Hb2. injection Hb2 as <-.
  rewrite Hl, absl_cons. f_equal.
  - unfold absl. apply entries_of_same_on. intros b Hb'. apply Hd. intros ->. apply in_rev in Hb'. apply Hfresh. now right.
  - apply absl_single. unfold entry_at, payof, sizeof_node in *. destruct (gh g' a) as [n|]; [|discriminate]. injection Hp as Hp. injection Hs as Hs. now rewrite Hp, Hs.
Qed.

(* ---------- sequences of primitives: the invariant holds BETWEEN any two of them ----------
   Public operations are sequences of these primitives with user callbacks only in between (A/PanicA.v); a panic in
   a callback therefore finds a structure satisfying RI. *)
Inductive bprim :=
| BTouch (a : addr) | BRemove (a : addr) | BInsert (a : addr) (sz : N) (k : key) (v : val) | BSetSize (a : addr) (sz : N).

Definition bprim_ok (g : gstate) (p : bprim) : Prop :=
  match p with
  | BTouch a | BRemove a | BSetSize a _ => In a (glist g)
  | BInsert a _ _ _ => ~ In a (gseal g :: glist g)
  end.
Definition bprim_run (g : gstate) (p : bprim) : option gstate :=
  match p with
  | BTouch a => b_touch g a
  | BRemove a => b_remove g a
  | BInsert a sz k v => b_insert_new g a sz (PLive k v)
  | BSetSize a sz => b_set_size g a sz
  end.

Lemma set_size_RI h seal l a sz : RI h seal l -> In a l -> exists h', set_size h a sz = Some h' /\ RI h' seal l.
Proof.
  intros HRI Hin. pose proof HRI as (Hnd & Hc & Hps & Hlive). destruct (Hlive a Hin) as (k & v & Hp).
  unfold set_size, payof in *. destruct (h a) as [n|] eqn:Ha; [|discriminate]. eexists. split; [reflexivity|].
  injection Hp as Hp.
  assert (Hns : a <> seal) by (intros ->; apply NoDup_cons_iff in Hnd as [Hs _]; tauto).
  split; [exact Hnd|]. split; [|split].
  - eapply chain_frame; [| |exact Hc]; intros b _; unfold agree_next, agree_prev, nextof, prevof, upd; destruct (N.eqb_spec b a) as [->|]; rewrite ?Ha; reflexivity.
  - unfold payof, upd. destruct (N.eqb_spec seal a); [congruence|exact Hps].
  - intros b Hb. unfold payof, upd. destruct (N.eqb_spec b a) as [->|]; [cbn [npay]; rewrite Hp; eauto|]. destruct (Hlive b Hb) as (k' & v' & Hp'). unfold payof in Hp'. eauto.
Qed.

Theorem bprim_RI g p : RI (gh g) (gseal g) (glist g) -> bprim_ok g p ->
  exists g', bprim_run g p = Some g' /\ RI (gh g') (gseal g') (glist g') /\ gseal g' = gseal g.
Proof.
  intros HRI Hok. destruct p; cbn [bprim_ok bprim_run] in *.
  - destruct (b_touch_RI g a HRI Hok) as (g' & H1 & H2 & H3 & _). eauto.
  - destruct (b_remove_RI g a HRI Hok) as (g' & H1 & H2 & H3 & _). eauto.
  - destruct (b_insert_new_RI g a sz k v HRI Hok) as (g' & H1 & H2 & H3 & _). eauto.
  - destruct (set_size_RI _ _ _ a sz HRI Hok) as (h' & H1 & H2). unfold b_set_size. rewrite H1. cbn [bind]. eexists. split; [reflexivity|]. cbn. auto.
Qed.

(* every prefix of a valid sequence of primitives ends in a coherent structure *)
Inductive bprims_ok : gstate -> list bprim -> Prop :=
| bp_nil g : bprims_ok g []
| bp_cons g p g' r : bprim_ok g p -> bprim_run g p = Some g' -> bprims_ok g' r -> bprims_ok g (p :: r).
Fixpoint bprims_run (g : gstate) (l : list bprim) : option gstate :=
  match l with [] => Some g | p :: r => g' <- bprim_run g p ;; bprims_run g' r end.

Theorem between_primitives g l : RI (gh g) (gseal g) (glist g) -> bprims_ok g l ->
  forall pre post, l = pre ++ post -> exists gm, bprims_run g pre = Some gm /\ RI (gh gm) (gseal gm) (glist gm) /\ gseal gm = gseal g.
Proof.
  intros HRI Hok. revert HRI. induction Hok as [g|g p g' r Hp Hr Hok IH]; intros HRI pre post El.
  - destruct pre; [|discriminate]. exists g. cbn. auto.
  - destruct pre as [|q pre]; [exists g; cbn; auto|]. cbn [app] in El. injection El as <- ->.
    destruct (bprim_RI g p HRI Hp) as (g2 & H1 & H2 & H3). rewrite Hr in H1. injection H1 as <-.
    destruct (IH H2 pre post eq_refl) as (gm & Hm & HRIm & Hsm). exists gm. cbn [bprims_run]. rewrite Hr. cbn [bind]. split; [exact Hm|]. split; [exact HRIm|]. congruence.
Qed.

(* ---------- in Layer A's own terms: remove_id, append, tail ---------- *)
Definition absG (g : gstate) : list entry := absl (gh g) (glist g).

Lemma remove_id_mid q (la lb : list entry) e : kid (ek e) = q -> ~ In q (kids la) -> remove_id q (la ++ e :: lb) = la ++ lb.
Proof.
  intros Hk Hn. induction la as [|x la IH]; cbn [app remove_id]; [rewrite Hk, N.eqb_refl; reflexivity|].
  destruct (N.eqb_spec (kid (ek x)) q) as [E|]; [exfalso; apply Hn; left; exact E|]. rewrite IH; [reflexivity|]. intros H. apply Hn. now right.
Qed.

(* get / get_entry / touch / get_lru / mutate: touch_ptr of the bucket holding key q is Layer A's do_touch *)
Theorem b_touch_is_do_touch g a g' e : RI (gh g) (gseal g) (glist g) -> In a (glist g) -> entry_at (gh g) a = Some e ->
  NoDup (kids (absG g)) -> b_touch g a = Some g' ->
  absG g' = remove_id (kid (ek e)) (absG g) ++ [e] /\ find_id (kid (ek e)) (absG g) = Some e.
Proof.
  intros HRI Hin He Hnd Hb. destruct (b_touch_RI g a HRI Hin) as (g2 & Hb2 & _ & _ & _ & l1 & l2 & El & _). rewrite Hb in Hb2. injection Hb2 as <-.
  pose proof HRI as (Hnda & _). rewrite El in Hnda. destruct (nodup_split_notin _ _ _ _ Hnda) as (Hn1 & _ & _).
  destruct (b_touch_abs g a g' l1 l2 e HRI Hb El Hn1 He) as [Ha Ha']. unfold absG in *. rewrite Ha in Hnd |- *. rewrite Ha'.
  rewrite kids_app in Hnd. cbn [app kids map] in Hnd. apply NoDup_app_remove_mid in Hnd as [_ Hnq].
  assert (Hq2 : ~ In (kid (ek e)) (kids (absl (gh g) l2))) by (intros H; apply Hnq; apply in_or_app; now left).
  split.
  - cbn [app]. rewrite (remove_id_mid _ _ _ e eq_refl Hq2). now rewrite <- app_assoc.
  - cbn [app]. rewrite find_id_app_r by exact Hq2. cbn [find_id]. now rewrite N.eqb_refl.
Qed.

(* remove / remove_entry / remove_lru / remove_mru / every eviction: removal of the bucket holding key q is remove_id q *)
Theorem b_remove_is_remove_id g a g' e : RI (gh g) (gseal g) (glist g) -> In a (glist g) -> entry_at (gh g) a = Some e ->
  NoDup (kids (absG g)) -> b_remove g a = Some g' -> absG g' = remove_id (kid (ek e)) (absG g).
Proof.
  intros HRI Hin He Hnd Hb. destruct (b_remove_RI g a HRI Hin) as (g2 & Hb2 & _ & _ & _ & _ & l1 & l2 & El & _). rewrite Hb in Hb2. injection Hb2 as <-.
  pose proof HRI as (Hnda & _). rewrite El in Hnda. destruct (nodup_split_notin _ _ _ _ Hnda) as (Hn1 & Hn2 & _).
  unfold absG in *. rewrite (b_remove_abs g a g' l1 l2 HRI Hb El Hn1 Hn2).
  rewrite El in Hnd |- *. rewrite absl_app, absl_cons, (absl_single _ _ _ He) in Hnd |- *. rewrite <- app_assoc in Hnd |- *. cbn [app] in Hnd |- *.
  rewrite kids_app in Hnd. cbn [kids map] in Hnd. apply NoDup_app_remove_mid in Hnd as [_ Hnq].
  rewrite (remove_id_mid _ _ _ e eq_refl); [reflexivity|]. intros H. apply Hnq. apply in_or_app. now left.
Qed.

(* the eviction victim: the bucket seal.prev points to is the head of the abstract list *)
Theorem lru_is_head g a l0 : RI (gh g) (gseal g) (glist g) -> glist g = l0 ++ [a] ->
  prevof (gh g) (gseal g) = Some a /\ exists e, entry_at (gh g) a = Some e /\ hd_error (absG g) = Some e.
Proof.
  intros (Hnd & Hc & _ & Hlive) El. split.
  - rewrite El in Hc. replace (gseal g :: (l0 ++ [a]) ++ [gseal g]) with ((gseal g :: l0) ++ a :: [gseal g]) in Hc by (cbn; rewrite <- app_assoc; reflexivity).
    apply chain_app in Hc as [_ Hc]. apply chain_cons2 in Hc as (_ & Hp & _). exact Hp.
  - destruct (Hlive a) as (k & v & Hp); [rewrite El; apply in_or_app; right; now left|].
    assert (He : exists e, entry_at (gh g) a = Some e) by (unfold entry_at, payof in *; destruct (gh g a) as [n|]; [|discriminate]; injection Hp as ->; eauto).
    destruct He as [e He]. exists e. split; [exact He|]. unfold absG, absl. rewrite El, rev_app_distr. cbn [rev app entries_of]. now rewrite He.
Qed.
