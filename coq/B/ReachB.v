(* Layer B, every reachable state: a cache built by new / with_capacity and driven by any sequence of operations (any
   oracle: bucket choices, tombstones, allocator answers) has a heap satisfying the representation invariant, its
   abstraction is a reachable state of Layer A (so Layer A's invariant and every theorem about Reach apply to it), and
   every step it took is the step Layer A takes. *)
Require Import LruV.B.StepB LruV.B.RefineLemmas LruV.B.RefineB LruV.A.InvA.

Section Params.
Variables (E VS : N).
Hypothesis E_pos : 0 < E.
Hypothesis VS_le_E : VS <= E.

(* LruCache::with_capacity_and_hasher: the boxed seal linked to itself, no buckets in use *)
Definition new_b (seal : addr) (mx cap : N) : option bstate :=
  match t_alloc E cap true with
  | AOk t => Some {| bg := {| gh := upd (fun _ => None) seal {| nprev := seal; nnext := seal; nsize := 0; npay := PSeal |}; gseal := seal; glist := [] |};
                     bcur := 0; bmax := mx; btb := t |}
  | _ => None
  end.

Inductive ReachB : bstate -> Prop :=
| reachb_new seal mx cap b : mx < W -> new_b seal mx cap = Some b -> ReachB b
| reachb_step b p oB r : ReachB b -> wf_op E (absB b) p -> stepB E VS b p oB = Some r -> ReachB (fst (fst r)).

Lemma new_b_RI seal mx cap b : new_b seal mx cap = Some b -> RIb b /\ new_cache E mx cap = Some (absB b).
Proof.
  unfold new_b, new_cache. destruct (t_alloc E cap true) as [t| |]; try discriminate. intros [= <-]. split; [|reflexivity].
  unfold RIb, RIg. cbn [bg gh gseal glist]. split; [constructor; [intros []|constructor]|]. split; [|split; [|intros ? []]].
  - cbn [app chain]. unfold nextof, prevof. rewrite upd_same. auto.
  - unfold payof. now rewrite upd_same.
Qed.

Theorem reachB_sound b : ReachB b -> RIb b /\ Reach E VS (absB b).
Proof.
  induction 1 as [seal mx cap b Hmx Hnew|b p oB [[b' o] evs] _ [IH1 IH2] Hwf Hstep].
  - destruct (new_b_RI _ _ _ _ Hnew) as [A1 A2]. split; [exact A1|]. eapply reach_new; eauto.
  - pose proof (reach_inv E VS E_pos VS_le_E _ IH2) as HI. assert (Hku : KU b) by (destruct HI as (_ & _ & _ & _ & Hnd); exact Hnd).
    destruct (stepB_refines E VS b p oB b' o evs IH1 Hku Hstep) as (A1 & A2 & _). cbn [fst]. split; [exact A2|].
    change (absB b') with (fst (fst (absB b', o, evs))). eapply reach_step; eauto.
Qed.

Corollary reachB_step b p oB b' o evs : ReachB b -> stepB E VS b p oB = Some (b', o, evs) ->
  stepA E VS fixed (absB b) p (ob oB) = Some (absB b', o, evs) /\ RIb b' /\ gseal (bg b') = gseal (bg b).
Proof.
  intros Hr Hstep. destruct (reachB_sound b Hr) as [H1 H2]. pose proof (reach_inv E VS E_pos VS_le_E _ H2) as (_ & _ & _ & _ & Hnd).
  apply stepB_refines; auto.
Qed.
End Params.
