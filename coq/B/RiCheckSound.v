(* Soundness of the C07 monitor: when ri_check accepts what the snapshot hook reports, the reported
   pointer graph really is a well-formed cycle: the addresses are pairwise distinct, following next from
   the seal visits exactly the reported nodes and returns to the seal, prev mirrors next at every node,
   and the visited nodes are exactly the occupied buckets of the table. *)
Require Import LruV.B.RepB LruV.B.RiCheck LruV.A.MonitorsA.

Lemma nodup_b_sound l : nodup_b l = true -> NoDup l.
Proof.
  induction l as [|x r IH]; cbn [nodup_b]; [constructor|]. intros H. apply andb_prop in H as [H1 H2]. constructor; [|auto].
  intros Hin. apply negb_true_iff in H1. assert (existsb (N.eqb x) r = true); [|congruence].
  apply existsb_exists. exists x. split; [exact Hin|apply N.eqb_refl].
Qed.

Lemma remove1_perm x l l' : remove1 x l = Some l' -> Permutation l (x :: l').
Proof.
  revert l'. induction l as [|y r IH]; cbn [remove1]; [discriminate|]. intros l'. destruct (N.eqb_spec x y) as [->|Hne].
  - intros [= <-]. reflexivity.
  - destruct (remove1 x r) as [r'|]; [|discriminate]. cbn [option_map]. intros [= <-]. rewrite (IH r' eq_refl). apply perm_swap.
Qed.
Lemma msub_perm a : forall b rest, msub a b = Some rest -> Permutation b (a ++ rest).
Proof.
  induction a as [|x a IH]; cbn [msub]; intros b rest; [intros [= <-]; reflexivity|].
  destruct (remove1 x b) as [b'|] eqn:E; [|discriminate]. intros H. rewrite (remove1_perm x b b' E). cbn [app]. constructor. now apply IH.
Qed.
Lemma perm_eqb_sound a b : perm_eqb a b = true -> Permutation a b.
Proof.
  unfold perm_eqb. destruct (msub a b) as [[|? ?]|] eqn:E; try discriminate. intros _. apply msub_perm in E. rewrite app_nil_r in E. now symmetry.
Qed.

(* the heap a reported graph denotes: the seal and one node per reported entry, with the reported links *)
Definition node_of (p n : addr) (pay : payload) : node := {| nprev := p; nnext := n; nsize := 0; npay := pay |}.
Fixpoint heap_nodes (l : list onode) : heap :=
  match l with
  | [] => fun _ => None
  | o :: r => fun b => if N.eqb b (oaddr o) then Some (node_of (oprev o) (onext o) (PLive {| kid := 0; ktok := 0; kheap := 0 |} {| vtok := 0; vtag := 0; vheap := 0 |})) else heap_nodes r b
  end.
Definition heap_of (g : ograph) : heap :=
  fun b => if N.eqb b (g_seal g) then Some (node_of (g_seal_prev g) (g_seal_next g) PSeal) else heap_nodes (g_nodes g) b.

Lemma heap_nodes_in l o : NoDup (map oaddr l) -> In o l -> heap_nodes l (oaddr o) = Some (node_of (oprev o) (onext o) (PLive {| kid := 0; ktok := 0; kheap := 0 |} {| vtok := 0; vtag := 0; vheap := 0 |})).
Proof.
  induction l as [|x r IH]; [intros _ []|]. cbn [map heap_nodes]. intros Hnd [->|Hin]; [now rewrite N.eqb_refl|].
  apply NoDup_cons_iff in Hnd as [Hx Hnd]. destruct (N.eqb_spec (oaddr o) (oaddr x)) as [E|]; [|auto].
  exfalso. apply Hx. rewrite <- E. now apply in_map.
Qed.

(* chain_b is `chain` on the denoted heap *)
Lemma chain_b_sound g : forall (l : list onode) pa pn,
  NoDup (g_seal g :: map oaddr (g_nodes g)) -> (forall o, In o l -> In o (g_nodes g)) ->
  (pa = g_seal g \/ exists o, In o (g_nodes g) /\ oaddr o = pa /\ onext o = pn) -> (pa = g_seal g -> pn = g_seal_next g) ->
  chain_b pa pn l (g_seal g) (g_seal_prev g) = true ->
  chain (heap_of g) (pa :: map oaddr l ++ [g_seal g]).
Proof.
  intros l. induction l as [|n r IH]; intros pa pn Hnd Hsub Hpa Hps H; cbn [chain_b map app] in *.
  - apply andb_prop in H as [H1 H2]. apply N.eqb_eq in H1, H2. cbn [chain]. split; [|split; [|exact I]].
    + unfold nextof, heap_of. destruct (N.eqb_spec pa (g_seal g)) as [E|Hne]; [cbn; f_equal; rewrite (Hps E) in H1; exact H1|].
      destruct Hpa as [?|(o & Ho & <- & <-)]; [congruence|]. apply NoDup_cons_iff in Hnd as [_ Hnd]. rewrite (heap_nodes_in _ o Hnd Ho). cbn. now f_equal.
    + unfold prevof, heap_of. rewrite N.eqb_refl. cbn. now f_equal.
  - apply andb_prop in H as [H12 H3]. apply andb_prop in H12 as [H1 H2]. apply N.eqb_eq in H1, H2.
    assert (Hn : In n (g_nodes g)) by (apply Hsub; now left).
    assert (Hns : oaddr n <> g_seal g).
    { intros E. apply NoDup_cons_iff in Hnd as [Hs _]. apply Hs. rewrite <- E. now apply in_map. }
    apply chain_cons2. split; [|split].
    + unfold nextof, heap_of. destruct (N.eqb_spec pa (g_seal g)) as [E|Hne]; [cbn; f_equal; rewrite (Hps E) in H1; exact H1|].
      destruct Hpa as [?|(o & Ho & <- & <-)]; [congruence|]. pose proof Hnd as Hnd0. apply NoDup_cons_iff in Hnd0 as [_ Hnd0]. rewrite (heap_nodes_in _ o Hnd0 Ho). cbn. now f_equal.
    + unfold prevof, heap_of. destruct (N.eqb_spec (oaddr n) (g_seal g)); [congruence|].
      pose proof Hnd as Hnd0. apply NoDup_cons_iff in Hnd0 as [_ Hnd0]. rewrite (heap_nodes_in _ n Hnd0 Hn). cbn. now f_equal.
    + apply (IH (oaddr n) (onext n)); auto.
      * intros o Ho. apply Hsub. now right.
      * right. exists n. auto.
      * intros E. congruence.
Qed.

Theorem ri_check_sound g : ri_check g = true ->
  let l := map oaddr (g_nodes g) in
  NoDup (g_seal g :: l) /\ chain (heap_of g) (g_seal g :: l ++ [g_seal g]) /\
  Permutation l (g_buckets g) /\ N.of_nat (length l) = g_len g /\ payof (heap_of g) (g_seal g) = Some PSeal.
Proof.
  unfold ri_check. intros H. cbv zeta.
  repeat (apply andb_prop in H as [H ?]).
  match goal with Hn : nodup_b _ = true |- _ => apply nodup_b_sound in Hn; rename Hn into Hnd end.
  match goal with Hp : perm_eqb _ _ = true |- _ => apply perm_eqb_sound in Hp; rename Hp into Hperm end.
  match goal with Hl : (_ =? g_len g) = true |- _ => apply N.eqb_eq in Hl; rename Hl into Hlen end.
  match goal with Hc : chain_b _ _ _ _ _ = true |- _ => rename Hc into Hch end.
  split; [exact Hnd|]. split; [|split; [exact Hperm|split]].
  - apply (chain_b_sound g (g_nodes g) (g_seal g) (g_seal_next g)); auto.
  - now rewrite map_length.
  - unfold payof, heap_of. now rewrite N.eqb_refl.
Qed.
