(* Layer B: try_reallocate / move_to_table. For ANY order in which the old table yields its entries, the
   loop succeeds without touching freed memory, yields a well-formed cycle over the new buckets, frees
   every old bucket, and carries every payload and recorded size over unchanged: the abstract list is the
   same.  C04/C05/C07 across reallocation. *)
Require Export LruV.B.RepB.

Lemma rename_all_map todo : forall (fresh : addr) (l : list addr), exists f, forall m, rename_all todo fresh m = map f m.
Proof.
  induction todo as [|a todo IH]; intros fresh l.
  - exists (fun b => b). intros m. cbn. now rewrite map_id.
  - destruct (IH (fresh + 1) l) as [f Hf]. exists (fun b => f (if N.eqb b a then fresh else b)). intros m. cbn [rename_all]. rewrite Hf. unfold subst. now rewrite map_map.
Qed.
Lemma rename_all_rev todo fresh l : rename_all todo fresh (rev l) = rev (rename_all todo fresh l).
Proof. destruct (rename_all_map todo fresh l) as [f Hf]. now rewrite !Hf, map_rev. Qed.
Lemma rename_all_length todo fresh l : length (rename_all todo fresh l) = length l.
Proof. destruct (rename_all_map todo fresh l) as [f Hf]. now rewrite Hf, map_length. Qed.

Lemma move_data h a a' h' : move h a a' = Some h' -> a' <> a ->
  (forall b, b <> a -> b <> a' -> payof h' b = payof h b /\ sizeof_node h' b = sizeof_node h b) /\
  payof h' a' = payof h a /\ sizeof_node h' a' = sizeof_node h a.
Proof.
  unfold move. destruct (h a) as [n|] eqn:Ea; [|discriminate]. cbn [bind].
  destruct (set_next (upd (free h a) a' n) (nprev n) a') as [h1|] eqn:E1; [|discriminate]. cbn [bind]. intros E2 Hne.
  assert (D : forall b, payof h' b = payof (upd (free h a) a' n) b /\ sizeof_node h' b = sizeof_node (upd (free h a) a' n) b).
  { intros b. destruct (payof_set_next _ _ _ _ b E1), (payof_set_prev _ _ _ _ b E2). split; congruence. }
  split; [|split].
  - intros b Hb1 Hb2. destruct (D b) as [-> ->]. unfold payof, sizeof_node. rewrite upd_other by exact Hb2. rewrite free_other by exact Hb1. auto.
  - destruct (D a') as [-> _]. unfold payof. rewrite upd_same, Ea. reflexivity.
  - destruct (D a') as [_ ->]. unfold sizeof_node. rewrite upd_same, Ea. reflexivity.
Qed.

Lemma entry_at_data h h' a b : payof h' b = payof h a -> sizeof_node h' b = sizeof_node h a -> entry_at h' b = entry_at h a.
Proof.
  unfold entry_at, payof, sizeof_node. destruct (h' b) as [n'|], (h a) as [n|]; try congruence.
  intros [= Hp] [= Hs]. now rewrite Hp, Hs.
Qed.

Lemma move_entries h a a' h' m : (forall b, In b m -> b <> a') -> a' <> a -> move h a a' = Some h' ->
  entries_of h' (subst a a' m) = entries_of h m.
Proof.
  intros Hm Hne Hmv. destruct (move_data h a a' h' Hmv Hne) as (D1 & D2 & D3).
  induction m as [|b m IH]; [reflexivity|]. cbn [subst map entries_of]. fold (subst a a' m).
  assert (Hb : entry_at h' (if N.eqb b a then a' else b) = entry_at h b).
  { destruct (N.eqb_spec b a) as [->|Hba]; [now apply entry_at_data|].
    destruct (D1 b Hba (Hm b (or_introl eq_refl))). now apply entry_at_data. }
  rewrite Hb, IH; [reflexivity|]. intros c Hc. apply Hm. now right.
Qed.

Lemma moves_data : forall todo h fresh h', moves h todo fresh = Some h' -> (forall a, In a todo -> a < fresh) ->
  (forall b, ~ In b todo -> b < fresh -> payof h' b = payof h b /\ sizeof_node h' b = sizeof_node h b) /\
  (forall m, (forall b, In b m -> b < fresh) -> entries_of h' (rename_all todo fresh m) = entries_of h m).
Proof.
  induction todo as [|a todo IH]; intros h fresh h' Hm Hlt; cbn [moves rename_all] in *.
  - injection Hm as <-. split; auto.
  - destruct (move h a fresh) as [h1|] eqn:E1; [|discriminate]. cbn [bind] in Hm.
    assert (Hne : fresh <> a) by (specialize (Hlt a (or_introl eq_refl)); lia).
    destruct (IH h1 (fresh + 1) h' Hm) as [IH1 IH2]. { intros b Hb. specialize (Hlt b (or_intror Hb)). lia. }
    destruct (move_data h a fresh h1 E1 Hne) as (D1 & _). split.
    + intros b Hb Hbl. destruct (IH1 b) as [-> ->]; [intros Hin; apply Hb; now right|lia|]. apply D1; [intros ->; apply Hb; now left|lia].
    + intros m Hml. rewrite IH2.
      * apply (move_entries h a fresh h1 m); auto. intros b Hb. specialize (Hml b Hb). lia.
      * intros b Hb. apply in_subst in Hb as [[-> _]|[_ Hb]]; [lia|]. specialize (Hml b Hb). lia.
Qed.

Lemma entries_of_length_le h l : (length (entries_of h l) <= length l)%nat.
Proof. induction l as [|a l IH]; cbn [entries_of length]; [lia|]. destruct (entry_at h a); cbn [length]; lia. Qed.
Lemma entries_full h l : length (entries_of h l) = length l <-> forall a, In a l -> entry_at h a <> None.
Proof.
  induction l as [|a l IH]; cbn [entries_of length]; [split; [intros _ ? []|reflexivity]|].
  pose proof (entries_of_length_le h l). destruct (entry_at h a) as [e|] eqn:Ea; cbn [length].
  - split.
    + intros Hl b [<-|Hb]; [congruence|]. apply IH; [lia|exact Hb].
    + intros Hall. f_equal. apply IH. intros b Hb. apply Hall. now right.
  - split; [lia|]. intros Hall. exfalso. apply (Hall a); [now left|exact Ea].
Qed.
Lemma entry_at_live h a : entry_at h a <> None <-> exists k v, payof h a = Some (PLive k v).
Proof.
  unfold entry_at, payof. destruct (h a) as [n|]; [|split; [congruence|intros (? & ? & ?); discriminate]].
  destruct (npay n); split; try congruence; try (intros (? & ? & ?); discriminate); eauto.
Qed.

Theorem realloc_RI todo h seal l fresh : RI h seal l -> NoDup todo -> (forall a, In a todo -> In a l) ->
  (forall b, In b (seal :: l) -> b < fresh) ->
  exists h', moves h todo fresh = Some h' /\ RI h' seal (rename_all todo fresh l) /\
             absl h' (rename_all todo fresh l) = absl h l /\ (forall a, In a todo -> h' a = None).
Proof.
  intros (Hnd & Hc & Hps & Hlive) Hnt Hsub Hlt.
  destruct (realloc_loop todo h seal l fresh Hnd Hc Hnt Hsub Hlt) as (h' & Hm & Hc' & Hnd' & Hfreed).
  assert (Hlt' : forall a, In a todo -> a < fresh) by (intros a Ha; apply Hlt; right; now apply Hsub).
  destruct (moves_data todo h fresh h' Hm Hlt') as [D1 D2].
  exists h'. split; [exact Hm|]. split; [|split; [|exact Hfreed]].
  - split; [exact Hnd'|]. split; [exact Hc'|]. split.
    + destruct (D1 seal) as [-> _]; [|apply Hlt; now left|exact Hps].
      intros Hin. apply Hsub in Hin. now apply NoDup_cons_iff in Hnd as [? _].
    + assert (Hfull : forall a, In a (rename_all todo fresh l) -> entry_at h' a <> None).
      { apply entries_full. rewrite (D2 l) by (intros b Hb; apply Hlt; now right). rewrite rename_all_length.
        apply entries_full. intros a Ha. apply entry_at_live. now apply Hlive. }
      intros a Ha. apply entry_at_live. now apply Hfull.
  - unfold absl. rewrite <- rename_all_rev. apply D2. intros b Hb. apply Hlt. right. now apply in_rev.
Qed.

(* the cursors of the iterators on a structure satisfying RI: Iter::new starts at (seal.prev, seal.next) and
   any run yields take_ends of the LRU-first address list *)
Lemma chain_linked h seal l : NoDup (seal :: l) -> chain h (seal :: l ++ [seal]) -> linked h (rev l).
Proof.
  intros Hnd Hc L1 a b L2 E.
  assert (El : l = rev L2 ++ b :: a :: rev L1).
  { rewrite <- (rev_involutive l), E. rewrite rev_app_distr. cbn [rev]. rewrite <- !app_assoc. reflexivity. }
  rewrite El in Hc. replace (seal :: (rev L2 ++ b :: a :: rev L1) ++ [seal]) with ((seal :: rev L2) ++ b :: a :: (rev L1 ++ [seal])) in Hc
    by (cbn; rewrite <- app_assoc; reflexivity).
  apply chain_app in Hc as [_ Hc]. apply chain_cons2 in Hc as (Hn & Hp & _). auto.
Qed.

Theorem iter_on_RI h seal l pat : RI h seal l ->
  exists c, cursor_new h seal (match l with [] => true | _ => false end) = Some c /\
            it_run h c pat = Some (fst (take_ends (rev l) pat)).
Proof.
  intros (Hnd & Hc & _ & _).
  assert (HndL : NoDup (rev l)) by (apply NoDup_rev; now apply NoDup_cons_iff in Hnd as [_ ?]).
  pose proof (chain_linked h seal l Hnd Hc) as Hlk.
  destruct l as [|m l'].
  - exists {| c_next := None; c_back := 0 |}. split; [reflexivity|]. apply (iter_spec h pat [] 0 HndL Hlk).
  - (* seal.next = MRU = m; seal.prev = LRU = last *)
    assert (Hmru : nextof h seal = Some m) by (cbn [app chain] in Hc; tauto).
    assert (Hne : m :: l' <> []) by discriminate. destruct (exists_last Hne) as (l0 & z & El).
    assert (Hlru : prevof h seal = Some z).
    { rewrite El in Hc. replace (seal :: (l0 ++ [z]) ++ [seal]) with ((seal :: l0) ++ z :: [seal]) in Hc by (cbn; rewrite <- app_assoc; reflexivity).
      apply chain_app in Hc as [_ Hc]. apply chain_cons2 in Hc as (_ & Hp & _). exact Hp. }
    unfold cursor_new. rewrite Hlru, Hmru. cbn [bind]. eexists. split; [reflexivity|].
    pose proof (iter_spec h pat (rev (m :: l')) 0 HndL Hlk) as Hs.
    assert (E1 : rev (m :: l') = z :: rev l0) by (rewrite El, rev_app_distr; reflexivity).
    assert (E2 : last (rev (m :: l')) z = m) by (cbn [rev]; apply last_last).
    assert (Est : start (rev (m :: l')) 0 = {| c_next := Some z; c_back := m |}).
    { rewrite E1 in E2 |- *. cbn [start]. now rewrite E2. }
    rewrite Est in Hs. exact Hs.
Qed.
