(* C16 at pointer level. A/PanicA.v lists, for every operation, the points at which user code is called (Hash, Eq, size
   estimation, the mutate closure, the retain predicate) with the ABSTRACT state an unwinder would find. Here the same
   points are listed once more with the POINTER-LEVEL state the operation of B/StepB.v has reached when it makes the call,
   and it is proved that the two lists agree point by point: same kind of callback, the heap satisfies the representation
   invariant, and its abstraction is exactly the abstract unwinder state. So a panic at any callback of any operation
   finds a coherent linked structure (which the cache's Drop and every later operation can walk safely), and everything
   A/PanicProps.v proves about the abstract states (accounting, bound, distinct keys, nothing dropped twice) holds of it. *)
Require Import LruV.B.StepB LruV.B.OpsProps LruV.B.RefineLemmas LruV.B.RefineB LruV.A.PanicA LruV.A.OrderA LruV.A.ListLemmas.

Record bpoint := { bk : pkind; bst : bstate }.
Definition bp (k : pkind) (b : bstate) : bpoint := {| bk := k; bst := b |}.

Definition pt_rel (x : bpoint) (y : ppoint) : Prop := bk x = pk y /\ RIg (bg (bst x)) /\ absB (bst x) = pst y.
Definition pts_rel := Forall2 pt_rel.

Lemma pts_rel_app a1 a2 b1 b2 : pts_rel a1 b1 -> pts_rel a2 b2 -> pts_rel (a1 ++ a2) (b1 ++ b2).
Proof. apply Forall2_app. Qed.

Lemma pt_intro k b s d : RIg (bg b) -> absB b = s -> pt_rel (bp k b) (pt k s d).
Proof. intros H <-. split; [reflexivity|]. split; [exact H|reflexivity]. Qed.

Definition b_lookup_pts (b : bstate) : list bpoint := [bp KHash b; bp KEq b].
Lemma lookup_rel b s d : RIg (bg b) -> absB b = s -> pts_rel (b_lookup_pts b) (lookup_pts s d).
Proof. intros H Hs. constructor; [now apply pt_intro|]. constructor; [now apply pt_intro|constructor]. Qed.

(* the eviction loop *)
Fixpoint b_eject_pts (fuel : nat) (mk : gstate -> N -> bstate) (g : gstate) (c target : N) : list bpoint :=
  if c <=? target then [] else
  match fuel with
  | O => []
  | S f => match b_lru g with
           | Some (Some p) => match entry_at (gh g) p, b_remove g p with
                              | Some e, Some g' => b_lookup_pts (mk g c) ++ b_eject_pts f mk g' (c - es e) target
                              | _, _ => []
                              end
           | _ => []
           end
  end.

Lemma eject_pts_rel (mkB : gstate -> N -> bstate) (mkA : list entry -> N -> cache) d :
  (forall g c, bg (mkB g c) = g) -> (forall g c, absB (mkB g c) = mkA (absG g) c) ->
  forall fuel g c target, RIg g -> NoDup (kids (absG g)) -> (length (glist g) <= fuel)%nat ->
  pts_rel (b_eject_pts fuel mkB g c target) (eject_pts mkA (absG g) c target d).
Proof.
  intros Hbg Habs. induction fuel as [|f IH]; intros g c target H Hku Hf.
  - assert (El : glist g = []) by (destruct (glist g); [reflexivity|cbn in Hf; lia]).
    cbn [b_eject_pts]. unfold absG. rewrite El. unfold absl. cbn [rev entries_of eject_pts]. destruct (c <=? target); constructor.
  - cbn [b_eject_pts]. rewrite (b_lru_spec g H). destruct (rev (glist g)) as [|p r] eqn:Er.
    + rewrite (absG_nil g Er). cbn [eject_pts]. destruct (c <=? target); constructor.
    + destruct (absG_lru g p r H Er) as (e & He & Ab). rewrite Ab. cbn [eject_pts]. destruct (c <=? target); [constructor|]. rewrite He.
      assert (Hin : In p (glist g)) by (apply in_rev; rewrite Er; now left).
      destruct (b_remove_RI g p H Hin) as (g1 & Erm & _). rewrite Erm.
      destruct (P_remove g p e g1 H Hku Hin He Erm) as (H1 & _ & Ha1 & Hku1 & Hl1 & _).
      rewrite Ab in Ha1. cbn [remove_id] in Ha1. rewrite N.eqb_refl in Ha1.
      apply pts_rel_app.
      * apply lookup_rel; [now rewrite Hbg|]. now rewrite Habs, Ab.
      * rewrite <- Ha1. apply IH; auto.
        assert (Hlen : length (glist g1) = length (entries_of (gh g) r)) by (rewrite <- Ha1; symmetry; apply absG_length, H1).
        pose proof (absG_length g H) as Hlg. rewrite Ab in Hlg. cbn [length] in Hlg. lia.
Qed.

(* move_to_table hashes every held entry before anything moves *)
Definition b_rehash_pts (b : bstate) : list bpoint := map (fun _ => bp KHash b) (glist (bg b)).
Lemma rehash_rel b s d : RIg (bg b) -> absB b = s -> pts_rel (b_rehash_pts b) (rehash_pts s d).
Proof.
  intros H <-. unfold b_rehash_pts, rehash_pts. cbn [ents absB]. fold (absG (bg b)).
  pose proof (absG_length _ H) as Hl. revert Hl. generalize (absG (bg b)) (glist (bg b)).
  induction l as [|x l IH]; intros [|a l0] Hl; try discriminate; cbn [map]; constructor.
  - now apply pt_intro.
  - apply IH. now injection Hl.
Qed.

Section Params.
Variables (E VS : N).

Definition b_insert_pts (b : bstate) (k : key) (v : val) (oB : oracleB) : list bpoint :=
  [bp KSize b; bp KSize b] ++
  match esz E k v with
  | None => []
  | Some sz =>
    if bmax b <? sz then [] else
    b_lookup_pts b ++
    let old := b_find (bg b) (kid k) in
    match (match old with Some (a, _) => b_remove (bg b) a | None => Some (bg b) end) with
    | None => []
    | Some g0 =>
      let c0 := bcur b - match old with Some (_, e) => es e | None => 0 end in
      let t1 := t_erase (btb b) (o_tomb (ob oB)) in
      let mk := fun g c => set_b b g c t1 in
      b_eject_pts (length (glist g0)) mk g0 c0 (bmax b - sz) ++
      match b_eject (length (glist g0)) g0 c0 (bmax b - sz) with
      | None => []
      | Some (g1, c1, _) =>
        match t_insert E t1 (N.of_nat (length (glist g1))) (ob oB) with
        | Some (_, true) => b_rehash_pts (mk g1 c1)
        | _ => []
        end
      end
    end
  end.

Definition b_try_insert_pts (b : bstate) (k : key) (v : val) (oB : oracleB) : list bpoint :=
  [bp KSize b; bp KSize b] ++
  match esz E k v with
  | None => []
  | Some sz =>
    if bmax b <? sz then [] else
    if bmax b - bcur b <? sz then [] else
    b_lookup_pts b ++
    match b_find (bg b) (kid k) with
    | Some _ => []
    | None => match t_insert E (btb b) (N.of_nat (length (glist (bg b)))) (ob oB) with
              | Some (_, true) => b_rehash_pts b
              | _ => []
              end
    end
  end.

Definition b_set_max_pts (b : bstate) (n : N) : list bpoint :=
  b_eject_pts (length (glist (bg b))) (fun g c => set_b b g c (btb b)) (bg b) (bcur b) n.

Definition b_realloc_pts (b : bstate) (want : N) (oB : oracleB) : list bpoint :=
  match t_alloc E want (o_alloc (ob oB)) with AOk _ => b_rehash_pts b | _ => [] end.

(* eject and b_eject agree in both directions on a coherent structure (the pointer-level loop faults only where the
   abstract one does) *)
Lemma b_eject_total : forall fuel g c t, RIg g -> NoDup (kids (absG g)) -> (length (glist g) <= fuel)%nat ->
  match eject (absG g) c t with
  | Some (l1, c1, evd) => exists g1, b_eject fuel g c t = Some (g1, c1, evd) /\ absG g1 = l1
  | None => b_eject fuel g c t = None
  end.
Proof.
  induction fuel as [|f IH]; intros g c t H Hku Hf.
  - assert (El : glist g = []) by (destruct (glist g); [reflexivity|cbn in Hf; lia]).
    unfold absG. rewrite El. unfold absl. cbn [rev entries_of eject b_eject]. destruct (c <=? t); [|reflexivity].
    exists g. split; [reflexivity|]. unfold absG, absl. now rewrite El.
  - cbn [b_eject]. rewrite (b_lru_spec g H). cbn [bind]. destruct (rev (glist g)) as [|p r] eqn:Er.
    + rewrite (absG_nil g Er). cbn [eject]. destruct (c <=? t); [|reflexivity]. exists g. split; [reflexivity|apply (absG_nil g Er)].
    + destruct (absG_lru g p r H Er) as (e & He & Ab). rewrite Ab. cbn [eject]. destruct (c <=? t); [exists g; split; [reflexivity|exact Ab]|]. rewrite He. cbn [bind].
      assert (Hin : In p (glist g)) by (apply in_rev; rewrite Er; now left).
      destruct (b_remove_RI g p H Hin) as (g1 & Erm & _). rewrite Erm. cbn [bind].
      destruct (P_remove g p e g1 H Hku Hin He Erm) as (H1 & _ & Ha1 & Hku1 & _).
      rewrite Ab in Ha1. cbn [remove_id] in Ha1. rewrite N.eqb_refl in Ha1.
      destruct (sub64 c (es e)) as [c'|]; [|reflexivity]. cbn [bind].
      assert (Hlen : (length (glist g1) <= f)%nat).
      { assert (Hl1 : length (glist g1) = length (entries_of (gh g) r)) by (rewrite <- Ha1; symmetry; apply absG_length, H1).
        pose proof (absG_length g H) as Hlg. rewrite Ab in Hlg. cbn [length] in Hlg. lia. }
      specialize (IH g1 c' t H1 Hku1 Hlen). rewrite Ha1 in IH.
      destruct (eject (entries_of (gh g) r) c' t) as [[[l1 c1] evd]|].
      * destruct IH as (g2 & E2 & A2). rewrite E2. cbn [bind]. exists g2. auto.
      * rewrite IH. reflexivity.
Qed.

Lemma eject_then b g0 c0 tgt t1 oB d : RIg g0 -> NoDup (kids (absG g0)) ->
  pts_rel
    match b_eject (length (glist g0)) g0 c0 tgt with
    | None => []
    | Some (g1, c1, _) => match t_insert E t1 (N.of_nat (length (glist g1))) (ob oB) with
                          | Some (_, true) => b_rehash_pts (set_b b g1 c1 t1)
                          | _ => []
                          end
    end
    match eject (absG g0) c0 tgt with
    | None => []
    | Some (l1, c1, _) => match t_insert E t1 (N.of_nat (length l1)) (ob oB) with
                          | Some (_, true) => rehash_pts (set_ents (absB b) l1 c1 t1) d
                          | _ => []
                          end
    end.
Proof.
  intros H0 Hku0. pose proof (b_eject_total (length (glist g0)) g0 c0 tgt H0 Hku0 (le_n _)) as Ht.
  destruct (eject (absG g0) c0 tgt) as [[[l1 c1] evd]|].
  - destruct Ht as (g1 & Eg1 & A1). destruct (b_eject_refines _ _ _ _ _ _ _ H0 Hku0 Eg1) as (_ & J2 & _). rewrite Eg1.
    rewrite <- A1, (absG_length g1 J2). destruct (t_insert E t1 (N.of_nat (length (glist g1))) (ob oB)) as [[t2 [|]]|]; try constructor.
    apply rehash_rel; [exact J2|reflexivity].
  - rewrite Ht. constructor.
Qed.

Lemma insert_pts_rel b k v oB : RIg (bg b) -> KU b -> pts_rel (b_insert_pts b k v oB) (insert_pts E (absB b) k v (ob oB)).
Proof.
  intros H Hku. unfold b_insert_pts, insert_pts. cbn [maxs cur tb ents absB]. fold (absG (bg b)).
  apply pts_rel_app; [constructor; [now apply pt_intro|]; constructor; [now apply pt_intro|constructor]|].
  destruct (esz E k v) as [sz|]; [|constructor]. destruct (bmax b <? sz); [constructor|].
  apply pts_rel_app; [now apply lookup_rel|].
  rewrite (b_find_rel _ (kid k) H).
  destruct (b_find (bg b) (kid k)) as [[a e]|] eqn:Ef; cbn [option_map snd].
  - destruct (b_find_some _ _ _ _ H Ef) as (F1 & F2 & F3 & F4).
    destruct (b_remove_RI _ a H F1) as (g0 & Erm & _). rewrite Erm.
    destruct (P_remove _ _ _ _ H Hku F1 F2 Erm) as (H0 & _ & Ha0 & Hku0 & _). rewrite F3 in Ha0. rewrite <- Ha0.
    apply pts_rel_app; [apply eject_pts_rel; auto|]. apply eject_then; auto.
  - pose proof (b_find_none _ _ H Ef) as Fn. destruct (find_id_none _ _ Fn) as [Rm _]. rewrite Rm.
    apply pts_rel_app; [apply eject_pts_rel; auto|]. apply eject_then; auto.
Qed.

Lemma try_insert_pts_rel b k v oB : RIg (bg b) -> KU b -> pts_rel (b_try_insert_pts b k v oB) (try_insert_pts E (absB b) k v (ob oB)).
Proof.
  intros H Hku. unfold b_try_insert_pts, try_insert_pts. cbn [maxs cur tb ents absB]. fold (absG (bg b)).
  apply pts_rel_app; [constructor; [now apply pt_intro|]; constructor; [now apply pt_intro|constructor]|].
  destruct (esz E k v) as [sz|]; [|constructor]. destruct (bmax b <? sz); [constructor|]. destruct (bmax b - bcur b <? sz); [constructor|].
  apply pts_rel_app; [now apply lookup_rel|].
  rewrite (b_find_rel _ (kid k) H). destruct (b_find (bg b) (kid k)) as [[a e]|]; cbn [option_map snd]; [constructor|].
  unfold len. cbn [ents absB]. fold (absG (bg b)). rewrite (absG_length _ H).
  destruct (t_insert E (btb b) (N.of_nat (length (glist (bg b)))) (ob oB)) as [[t2 [|]]|]; try constructor.
  now apply rehash_rel.
Qed.

(* ---------- mutate ---------- *)
Definition b_mutate_pts (b : bstate) (q nt nh : N) (oB : oracleB) : list bpoint :=
  b_lookup_pts b ++
  match b_find (bg b) q with
  | None => []
  | Some (a, e) =>
    let v' := {| vtok := vtok (ev e); vtag := nt; vheap := nh |} in
    match b_set_val (bg b) a (ek e) v' with
    | None => []
    | Some gm =>
      let sm := set_b b gm (bcur b) (btb b) in
      [bp KSize b; bp KClosure b; bp KSize sm] ++
      if vheap (ev e) <? nh then
        let diff := nh - vheap (ev e) in
        if bmax b <? es e + diff then b_lookup_pts sm
        else match b_touch gm a with
             | None => []
             | Some gt => b_eject_pts (length (glist gt)) (fun g c => set_b b g c (btb b)) gt (bcur b) (bmax b - diff)
             end
      else []
    end
  end.

Lemma map_inplace q (e e1 : entry) L2 L1 (f : entry -> entry) :
  (forall x, kid (ek x) <> q -> f x = x) -> f e = e1 -> ~ In q (kids L2) -> ~ In q (kids L1) ->
  map f (L2 ++ e :: L1) = L2 ++ e1 :: L1.
Proof.
  intros Hf He H2 H1. rewrite map_app. cbn [map]. rewrite He. f_equal; [|f_equal].
  - clear - Hf H2. induction L2 as [|x L IH]; [reflexivity|]. cbn [map]. rewrite Hf by (intros E0; apply H2; now left). rewrite IH; [reflexivity|]. intros Hi. apply H2. now right.
  - clear - Hf H1. induction L1 as [|x L IH]; [reflexivity|]. cbn [map]. rewrite Hf by (intros E0; apply H1; now left). rewrite IH; [reflexivity|]. intros Hi. apply H1. now right.
Qed.

Lemma mutate_pts_rel b q nt nh oB : RIg (bg b) -> KU b -> pts_rel (b_mutate_pts b q nt nh oB) (mutate_pts (absB b) q nt nh (ob oB)).
Proof.
  intros H Hku. unfold b_mutate_pts, mutate_pts. cbn [maxs cur tb ents absB]. fold (absG (bg b)).
  apply pts_rel_app; [now apply lookup_rel|].
  rewrite (b_find_rel _ q H). destruct (b_find (bg b) q) as [[a e]|] eqn:Ef; cbn [option_map snd]; [|constructor].
  destruct (b_find_some _ _ _ _ H Ef) as (F1 & F2 & F3 & F4).
  set (v' := {| vtok := vtok (ev e); vtag := nt; vheap := nh |}) in *.
  destruct (entry_at_node _ _ _ F2) as (n & Hn & Hp & Hs).
  assert (Esv : exists gm, b_set_val (bg b) a (ek e) v' = Some gm) by (unfold b_set_val, set_pay; rewrite Hn; cbn [bind]; eauto).
  destruct Esv as [gm Esv]. rewrite Esv.
  destruct (P_set_val _ _ _ _ _ _ H F1 F2 Esv) as (M1 & M2 & M3 & M4 & M5 & M6).
  set (e1 := {| ek := ek e; ev := v'; es := es e |}) in *.
  destruct (inplace_abs (bg b) gm a e e1 H Hku F1 F2 M3 M4 M5 eq_refl) as [Hkum Hrm]. rewrite F3 in Hrm.
  assert (F1m : In a (glist gm)) by (rewrite M3; exact F1).
  (* the abstraction of the state the closure leaves: the entry rewritten in place *)
  destruct (glist_split (bg b) a H F1) as (l1 & l2 & El & Hn1 & Hn2).
  pose proof (absG_at (bg b) l1 a l2 e El F2) as A0. assert (Elm : glist gm = l1 ++ a :: l2) by congruence.
  pose proof (absG_at gm l1 a l2 e1 Elm M4) as A1.
  rewrite (absl_frame (gh (bg b)) (gh gm) l1), (absl_frame (gh (bg b)) (gh gm) l2) in A1 by (intros x Hx; apply M5; intros ->; tauto).
  assert (Hin_place : map (fun x => if kid (ek x) =? q then {| ek := ek x; ev := v'; es := es x |} else x) (absG (bg b)) = absG gm).
  { rewrite A0, A1. unfold KU in Hku. rewrite A0, kids_app in Hku. cbn [kids map] in Hku. apply NoDup_app_remove_mid in Hku as [_ Hnq]. rewrite F3 in Hnq.
    apply (map_inplace q).
    - intros x Hx. destruct (N.eqb_spec (kid (ek x)) q); [tauto|reflexivity].
    - rewrite F3, N.eqb_refl. reflexivity.
    - intros Hi. apply Hnq. apply in_or_app. now left.
    - intros Hi. apply Hnq. apply in_or_app. now right. }
  rewrite Hin_place.
  apply pts_rel_app.
  - constructor; [now apply pt_intro|]. constructor; [now apply pt_intro|]. constructor; [|constructor]. apply pt_intro; [exact M1|reflexivity].
  - destruct (vheap (ev e) <? nh); [|constructor].
    destruct (bmax b <? es e + (nh - vheap (ev e))).
    + apply lookup_rel; [exact M1|reflexivity].
    + destruct (b_touch_RI gm a M1 F1m) as (gt & Et & _). rewrite Et.
      destruct (P_touch _ _ _ _ M1 Hkum F1m M4 Et) as (T1 & T2 & T3 & T4 & _). cbn [ek e1] in T3, T4. rewrite F3 in T3, T4. rewrite Hrm in T3.
      assert (Hkut : NoDup (kids (absG gt))) by (rewrite T3; apply (kids_touch_nodup q _ e e1 Hku F4); exact F3).
      rewrite <- T3. apply eject_pts_rel; auto.
Qed.

(* ---------- retain ---------- *)
Fixpoint b_retain_pts (fuel : nat) (b : bstate) (g : gstate) (keep : key -> val -> bool) (tail : addr) (c : N) : list bpoint :=
  if tail =? gseal g then [] else
  match fuel with
  | O => []
  | S f =>
    match entry_at (gh g) tail, prevof (gh g) tail with
    | Some e, Some p =>
      let here := set_b b g c (btb b) in
      bp KPred here ::
      if keep (ek e) (ev e) then b_retain_pts f b g keep p c
      else match b_remove g tail with
           | Some g1 => b_lookup_pts here ++ b_retain_pts f b g1 keep p (c - es e)
           | None => []
           end
    | _, _ => []
    end
  end.

Lemma retain_pts_rel b keep o : forall TA fuel g DA c,
  RIg g -> NoDup (kids (absG g)) -> rev (glist g) = DA ++ TA -> (length TA <= fuel)%nat ->
  pts_rel (b_retain_pts fuel b g keep (match TA with [] => gseal g | t :: _ => t end) c)
          (retain_pts (absB b) keep o (entries_of (gh g) DA) (entries_of (gh g) TA) c).
Proof.
  induction TA as [|t TA IH]; intros fuel g DA c H Hnd Er Hfuel.
  - destruct fuel; cbn [b_retain_pts]; rewrite N.eqb_refl; constructor.
  - assert (Hin : In t (glist g)) by (apply in_rev; rewrite Er; apply in_or_app; right; now left).
    assert (Hts : t <> gseal g) by (intros ->; destruct H as (Hn & _); apply NoDup_cons_iff in Hn as [Hs _]; tauto).
    destruct fuel as [|f]; [cbn in Hfuel; lia|]. cbn [b_retain_pts]. destruct (N.eqb_spec t (gseal g)) as [|_]; [tauto|].
    destruct (RI_entry g t H Hin) as [e He]. rewrite He. rewrite (prev_in_walk g DA t TA H Er).
    cbn [entries_of]. rewrite He. cbn [retain_pts].
    assert (Hhere : absB (set_b b g c (btb b)) = set_ents (absB b) (entries_of (gh g) DA ++ e :: entries_of (gh g) TA) c (tb (absB b))).
    { rewrite absB_set. f_equal. unfold absG, absl. rewrite Er, entries_of_app. cbn [entries_of]. now rewrite He. }
    constructor; [apply pt_intro; [exact H|exact Hhere]|].
    destruct (keep (ek e) (ev e)).
    + assert (Er' : rev (glist g) = (DA ++ [t]) ++ TA) by (rewrite <- app_assoc; exact Er).
      specialize (IH f g (DA ++ [t]) c H Hnd Er'). rewrite entries_of_app in IH. cbn [entries_of] in IH. rewrite He in IH. apply IH. cbn in Hfuel. lia.
    + destruct (b_remove_RI g t H Hin) as (g1 & Erm & _). rewrite Erm.
      destruct (P_remove g t e g1 H Hnd Hin He Erm) as (H1 & Hs1 & Ha1 & Hnd1 & Hl1 & _ & Hfr1 & _).
      apply pts_rel_app; [apply lookup_rel; [exact H|exact Hhere]|].
      assert (Hgl : glist g = rev TA ++ t :: rev DA).
      { rewrite <- (rev_involutive (glist g)), Er, rev_app_distr. cbn [rev]. now rewrite <- app_assoc. }
      assert (Hndl : NoDup (glist g)) by (destruct H as (Hn & _); now apply NoDup_cons_iff in Hn as [_ ?]).
      assert (Ht1 : ~ In t (rev TA) /\ ~ In t (rev DA)).
      { rewrite Hgl in Hndl. apply NoDup_remove_2 in Hndl. split; intros Hi; apply Hndl; apply in_or_app; [now left|now right]. }
      destruct Ht1 as [HtT HtD].
      assert (Er1 : rev (glist g1) = DA ++ TA).
      { rewrite Hl1, Hgl, (remove_addr_split (rev TA) t (rev DA) HtT), rev_app_distr, !rev_involutive. reflexivity. }
      assert (FD : entries_of (gh g1) DA = entries_of (gh g) DA).
      { clear - Hfr1 HtD. induction DA as [|x DA IHD]; [reflexivity|]. cbn [entries_of]. rewrite Hfr1, IHD; [reflexivity| |].
        - intros Hi. apply HtD. cbn [rev]. apply in_or_app. now left.
        - intros ->. apply HtD. cbn [rev]. apply in_or_app. right. now left. }
      assert (FT : entries_of (gh g1) TA = entries_of (gh g) TA).
      { clear - Hfr1 HtT. induction TA as [|x TA IHT]; [reflexivity|]. cbn [entries_of]. rewrite Hfr1, IHT; [reflexivity| |].
        - intros Hi. apply HtT. cbn [rev]. apply in_or_app. now left.
        - intros ->. apply HtT. cbn [rev]. apply in_or_app. right. now left. }
      specialize (IH f g1 DA (c - es e) H1 Hnd1 Er1). rewrite FD, FT, Hs1 in IH. apply IH. cbn in Hfuel. lia.
Qed.

(* ---------- every operation ---------- *)
Definition bpoints (b : bstate) (p : op) (oB : oracleB) : list bpoint :=
  let nlen := N.of_nat (length (glist (bg b))) in
  match p with
  | Insert k v => b_insert_pts b k v oB
  | TryInsert k v => b_try_insert_pts b k v oB
  | Get _ | GetEntry _ | Peek _ | PeekEntry _ | Contains _ | Touch _ | Remove _ | RemoveEntry _ => b_lookup_pts b
  | RemoveLru | RemoveMru => match glist (bg b) with [] => [] | _ => b_lookup_pts b end
  | Mutate q nt nh => b_mutate_pts b q nt nh oB
  | SetMaxSize n => b_set_max_pts b n
  | Retain keep => match prevof (gh (bg b)) (gseal (bg b)) with
                   | Some t0 => b_retain_pts (length (glist (bg b))) b (bg b) keep t0 (bcur b)
                   | None => []
                   end
  | Reserve n | TryReserve n =>
      match add64 nlen n with
      | Some want => if capacity (btb b) <? want then b_realloc_pts b want oB else []
      | None => []
      end
  | ShrinkTo n =>
      let want := N.max nlen n in
      if want <? capacity (btb b) then
        match t_alloc E want (o_alloc (ob oB)) with AOk t' => if capacity t' <? capacity (btb b) then b_rehash_pts b else [] | _ => [] end
      else []
  | ShrinkToFit =>
      let want := nlen in
      if want <? capacity (btb b) then
        match t_alloc E want (o_alloc (ob oB)) with AOk t' => if capacity t' <? capacity (btb b) then b_rehash_pts b else [] | _ => [] end
      else []
  | _ => []
  end.

Theorem bpoints_match b p oB : RIg (bg b) -> KU b -> pts_rel (bpoints b p oB) (panic_points E (absB b) p (ob oB)).
Proof.
  intros H Hku. destruct p; cbn [bpoints panic_points]; try (now apply lookup_rel); try (now constructor).
  - now apply insert_pts_rel.
  - now apply try_insert_pts_rel.
  - (* remove_lru *) cbn [ents absB]. fold (absG (bg b)). pose proof (absG_length _ H) as Hl.
    destruct (glist (bg b)), (absG (bg b)); try discriminate; [constructor|now apply lookup_rel].
  - cbn [ents absB]. fold (absG (bg b)). pose proof (absG_length _ H) as Hl.
    destruct (glist (bg b)), (absG (bg b)); try discriminate; [constructor|now apply lookup_rel].
  - now apply mutate_pts_rel.
  - (* set_max_size *) unfold b_set_max_pts, set_max_pts. cbn [ents cur tb absB]. fold (absG (bg b)). apply eject_pts_rel; auto.
  - (* retain *) pose proof (b_lru_spec _ H) as Hl. unfold b_lru in Hl.
    destruct (prevof (gh (bg b)) (gseal (bg b))) as [t0|]; [|discriminate]. cbn [bind] in Hl.
    assert (Ht0 : t0 = match rev (glist (bg b)) with [] => gseal (bg b) | t :: _ => t end).
    { destruct (rev (glist (bg b))); destruct (N.eqb_spec t0 (gseal (bg b))); congruence. }
    rewrite Ht0. cbn [ents cur absB]. fold (absG (bg b)).
    pose proof (retain_pts_rel b keep (ob oB) (rev (glist (bg b))) (length (glist (bg b))) (bg b) [] (bcur b) H Hku eq_refl) as R.
    cbn [entries_of] in R. apply R. rewrite rev_length. lia.
  - (* reserve *) unfold len. cbn [ents tb absB]. fold (absG (bg b)). rewrite (absG_length _ H).
    destruct (add64 (N.of_nat (length (glist (bg b)))) n) as [want|]; [|constructor]. destruct (capacity (btb b) <? want); [|constructor].
    unfold b_realloc_pts, realloc_pts. destruct (t_alloc E want (o_alloc (ob oB))); try constructor. now apply rehash_rel.
  - unfold len. cbn [ents tb absB]. fold (absG (bg b)). rewrite (absG_length _ H).
    destruct (add64 (N.of_nat (length (glist (bg b)))) n) as [want|]; [|constructor]. destruct (capacity (btb b) <? want); [|constructor].
    unfold b_realloc_pts, realloc_pts. destruct (t_alloc E want (o_alloc (ob oB))); try constructor. now apply rehash_rel.
  - (* shrink_to *) unfold len. cbn [ents tb absB]. fold (absG (bg b)). rewrite (absG_length _ H).
    destruct (N.max (N.of_nat (length (glist (bg b)))) n <? capacity (btb b)); [|constructor].
    destruct (t_alloc E _ (o_alloc (ob oB))) as [t'| |]; try constructor. destruct (capacity t' <? capacity (btb b)); [|constructor]. now apply rehash_rel.
  - unfold len. cbn [ents tb absB]. fold (absG (bg b)). rewrite (absG_length _ H).
    destruct (N.of_nat (length (glist (bg b))) <? capacity (btb b)); [|constructor].
    destruct (t_alloc E _ (o_alloc (ob oB))) as [t'| |]; try constructor. destruct (capacity t' <? capacity (btb b)); [|constructor]. now apply rehash_rel.
Qed.
End Params.
