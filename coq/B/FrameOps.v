(* Layer B frame theorem for WHOLE public operations (C14 independence, C19): in one heap shared by several caches, a
   public operation of `stepB` on one cache writes (or frees) only that cache's own nodes — its seal and its listed
   buckets — and the buckets the oracle hands it (the bucket of a new entry, the targets of a rebuild); every other
   address of the heap is bit-for-bit unchanged.  Hence a second cache whose nodes are disjoint from those keeps its
   representation invariant and its abstract content through ANY operation on the first (other_cache_preserved). *)
Require Import LruV.B.StepB LruV.B.RefineLemmas LruV.B.RefineIter LruV.B.RefineB LruV.B.FrameB.

Definition own (g : gstate) : list addr := gseal g :: glist g.

(* g' was obtained from g by writes inside own g and X only; what g' lists lies inside own g and X *)
Definition Fr (X : list addr) (g g' : gstate) : Prop :=
  gseal g' = gseal g /\
  (forall x, In x (glist g') -> In x (own g) \/ In x X) /\
  (forall x, ~ In x (own g) -> ~ In x X -> gh g' x = gh g x).

Lemma Fr_refl X g : Fr X g g.
Proof. split; [reflexivity|]. split; [intros x Hx; left; now right|reflexivity]. Qed.
Lemma Fr_trans X g g1 g2 : Fr X g g1 -> Fr X g1 g2 -> Fr X g g2.
Proof.
  intros (S1 & L1 & F1) (S2 & L2 & F2). split; [congruence|]. split.
  - intros x Hx. destruct (L2 x Hx) as [[Hs|Hl]|HX]; [left; left; congruence|exact (L1 x Hl)|now right].
  - intros x Ho HX. rewrite F2; [now apply F1| |exact HX]. intros [Hs|Hl]; [apply Ho; left; congruence|].
    destruct (L1 x Hl); tauto.
Qed.
Lemma Fr_weaken X Y g g' : (forall x, In x X -> In x Y) -> Fr X g g' -> Fr Y g g'.
Proof. intros Hs (S1 & L1 & F1). split; [exact S1|]. split; [intros x Hx; destruct (L1 x Hx); auto|intros x Ho HY; apply F1; auto]. Qed.

(* ---------- primitives ---------- *)
Lemma fr_touch g a g' : RIg g -> In a (glist g) -> b_touch g a = Some g' -> Fr [] g g'.
Proof.
  intros H Hin Hb. split; [|split].
  - unfold b_touch in Hb. destruct (touch_ptr _ _ _); [|discriminate]. now injection Hb as <-.
  - intros x Hx. left. right. unfold b_touch in Hb. destruct (touch_ptr _ _ _); [|discriminate]. injection Hb as <-. cbn [glist] in Hx.
    destruct Hx as [<-|Hx]; [exact Hin|eapply remove_addr_in; eauto].
  - intros x Ho _. exact (b_touch_frame g a g' H Hin Hb x Ho).
Qed.
Lemma fr_remove g a g' : RIg g -> In a (glist g) -> b_remove g a = Some g' -> Fr [] g g'.
Proof.
  intros H Hin Hb. split; [|split].
  - unfold b_remove in Hb. destruct (unhinge _ _); [|discriminate]. now injection Hb as <-.
  - intros x Hx. left. right. unfold b_remove in Hb. destruct (unhinge _ _); [|discriminate]. injection Hb as <-. cbn [glist] in Hx. eapply remove_addr_in; eauto.
  - intros x Ho _. exact (b_remove_frame g a g' H Hin Hb x Ho).
Qed.
Lemma fr_insert_new g a sz p g' : RIg g -> ~ In a (own g) -> b_insert_new g a sz p = Some g' -> Fr [a] g g'.
Proof.
  intros H Hf Hb. split; [|split].
  - unfold b_insert_new in Hb. destruct (nextof _ _); [|discriminate]. cbn [bind] in Hb. destruct (set_head _ _ _); [|discriminate]. now injection Hb as <-.
  - intros x Hx. unfold b_insert_new in Hb. destruct (nextof _ _); [|discriminate]. cbn [bind] in Hb. destruct (set_head _ _ _); [|discriminate]. injection Hb as <-.
    cbn [glist] in Hx. destruct Hx as [<-|Hx]; [right; now left|left; now right].
  - intros x Ho HX. apply (b_insert_new_frame g a sz p g' H Hf Hb x Ho). intros ->. apply HX. now left.
Qed.
Lemma set_size_other h a sz h' b : set_size h a sz = Some h' -> b <> a -> h' b = h b.
Proof. unfold set_size. destruct (h a); [|discriminate]. intros [= <-] Hne. now apply upd_other. Qed.
Lemma set_pay_other h a p h' b : set_pay h a p = Some h' -> b <> a -> h' b = h b.
Proof. unfold set_pay. destruct (h a); [|discriminate]. intros [= <-] Hne. now apply upd_other. Qed.
Lemma fr_set_size g a sz g' : In a (glist g) -> b_set_size g a sz = Some g' -> Fr [] g g'.
Proof.
  intros Hin Hb. unfold b_set_size in Hb. destruct (set_size (gh g) a sz) as [h'|] eqn:Hs; [|discriminate]. injection Hb as <-.
  split; [reflexivity|]. split; [intros x Hx; left; now right|]. intros x Ho _. cbn [gh]. apply (set_size_other _ _ _ _ x Hs). intros ->. apply Ho. now right.
Qed.
Lemma fr_set_val g a k v g' : In a (glist g) -> b_set_val g a k v = Some g' -> Fr [] g g'.
Proof.
  intros Hin Hb. unfold b_set_val in Hb. destruct (set_pay (gh g) a (PLive k v)) as [h'|] eqn:Hs; [|discriminate]. injection Hb as <-.
  split; [reflexivity|]. split; [intros x Hx; left; now right|]. intros x Ho _. cbn [gh]. apply (set_pay_other _ _ _ _ x Hs). intros ->. apply Ho. now right.
Qed.
Lemma fr_move g a a' g' : RIg g -> In a (glist g) -> ~ In a' (own g) -> b_move g a a' = Some g' -> Fr [a'] g g'.
Proof.
  intros H Hin Hf Hb. unfold b_move in Hb. destruct (move (gh g) a a') as [h'|] eqn:Hm; [|discriminate]. injection Hb as <-.
  split; [reflexivity|]. split.
  - intros x Hx. cbn [glist] in Hx. apply in_map_iff in Hx as (y & Hy & Hin'). destruct (N.eqb y a); [right; left; now symmetry|left; right; now subst].
  - intros x Ho HX. cbn [gh]. unfold move in Hm. destruct (gh g a) as [n|] eqn:Ha; [|discriminate]. cbn [bind] in Hm.
    destruct (neighbours_in _ _ _ a n H Hin Ha) as [Hp Hx].
    destruct (set_next (upd (free (gh g) a) a' n) (nprev n) a') as [h1|] eqn:E1; [|discriminate]. cbn [bind] in Hm.
    rewrite (set_prev_other _ _ _ _ x Hm) by (intros ->; apply Ho; exact Hx).
    rewrite (set_next_other _ _ _ _ x E1) by (intros ->; apply Ho; exact Hp).
    rewrite upd_other by (intros ->; apply HX; now left). apply free_other. intros ->. apply Ho. now right.
Qed.
Lemma fr_reset g g' : b_reset g = Some g' -> Fr [] g g'.
Proof.
  intros Hb. unfold b_reset in Hb. destruct (set_next (gh g) (gseal g) (gseal g)) as [h1|] eqn:E1; [|discriminate]. cbn [bind] in Hb.
  destruct (set_prev h1 (gseal g) (gseal g)) as [h2|] eqn:E2; [|discriminate]. cbn [bind] in Hb. injection Hb as <-.
  split; [reflexivity|]. split; [intros x []|]. intros x Ho _. cbn [gh].
  rewrite fold_free_other by (intros Hi; apply Ho; now right).
  rewrite (set_prev_other _ _ _ _ x E2) by (intros ->; apply Ho; now left). apply (set_next_other _ _ _ _ x E1). intros ->. apply Ho. now left.
Qed.

(* ---------- loops ---------- *)
Lemma fr_eject : forall fuel g c t g' c' evd, RIg g -> NoDup (kids (absG g)) -> b_eject fuel g c t = Some (g', c', evd) -> Fr [] g g'.
Proof.
  induction fuel as [|f IH]; intros g c t g' c' evd H Hnd Hb; cbn [b_eject] in Hb; destruct (c <=? t) eqn:Ect; try discriminate; try (injection Hb as <- <- <-; apply Fr_refl).
  rewrite (b_lru_spec g H) in Hb. cbn [bind] in Hb. destruct (rev (glist g)) as [|p r] eqn:Er; [discriminate|].
  destruct (absG_lru g p r H Er) as (e & He & Habs). rewrite He in Hb. cbn [bind] in Hb.
  destruct (b_remove g p) as [g1|] eqn:Erm; [|discriminate]. cbn [bind] in Hb.
  destruct (sub64 c (es e)) as [c1|]; [|discriminate]. cbn [bind] in Hb.
  destruct (b_eject f g1 c1 t) as [[[g2 c2] evd2]|] eqn:Erec; [|discriminate]. cbn [bind] in Hb. injection Hb as <- <- <-.
  assert (Hin : In p (glist g)) by (apply in_rev; rewrite Er; now left).
  destruct (P_remove g p e g1 H Hnd Hin He Erm) as (H1 & _ & _ & Hnd1 & _).
  eapply Fr_trans; [exact (fr_remove g p g1 H Hin Erm)|exact (IH g1 c1 t g2 c2 evd2 H1 Hnd1 Erec)].
Qed.

Lemma fr_moves : forall pairs g g', RIg g -> b_moves_chk g pairs = Some g' -> Fr (map snd pairs) g g'.
Proof.
  induction pairs as [|[a a'] pairs IH]; intros g g' H Hm; cbn [b_moves_chk] in Hm.
  - injection Hm as <-. apply Fr_refl.
  - destruct (mem_addr a (glist g)) eqn:E1; cbn [negb] in Hm; [|discriminate].
    destruct (mem_addr a' (gseal g :: glist g)) eqn:E2; [discriminate|].
    destruct (b_move g a a') as [g1|] eqn:Em; [|discriminate]. cbn [bind] in Hm.
    apply mem_addr_spec in E1. assert (Hf : ~ In a' (gseal g :: glist g)) by (intros Hi; apply mem_addr_spec in Hi; congruence).
    destruct (P_move g a a' g1 H E1 Hf Em) as (H1 & _).
    eapply Fr_trans.
    + eapply Fr_weaken; [|exact (fr_move g a a' g1 H E1 Hf Em)]. intros x [<-|[]]. now left.
    + eapply Fr_weaken; [|exact (IH g1 g' H1 Hm)]. intros x Hx. now right.
Qed.

Lemma fr_retain keep : forall TA fuel g DA c g' c' gone vis,
  RIg g -> NoDup (kids (absG g)) -> rev (glist g) = DA ++ TA -> (length TA <= fuel)%nat ->
  b_retain fuel g keep (match TA with [] => gseal g | t :: _ => t end) c = Some (g', c', gone, vis) -> Fr [] g g'.
Proof.
  induction TA as [|t TA IH]; intros fuel g DA c g' c' gone vis H Hnd Er Hfuel Hb.
  - destruct fuel; cbn [b_retain] in Hb; rewrite N.eqb_refl in Hb; injection Hb as <- <- <- <-; apply Fr_refl.
  - assert (Hin : In t (glist g)) by (apply in_rev; rewrite Er; apply in_or_app; right; now left).
    assert (Hts : t <> gseal g) by (intros ->; destruct H as (Hn & _); apply NoDup_cons_iff in Hn as [Hs _]; tauto).
    destruct fuel as [|f]; [cbn in Hfuel; lia|]. cbn [b_retain] in Hb. destruct (N.eqb_spec t (gseal g)) as [|_]; [tauto|].
    destruct (RI_entry g t H Hin) as [e He]. rewrite He in Hb. cbn [bind] in Hb.
    rewrite (prev_in_walk g DA t TA H Er) in Hb. cbn [bind] in Hb.
    destruct (keep (ek e) (ev e)) eqn:Ek.
    + destruct (b_retain f g keep _ c) as [[[[g2 c2] gone2] vis2]|] eqn:Erec; [|discriminate]. cbn [bind] in Hb. injection Hb as <- <- <- <-.
      assert (Er' : rev (glist g) = (DA ++ [t]) ++ TA) by (rewrite <- app_assoc; exact Er).
      apply (IH f g (DA ++ [t]) c g2 c2 gone2 vis2 H Hnd Er'); [cbn in Hfuel; lia|exact Erec].
    + destruct (b_remove g t) as [g1|] eqn:Erm; [|discriminate]. cbn [bind] in Hb.
      destruct (sub64 c (es e)) as [c1|] eqn:Es; [|discriminate]. cbn [bind] in Hb.
      destruct (P_remove g t e g1 H Hnd Hin He Erm) as (H1 & Hs1 & Ha1 & Hnd1 & Hl1 & _ & Hfr1 & _).
      rewrite <- Hs1 in Hb.
      assert (Hgl : glist g = rev TA ++ t :: rev DA).
      { rewrite <- (rev_involutive (glist g)), Er, rev_app_distr. cbn [rev]. now rewrite <- app_assoc. }
      assert (Hndl : NoDup (glist g)) by (destruct H as (Hn & _); now apply NoDup_cons_iff in Hn as [_ ?]).
      assert (HtT : ~ In t (rev TA)).
      { rewrite Hgl in Hndl. apply NoDup_remove_2 in Hndl. intros Hi; apply Hndl; apply in_or_app; now left. }
      assert (Er1 : rev (glist g1) = DA ++ TA).
      { rewrite Hl1, Hgl, (remove_addr_split (rev TA) t (rev DA) HtT), rev_app_distr, !rev_involutive. reflexivity. }
      destruct (b_retain f g1 keep _ c1) as [[[[g2 c2] gone2] vis2]|] eqn:Erec; [|discriminate]. cbn [bind] in Hb. injection Hb as <- <- <- <-.
      eapply Fr_trans; [exact (fr_remove g t g1 H Hin Erm)|].
      apply (IH f g1 DA c1 g2 c2 gone2 vis2 H1 Hnd1 Er1); [cbn in Hfuel; lia|exact Erec].
Qed.

(* ---------- the public operations ---------- *)
Section Params.
Variables (E VS : N).

(* the buckets the oracle hands the operation: where the new entry lands, where a rebuild moves each bucket *)
Definition extra (oB : oracleB) : list addr := ob_addr oB :: map snd (ob_moves oB).

Lemma fr_insert_unchecked g t1 k v sz oB g2 t2 rebuilt : RIg g ->
  b_insert_unchecked E g t1 k v sz oB = Some (g2, t2, rebuilt) -> Fr (extra oB) g g2.
Proof.
  intros H Hb. unfold b_insert_unchecked in Hb.
  destruct (t_insert E t1 (N.of_nat (length (glist g))) (ob oB)) as [[t2' rb]|]; [|discriminate]. cbn [bind] in Hb.
  assert (Hg1 : exists g1, (if rb then b_moves_chk g (ob_moves oB) else Some g) = Some g1 /\ RIg g1 /\ Fr (extra oB) g g1).
  { destruct rb.
    - destruct (b_moves_chk g (ob_moves oB)) as [g1|] eqn:Em; [|discriminate]. destruct (P_moves _ _ _ H Em) as (A1 & _).
      exists g1. split; [reflexivity|split; [exact A1|]]. eapply Fr_weaken; [|exact (fr_moves _ _ _ H Em)]. intros x Hx. now right.
    - exists g. split; [reflexivity|split; [exact H|apply Fr_refl]]. }
  destruct Hg1 as (g1 & Eg1 & H1 & F1). rewrite Eg1 in Hb. cbn [bind] in Hb.
  destruct (mem_addr (ob_addr oB) (gseal g1 :: glist g1)) eqn:Em; [discriminate|].
  destruct (b_insert_new g1 (ob_addr oB) sz (PLive k v)) as [g2'|] eqn:Ei; [|discriminate]. cbn [bind] in Hb. injection Hb as <- <- <-.
  assert (Hf : ~ In (ob_addr oB) (own g1)) by (intros Hi; apply mem_addr_spec in Hi; unfold own in Hi; congruence).
  eapply Fr_trans; [exact F1|]. eapply Fr_weaken; [|exact (fr_insert_new g1 _ _ _ _ H1 Hf Ei)]. intros x [<-|[]]. now left.
Qed.

Lemma fr_insert b k v oB b' o evs : RIb b -> KU b -> bB_insert E b k v oB = Some (b', o, evs) -> Fr (extra oB) (bg b) (bg b').
Proof.
  intros H Hku Hb. unfold bB_insert in Hb.
  destruct (esz E k v) as [sz|]; [|discriminate]. cbn [bind] in *.
  destruct (bmax b <? sz); [injection Hb as <- <- <-; apply Fr_refl|].
  assert (Hold : exists g0, match b_find (bg b) (kid k) with Some (a, _) => b_remove (bg b) a | None => Some (bg b) end = Some g0 /\
            RIg g0 /\ NoDup (kids (absG g0)) /\ Fr (extra oB) (bg b) g0).
  { destruct (b_find (bg b) (kid k)) as [[a e]|] eqn:Ef.
    - destruct (b_find_some _ _ _ _ H Ef) as (F1 & F2 & F3 & F4).
      destruct (b_remove (bg b) a) as [g0|] eqn:Er; [|discriminate].
      destruct (P_remove _ _ _ _ H Hku F1 F2 Er) as (R1 & R2 & R3 & R4 & _). exists g0. split; [reflexivity|split; [exact R1|split; [exact R4|]]].
      eapply Fr_weaken; [|exact (fr_remove _ _ _ H F1 Er)]. intros x [].
    - exists (bg b). split; [reflexivity|split; [exact H|split; [exact Hku|apply Fr_refl]]]. }
  destruct Hold as (g0 & Eg0 & H0 & Hku0 & F0). rewrite Eg0 in Hb. cbn [bind] in Hb.
  destruct (match b_find (bg b) (kid k) with Some (_, e) => sub64 (bcur b) (es e) | None => Some (bcur b) end) as [c0|]; [|discriminate]. cbn [bind] in Hb.
  destruct (sub64 (bmax b) sz) as [tgt|]; [|discriminate]. cbn [bind] in Hb.
  destruct (b_eject (length (glist g0)) g0 c0 tgt) as [[[g1 c1] evd]|] eqn:Eej; [|discriminate]. cbn [bind] in Hb.
  destruct (b_eject_refines _ _ _ _ _ _ _ H0 Hku0 Eej) as (_ & J2 & _).
  destruct (b_insert_unchecked E g1 (t_erase (btb b) (o_tomb (ob oB))) k v sz oB) as [[[g2 t2] rb]|] eqn:Eiu; [|discriminate]. cbn [bind] in Hb.
  destruct (add64 c1 sz) as [c2|]; [|discriminate]. cbn [bind] in Hb. injection Hb as <- <- <-. cbn [bg set_b].
  eapply Fr_trans; [exact F0|]. eapply Fr_trans; [|exact (fr_insert_unchecked _ _ _ _ _ _ _ _ _ J2 Eiu)].
  eapply Fr_weaken; [|exact (fr_eject _ _ _ _ _ _ _ H0 Hku0 Eej)]. intros x [].
Qed.

Lemma fr_try_insert b k v oB b' o evs : RIb b -> bB_try_insert E b k v oB = Some (b', o, evs) -> Fr (extra oB) (bg b) (bg b').
Proof.
  intros H Hb. unfold bB_try_insert in Hb.
  destruct (esz E k v) as [sz|]; [|discriminate]. cbn [bind] in *.
  destruct (bmax b <? sz); [injection Hb as <- <- <-; apply Fr_refl|].
  destruct (sub64 (bmax b) (bcur b)) as [free|]; [|discriminate]. cbn [bind] in Hb.
  destruct (free <? sz); [injection Hb as <- <- <-; apply Fr_refl|].
  destruct (b_find (bg b) (kid k)); [injection Hb as <- <- <-; apply Fr_refl|].
  destruct (b_insert_unchecked E (bg b) (btb b) k v sz oB) as [[[g2 t2] rb]|] eqn:Eiu; [|discriminate]. cbn [bind] in Hb.
  destruct (add64 (bcur b) sz) as [c2|]; [|discriminate]. cbn [bind] in Hb. injection Hb as <- <- <-. cbn [bg set_b].
  exact (fr_insert_unchecked _ _ _ _ _ _ _ _ _ H Eiu).
Qed.

Lemma fr_bB_touch X b q b' r : RIb b -> bB_touch b q = Some (b', r) -> Fr X (bg b) (bg b').
Proof.
  intros H Hb. unfold bB_touch in Hb. destruct (b_find (bg b) q) as [[a e]|] eqn:Ef; [|injection Hb as <- <-; apply Fr_refl].
  destruct (b_find_some _ _ _ _ H Ef) as (F1 & _).
  destruct (b_touch (bg b) a) as [g'|] eqn:Et; [|discriminate]. cbn [bind] in Hb. injection Hb as <- <-. cbn [bg set_b].
  eapply Fr_weaken; [|exact (fr_touch _ _ _ H F1 Et)]. intros x [].
Qed.

Lemma fr_remove_at X b a e oB b' : RIb b -> In a (glist (bg b)) -> bB_remove_at b a e oB = Some b' -> Fr X (bg b) (bg b').
Proof.
  intros H Hin Hb. unfold bB_remove_at in Hb. destruct (b_remove (bg b) a) as [g'|] eqn:Er; [|discriminate]. cbn [bind] in Hb.
  destruct (sub64 (bcur b) (es e)); [|discriminate]. cbn [bind] in Hb. injection Hb as <-. cbn [bg set_b].
  eapply Fr_weaken; [|exact (fr_remove _ _ _ H Hin Er)]. intros x [].
Qed.

Lemma fr_mutate X b q nt nh oB b' o evs : RIb b -> KU b -> bB_mutate VS b q nt nh oB = Some (b', o, evs) -> Fr X (bg b) (bg b').
Proof.
  intros H Hku Hb. unfold bB_mutate in Hb.
  destruct (b_find (bg b) q) as [[a e]|] eqn:Ef; [|injection Hb as <- <- <-; apply Fr_refl].
  destruct (b_find_some _ _ _ _ H Ef) as (F1 & F2 & F3 & F4).
  set (v' := {| vtok := vtok (ev e); vtag := nt; vheap := nh |}) in *.
  destruct (msz VS (ev e)) as [oldv|]; [|discriminate]. cbn [bind] in *.
  destruct (msz VS v') as [newv|]; [|discriminate]. cbn [bind] in *.
  destruct (b_set_val (bg b) a (ek e) v') as [gm|] eqn:Esv; [|discriminate]. cbn [bind] in Hb.
  destruct (P_set_val _ _ _ _ _ _ H F1 F2 Esv) as (M1 & M2 & M3 & M4 & M5 & M6).
  set (e1 := {| ek := ek e; ev := v'; es := es e |}) in *.
  destruct (inplace_abs (bg b) gm a e e1 H Hku F1 F2 M3 M4 M5 eq_refl) as [Hkum Hrm]. rewrite F3 in Hrm.
  assert (F1m : In a (glist gm)) by (rewrite M3; exact F1).
  assert (Fm : Fr X (bg b) gm) by (eapply Fr_weaken; [|exact (fr_set_val _ _ _ _ _ F1 Esv)]; intros x []).
  destruct (oldv <? newv).
  - destruct (sub64 newv oldv) as [diff|]; [|discriminate]. cbn [bind] in *.
    destruct (add64 (es e) diff) as [nes|]; [|discriminate]. cbn [bind] in *.
    destruct (bmax b <? nes).
    + destruct (b_remove gm a) as [g'|] eqn:Er; [|discriminate]. cbn [bind] in Hb.
      destruct (sub64 (bcur b) (es e)) as [c|]; [|discriminate]. cbn [bind] in *. injection Hb as <- <- <-. cbn [bg set_b].
      eapply Fr_trans; [exact Fm|]. eapply Fr_weaken; [|exact (fr_remove _ _ _ M1 F1m Er)]. intros x [].
    + destruct (b_touch gm a) as [gt|] eqn:Et; [|discriminate]. cbn [bind] in Hb.
      destruct (P_touch _ _ _ _ M1 Hkum F1m M4 Et) as (T1 & T2 & T3 & T4 & T5 & T6 & T7). cbn [ek e1] in T3, T4. rewrite F3 in T3, T4. rewrite Hrm in T3.
      assert (Hkut : NoDup (kids (absG gt))) by (rewrite T3; apply (kids_touch_nodup q _ e e1 Hku F4); exact F3).
      destruct (sub64 (bmax b) diff) as [tgt|]; [|discriminate]. cbn [bind] in *.
      destruct (b_eject (length (glist gt)) gt (bcur b) tgt) as [[[g1 c1] evd]|] eqn:Eej; [|discriminate]. cbn [bind] in Hb.
      destruct (b_eject_refines _ _ _ _ _ _ _ T1 Hkut Eej) as (J1 & J2 & J3 & J4 & (gone & J5 & J5') & J6 & J7).
      destruct (b_set_size g1 a nes) as [g2|] eqn:Ess; [|discriminate]. cbn [bind] in Hb.
      destruct (add64 c1 diff) as [c2|]; [|discriminate]. cbn [bind] in *. injection Hb as <- <- <-. cbn [bg set_b].
      assert (Ha1 : gh g1 a <> None) by (unfold b_set_size, set_size in Ess; destruct (gh g1 a); [discriminate|discriminate]).
      assert (Hin1 : In a (glist g1)).
      { destruct (glist g1) as [|a0 rest1] eqn:El1; [exfalso; apply Ha1, J5'; cbn [app] in J5; rewrite <- J5, T5; now left|].
        rewrite T5 in J5. cbn [app] in J5. injection J5 as -> _. now left. }
      eapply Fr_trans; [exact Fm|]. eapply Fr_trans; [eapply Fr_weaken; [|exact (fr_touch _ _ _ M1 F1m Et)]; intros x []|].
      eapply Fr_trans; [eapply Fr_weaken; [|exact (fr_eject _ _ _ _ _ _ _ T1 Hkut Eej)]; intros x []|].
      eapply Fr_weaken; [|exact (fr_set_size _ _ _ _ Hin1 Ess)]. intros x [].
  - destruct (sub64 oldv newv) as [diff|]; [|discriminate]. cbn [bind] in *.
    destruct (sub64 (es e) diff) as [nes|]; [|discriminate]. cbn [bind] in *.
    destruct (b_set_size gm a nes) as [g1|] eqn:Ess; [|discriminate]. cbn [bind] in Hb.
    destruct (sub64 (bcur b) diff) as [c|]; [|discriminate]. cbn [bind] in *.
    destruct (b_touch g1 a) as [g2|] eqn:Et; [|discriminate]. cbn [bind] in Hb. injection Hb as <- <- <-. cbn [bg set_b].
    destruct (P_set_size _ _ _ _ _ M1 F1m M4 Ess) as (S1 & S2 & S3 & S4 & S5 & _).
    assert (F11 : In a (glist g1)) by (rewrite S3; exact F1m).
    eapply Fr_trans; [exact Fm|]. eapply Fr_trans; [eapply Fr_weaken; [|exact (fr_set_size _ _ _ _ F1m Ess)]; intros x []|].
    eapply Fr_weaken; [|exact (fr_touch _ _ _ S1 F11 Et)]. intros x [].
Qed.

Lemma fr_realloc b n oB b' r : RIb b -> bB_realloc E b n oB = Some (b', r) -> Fr (extra oB) (bg b) (bg b').
Proof.
  intros H Hb. unfold bB_realloc in Hb. destruct (t_alloc E n (o_alloc (ob oB))); try (injection Hb as <- <-; apply Fr_refl).
  destruct (b_moves_chk (bg b) (ob_moves oB)) as [g'|] eqn:Em; [|discriminate]. cbn [bind] in Hb. injection Hb as <- <-. cbn [bg set_b].
  eapply Fr_weaken; [|exact (fr_moves _ _ _ H Em)]. intros x Hx. now right.
Qed.
Lemma fr_shrink b n oB b' o evs : RIb b -> bB_shrink E b n oB = Some (b', o, evs) -> Fr (extra oB) (bg b) (bg b').
Proof.
  intros H Hb. unfold bB_shrink in Hb. destruct (_ <? capacity (btb b)); [|injection Hb as <- <- <-; apply Fr_refl].
  destruct (t_alloc E _ (o_alloc (ob oB))) as [t'| |]; try (injection Hb as <- <- <-; apply Fr_refl).
  destruct (capacity t' <? capacity (btb b)); [|injection Hb as <- <- <-; apply Fr_refl].
  destruct (b_moves_chk (bg b) (ob_moves oB)) as [g'|] eqn:Em; [|discriminate]. cbn [bind] in Hb. injection Hb as <- <- <-. cbn [bg set_b].
  eapply Fr_weaken; [|exact (fr_moves _ _ _ H Em)]. intros x Hx. now right.
Qed.

Lemma node_ext (h h' : heap) b : nextof h' b = nextof h b -> prevof h' b = prevof h b -> sizeof_node h' b = sizeof_node h b ->
  payof h' b = payof h b -> h' b = h b.
Proof.
  unfold nextof, prevof, sizeof_node, payof. destruct (h' b) as [[p1 n1 s1 y1]|], (h b) as [[p2 n2 s2 y2]|]; cbn; try congruence.
Qed.

(* drain: the taking iterator writes (marks as moved out) only listed buckets *)
Lemma fr_drain X g pat cu h1 h2 h3 items : RIg g ->
  cursor_new (gh g) (gseal g) (match glist g with [] => true | _ => false end) = Some cu ->
  set_next (gh g) (gseal g) (gseal g) = Some h1 -> set_prev h1 (gseal g) (gseal g) = Some h2 -> tk_run h2 cu pat = Some (h3, items) ->
  Fr X g {| gh := fold_left free (glist g) h3; gseal := gseal g; glist := [] |}.
Proof.
  intros H Ecu E1 E2 Er. pose proof H as (Hnd & Hc & Hps & Hlive).
  destruct (seal_self (gh g) (gseal g) Hps) as (h1' & h2' & E1' & E2' & A1 & A2 & A3 & A4).
  rewrite E1 in E1'. injection E1' as <-. rewrite E2 in E2'. injection E2' as <-.
  set (M := rev (glist g)).
  assert (Hs : ~ In (gseal g) (glist g)) by now apply NoDup_cons_iff in Hnd as [? _].
  assert (HsM : forall a, In a M -> a <> gseal g) by (intros a Ha ->; apply Hs; now apply in_rev).
  assert (HndM : NoDup M) by apply (RI_nodup_rev g H).
  assert (Hlk : linked h2 M).
  { pose proof (chain_linked _ _ _ Hnd Hc) as Hl. intros L1 a b L2 EL. destruct (Hl L1 a b L2 EL) as [P1 P2].
    assert (Ia : In a M) by (rewrite EL; apply in_or_app; right; now left).
    assert (Ib : In b M) by (rewrite EL; apply in_or_app; right; right; now left).
    unfold prevof, nextof in *. rewrite (A4 a (HsM a Ia)), (A4 b (HsM b Ib)). auto. }
  assert (HliveM : forall a, In a M -> live h2 a).
  { intros a Ha. destruct (RI_live g H a Ha) as (k & v & Hp). exists k, v. unfold payof in *. now rewrite (A4 a (HsM a Ha)). }
  destruct (tk_spec pat M h2 0 HndM Hlk HliveM) as (h3' & Hr & (M1 & M2 & M3) & _ & _ & Htk).
  rewrite (cursor_new_start g H) in Ecu. injection Ecu as <-. fold M in Er. rewrite Hr in Er. injection Er as <- _.
  split; [reflexivity|]. split; [intros x []|]. intros x Ho _. cbn [gh].
  rewrite fold_free_other by (intros Hi; apply Ho; now right).
  assert (Hx : h3' x = h2 x).
  { apply node_ext; try apply (M3 x); [apply (tk_run_size pat h2 _ h3' _ x Hr)|]. apply M2. intros Hi. apply Ho. right. apply in_rev. exact (Htk x Hi). }
  rewrite Hx. apply A4. intros ->. apply Ho. now left.
Qed.

(* THE FRAME THEOREM: every public operation writes only inside the cache's own nodes and the buckets the oracle hands it *)
Theorem stepB_frame b p oB b' o evs : RIb b -> KU b -> stepB E VS b p oB = Some (b', o, evs) -> Fr (extra oB) (bg b) (bg b').
Proof.
  intros H Hku Hb. destruct p; cbn [stepB] in Hb.
  - now apply (fr_insert b k v oB b' o evs).
  - now apply (fr_try_insert b k v oB b' o evs).
  - destruct (bB_touch b q) as [[b1 r]|] eqn:Et; [|discriminate]. cbn [bind] in Hb. injection Hb as <- <- <-. exact (fr_bB_touch _ _ _ _ _ H Et).
  - destruct (bB_touch b q) as [[b1 r]|] eqn:Et; [|discriminate]. cbn [bind] in Hb. injection Hb as <- <- <-. exact (fr_bB_touch _ _ _ _ _ H Et).
  - injection Hb as <- <- <-. apply Fr_refl.
  - injection Hb as <- <- <-. apply Fr_refl.
  - injection Hb as <- <- <-. apply Fr_refl.
  - destruct (bB_touch b q) as [[b1 r]|] eqn:Et; [|discriminate]. cbn [bind] in Hb. injection Hb as <- <- <-. exact (fr_bB_touch _ _ _ _ _ H Et).
  - (* get_lru *) rewrite (b_lru_spec _ H) in Hb. cbn [bind] in Hb. destruct (rev (glist (bg b))) as [|p r] eqn:Er; [injection Hb as <- <- <-; apply Fr_refl|].
    destruct (entry_at (gh (bg b)) p); [|discriminate]. cbn [bind] in Hb. destruct (b_touch (bg b) p) as [g'|] eqn:Et; [|discriminate]. cbn [bind] in Hb. injection Hb as <- <- <-. cbn [bg set_b].
    assert (Hin : In p (glist (bg b))) by (apply in_rev; rewrite Er; now left).
    eapply Fr_weaken; [|exact (fr_touch _ _ _ H Hin Et)]. intros x [].
  - (* peek_lru *) destruct (b_lru (bg b)) as [[a|]|]; cbn [bind] in Hb; try discriminate; [destruct (entry_at _ a); [|discriminate]; cbn [bind] in Hb|]; injection Hb as <- <- <-; apply Fr_refl.
  - (* peek_mru *) destruct (b_mru (bg b)) as [[a|]|]; cbn [bind] in Hb; try discriminate; [destruct (entry_at _ a); [|discriminate]; cbn [bind] in Hb|]; injection Hb as <- <- <-; apply Fr_refl.
  - (* remove *) destruct (b_find (bg b) q) as [[a e]|] eqn:Ef; [|injection Hb as <- <- <-; apply Fr_refl].
    destruct (b_find_some _ _ _ _ H Ef) as (F1 & _). destruct (bB_remove_at b a e oB) as [b1|] eqn:Erm; [|discriminate]. cbn [bind] in Hb. injection Hb as <- <- <-.
    exact (fr_remove_at _ _ _ _ _ _ H F1 Erm).
  - destruct (b_find (bg b) q) as [[a e]|] eqn:Ef; [|injection Hb as <- <- <-; apply Fr_refl].
    destruct (b_find_some _ _ _ _ H Ef) as (F1 & _). destruct (bB_remove_at b a e oB) as [b1|] eqn:Erm; [|discriminate]. cbn [bind] in Hb. injection Hb as <- <- <-.
    exact (fr_remove_at _ _ _ _ _ _ H F1 Erm).
  - (* remove_lru *) rewrite (b_lru_spec _ H) in Hb. cbn [bind] in Hb. destruct (rev (glist (bg b))) as [|p r] eqn:Er; [injection Hb as <- <- <-; apply Fr_refl|].
    destruct (entry_at (gh (bg b)) p) as [e|]; [|discriminate]. cbn [bind] in Hb. destruct (bB_remove_at b p e oB) as [b1|] eqn:Erm; [|discriminate]. cbn [bind] in Hb. injection Hb as <- <- <-.
    assert (Hin : In p (glist (bg b))) by (apply in_rev; rewrite Er; now left). exact (fr_remove_at _ _ _ _ _ _ H Hin Erm).
  - (* remove_mru *) rewrite (b_mru_spec _ H) in Hb. cbn [bind] in Hb. destruct (glist (bg b)) as [|m r] eqn:El; [injection Hb as <- <- <-; apply Fr_refl|].
    destruct (entry_at (gh (bg b)) m) as [e|]; [|discriminate]. cbn [bind] in Hb. destruct (bB_remove_at b m e oB) as [b1|] eqn:Erm; [|discriminate]. cbn [bind] in Hb. injection Hb as <- <- <-.
    assert (Hin : In m (glist (bg b))) by (rewrite El; now left). exact (fr_remove_at _ _ _ _ _ _ H Hin Erm).
  - now apply (fr_mutate _ b q newtag newheap oB b' o evs).
  - (* set_max_size *) destruct (b_eject (length (glist (bg b))) (bg b) (bcur b) n) as [[[g1 c1] evd]|] eqn:Eej; [|discriminate]. cbn [bind] in Hb. injection Hb as <- <- <-. cbn [bg].
    eapply Fr_weaken; [|exact (fr_eject _ _ _ _ _ _ _ H Hku Eej)]. intros x [].
  - (* retain *) pose proof (b_lru_spec _ H) as Hl. unfold b_lru in Hl.
    destruct (prevof (gh (bg b)) (gseal (bg b))) as [t0|]; [|discriminate]. cbn [bind] in *.
    destruct (b_retain (length (glist (bg b))) (bg b) keep t0 (bcur b)) as [[[[g1 c1] gone] vis]|] eqn:Ert; [|discriminate]. cbn [bind] in Hb. injection Hb as <- <- <-. cbn [bg set_b].
    assert (Ht0 : t0 = match rev (glist (bg b)) with [] => gseal (bg b) | t :: _ => t end).
    { destruct (rev (glist (bg b))); destruct (N.eqb_spec t0 (gseal (bg b))); congruence. }
    rewrite Ht0 in Ert. eapply Fr_weaken; [|eapply (fr_retain keep (rev (glist (bg b))) (length (glist (bg b))) (bg b) [] (bcur b) g1 c1 gone vis H Hku eq_refl); [rewrite rev_length; lia|exact Ert]]. intros x [].
  - (* clear *) destruct (b_reset (bg b)) as [g'|] eqn:Er; [|discriminate]. cbn [bind] in Hb. injection Hb as <- <- <-. cbn [bg set_b].
    eapply Fr_weaken; [|exact (fr_reset _ _ Er)]. intros x [].
  - (* iter *) destruct (cursor_new _ _ _); [|discriminate]. cbn [bind] in Hb. destruct (it_run _ _ _); [|discriminate]. cbn [bind] in Hb.
    destruct (kvs_of _ _); [|discriminate]. cbn [bind] in Hb. injection Hb as <- <- <-. apply Fr_refl.
  - (* drain *) destruct (cursor_new _ _ _) as [cu|] eqn:Ecu; [|discriminate]. cbn [bind] in Hb.
    destruct (set_next _ _ _) as [h1|] eqn:E1; [|discriminate]. cbn [bind] in Hb.
    destruct (set_prev h1 _ _) as [h2|] eqn:E2; [|discriminate]. cbn [bind] in Hb.
    destruct (tk_run h2 cu pat) as [[h3 items]|] eqn:Er; [|discriminate]. cbn [bind] in Hb. injection Hb as <- <- <-. cbn [bg set_b].
    exact (fr_drain _ _ _ _ _ _ _ _ H Ecu E1 E2 Er).
  - (* reserve *) destruct (add64 _ n) as [want|]; [|injection Hb as <- <- <-; apply Fr_refl].
    destruct (capacity (btb b) <? want); [|injection Hb as <- <- <-; apply Fr_refl].
    destruct (bB_realloc E b want oB) as [[b1 r]|] eqn:Era; [|discriminate]. cbn [bind] in Hb.
    pose proof (fr_realloc _ _ _ _ _ H Era) as Hf. destruct r; injection Hb as <- <- <-; exact Hf.
  - (* try_reserve *) destruct (add64 _ n) as [want|]; [|injection Hb as <- <- <-; apply Fr_refl].
    destruct (capacity (btb b) <? want); [|injection Hb as <- <- <-; apply Fr_refl].
    destruct (bB_realloc E b want oB) as [[b1 r]|] eqn:Era; [|discriminate]. cbn [bind] in Hb.
    pose proof (fr_realloc _ _ _ _ _ H Era) as Hf. destruct r; injection Hb as <- <- <-; exact Hf.
  - now apply (fr_shrink b n oB b' o evs).
  - now apply (fr_shrink b 0 oB b' o evs).
  - (* debug *) destruct (cursor_new _ _ _); [|discriminate]. cbn [bind] in Hb. destruct (it_run _ _ _); [|discriminate]. cbn [bind] in Hb.
    destruct (kvs_of _ _); [|discriminate]. cbn [bind] in Hb. injection Hb as <- <- <-. apply Fr_refl.
  - injection Hb as <- <- <-. apply Fr_refl.
  - injection Hb as <- <- <-. apply Fr_refl.
  - injection Hb as <- <- <-. apply Fr_refl.
  - injection Hb as <- <- <-. apply Fr_refl.
  - injection Hb as <- <- <-. apply Fr_refl.
Qed.

(* INDEPENDENCE OF TWO CACHES IN ONE HEAP (C14): any public operation on one cache leaves every other cache whose nodes are
   disjoint from the operated cache's nodes and from the buckets the oracle hands out coherent and with the same content *)
Theorem stepB_other_cache b p oB b' o evs seal2 l2 : RIb b -> KU b -> stepB E VS b p oB = Some (b', o, evs) ->
  RI (gh (bg b)) seal2 l2 -> (forall x, In x (seal2 :: l2) -> ~ In x (own (bg b)) /\ ~ In x (extra oB)) ->
  RI (gh (bg b')) seal2 l2 /\ absl (gh (bg b')) l2 = absl (gh (bg b)) l2.
Proof.
  intros H Hku Hb H2 Hdis. destruct (stepB_frame b p oB b' o evs H Hku Hb) as (_ & _ & Hf).
  apply (other_cache_preserved (gh (bg b)) (gh (bg b')) (own (bg b) ++ extra oB)); [| |exact H2].
  - intros x Hx. apply Hf; intros Hi; apply Hx, in_or_app; [now left|now right].
  - intros x Hx Hi. destruct (Hdis x Hx) as [A B]. apply in_app_or in Hi as [?|?]; tauto.
Qed.
End Params.
