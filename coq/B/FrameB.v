(* Layer B frame theorems (C14 independence, C19): with several caches in ONE heap, the list surgery of an
   operation on a cache writes only nodes of that cache (and the bucket being inserted); every node outside is
   bit-for-bit unchanged, so any other cache whose nodes are disjoint keeps its representation invariant and
   its abstract content. This is what a clone that kept a pointer into its source would violate. *)
Require Export LruV.B.OpsProps.

Lemma set_next_other h a x h' b : set_next h a x = Some h' -> b <> a -> h' b = h b.
Proof. unfold set_next. destruct (h a); [|discriminate]. intros [= <-] Hne. now apply upd_other. Qed.
Lemma set_prev_other h a x h' b : set_prev h a x = Some h' -> b <> a -> h' b = h b.
Proof. unfold set_prev. destruct (h a); [|discriminate]. intros [= <-] Hne. now apply upd_other. Qed.

(* a member's neighbours are members (or the seal) *)
Lemma neighbours_in h seal l a n : RI h seal l -> In a l -> h a = Some n -> In (nprev n) (seal :: l) /\ In (nnext n) (seal :: l).
Proof.
  intros (Hnd & Hc & _) Hin Ha.
  destruct (decompose_rm seal l a Hnd Hin) as (l1 & l2 & pre & p & x & post & El & _ & _ & Ec & _).
  rewrite Ec in Hc. apply chain_app in Hc as [_ Hc]. apply chain_cons2 in Hc as (_ & Hap & Hc). apply chain_cons2 in Hc as (Hax & _ & _).
  unfold prevof, nextof in Hap, Hax. rewrite Ha in Hap, Hax. injection Hap as Hp. injection Hax as Hx.
  assert (Hmem : forall y, In y (pre ++ p :: a :: x :: post) -> In y (seal :: l)).
  { intros y Hy. rewrite <- Ec in Hy. change (seal :: l ++ [seal]) with ((seal :: l) ++ [seal]) in Hy. apply in_app_or in Hy as [?|[<-|[]]]; [assumption|now left]. }
  split; [rewrite Hp|rewrite Hx]; apply Hmem; apply in_or_app; right; [now left|right; right; now left].
Qed.

Lemma unhinge_frame h seal l a h' : RI h seal l -> In a l -> unhinge h a = Some h' -> forall b, ~ In b (seal :: l) -> h' b = h b.
Proof.
  intros HRI Hin Hu b Hb. unfold unhinge in Hu. destruct (h a) as [n|] eqn:Ha; [|discriminate]. cbn [bind] in Hu.
  destruct (neighbours_in h seal l a n HRI Hin Ha) as [Hp Hx].
  destruct (set_next h (nprev n) (nnext n)) as [h1|] eqn:E1; [|discriminate]. cbn [bind] in Hu.
  rewrite (set_prev_other _ _ _ _ b Hu) by (intros ->; tauto). apply (set_next_other _ _ _ _ b E1). intros ->. tauto.
Qed.

Lemma set_head_frame h seal l a h' : RI h seal l -> set_head h seal a = Some h' -> forall b, ~ In b (seal :: l) -> b <> a -> h' b = h b.
Proof.
  intros (Hnd & Hc & _) Hs b Hb Hba. unfold set_head in Hs. destruct (nextof h seal) as [x|] eqn:Hnx; [|discriminate]. cbn [bind] in Hs.
  assert (Hx : In x (seal :: l)).
  { destruct (l ++ [seal]) as [|y post] eqn:El; [destruct l; discriminate|]. cbn [chain] in Hc. destruct Hc as (Hn & _). rewrite Hnx in Hn. injection Hn as ->.
    assert (Hy : In y (l ++ [seal])) by (rewrite El; now left). apply in_app_or in Hy as [?|[<-|[]]]; [now right|now left]. }
  unfold link_between in Hs. destruct (h a); [|discriminate]. cbn [bind] in Hs.
  destruct (set_next h seal a) as [h1|] eqn:E1; [|discriminate]. cbn [bind] in Hs.
  destruct (set_prev h1 x a) as [h2|] eqn:E2; [|discriminate]. cbn [bind] in Hs.
  destruct (set_next h2 a x) as [h3|] eqn:E3; [|discriminate]. cbn [bind] in Hs.
  rewrite (set_prev_other _ _ _ _ b Hs Hba), (set_next_other _ _ _ _ b E3 Hba).
  rewrite (set_prev_other _ _ _ _ b E2) by (intros ->; tauto). apply (set_next_other _ _ _ _ b E1). intros ->. apply Hb. now left.
Qed.

(* the footprint of the composed operations *)
Theorem b_touch_frame g a g' : RI (gh g) (gseal g) (glist g) -> In a (glist g) -> b_touch g a = Some g' ->
  forall b, ~ In b (gseal g :: glist g) -> gh g' b = gh g b.
Proof.
  intros HRI Hin Hb b Hnb. unfold b_touch, touch_ptr in Hb. destruct (unhinge (gh g) a) as [h1|] eqn:Hu; [|discriminate]. cbn [bind] in Hb.
  destruct (set_head h1 (gseal g) a) as [h2|] eqn:Hs; [|discriminate]. injection Hb as <-. cbn [gh].
  destruct (unhinge_RI _ _ _ a HRI Hin) as (h1' & l1 & l2 & El & Hu' & HRI1 & _). rewrite Hu in Hu'. injection Hu' as <-.
  rewrite (set_head_frame h1 (gseal g) (l1 ++ l2) a h2 HRI1 Hs b).
  - apply (unhinge_frame _ _ _ a h1 HRI Hin Hu b Hnb).
  - intros [E|Hi]; apply Hnb; [now left|right]. rewrite El. apply in_app_or in Hi as [?|?]; apply in_or_app; [now left|right; now right].
  - intros ->. apply Hnb. now right.
Qed.

Theorem b_remove_frame g a g' : RI (gh g) (gseal g) (glist g) -> In a (glist g) -> b_remove g a = Some g' ->
  forall b, ~ In b (gseal g :: glist g) -> gh g' b = gh g b.
Proof.
  intros HRI Hin Hb b Hnb. unfold b_remove in Hb. destruct (unhinge (gh g) a) as [h1|] eqn:Hu; [|discriminate]. injection Hb as <-. cbn [gh].
  rewrite free_other by (intros ->; apply Hnb; now right). apply (unhinge_frame _ _ _ a h1 HRI Hin Hu b Hnb).
Qed.

Theorem b_insert_new_frame g a sz p g' : RI (gh g) (gseal g) (glist g) -> ~ In a (gseal g :: glist g) -> b_insert_new g a sz p = Some g' ->
  forall b, ~ In b (gseal g :: glist g) -> b <> a -> gh g' b = gh g b.
Proof.
  intros HRI Hfresh Hb b Hnb Hba. unfold b_insert_new in Hb. destruct (nextof (gh g) (gseal g)) as [x|]; [|discriminate]. cbn [bind] in Hb.
  set (h0 := upd (gh g) a {| nprev := gseal g; nnext := x; nsize := sz; npay := p |}) in *.
  destruct (set_head h0 (gseal g) a) as [h2|] eqn:Hs; [|discriminate]. injection Hb as <-. cbn [gh].
  assert (HRI0 : RI h0 (gseal g) (glist g)) by (apply (RI_frame (gh g)); [|exact HRI]; intros c Hc; apply upd_other; intros ->; tauto).
  rewrite (set_head_frame h0 _ _ a h2 HRI0 Hs b Hnb Hba). now apply upd_other.
Qed.

(* independence: a cache whose nodes are disjoint from the one operated on keeps its invariant and its content *)
Definition untouched_outside (h h' : heap) (own : list addr) : Prop := forall b, ~ In b own -> h' b = h b.

Theorem other_cache_preserved h h' own seal2 l2 : untouched_outside h h' own ->
  (forall b, In b (seal2 :: l2) -> ~ In b own) -> RI h seal2 l2 -> RI h' seal2 l2 /\ absl h' l2 = absl h l2.
Proof.
  intros Hun Hdis HRI. split.
  - apply (RI_frame h); [|exact HRI]. intros b Hb. apply Hun. now apply Hdis.
  - unfold absl. apply entries_of_same_on. intros b Hb. apply in_rev in Hb. unfold payof, sizeof_node. rewrite Hun; [auto|]. apply Hdis. now right.
Qed.
